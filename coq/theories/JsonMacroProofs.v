(* Proofs about the json! macro model (JsonMacro.v). *)
From Coq Require Import Lia.
From Hv Require Import Prelude TablesJson Json JsonSpec JsonProofs JsonMacro.
Open Scope N_scope.

Scheme Lit_min := Minimality for Lit Sort Prop
  with LitElems_min := Minimality for LitElems Sort Prop
  with LitMembers_min := Minimality for LitMembers Sort Prop.
Combined Scheme Lit_mutind from Lit_min, LitElems_min, LitMembers_min.

Section TtInd.
  Variable F : Type.
  Variable P : tt F -> Prop.
  Hypothesis Hnull : P TNull.
  Hypothesis Hcomma : P TComma.
  Hypothesis Hcolon : P TColon.
  Hypothesis Hexpr : forall v k, P (TExpr v k).
  Hypothesis Hbracket : forall l, Forall P l -> P (TBracket l).
  Hypothesis Hbrace : forall l, Forall P l -> P (TBrace l).

  Fixpoint tt_ind' (t : tt F) : P t :=
    match t with
    | TNull => Hnull
    | TComma => Hcomma
    | TColon => Hcolon
    | TExpr v k => Hexpr v k
    | TBracket l => Hbracket l ((fix go (l : list (tt F)) : Forall P l :=
                                   match l with [] => Forall_nil _ | x :: r => Forall_cons x (tt_ind' x) (go r) end) l)
    | TBrace l => Hbrace l ((fix go (l : list (tt F)) : Forall P l :=
                               match l with [] => Forall_nil _ | x :: r => Forall_cons x (tt_ind' x) (go r) end) l)
    end.
End TtInd.

Section MacroProofs.
  Variable F : Type.
  Notation tt := (tt F).
  Notation value := (value F).

  Lemma tsize_bracket (l : list tt) : tsize F (TBracket l) = S (S (lsize F l)).
  Proof. reflexivity. Qed.
  Lemma tsize_brace (l : list tt) : tsize F (TBrace l) = S (S (lsize F l)).
  Proof. reflexivity. Qed.
  Lemma tsize_pos (t : tt) : (1 <= tsize F t)%nat.
  Proof. destruct t; cbn [tsize]; lia. Qed.
  Lemma lsize_cons (t : tt) (r : list tt) : lsize F (t :: r) = (tsize F t + lsize F r)%nat.
  Proof. reflexivity. Qed.

  (* one-step unfoldings, so that proofs never unfold the mutual fixpoint blindly *)
  Lemma json_m_S old f ts : json_m F old (S f) ts =
      match ts with
      | [] => Ok VNull
      | [TNull] => Ok VNull
      | [TBracket elems] => match array_m F old f [] elems with Ok l => Ok (VArr l) | Err e => Err e | Crash w => Crash w end
      | [TBrace []] => Ok (VObj [])
      | [TBrace elems] => match object_m F old f [] elems with Ok m => Ok (VObj m) | Err e => Err e | Crash w => Crash w end
      | [TExpr v _] => Ok v
      | _ => Err E_NOARM
      end.
  Proof. reflexivity. Qed.

  Lemma array_m_nil old f acc : array_m F old (S f) acc [] = Ok acc.
  Proof. reflexivity. Qed.
  Lemma array_m_null old f acc r :
    array_m F old (S f) acc (TNull :: r) = array_m F old f (acc ++ [VNull]) (if old then [] else r).
  Proof. reflexivity. Qed.
  Lemma array_m_bracket old f acc a r :
    array_m F old (S f) acc (TBracket a :: r) =
    match json_m F old f [TBracket a] with Ok x => array_m F old f (acc ++ [x]) r | Err e => Err e | Crash w => Crash w end.
  Proof. reflexivity. Qed.
  Lemma array_m_brace old f acc o r :
    array_m F old (S f) acc (TBrace o :: r) =
    match json_m F old f [TBrace o] with Ok x => array_m F old f (acc ++ [x]) r | Err e => Err e | Crash w => Crash w end.
  Proof. reflexivity. Qed.
  Lemma array_m_expr_comma old f acc v k r :
    array_m F old (S f) acc (TExpr v k :: TComma :: r) =
    match json_m F old f [TExpr v k] with Ok x => array_m F old f (acc ++ [x]) r | Err e => Err e | Crash w => Crash w end.
  Proof. reflexivity. Qed.
  Lemma array_m_expr_last old f acc v k :
    array_m F old (S f) acc [TExpr v k] =
    match json_m F old f [TExpr v k] with Ok x => array_m F old f (acc ++ [x]) [] | Err e => Err e | Crash w => Crash w end.
  Proof. reflexivity. Qed.
  Lemma array_m_comma old f acc r : array_m F old (S f) acc (TComma :: r) = array_m F old f acc r.
  Proof. reflexivity. Qed.

  Lemma object_m_nil old f acc : object_m F old (S f) acc [] = Ok acc.
  Proof. reflexivity. Qed.
  Lemma object_m_null old f acc kv k r :
    object_m F old (S f) acc (TExpr kv (Some k) :: TColon :: TNull :: r) = object_m F old f (acc ++ [(k, VNull)]) r.
  Proof. reflexivity. Qed.
  Lemma object_m_bracket old f acc kv k a r :
    object_m F old (S f) acc (TExpr kv (Some k) :: TColon :: TBracket a :: r) =
    match json_m F old f [TBracket a] with Ok x => object_m F old f (acc ++ [(k, x)]) r | Err e => Err e | Crash w => Crash w end.
  Proof. reflexivity. Qed.
  Lemma object_m_brace old f acc kv k o r :
    object_m F old (S f) acc (TExpr kv (Some k) :: TColon :: TBrace o :: r) =
    match json_m F old f [TBrace o] with Ok x => object_m F old f (acc ++ [(k, x)]) r | Err e => Err e | Crash w => Crash w end.
  Proof. reflexivity. Qed.
  Lemma object_m_expr_comma old f acc kv k v kk r :
    object_m F old (S f) acc (TExpr kv (Some k) :: TColon :: TExpr v kk :: TComma :: r) =
    match json_m F old f [TExpr v kk] with Ok x => object_m F old f (acc ++ [(k, x)]) r | Err e => Err e | Crash w => Crash w end.
  Proof. reflexivity. Qed.
  Lemma object_m_expr_last old f acc kv k v kk :
    object_m F old (S f) acc [TExpr kv (Some k); TColon; TExpr v kk] =
    match json_m F old f [TExpr v kk] with Ok x => object_m F old f (acc ++ [(k, x)]) [] | Err e => Err e | Crash w => Crash w end.
  Proof. reflexivity. Qed.
  Lemma object_m_comma old f acc r :
    match r with TColon :: _ => False | _ => True end ->
    object_m F old (S f) acc (TComma :: r) = object_m F old f acc r.
  Proof. destruct r as [|[] r']; intro H; try reflexivity. destruct H. Qed.
  Lemma members_head (l : list tt) ms : LitMembers F l ms -> match l with TColon :: _ => False | _ => True end.
  Proof. destruct 1; exact I. Qed.

  (* ------------------------------------------------------------------------------------------------ *)
  (* soundness on the literal grammar (the repaired macro) *)

  Lemma sound_all :
    (forall t v, Lit F t v -> forall fuel, (tsize F t <= fuel)%nat -> json_m F false fuel [t] = Ok v) /\
    (forall l vs, LitElems F l vs -> forall fuel acc, (lsize F l < fuel)%nat -> array_m F false fuel acc l = Ok (acc ++ vs)) /\
    (forall l ms, LitMembers F l ms -> forall fuel acc, (lsize F l < fuel)%nat -> object_m F false fuel acc l = Ok (acc ++ ms)).
  Proof.
    apply Lit_mutind.
    - (* null *) intros [|f] Hf; [cbn in Hf; lia|]. reflexivity.
    - (* expr *) intros v k [|f] Hf; [cbn in Hf; lia|]. reflexivity.
    - (* array *)
      intros l vs _ IH [|f] Hf; [rewrite tsize_bracket in Hf; lia|].
      rewrite tsize_bracket in Hf. rewrite json_m_S. rewrite (IH f []) by lia. reflexivity.
    - (* object *)
      intros l ms _ IH [|f] Hf; [rewrite tsize_brace in Hf; lia|].
      rewrite tsize_brace in Hf. rewrite json_m_S.
      destruct l as [|x l'].
      + specialize (IH 1%nat [] ltac:(cbn; lia)). rewrite object_m_nil in IH. inversion IH; subst. reflexivity.
      + rewrite (IH f []) by lia. reflexivity.
    - (* elems: empty *) intros [|f] acc Hf; [lia|]. rewrite array_m_nil, app_nil_r. reflexivity.
    - (* elems: one *)
      intros t v _ IH [|f] acc Hf; [lia|]. rewrite lsize_cons in Hf. cbn [lsize] in Hf.
      pose proof (tsize_pos t) as Hp. destruct t as [| | |v0 k|a|o].
      + specialize (IH 1%nat ltac:(cbn; lia)). inversion IH; subst.
        rewrite array_m_null. destruct f as [|f]; [cbn in Hf; lia|]. reflexivity.
      + specialize (IH 1%nat ltac:(cbn; lia)). discriminate IH.
      + specialize (IH 1%nat ltac:(cbn; lia)). discriminate IH.
      + pose proof (IH 1%nat ltac:(cbn; lia)) as E. inversion E; subst.
        rewrite array_m_expr_last. destruct f as [|f]; [cbn in Hf; lia|]. rewrite json_m_S, array_m_nil. reflexivity.
      + rewrite array_m_bracket. rewrite (IH f) by lia.
        destruct f as [|f]; [pose proof (tsize_pos (TBracket a)); lia|]. rewrite array_m_nil. reflexivity.
      + rewrite array_m_brace. rewrite (IH f) by lia.
        destruct f as [|f]; [pose proof (tsize_pos (TBrace o)); lia|]. rewrite array_m_nil. reflexivity.
    - (* elems: value , rest *)
      intros t v r vs _ IHt _ IHr [|f] acc Hf; [lia|]. rewrite !lsize_cons in Hf. cbn [tsize] in Hf.
      pose proof (tsize_pos t) as Hp. destruct t as [| | |v0 k|a|o].
      + specialize (IHt 1%nat ltac:(cbn; lia)). inversion IHt; subst.
        rewrite array_m_null. destruct f as [|f]; [cbn in Hf; lia|]. rewrite array_m_comma.
        rewrite IHr by (cbn [tsize] in Hf; lia). rewrite <- app_assoc. reflexivity.
      + specialize (IHt 1%nat ltac:(cbn; lia)). discriminate IHt.
      + specialize (IHt 1%nat ltac:(cbn; lia)). discriminate IHt.
      + pose proof (IHt 1%nat ltac:(cbn; lia)) as E. inversion E; subst.
        rewrite array_m_expr_comma. destruct f as [|f]; [cbn [tsize] in Hf; lia|]. rewrite json_m_S.
        rewrite IHr by (cbn [tsize] in Hf; lia). rewrite <- app_assoc. reflexivity.
      + rewrite array_m_bracket. rewrite (IHt f) by lia.
        destruct f as [|f]; [pose proof (tsize_pos (TBracket a)); lia|]. rewrite array_m_comma.
        rewrite IHr by lia. rewrite <- app_assoc. reflexivity.
      + rewrite array_m_brace. rewrite (IHt f) by lia.
        destruct f as [|f]; [pose proof (tsize_pos (TBrace o)); lia|]. rewrite array_m_comma.
        rewrite IHr by lia. rewrite <- app_assoc. reflexivity.
    - (* members: empty *) intros [|f] acc Hf; [lia|]. rewrite object_m_nil, app_nil_r. reflexivity.
    - (* members: one *)
      intros kv k t v _ IH [|f] acc Hf; [lia|]. rewrite !lsize_cons in Hf. cbn [lsize] in Hf.
      pose proof (tsize_pos t) as Hp. destruct t as [| | |v0 k0|a|o].
      + specialize (IH 1%nat ltac:(cbn; lia)). inversion IH; subst.
        rewrite object_m_null. destruct f as [|f]; [cbn [tsize] in Hf; lia|]. rewrite object_m_nil. reflexivity.
      + specialize (IH 1%nat ltac:(cbn; lia)). discriminate IH.
      + specialize (IH 1%nat ltac:(cbn; lia)). discriminate IH.
      + pose proof (IH 1%nat ltac:(cbn; lia)) as E. inversion E; subst.
        rewrite object_m_expr_last. destruct f as [|f]; [cbn [tsize] in Hf; lia|]. rewrite json_m_S.
        rewrite object_m_nil. reflexivity.
      + rewrite object_m_bracket. rewrite (IH f) by (cbn [tsize] in Hf |- *; lia).
        destruct f as [|f]; [cbn [tsize] in Hf; lia|]. rewrite object_m_nil. reflexivity.
      + rewrite object_m_brace. rewrite (IH f) by (cbn [tsize] in Hf |- *; lia).
        destruct f as [|f]; [cbn [tsize] in Hf; lia|]. rewrite object_m_nil. reflexivity.
    - (* members: key : value , rest *)
      intros kv k t v r ms _ IHt Hmem IHr [|f] acc Hf; [lia|]. rewrite !lsize_cons in Hf.
      pose proof (tsize_pos t) as Hp. destruct t as [| | |v0 k0|a|o].
      + specialize (IHt 1%nat ltac:(cbn; lia)). inversion IHt; subst.
        rewrite object_m_null. destruct f as [|f]; [cbn [tsize] in Hf; lia|]. rewrite object_m_comma by (eapply members_head; eassumption).
        rewrite IHr by (cbn [tsize] in Hf; lia). rewrite <- app_assoc. reflexivity.
      + specialize (IHt 1%nat ltac:(cbn; lia)). discriminate IHt.
      + specialize (IHt 1%nat ltac:(cbn; lia)). discriminate IHt.
      + pose proof (IHt 1%nat ltac:(cbn; lia)) as E. inversion E; subst.
        rewrite object_m_expr_comma. destruct f as [|f]; [cbn [tsize] in Hf; lia|]. rewrite json_m_S.
        rewrite IHr by (cbn [tsize] in Hf; lia). rewrite <- app_assoc. reflexivity.
      + rewrite object_m_bracket. rewrite (IHt f) by (cbn [tsize] in Hf |- *; lia).
        destruct f as [|f]; [cbn [tsize] in Hf; lia|]. rewrite object_m_comma by (eapply members_head; eassumption).
        rewrite IHr by (cbn [tsize] in Hf; lia). rewrite <- app_assoc. reflexivity.
      + rewrite object_m_brace. rewrite (IHt f) by (cbn [tsize] in Hf |- *; lia).
        destruct f as [|f]; [cbn [tsize] in Hf; lia|]. rewrite object_m_comma by (eapply members_head; eassumption).
        rewrite IHr by (cbn [tsize] in Hf; lia). rewrite <- app_assoc. reflexivity.
  Qed.

  Theorem macro_sound (t : tt) (v : value) : Lit F t v -> json_macro F false [t] = Ok v.
  Proof.
    intro H. unfold json_macro, json_fuel. apply (proj1 sound_all t v H). cbn [lsize]. lia.
  Qed.

  (* json!() is Null *)
  Lemma macro_empty : json_macro F false [] = Ok VNull.
  Proof. reflexivity. Qed.

  (* ------------------------------------------------------------------------------------------------ *)
  (* the fuel given by json_macro is never exhausted: the model always answers with a value or a compile error,
     for every token sequence, for the repaired and for the old macro *)

  Lemma object_m_S old f acc rest : object_m F old (S f) acc rest =
      match rest with
      | [] => Ok acc
      | key :: TColon :: vrest =>
        if single_tt F key then
          match vrest with
          | TNull :: r =>
            match key_string F key with
            | Some k => object_m F old f (acc ++ [(k, VNull)]) r
            | None => Err E_KEY
            end
          | TBracket a :: r =>
            match json_m F old f [TBracket a] with
            | Ok x => match key_string F key with
                      | Some k => object_m F old f (acc ++ [(k, x)]) r
                      | None => Err E_KEY
                      end
            | Err e => Err e
            | Crash w => Crash w
            end
          | TBrace o :: r =>
            match json_m F old f [TBrace o] with
            | Ok x => match key_string F key with
                      | Some k => object_m F old f (acc ++ [(k, x)]) r
                      | None => Err E_KEY
                      end
            | Err e => Err e
            | Crash w => Crash w
            end
          | TExpr v kk :: TComma :: r =>
            match json_m F old f [TExpr v kk] with
            | Ok x => match key_string F key with
                      | Some k => object_m F old f (acc ++ [(k, x)]) r
                      | None => Err E_KEY
                      end
            | Err e => Err e
            | Crash w => Crash w
            end
          | [TExpr v kk] =>
            match json_m F old f [TExpr v kk] with
            | Ok x => match key_string F key with
                      | Some k => object_m F old f (acc ++ [(k, x)]) []
                      | None => Err E_KEY
                      end
            | Err e => Err e
            | Crash w => Crash w
            end
          | _ =>
            match key with
            | TComma => object_m F old f acc (TColon :: vrest)
            | _ => Err E_NOARM
            end
          end
        else Err E_NOARM
      | TComma :: r => object_m F old f acc r
      | _ => Err E_NOARM
      end.
  Proof. reflexivity. Qed.

  Lemma array_m_S old f acc rest : array_m F old (S f) acc rest =
      match rest with
      | [] => Ok acc
      | TNull :: r => array_m F old f (acc ++ [VNull]) (if old then [] else r)
      | TBracket a :: r =>
        match json_m F old f [TBracket a] with
        | Ok x => array_m F old f (acc ++ [x]) r
        | Err e => Err e
        | Crash w => Crash w
        end
      | TBrace o :: r =>
        match json_m F old f [TBrace o] with
        | Ok x => array_m F old f (acc ++ [x]) r
        | Err e => Err e
        | Crash w => Crash w
        end
      | TExpr v k :: TComma :: r =>
        match json_m F old f [TExpr v k] with
        | Ok x => array_m F old f (acc ++ [x]) r
        | Err e => Err e
        | Crash w => Crash w
        end
      | [TExpr v k] =>
        match json_m F old f [TExpr v k] with
        | Ok x => array_m F old f (acc ++ [x]) []
        | Err e => Err e
        | Crash w => Crash w
        end
      | TComma :: r => array_m F old f acc r
      | _ => Err E_NOARM
      end.
  Proof. reflexivity. Qed.

  Ltac nofuel := unfold E_NOARM, E_KEY, E_FUEL; discriminate.

  Lemma total_all (old : bool) : forall f : nat,
    (forall ts, (lsize F ts <= f)%nat -> (1 <= f)%nat -> json_m F old f ts <> Err E_FUEL) /\
    (forall acc rest, (lsize F rest < f)%nat -> array_m F old f acc rest <> Err E_FUEL) /\
    (forall acc rest, (lsize F rest < f)%nat -> object_m F old f acc rest <> Err E_FUEL).
  Proof.
    induction f as [|f [IHj [IHa IHo]]]; [split; [intros; lia|split; intros; lia]|].
    (* a nested json! call on one group, then a continuation *)
    assert (Hsub : forall {A} (g : tt) (k : value -> outcome A),
               (tsize F g <= f)%nat -> (1 <= f)%nat -> (forall x, k x <> Err E_FUEL) ->
               match json_m F old f [g] with Ok x => k x | Err e => Err e | Crash w => Crash w end <> Err E_FUEL).
    { intros A g k Hg Hf Hk. pose proof (IHj [g] ltac:(cbn [lsize]; lia) Hf) as Hj.
      destruct (json_m F old f [g]) as [x|e|w]; [apply Hk|intro E; apply Hj; inversion E; reflexivity|discriminate]. }
    split; [|split].
    - (* json! *)
      intros ts Hs _. rewrite json_m_S.
      destruct ts as [|t [|t2 r]]; [discriminate| |destruct t; try nofuel; destruct l; nofuel].
      destruct t as [| | |v k|a|o]; try nofuel; try discriminate.
      + rewrite lsize_cons, tsize_bracket in Hs. cbn [lsize] in Hs.
        pose proof (IHa [] a ltac:(lia)) as H. destruct (array_m F old f [] a); [discriminate|intro E; apply H; inversion E; reflexivity|discriminate].
      + rewrite lsize_cons, tsize_brace in Hs. cbn [lsize] in Hs.
        destruct o as [|x o']; [discriminate|].
        pose proof (IHo [] (x :: o') ltac:(lia)) as H.
        destruct (object_m F old f [] (x :: o')); [discriminate|intro E; apply H; inversion E; reflexivity|discriminate].
    - (* json_array_internal! *)
      intros acc rest Hs. rewrite array_m_S.
      destruct rest as [|t r]; [discriminate|]. rewrite lsize_cons in Hs. pose proof (tsize_pos t) as Hp.
      destruct t as [| | |v k|a|o].
      + apply IHa. cbn [tsize] in Hs. destruct old; [cbn [lsize]; lia|lia].
      + apply IHa. cbn [tsize] in Hs. lia.
      + nofuel.
      + cbn [tsize] in Hs. destruct r as [|t2 r2].
        * apply Hsub; [cbn [tsize]; cbn [lsize] in Hs; lia|cbn [lsize] in Hs; lia|]. intro x. apply IHa. cbn [lsize] in *. lia.
        * rewrite lsize_cons in Hs. pose proof (tsize_pos t2) as Hp2.
          destruct t2; try nofuel.
          apply Hsub; [cbn [tsize]; lia|lia|]. intro x. apply IHa. cbn [tsize] in Hs. lia.
      + apply Hsub; [lia|lia|]. intro x. apply IHa. lia.
      + apply Hsub; [lia|lia|]. intro x. apply IHa. lia.
    - (* json_object_internal! *)
      intros acc rest Hs. rewrite object_m_S.
      destruct rest as [|key r]; [discriminate|]. rewrite lsize_cons in Hs. pose proof (tsize_pos key) as Hp.
      destruct r as [|c vrest].
      { destruct key; try nofuel. apply IHo. cbn [lsize tsize] in *. lia. }
      rewrite lsize_cons in Hs. pose proof (tsize_pos c) as Hpc.
      destruct key as [| | |kv [k|]|ka|ko]; destruct c as [| | |cv ck|ca|co];
        cbn [single_tt key_string]; cbv iota;
        try nofuel; try (apply IHo; rewrite ?lsize_cons; cbn [tsize] in *; lia).
      (* what remains: key `:` vrest with a single-token key *)
      all: destruct vrest as [|t r]; [try nofuel; try (apply IHo; cbn [lsize tsize] in *; lia)|].
      all: rewrite lsize_cons in Hs; pose proof (tsize_pos t) as Hpt; destruct t as [| | |v kk|a|o]; cbv iota.
      all: try nofuel; try (apply IHo; rewrite ?lsize_cons; cbn [tsize lsize] in *; lia).
      all: try (apply Hsub; [cbn [tsize] in *; lia|lia|intro x; first [nofuel|apply IHo; cbn [tsize] in *; lia]]).
      all: destruct r as [|t2 r2]; cbv iota.
      all: try (apply Hsub; [cbn [tsize] in *; lia|cbn [tsize lsize] in *; lia|intro x; first [nofuel|apply IHo; cbn [tsize lsize] in *; lia]]).
      all: rewrite lsize_cons in Hs; pose proof (tsize_pos t2) as Hp2; destruct t2; cbv iota.
      all: try nofuel; try (apply IHo; rewrite ?lsize_cons; cbn [tsize lsize] in *; lia).
      all: try (apply Hsub; [cbn [tsize] in *; lia|cbn [tsize lsize] in *; lia|intro x; first [nofuel|apply IHo; cbn [tsize lsize] in *; lia]]).
  Qed.

  Theorem json_macro_total (old : bool) (ts : list tt) : json_macro F old ts <> Err E_FUEL.
  Proof.
    unfold json_macro, json_fuel. apply (proj1 (total_all old (S (lsize F ts)))); lia.
  Qed.

  (* ------------------------------------------------------------------------------------------------ *)
  (* the functional form of the grammar agrees with the relation *)

  Definition denote_elems : list tt -> option (list value) :=
    fix elems (l : list tt) : option (list value) :=
      match l with
      | [] => Some []
      | x :: r =>
        match denote F x with
        | Some v =>
          match r with
          | [] => Some [v]
          | TComma :: r' => match elems r' with Some vs => Some (v :: vs) | None => None end
          | _ => None
          end
        | None => None
        end
      end.

  Definition denote_members : list tt -> option (list (str * value)) :=
    fix members (l : list tt) : option (list (str * value)) :=
      match l with
      | [] => Some []
      | TExpr _ (Some k) :: TColon :: x :: r =>
        match denote F x with
        | Some v =>
          match r with
          | [] => Some [(k, v)]
          | TComma :: r' => match members r' with Some ms => Some ((k, v) :: ms) | None => None end
          | _ => None
          end
        | None => None
        end
      | _ => None
      end.

  Lemma denote_bracket (l : list tt) :
    denote F (TBracket l) = match denote_elems l with Some vs => Some (VArr vs) | None => None end.
  Proof. reflexivity. Qed.
  Lemma denote_brace (l : list tt) :
    denote F (TBrace l) = match denote_members l with Some ms => Some (VObj ms) | None => None end.
  Proof. reflexivity. Qed.

  Lemma denote_complete_all :
    (forall t v, Lit F t v -> denote F t = Some v) /\
    (forall l vs, LitElems F l vs -> denote_elems l = Some vs) /\
    (forall l ms, LitMembers F l ms -> denote_members l = Some ms).
  Proof.
    apply Lit_mutind.
    - reflexivity.
    - reflexivity.
    - intros l vs _ IH. rewrite denote_bracket, IH. reflexivity.
    - intros l ms _ IH. rewrite denote_brace, IH. reflexivity.
    - reflexivity.
    - intros t v _ IH. cbn [denote_elems]. rewrite IH. reflexivity.
    - intros t v r vs _ IHt _ IHr. cbn [denote_elems]. rewrite IHt. fold denote_elems. rewrite IHr. reflexivity.
    - reflexivity.
    - intros kv k t v _ IH. cbn [denote_members]. rewrite IH. reflexivity.
    - intros kv k t v r ms _ IHt _ IHr. cbn [denote_members]. rewrite IHt. fold denote_members. rewrite IHr. reflexivity.
  Qed.

  Lemma denote_elems_sound (l : list tt) :
    Forall (fun t => forall v, denote F t = Some v -> Lit F t v) l ->
    forall vs, denote_elems l = Some vs -> LitElems F l vs.
  Proof.
    intro HF.
    assert (Hlen : forall n (l : list tt), (length l <= n)%nat ->
              Forall (fun t => forall v, denote F t = Some v -> Lit F t v) l ->
              forall vs, denote_elems l = Some vs -> LitElems F l vs).
    { induction n as [|n IHn]; intros l0 Hl HF0 vs E.
      - destruct l0; [|cbn in Hl; lia]. cbn in E. inversion E. constructor.
      - destruct l0 as [|x r]; [cbn in E; inversion E; constructor|].
        inversion HF0 as [|? ? Hx Hr]; subst.
        cbn [denote_elems] in E. destruct (denote F x) as [v|] eqn:Ex; [|discriminate].
        destruct r as [|c r'].
        + inversion E; subst. apply le_one. apply Hx. reflexivity.
        + destruct c; try discriminate. fold denote_elems in E.
          destruct (denote_elems r') as [vs'|] eqn:Er; [|discriminate]. inversion E; subst.
          apply le_cons; [apply Hx; reflexivity|].
          inversion Hr; subst. apply IHn; [cbn in Hl; lia|assumption|exact Er]. }
    intros vs. apply (Hlen (length l) l (le_n _) HF).
  Qed.

  Lemma denote_members_sound (l : list tt) :
    Forall (fun t => forall v, denote F t = Some v -> Lit F t v) l ->
    forall ms, denote_members l = Some ms -> LitMembers F l ms.
  Proof.
    intro HF.
    assert (Hlen : forall n (l : list tt), (length l <= n)%nat ->
              Forall (fun t => forall v, denote F t = Some v -> Lit F t v) l ->
              forall ms, denote_members l = Some ms -> LitMembers F l ms).
    { induction n as [|n IHn]; intros l0 Hl HF0 ms E.
      - destruct l0; [|cbn in Hl; lia]. cbn in E. inversion E. constructor.
      - destruct l0 as [|kt r0]; [cbn in E; inversion E; constructor|].
        cbn [denote_members] in E.
        destruct kt as [| | |kv [k|]|?|?]; try discriminate.
        destruct r0 as [|c r1]; [discriminate|]. destruct c; try discriminate.
        destruct r1 as [|x r]; [discriminate|].
        inversion HF0 as [|? ? _ H1]; subst. inversion H1 as [|? ? _ H2]; subst. inversion H2 as [|? ? Hx Hr]; subst.
        destruct (denote F x) as [v|] eqn:Ex; [|discriminate].
        destruct r as [|c r'].
        + inversion E; subst. apply lm_one. apply Hx. reflexivity.
        + destruct c; try discriminate. fold denote_members in E.
          destruct (denote_members r') as [ms'|] eqn:Er; [|discriminate]. inversion E; subst.
          apply lm_cons; [apply Hx; reflexivity|].
          inversion Hr; subst. apply IHn; [cbn in Hl; lia|assumption|exact Er]. }
    intros ms. apply (Hlen (length l) l (le_n _) HF).
  Qed.

  Lemma denote_sound (t : tt) : forall v, denote F t = Some v -> Lit F t v.
  Proof.
    induction t as [| | |v0 k|l IH|l IH] using tt_ind'; intros v E.
    - inversion E. constructor.
    - discriminate.
    - discriminate.
    - inversion E. constructor.
    - rewrite denote_bracket in E. destruct (denote_elems l) as [vs|] eqn:El; [|discriminate]. inversion E; subst.
      apply lit_array. apply denote_elems_sound; assumption.
    - rewrite denote_brace in E. destruct (denote_members l) as [ms|] eqn:El; [|discriminate]. inversion E; subst.
      apply lit_object. apply denote_members_sound; assumption.
  Qed.

  Theorem denote_iff (t : tt) (v : value) : denote F t = Some v <-> Lit F t v.
  Proof. split; [apply denote_sound|apply (proj1 denote_complete_all)]. Qed.

  (* the statement of the property in functional form: whenever the token tree is a JSON literal, the macro evaluates to its
     denotation *)
  Theorem macro_denote (t : tt) (v : value) : denote F t = Some v -> json_macro F false [t] = Ok v.
  Proof. intro H. apply macro_sound, denote_sound, H. Qed.

  (* ------------------------------------------------------------------------------------------------ *)
  (* the literals written by the derive macros and by json_map! *)

  Lemma derive_members_lit (ms : list (str * value)) : LitMembers F (flat_map (derive_member F) ms) ms.
  Proof.
    induction ms as [|[k x] r IH]; [constructor|].
    cbn [flat_map derive_member app fst snd]. apply lm_cons; [constructor|exact IH].
  Qed.

  Lemma map_members_lit (ms : list (str * value)) : LitMembers F (map_members F ms) ms.
  Proof.
    induction ms as [|[k x] r IH]; [constructor|].
    destruct r as [|m r'].
    - cbn [map_members fst snd]. apply lm_one. constructor.
    - change (map_members F ((k, x) :: m :: r')) with
        (TExpr (VStr k) (Some k) :: TColon :: TExpr x None :: TComma :: map_members F (m :: r')).
      apply lm_cons; [constructor|exact IH].
  Qed.

  Theorem derive_template (ms : list (str * value)) : json_macro F false [derive_tokens F ms] = Ok (VObj ms).
  Proof. apply macro_sound, lit_object, derive_members_lit. Qed.

  Theorem map_template (ms : list (str * value)) : json_macro F false [map_tokens F ms] = Ok (VObj ms).
  Proof. apply macro_sound, lit_object, map_members_lit. Qed.

  (* ------------------------------------------------------------------------------------------------ *)
  (* F03: the array arm for `null` of the old tree dropped the rest:  json!([null, "a"])  evaluated to  [null] *)
  Definition f03_witness : tt := TBracket [TNull; TComma; TExpr (VStr [0x61]) (Some [0x61])].

  Theorem macro_old_refuted :
    exists (t : tt) (v v' : value), Lit F t v /\ json_macro F true [t] = Ok v' /\ v' <> v.
  Proof.
    exists f03_witness, (VArr [VNull; VStr [0x61]]), (VArr [VNull]).
    split; [|split].
    - apply lit_array. apply le_cons; [constructor|]. apply le_one. constructor.
    - reflexivity.
    - discriminate.
  Qed.
End MacroProofs.

(* ------------------------------------------------------------------------------------------------ *)
(* the equivalent RFC 8259 text of a literal denotes the same value (tie to C13) *)
Section RenderProofs.
  Variable F : Type.
  Variable fparse : str -> option F.
  Variable fdisplay : F -> str.
  Variable ffinite : F -> Prop.
  Hypothesis display_is_number : forall x, ffinite x -> JNumber (fdisplay x).
  Hypothesis parse_display : forall x, ffinite x -> fparse (fdisplay x) = Some x.

  Notation tt := (tt F).
  Notation value := (value F).
  Notation JV := (JValue F fparse false).
  Notation JE := (JElems F fparse false).
  Notation JM := (JMembers F fparse false).
  Notation render := (render F fdisplay).
  Notation ser := (serialisable F ffinite).

  Definition render_elems : list tt -> str :=
    fix elems (l : list tt) : str :=
      match l with
      | [] => []
      | x :: r =>
        render x ++
        match r with
        | TComma :: r' => match r' with [] => [] | _ :: _ => ch_comma :: elems r' end
        | _ => []
        end
      end.

  Definition render_members : list tt -> str :=
    fix members (l : list tt) : str :=
      match l with
      | TExpr _ (Some k) :: TColon :: x :: r =>
        string_to_string k ++ [ch_colon] ++ render x ++
        match r with
        | TComma :: r' => match r' with [] => [] | _ :: _ => ch_comma :: members r' end
        | _ => []
        end
      | _ => []
      end.

  Lemma render_bracket (l : list tt) : render (TBracket l) = ch_lbrack :: render_elems l ++ [ch_rbrack].
  Proof. reflexivity. Qed.
  Lemma render_brace (l : list tt) : render (TBrace l) = ch_lbrace :: render_members l ++ [ch_rbrace].
  Proof. reflexivity. Qed.

  Lemma elems_nil_inv (l : list tt) : LitElems F l [] -> l = [].
  Proof. intro H. inversion H. reflexivity. Qed.
  Lemma elems_nonempty (x : tt) (r : list tt) (vs : list value) : LitElems F (x :: r) vs -> vs <> [].
  Proof. intro H. inversion H; discriminate. Qed.
  Lemma members_nil_inv (l : list tt) : LitMembers F l [] -> l = [].
  Proof. intro H. inversion H. reflexivity. Qed.
  Lemma members_nonempty (x : tt) (r : list tt) (ms : list (str * value)) : LitMembers F (x :: r) ms -> ms <> [].
  Proof. intro H. inversion H; discriminate. Qed.
  Lemma elems_of_nil (vs : list value) : LitElems F [] vs -> vs = [].
  Proof. intro H. inversion H. reflexivity. Qed.
  Lemma members_of_nil (ms : list (str * value)) : LitMembers F [] ms -> ms = [].
  Proof. intro H. inversion H. reflexivity. Qed.

  Lemma member_text (k : str) (t rest : str) :
    string_to_string k ++ [ch_colon] ++ t ++ rest =
    [] ++ 0x22 :: flat_map esc_char k ++ 0x22 :: [] ++ 0x3a :: [] ++ t ++ rest.
  Proof. unfold string_to_string, ch_dq, ch_colon. cbn [app]. rewrite <- !app_assoc. reflexivity. Qed.

  Lemma render_all :
    (forall t v, Lit F t v -> ser v -> JV (render t) v) /\
    (forall l vs, LitElems F l vs -> Forall ser vs -> vs <> [] -> JE (render_elems l) vs) /\
    (forall l ms, LitMembers F l ms -> Forall (fun kv => str_ok (fst kv) /\ ser (snd kv)) ms -> ms <> [] ->
                  JM (render_members l) ms).
  Proof.
    apply Lit_mutind.
    - intros _. constructor.
    - intros v k Hs. apply (serialize_value_valid F fparse fdisplay ffinite display_is_number parse_display). exact Hs.
    - intros l vs Hl IH Hs. rewrite render_bracket. apply (serialisable_arr F ffinite) in Hs.
      destruct vs as [|v0 vs'].
      + apply elems_nil_inv in Hl. subst l. apply (jv_array_empty F fparse false []). constructor.
      + apply jv_array. apply IH; [exact Hs|discriminate].
    - intros l ms Hl IH Hs. rewrite render_brace. apply (serialisable_obj F ffinite) in Hs.
      destruct ms as [|m0 ms'].
      + apply members_nil_inv in Hl. subst l. apply (jv_object_empty F fparse false []). constructor.
      + apply jv_object. apply IH; [exact Hs|discriminate].
    - intros _ H. congruence.
    - intros t v _ IH Hs _. inversion Hs; subst.
      cbn [render_elems]. rewrite app_nil_r.
      replace (render t) with ([] ++ render t ++ []) by (cbn [app]; apply app_nil_r).
      apply je_last; [constructor|apply IH; assumption|constructor].
    - intros t v r vs _ IHt Hr IHr Hs _. inversion Hs as [|? ? Hv Hvs]; subst.
      destruct r as [|x r'].
      + apply elems_of_nil in Hr. subst vs. cbn [render_elems]. rewrite app_nil_r.
        replace (render t) with ([] ++ render t ++ []) by (cbn [app]; apply app_nil_r).
        apply je_last; [constructor|apply IHt; assumption|constructor].
      + change (render_elems (t :: TComma :: x :: r')) with (render t ++ ch_comma :: render_elems (x :: r')).
        replace (render t ++ ch_comma :: render_elems (x :: r'))
          with ([] ++ render t ++ [] ++ 0x2c :: render_elems (x :: r')) by reflexivity.
        apply je_cons; [constructor|apply IHt; assumption|constructor|].
        apply IHr; [exact Hvs|eapply elems_nonempty; exact Hr].
    - intros _ H. congruence.
    - intros kv k t v _ IH Hs _. inversion Hs as [|? ? [Hk Hv] _]; subst. cbn [fst snd] in Hk, Hv.
      cbn [render_members]. rewrite app_nil_r.
      replace (string_to_string k ++ [ch_colon] ++ render t) with (string_to_string k ++ [ch_colon] ++ render t ++ [])
        by (rewrite app_nil_r; reflexivity).
      rewrite member_text.
      apply jm_last; try constructor; [apply string_body_valid; exact Hk|apply IH; exact Hv].
    - intros kv k t v r ms _ IHt Hr IHr Hs _. inversion Hs as [|? ? [Hk Hv] Hms]; subst. cbn [fst snd] in Hk, Hv.
      destruct r as [|x r'].
      + apply members_of_nil in Hr. subst ms. cbn [render_members]. rewrite app_nil_r.
        replace (string_to_string k ++ [ch_colon] ++ render t) with (string_to_string k ++ [ch_colon] ++ render t ++ [])
          by (rewrite app_nil_r; reflexivity).
        rewrite member_text.
        apply jm_last; try constructor; [apply string_body_valid; exact Hk|apply IHt; exact Hv].
      + change (render_members (TExpr kv (Some k) :: TColon :: t :: TComma :: x :: r'))
          with (string_to_string k ++ [ch_colon] ++ render t ++ ch_comma :: render_members (x :: r')).
        rewrite member_text.
        replace (render t ++ ch_comma :: render_members (x :: r'))
          with (render t ++ [] ++ 0x2c :: render_members (x :: r')) by reflexivity.
        apply jm_cons; try constructor; [apply string_body_valid; exact Hk|apply IHt; exact Hv|].
        apply IHr; [exact Hms|eapply members_nonempty; exact Hr].
  Qed.

  (* the equivalent text of a literal is an RFC 8259 JSON text denoting the literal's value *)
  Theorem render_text (t : tt) (v : value) : Lit F t v -> ser v -> JText fparse (render t) v.
  Proof.
    intros Hl Hs.
    apply (JValue_JText F fparse). apply (proj1 render_all); assumption.
  Qed.

  (* ... so Value::parse of that text returns what the macro evaluates to *)
  Theorem macro_equals_parse (t : tt) (v : value) :
    Lit F t v -> ser v -> depth v <= MAX_DEPTH -> parse fparse (render t) = json_macro F false [t].
  Proof.
    intros Hl Hs Hd. rewrite (macro_sound F t v Hl). apply parse_complete; [apply render_text; assumption|exact Hd].
  Qed.
End RenderProofs.
