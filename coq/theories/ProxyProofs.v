From Coq Require Import Lia.
From Hv Require Import Prelude Bytes StreamBuf StreamBufProofs TablesHttp Http HttpStreamProofs StaticFs Conn Proxy
  BytesNumProofs HttpRespSpec HttpRespProofs.
Open Scope N_scope.
Arguments N.eqb : simpl never.
Arguments N.ltb : simpl never.
Arguments N.leb : simpl never.

(* ---- proxy_request always yields a response, and it is the upstream's or a 502 ---- *)
Theorem proxy_result_cases u :
  proxy_result u = bad_gateway \/
  exists b r rest, u = USends b /\ parse_response_flat b = Ok (r, rest) /\ proxy_result u = r.
Proof.
  destruct u as [|b]; [now left|]. cbn [proxy_result].
  destruct (parse_response_flat b) as [[r rest]|e|w] eqn:E; [|now left|now left].
  right. exists b, r, rest. repeat split. cbn [proxy_result]. now rewrite E.
Qed.

Theorem proxy_refused_502 : proxy_result URefused = bad_gateway.
Proof. reflexivity. Qed.

Theorem proxy_error_502 b : (forall r rest, parse_response_flat b <> Ok (r, rest)) -> proxy_result (USends b) = bad_gateway.
Proof.
  intro H. cbn [proxy_result]. destruct (parse_response_flat b) as [[r rest]|e|w] eqn:E; [|reflexivity|reflexivity].
  exfalso. exact (H r rest eq_refl).
Qed.

Theorem proxy_passthrough b r rest : parse_response_flat b = Ok (r, rest) -> proxy_result (USends b) = r.
Proof. intro H. cbn [proxy_result]. now rewrite H. Qed.

(* ---- round robin ---- *)
Lemma rr_select_lt len idx : idx < len -> fst (rr_select len idx) = idx /\ snd (rr_select len idx) = (idx + 1) mod len /\
  snd (rr_select len idx) < len.
Proof.
  intro H. unfold rr_select. cbn [fst snd]. split; [reflexivity|].
  destruct (idx + 1 =? len) eqn:E.
  - apply N.eqb_eq in E. rewrite E, N.mod_same by lia. split; [reflexivity|lia].
  - apply N.eqb_neq in E. rewrite N.mod_small by lia. split; [reflexivity|lia].
Qed.

Theorem rr_run_spec : forall n len idx, idx < len ->
  rr_run n len idx = map (fun k => (idx + N.of_nat k) mod len) (seq 0 n).
Proof.
  induction n as [|n IH]; intros len idx H; [reflexivity|].
  cbn [rr_run]. destruct (rr_select len idx) as [t idx'] eqn:E.
  pose proof (rr_select_lt len idx H) as (H1 & H2 & H3). rewrite E in H1, H2, H3. cbn [fst snd] in *. subst t.
  cbn [seq map]. f_equal.
  - rewrite N.add_0_r, N.mod_small by assumption. reflexivity.
  - rewrite (IH len idx' H3), <- seq_shift, map_map. apply map_ext. intro k. rewrite H2.
    rewrite N.add_mod_idemp_l by lia. f_equal. lia.
Qed.

(* starting from index 0 the n-th selection is target n mod len: strict rotation *)
Corollary round_robin_rotation n len : 0 < len -> rr_run n len 0 = map (fun k => N.of_nat k mod len) (seq 0 n).
Proof. intro H. rewrite rr_run_spec by assumption. apply map_ext. intro k. now rewrite N.add_0_l. Qed.

Theorem lcg_choose_in_range len v : 0 < len -> lcg_choose len v < len.
Proof. intro H. unfold lcg_choose. apply N.mod_lt. lia. Qed.
