(* Lemmas about the poll-loop model (AsyncApp.v). *)
From Coq Require Import Lia Permutation.
From Hv Require Import Prelude AsyncApp.

(* ---------------------------------------------------------------------------------------------- *)
(* membership, tables *)

Lemma mem_In a l : mem a l = true <-> In a l.
Proof.
  unfold mem. rewrite existsb_exists. split.
  - intros (x & Hx & E). apply N.eqb_eq in E. now subst.
  - intros H. exists a. split; [exact H|apply N.eqb_refl].
Qed.

Lemma mem_false_In a l : mem a l = false <-> ~ In a l.
Proof. rewrite <- mem_In. destruct (mem a l); split; congruence. Qed.

Lemma mem_cons a b l : mem a (b :: l) = N.eqb a b || mem a l.
Proof. reflexivity. Qed.

Lemma mem_app a l1 l2 : mem a (l1 ++ l2) = mem a l1 || mem a l2.
Proof. unfold mem. apply existsb_app. Qed.

Lemma keys_remove a b m : mem a (keys (remove b m)) = mem a (keys m) && negb (N.eqb a b).
Proof.
  induction m as [|[c v] m IH]; [reflexivity|].
  cbn [remove filter fst]. destruct (N.eqb b c) eqn:E; cbn [negb].
  - apply N.eqb_eq in E; subst c. fold (remove b m). rewrite IH. cbn [keys map fst]. rewrite mem_cons.
    destruct (N.eqb a b); cbn; [now rewrite andb_false_r|reflexivity].
  - fold (remove b m). cbn [keys map fst]. rewrite !mem_cons. fold (keys (remove b m)) (keys m). rewrite IH.
    destruct (N.eqb a c) eqn:E2; cbn; [|reflexivity].
    apply N.eqb_eq in E2; subst c. rewrite N.eqb_sym in E. now rewrite E.
Qed.

Lemma keys_insert a b v m : mem a (keys (insert b v m)) = mem a (keys m) || N.eqb a b.
Proof.
  induction m as [|[c w] m IH]; cbn [insert].
  - cbn. now rewrite orb_false_r.
  - destruct (N.eqb b c) eqn:E.
    + apply N.eqb_eq in E; subst c. cbn [keys map fst]. rewrite !mem_cons. now destruct (N.eqb a b), (mem a (map fst m)).
    + cbn [keys map fst]. rewrite !mem_cons. fold (keys (insert b v m)) (keys m). rewrite IH.
      now destruct (N.eqb a c), (mem a (keys m)), (N.eqb a b).
Qed.

Lemma lookup_mem a m : (exists v, lookup a m = Some v) <-> mem a (keys m) = true.
Proof.
  induction m as [|[c w] m IH]; cbn [lookup keys map fst].
  - split; [intros (v & H); discriminate|discriminate].
  - rewrite mem_cons. destruct (N.eqb a c); cbn; [split; eauto|exact IH].
Qed.

Lemma nodupb_NoDup l : nodupb l = true <-> NoDup l.
Proof.
  induction l as [|a l IH]; cbn [nodupb].
  - split; [constructor|reflexivity].
  - rewrite andb_true_iff, negb_true_iff, mem_false_In, IH. split.
    + intros [H1 H2]. now constructor.
    + intros H. inversion H; subst. now split.
Qed.

Lemma keys_insert_present b v m : mem b (keys m) = true -> keys (insert b v m) = keys m.
Proof.
  induction m as [|[c w] m IH]; cbn [insert keys map fst]; [discriminate|].
  rewrite mem_cons. destruct (N.eqb b c) eqn:E; cbn.
  - apply N.eqb_eq in E. now subst.
  - intros H. f_equal. now apply IH.
Qed.

Lemma keys_insert_absent b v m : mem b (keys m) = false -> keys (insert b v m) = keys m ++ [b].
Proof.
  induction m as [|[c w] m IH]; cbn [insert keys map fst]; [reflexivity|].
  rewrite mem_cons. destruct (N.eqb b c) eqn:E; cbn; [discriminate|].
  intros H. f_equal. now apply IH.
Qed.

Lemma NoDup_snoc (l : list addr) b : NoDup l -> ~ In b l -> NoDup (l ++ [b]).
Proof.
  induction l as [|a l IH]; cbn; intros H1 H2.
  - constructor; [tauto|constructor].
  - inversion H1; subst. constructor.
    + rewrite in_app_iff. cbn. intros [K|[K|[]]]; [tauto|]. subst. tauto.
    + apply IH; tauto.
Qed.

Lemma nodup_insert b v m : nodupb (keys m) = true -> nodupb (keys (insert b v m)) = true.
Proof.
  intros H. destruct (mem b (keys m)) eqn:E.
  - now rewrite keys_insert_present.
  - rewrite keys_insert_absent by exact E. apply nodupb_NoDup. apply NoDup_snoc.
    + now apply nodupb_NoDup.
    + now apply mem_false_In.
Qed.

Lemma keys_remove_filter b m : keys (remove b m) = filter (fun c => negb (N.eqb b c)) (keys m).
Proof.
  induction m as [|[c w] m IH]; [reflexivity|].
  cbn [remove filter keys map fst]. destruct (N.eqb b c); cbn [negb map fst]; fold (remove b m) (keys (remove b m)) (keys m);
    now rewrite IH.
Qed.

Lemma nodup_remove b m : nodupb (keys m) = true -> nodupb (keys (remove b m)) = true.
Proof.
  rewrite keys_remove_filter, !nodupb_NoDup. apply NoDup_filter.
Qed.

(* ---------------------------------------------------------------------------------------------- *)
(* projections and the session automaton *)

Lemma proj_app a l1 l2 : proj a (l1 ++ l2) = proj a l1 ++ proj a l2.
Proof. unfold proj. apply flat_map_app. Qed.

Lemma sessions_app o l1 l2 :
  sessions o (l1 ++ l2) = match sessions o l1 with Some o' => sessions o' l2 | None => None end.
Proof.
  revert o. induction l1 as [|e l1 IH]; intro o; [reflexivity|].
  cbn [app sessions]. destruct e, o; try reflexivity; apply IH.
Qed.

Lemma msgs_of_app l1 l2 : msgs_of (l1 ++ l2) = msgs_of l1 ++ msgs_of l2.
Proof. unfold msgs_of. apply flat_map_app. Qed.

Lemma count_app e l1 l2 : count e (l1 ++ l2) = (count e l1 + count e l2)%nat.
Proof. unfold count. now rewrite filter_app, app_length. Qed.

(* what one pass contributes for address b: a (possibly empty) run of messages, optionally closed by a Disconnect *)
Definition seg (b : addr) (o o' : bool) (ds : list dispatch) (ms : list msg) : Prop :=
  sessions o (proj b ds) = Some o' /\ msgs_of (proj b ds) = ms /\ count EC (proj b ds) = 0%nat /\
  count ED (proj b ds) = (if o then if o' then 0 else 1 else 0)%nat.

Lemma seg_nil b o : seg b o o [] [].
Proof. unfold seg; cbn. now destruct o. Qed.

Lemma seg_app b o1 o2 o3 d1 d2 m1 m2 :
  seg b o1 o2 d1 m1 -> seg b o2 o3 d2 m2 -> (o1 = false -> o2 = false) -> (o2 = false -> o3 = false) ->
  seg b o1 o3 (d1 ++ d2) (m1 ++ m2).
Proof.
  intros (A1 & A2 & A3 & A4) (B1 & B2 & B3 & B4) M1 M2. unfold seg.
  rewrite proj_app, sessions_app, msgs_of_app, !count_app, A1, B1, A2, B2, A3, B3, A4, B4.
  repeat split; try reflexivity.
  destruct o1, o2, o3; try reflexivity; try (specialize (M1 eq_refl)); try (specialize (M2 eq_refl)); discriminate.
Qed.

Lemma drain_spec a rs ds s :
  drain a rs = (ds, s) ->
  proj a ds = map EM (msg_prefix rs) ++ (match s with SErr => [ED] | _ => [] end) /\
  (forall b, N.eqb b a = false -> proj b ds = []).
Proof.
  revert ds s. induction rs as [|r rs IH]; intros ds s E; cbn [drain] in E.
  - injection E as <- <-. split; [reflexivity|intros; reflexivity].
  - destruct r.
    + destruct (drain a rs) as [ds1 s1] eqn:D. injection E as <- <-.
      destruct (IH ds1 s1 eq_refl) as [P1 P2]. split.
      * cbn [proj flat_map ev_of msg_prefix map app]. rewrite N.eqb_refl. cbn [app]. fold (proj a ds1). now rewrite P1.
      * intros b Hb. cbn [proj flat_map ev_of]. rewrite Hb. cbn [app]. fold (proj b ds1). now apply P2.
    + injection E as <- <-. split; [reflexivity|intros; reflexivity].
    + injection E as <- <-. split.
      * cbn. now rewrite N.eqb_refl.
      * intros b Hb. cbn. now rewrite Hb.
    + injection E as <- <-. split; [reflexivity|intros; reflexivity].
Qed.

Lemma sessions_msgs ms o : sessions true (map EM ms ++ o) = sessions true o.
Proof. induction ms; cbn; auto. Qed.

Lemma msgs_of_map ms : msgs_of (map EM ms) = ms.
Proof. induction ms; cbn; [reflexivity|]. now f_equal. Qed.

Lemma count_msgs e ms : is_msg e = false -> count e (map EM ms) = 0%nat.
Proof. intros H. induction ms; cbn; [reflexivity|]. destruct e; cbn in *; try discriminate; exact IHms. Qed.

(* one visit *)
Lemma visit_go cfg wp per m a m' ds ws :
  visit cfg wp per m a = VGo m' ds ws ->
  mem a (keys m) = true /\
  (nodupb (keys m) = true -> nodupb (keys m') = true) /\
  (forall b, mem b (keys m') = true -> mem b (keys m) = true) /\
  (forall b, N.eqb b a = false -> mem b (keys m') = mem b (keys m)) /\
  (forall b, seg b (mem b (keys m)) (mem b (keys m')) ds
               (if N.eqb b a then msg_prefix (pa_recv (per_of per a)) else [])) /\
  forallb is_ping ws = true.
Proof.
  unfold visit. destruct (lookup a m) as [lp|] eqn:L; [|discriminate].
  assert (Ma : mem a (keys m) = true) by (apply lookup_mem; eauto).
  destruct (drain a (pa_recv (per_of per a))) as [ds0 s] eqn:D.
  destruct (drain_spec _ _ _ _ D) as [Pa Pb].
  set (lp' := match pa_pong (per_of per a) with Some t => t | None => lp end).
  (* the three ways a visit ends *)
  assert (Removed : forall tail, (tail = [] \/ tail = [Disconnect a]) ->
            (match s with SErr => tail = [] | SNone => tail = [Disconnect a] | SBlock => False end) ->
            forall b, seg b (mem b (keys m)) (mem b (keys (remove a m))) (ds0 ++ tail)
                        (if N.eqb b a then msg_prefix (pa_recv (per_of per a)) else [])).
  { intros tail _ Hs b. rewrite keys_remove. destruct (N.eqb b a) eqn:E.
    - apply N.eqb_eq in E; subst b. rewrite Ma. cbn [andb negb]. unfold seg. rewrite proj_app, Pa.
      destruct s; try contradiction; subst tail; cbn [proj flat_map ev_of app]; rewrite ?N.eqb_refl, ?app_nil_r; cbn [app].
      + rewrite sessions_msgs, msgs_of_app, msgs_of_map, !count_app, !count_msgs by reflexivity. cbn.
        now rewrite app_nil_r.
      + rewrite sessions_msgs, msgs_of_app, msgs_of_map, !count_app, !count_msgs by reflexivity. cbn.
        now rewrite app_nil_r.
    - cbn [negb]. rewrite andb_true_r. unfold seg. rewrite proj_app, (Pb b E).
      assert (T : proj b tail = []).
      { destruct s; try contradiction; subst tail; cbn; rewrite ?E; reflexivity. }
      rewrite T. cbn. now destruct (mem b (keys m)). }
  assert (Kept : s = SNone -> forall b, seg b (mem b (keys m)) (mem b (keys (insert a lp' m))) ds0
                        (if N.eqb b a then msg_prefix (pa_recv (per_of per a)) else [])).
  { intros -> b. rewrite keys_insert_present by exact Ma. destruct (N.eqb b a) eqn:E.
    - apply N.eqb_eq in E; subst b. rewrite Ma. unfold seg. rewrite Pa, app_nil_r.
      rewrite <- (app_nil_r (map EM _)) at 1. rewrite sessions_msgs, msgs_of_map, !count_msgs by reflexivity. now cbn.
    - unfold seg. rewrite (Pb b E). cbn. now destruct (mem b (keys m)). }
  assert (KeysRem : (nodupb (keys m) = true -> nodupb (keys (remove a m)) = true) /\
                    (forall b, mem b (keys (remove a m)) = true -> mem b (keys m) = true) /\
                    (forall b, N.eqb b a = false -> mem b (keys (remove a m)) = mem b (keys m))).
  { repeat split.
    - apply nodup_remove.
    - intros b. rewrite keys_remove. now intros [? _]%andb_true_iff.
    - intros b E. rewrite keys_remove, E. cbn. apply andb_true_r. }
  assert (KeysIns : (nodupb (keys m) = true -> nodupb (keys (insert a lp' m)) = true) /\
                    (forall b, mem b (keys (insert a lp' m)) = true -> mem b (keys m) = true) /\
                    (forall b, N.eqb b a = false -> mem b (keys (insert a lp' m)) = mem b (keys m))).
  { rewrite keys_insert_present by exact Ma. auto. }
  destruct s.
  - (* nothing yet *)
    fold lp'.
    assert (Alive : forall wsx, VGo (insert a lp' m) ds0 (if wp then [WPing a] else []) = VGo m' ds wsx ->
              mem a (keys m) = true /\
              (nodupb (keys m) = true -> nodupb (keys m') = true) /\
              (forall b, mem b (keys m') = true -> mem b (keys m) = true) /\
              (forall b, N.eqb b a = false -> mem b (keys m') = mem b (keys m)) /\
              (forall b, seg b (mem b (keys m)) (mem b (keys m')) ds
                           (if N.eqb b a then msg_prefix (pa_recv (per_of per a)) else [])) /\
              forallb is_ping wsx = true).
    { intros wsx E; injection E as <- <- <-. destruct KeysIns as (K1 & K2 & K3).
      split; [exact Ma|]. split; [exact K1|]. split; [exact K2|]. split; [exact K3|]. split; [apply Kept; reflexivity|].
      destruct wp; reflexivity. }
    destruct (hb cfg) as [[iv to]|]; [|apply Alive].
    destruct (N.leb to (pa_clock (per_of per a) - lp')); [|apply Alive].
    intros E; injection E as <- <- <-. destruct KeysRem as (K1 & K2 & K3).
    split; [exact Ma|]. split; [exact K1|]. split; [exact K2|]. split; [exact K3|]. split; [|reflexivity].
    apply Removed; auto.
  - intros E; injection E as <- <- <-. destruct KeysRem as (K1 & K2 & K3).
    split; [exact Ma|]. split; [exact K1|]. split; [exact K2|]. split; [exact K3|]. split; [|reflexivity].
    intros b. rewrite <- (app_nil_r ds0). apply Removed; auto.
  - discriminate.
Qed.

Lemma visit_stuck cfg wp per m a ds :
  visit cfg wp per m a = VStuck ds ->
  forall b, exists ms, seg b (mem b (keys m)) (mem b (keys m)) ds ms.
Proof.
  unfold visit. destruct (lookup a m) as [lp|] eqn:L; [|discriminate].
  assert (Ma : mem a (keys m) = true) by (apply lookup_mem; eauto).
  destruct (drain a (pa_recv (per_of per a))) as [ds0 s] eqn:D.
  destruct (drain_spec _ _ _ _ D) as [Pa Pb].
  destruct s.
  - destruct (hb cfg) as [[iv to]|]; [destruct (N.leb _ _)|]; discriminate.
  - discriminate.
  - intros E; injection E as <-. intros b. destruct (N.eqb b a) eqn:E.
    + apply N.eqb_eq in E; subst b. exists (msg_prefix (pa_recv (per_of per a))). unfold seg. rewrite Ma, Pa, app_nil_r.
      rewrite <- (app_nil_r (map EM _)) at 1. rewrite sessions_msgs, msgs_of_map, !count_msgs by reflexivity. now cbn.
    + exists []. unfold seg. rewrite (Pb b E). cbn. now destruct (mem b (keys m)).
Qed.

Lemma visit_no_crash cfg wp per m a : mem a (keys m) = true -> visit cfg wp per m a <> VCrash.
Proof.
  intros Ma. apply lookup_mem in Ma as [lp L]. unfold visit. rewrite L.
  destruct (drain a (pa_recv (per_of per a))) as [ds0 s]. destruct s; try discriminate.
  destruct (hb cfg) as [[iv to]|]; [destruct (N.leb _ _)|]; discriminate.
Qed.

Definition mono (m m' : smap) : Prop := forall b, mem b (keys m') = true -> mem b (keys m) = true.

Lemma mono_false m m' b : mono m m' -> mem b (keys m) = false -> mem b (keys m') = false.
Proof. intros H E. destruct (mem b (keys m')) eqn:K; [|reflexivity]. apply H in K. congruence. Qed.

Lemma phase2_spec cfg wp per order : forall m,
  nodupb order = true -> forallb (fun a => mem a (keys m)) order = true ->
  match phase2 cfg wp per order m with
  | P2Crash => False
  | P2Go m' ds ws =>
    (nodupb (keys m) = true -> nodupb (keys m') = true) /\ mono m m' /\
    (forall b, mem b order = false -> mem b (keys m') = mem b (keys m)) /\
    (forall b, seg b (mem b (keys m)) (mem b (keys m')) ds
                 (if mem b order then msg_prefix (pa_recv (per_of per b)) else [])) /\
    forallb is_ping ws = true
  | P2Stuck m' ds =>
    (nodupb (keys m) = true -> nodupb (keys m') = true) /\ mono m m' /\
    (forall b, exists ms, seg b (mem b (keys m)) (mem b (keys m')) ds ms)
  end.
Proof.
  induction order as [|a rest IH]; intros m ND ALL; cbn [phase2].
  - split; [auto|]. split; [intros b H; exact H|]. split; [auto|]. split; [|reflexivity]. intros b. cbn. apply seg_nil.
  - cbn [nodupb] in ND. apply andb_true_iff in ND as [NA ND]. apply negb_true_iff in NA.
    cbn [forallb] in ALL. apply andb_true_iff in ALL as [Ma ALL].
    destruct (visit cfg wp per m a) as [m1 ds1 ws1|ds1|] eqn:V.
    + destruct (visit_go _ _ _ _ _ _ _ _ V) as (_ & K1 & K2 & K3 & K4 & K5).
      assert (ALL1 : forallb (fun x => mem x (keys m1)) rest = true).
      { apply forallb_forall. intros x Hx. rewrite forallb_forall in ALL. rewrite K3; [now apply ALL|].
        destruct (N.eqb x a) eqn:E; [|reflexivity]. apply N.eqb_eq in E; subst x.
        apply mem_In in Hx. congruence. }
      specialize (IH m1 ND ALL1).
      destruct (phase2 cfg wp per rest m1) as [m2 ds2 ws2|m2 ds2|]; [| |exact IH].
      * destruct IH as (J1 & J2 & J3 & J4 & J5).
        split; [auto|]. split; [intros b H; auto|]. split.
        { intros b H. rewrite mem_cons in H. apply orb_false_iff in H as [H1 H2]. rewrite J3, K3; auto. }
        split.
        { intros b. specialize (K4 b). specialize (J4 b). rewrite mem_cons.
          replace (if N.eqb b a || mem b rest then msg_prefix (pa_recv (per_of per b)) else [])
            with ((if N.eqb b a then msg_prefix (pa_recv (per_of per a)) else []) ++
                  (if mem b rest then msg_prefix (pa_recv (per_of per b)) else [])).
          - eapply seg_app; eauto; intros H; [eapply mono_false; eauto|eapply mono_false; eauto].
          - destruct (N.eqb b a) eqn:E; cbn; [|reflexivity]. apply N.eqb_eq in E; subst b. rewrite NA. apply app_nil_r. }
        rewrite forallb_app. now rewrite K5, J5.
      * destruct IH as (J1 & J2 & J3).
        split; [auto|]. split; [intros b H; auto|].
        intros b. destruct (J3 b) as [ms Hms]. eexists. eapply seg_app; eauto; intros H; eapply mono_false; eauto.
    + split; [auto|]. split; [intros b H; exact H|]. exact (visit_stuck _ _ _ _ _ _ V).
    + exact (visit_no_crash cfg wp per m a Ma V).
Qed.

(* admissions *)
Definition addrs_of (news : list (option addr * N)) : list addr :=
  flat_map (fun n => match fst n with Some a => [a] | None => [] end) news.

Lemma admit_spec news : forall m m' cs,
  admission news m = (m', cs) ->
  (nodupb (keys m) = true -> nodupb (keys m') = true) /\
  forall b, mem b (keys m') = mem b (keys m) || mem b (addrs_of news) /\
            sessions (mem b (keys m)) (proj b cs) = Some (mem b (keys m')) /\
            msgs_of (proj b cs) = [] /\
            count EC (proj b cs) = length (filter (N.eqb b) (addrs_of news)).
Proof.
  induction news as [|[[a|] lp] r IH]; intros m m' cs E; cbn [admission] in E.
  - injection E as <- <-. split; [auto|]. intros b. cbn. rewrite orb_false_r. repeat split; reflexivity.
  - destruct (admission r (insert a lp (remove a m))) as [m1 ds1] eqn:A. injection E as <- <-.
    destruct (IH _ _ _ A) as [I1 I2].
    split; [intros H; apply I1; apply nodup_insert; now apply nodup_remove|].
    intros b. destruct (I2 b) as (J1 & J2 & J3 & J4).
    rewrite keys_insert, keys_remove in J1, J2.
    assert (AD : addrs_of ((Some a, lp) :: r) = a :: addrs_of r) by reflexivity. rewrite AD. clear AD.
    rewrite mem_cons. cbn [filter].
    assert (P : proj b ((if mem a (keys m) then [Disconnect a] else []) ++ Connect a :: ds1) =
                (if N.eqb b a then (if mem a (keys m) then [ED] else []) ++ [EC] else []) ++ proj b ds1).
    { rewrite proj_app. change (proj b (Connect a :: ds1)) with (ev_of b (Connect a) ++ proj b ds1).
      cbn [ev_of]. destruct (mem a (keys m)); cbn [proj flat_map ev_of app]; destruct (N.eqb b a); reflexivity. }
    rewrite P. clear P.
    destruct (N.eqb b a) eqn:E.
    + apply N.eqb_eq in E; subst b. cbn [negb] in J1, J2. rewrite andb_false_r in J1, J2. cbn [orb] in J1, J2.
      rewrite J1 in J2. rewrite J1. split; [now rewrite orb_true_r|].
      rewrite sessions_app, msgs_of_app, count_app, J3, J4.
      destruct (mem a (keys m)); cbn; rewrite J2; repeat split; reflexivity.
    + cbn [negb] in J1, J2. rewrite andb_true_r, orb_false_r in J1, J2. cbn [app orb]. repeat split; auto.
  - cbn [addrs_of flat_map fst app]. fold (addrs_of r). now apply IH.
Qed.

(* ---------------------------------------------------------------------------------------------- *)
(* one iteration *)

Definition occ (b : addr) (l : list addr) : nat := length (filter (N.eqb b) l).

Lemma occ_nodup b l : nodupb l = true -> occ b l = (if mem b l then 1 else 0)%nat.
Proof.
  induction l as [|a l IH]; [reflexivity|]. cbn [nodupb]. intros [NA ND]%andb_true_iff. apply negb_true_iff in NA.
  unfold occ in *. cbn [filter]. rewrite mem_cons. destruct (N.eqb b a) eqn:E; cbn [length orb].
  - apply N.eqb_eq in E; subst b. rewrite IH, NA by exact ND. reflexivity.
  - now apply IH.
Qed.

Lemma occ_app b l1 l2 : occ b (l1 ++ l2) = (occ b l1 + occ b l2)%nat.
Proof. unfold occ. now rewrite filter_app, app_length. Qed.

Lemma permb_parts l ks : permb l ks = true -> nodupb l = true /\ forallb (fun a => mem a ks) l = true.
Proof. unfold permb. intros [[_ H1]%andb_true_iff H2]%andb_true_iff. now split. Qed.

Lemma admitted_addrs inp : admitted inp = addrs_of (i_new inp).
Proof. reflexivity. Qed.

Definition iter_ok (st : app_state) (inp : inputs) (st' : app_state) (ds : list dispatch) : Prop :=
  nodupb (keys (streams st')) = true /\
  forall b, sessions (mem b (keys (streams st))) (proj b ds) = Some (mem b (keys (streams st'))) /\
            msgs_of (proj b ds) = delivered b inp /\
            count EC (proj b ds) = occ b (admitted inp).

Lemma poll_next cfg st inp st' ds ws :
  wf_inputsb cfg st inp = true -> nodupb (keys (streams st)) = true -> poll cfg st inp = Next st' ds ws ->
  iter_ok st inp st' ds /\
  (exists pings, forallb is_ping pings = true /\ ws = pings ++ flush (keys (streams st')) (i_out inp)) /\
  forallb (out_okb (keys (streams st'))) (i_out inp) = true.
Proof.
  unfold wf_inputsb, poll. intros [PB W]%andb_true_iff ND.
  destruct (i_shutdown inp); [discriminate|].
  destruct (permb_parts _ _ PB) as [NO ALL].
  pose proof (phase2_spec cfg (will_ping cfg st inp) (i_per inp) (i_order inp) (streams st) NO ALL) as P2.
  destruct (phase2 cfg (will_ping cfg st inp) (i_per inp) (i_order inp) (streams st)) as [m ds2 ws2|m ds2|];
    [|discriminate|contradiction].
  destruct P2 as (K1 & K2 & K3 & K4 & K5).
  rename W into OK.
  destruct (admission (i_new inp) m) as [m' cs] eqn:A. cbn [fst] in OK.
  intros E; injection E as <- <- <-. cbn [streams].
  destruct (admit_spec _ _ _ _ A) as [A1 A2].
  split; [|split; [exists ws2; split; [exact K5|reflexivity]|exact OK]].
  split; [auto|]. intros b. destruct (A2 b) as (J1 & J2 & J3 & J4). destruct (K4 b) as (S1 & S2 & S3 & S4).
  rewrite proj_app, sessions_app, S1, J2, msgs_of_app, S2, J3, app_nil_r, count_app, S3, J4.
  split; [reflexivity|]. split; reflexivity.
Qed.

Lemma poll_blocked cfg st inp st' ds :
  wf_inputsb cfg st inp = true -> nodupb (keys (streams st)) = true -> poll cfg st inp = Blocked st' ds ->
  nodupb (keys (streams st')) = true /\
  forall b, sessions (mem b (keys (streams st))) (proj b ds) = Some (mem b (keys (streams st'))) /\
            count EC (proj b ds) = 0%nat.
Proof.
  unfold wf_inputsb, poll. intros [PB W]%andb_true_iff ND.
  destruct (i_shutdown inp); [discriminate|].
  destruct (permb_parts _ _ PB) as [NO ALL].
  pose proof (phase2_spec cfg (will_ping cfg st inp) (i_per inp) (i_order inp) (streams st) NO ALL) as P2.
  destruct (phase2 cfg (will_ping cfg st inp) (i_per inp) (i_order inp) (streams st)) as [m ds2 ws2|m ds2|];
    [destruct (admission (i_new inp) m); discriminate| |contradiction].
  destruct P2 as (K1 & K2 & K3).
  intros E; injection E as <- <-. cbn [streams]. split; [auto|].
  intros b. destruct (K3 b) as (ms & S1 & S2 & S3 & S4). now split.
Qed.

Lemma poll_no_crash cfg st inp : wf_inputsb cfg st inp = true -> poll cfg st inp <> Crash.
Proof.
  unfold wf_inputsb, poll. intros [PB W]%andb_true_iff.
  destruct (i_shutdown inp); [discriminate|].
  destruct (permb_parts _ _ PB) as [NO ALL].
  pose proof (phase2_spec cfg (will_ping cfg st inp) (i_per inp) (i_order inp) (streams st) NO ALL) as P2.
  destruct (phase2 cfg (will_ping cfg st inp) (i_per inp) (i_order inp) (streams st)) as [m ds2 ws2|m ds2|];
    [destruct (admission (i_new inp) m); discriminate|discriminate|contradiction].
Qed.

Lemma poll_exit cfg st inp : poll cfg st inp = Exit <-> i_shutdown inp = true.
Proof.
  unfold poll. destruct (i_shutdown inp); [tauto|].
  split; [|discriminate].
  destruct (phase2 _ _ _ _ _); [destruct (admission _ _)| |]; discriminate.
Qed.

(* ---------------------------------------------------------------------------------------------- *)
(* the whole run *)

Lemma run_invariant cfg hist : forall st,
  wf_histb cfg st hist = true -> nodupb (keys (streams st)) = true ->
  let t := run cfg st hist in
  t_status t <> Crashed /\
  nodupb (keys (streams (t_state t))) = true /\
  forall b,
    sessions (mem b (keys (streams st))) (proj b (t_disp t)) = Some (mem b (keys (streams (t_state t)))) /\
    count EC (proj b (t_disp t)) = occ b (flat_map admitted (executed cfg st hist)) /\
    (t_status t <> Stuck -> msgs_of (proj b (t_disp t)) = flat_map (delivered b) (executed cfg st hist)).
Proof.
  induction hist as [|inp rest IH]; intros st W ND; cbn [run executed].
  - cbn. split; [discriminate|]. split; [exact ND|]. intros b. repeat split; reflexivity.
  - cbn [wf_histb] in W. destruct (i_shutdown inp) eqn:SD.
    { assert (E : poll cfg st inp = Exit) by now apply poll_exit. rewrite E. cbn.
      split; [discriminate|]. split; [exact ND|]. intros b. repeat split; reflexivity. }
    apply andb_true_iff in W as [W1 W2].
    destruct (poll cfg st inp) as [|st' ds ws|st' ds|] eqn:P.
    + apply poll_exit in P. congruence.
    + destruct (poll_next _ _ _ _ _ _ W1 ND P) as [[N1 I] _].
      specialize (IH st' W2 N1). cbn zeta in IH. destruct IH as (H1 & H2 & H3).
      cbn [t_status t_state t_disp]. split; [exact H1|]. split; [exact H2|].
      intros b. destruct (I b) as (I1 & I2 & I3). destruct (H3 b) as (G1 & G2 & G3).
      rewrite proj_app, sessions_app, I1, G1, count_app, I3, G2, msgs_of_app, I2.
      cbn [flat_map]. rewrite occ_app. repeat split; try reflexivity.
      intros NS. now rewrite G3.
    + destruct (poll_blocked _ _ _ _ _ W1 ND P) as [N1 I]. cbn [t_status t_state t_disp executed].
      split; [discriminate|]. split; [exact N1|]. intros b. destruct (I b) as [I1 I2].
      split; [exact I1|]. split; [exact I2|]. intros K; now contradiction K.
    + now apply poll_no_crash in P.
Qed.

(* ---------------------------------------------------------------------------------------------- *)
(* reading the session automaton *)

Definition b2n (b : bool) : nat := if b then 1 else 0.

Lemma sessions_balance es : forall o o', sessions o es = Some o' ->
  (count EC es + b2n o = count ED es + b2n o')%nat.
Proof.
  induction es as [|e es IH]; intros o o' H; cbn [sessions] in H.
  - injection H as <-. reflexivity.
  - destruct e, o; try discriminate; apply IH in H; unfold count in *; cbn in *; lia.
Qed.

Lemma sessions_open_last es : forall o, sessions o es = Some true ->
  (o = true /\ forallb is_msg es = true) \/
  exists p1 p2, es = p1 ++ EC :: p2 /\ forallb is_msg p2 = true.
Proof.
  induction es as [|e es IH]; intros o H; cbn [sessions] in H.
  - injection H as ->. left. now split.
  - destruct e, o; try discriminate; apply IH in H as [[H1 H2]|(p1 & p2 & -> & H2)]; try discriminate.
    + right. exists [], es. now split.
    + right. exists (EC :: p1), p2. now split.
    + left. now split.
    + right. exists (EM m :: p1), p2. now split.
    + right. exists (ED :: p1), p2. now split.
Qed.

Lemma sessions_closed_last es : forall o, sessions o es = Some false ->
  (o = false /\ es = []) \/ exists p, es = p ++ [ED].
Proof.
  induction es as [|e es IH]; intros o H; cbn [sessions] in H.
  - injection H as ->. left. now split.
  - right. destruct e, o; try discriminate; apply IH in H as [[H1 H2]|(p & ->)]; try discriminate.
    + now exists (EC :: p).
    + now exists (EM m :: p).
    + subst. now exists [].
    + now exists (ED :: p).
Qed.

Lemma sessions_prefix o p q o' : sessions o (p ++ q) = Some o' -> exists o1, sessions o p = Some o1 /\ sessions o1 q = Some o'.
Proof. rewrite sessions_app. destruct (sessions o p) as [o1|]; [|discriminate]. intros H. now exists o1. Qed.

(* a message or a disconnect belongs to a session opened by a connect, with only messages in between *)
Lemma sessions_before_msg p e q o :
  sessions false (p ++ e :: q) = Some o -> e <> EC ->
  exists p1 p2, p = p1 ++ EC :: p2 /\ forallb is_msg p2 = true.
Proof.
  intros H NE. apply sessions_prefix in H as (o1 & H1 & H2).
  assert (o1 = true) as -> by (destruct o1, e; cbn in H2; try discriminate; congruence).
  apply sessions_open_last in H1 as [[K _]|K]; [discriminate|exact K].
Qed.

(* after a disconnect the next event for the address, if any, is a connect *)
Lemma sessions_after_disc p q o :
  sessions false (p ++ ED :: q) = Some o -> q = [] \/ exists q', q = EC :: q'.
Proof.
  intros H. apply sessions_prefix in H as (o1 & H1 & H2).
  destruct o1; cbn in H2; [|discriminate].
  destruct q as [|e q]; [now left|right]. destruct e; cbn in H2; try discriminate. now exists q.
Qed.

(* a connect is the first event for its address or directly follows a disconnect *)
Lemma sessions_before_conn p q o :
  sessions false (p ++ EC :: q) = Some o -> p = [] \/ exists p', p = p' ++ [ED].
Proof.
  intros H. apply sessions_prefix in H as (o1 & H1 & H2).
  destruct o1; cbn in H2; [discriminate|].
  apply sessions_closed_last in H1 as [[_ ->]|K]; [now left|now right].
Qed.

(* ---------------------------------------------------------------------------------------------- *)
(* histories in two parts; shutdown *)

Definition glue (t1 t2 : trace) : trace :=
  {| t_state := t_state t2; t_status := t_status t2; t_disp := t_disp t1 ++ t_disp t2; t_writes := t_writes t1 ++ t_writes t2 |}.

Lemma run_app cfg pre : forall st rest,
  t_status (run cfg st pre) = Running ->
  run cfg st (pre ++ rest) = glue (run cfg st pre) (run cfg (t_state (run cfg st pre)) rest).
Proof.
  induction pre as [|inp pre IH]; intros st rest R; cbn [app run].
  - cbn. unfold glue. cbn. now destruct (run cfg st rest).
  - cbn [run] in R. destruct (poll cfg st inp) as [|st' ds ws|st' ds|] eqn:P; try discriminate.
    cbn [t_status] in R. rewrite (IH st' rest R). unfold glue. cbn. now rewrite !app_assoc.
Qed.

Lemma wf_histb_app cfg pre : forall st rest,
  wf_histb cfg st (pre ++ rest) = true -> t_status (run cfg st pre) = Running ->
  wf_histb cfg st pre = true /\ wf_histb cfg (t_state (run cfg st pre)) rest = true.
Proof.
  induction pre as [|inp pre IH]; intros st rest W R; cbn [app] in W.
  - now split.
  - cbn [run] in R. cbn [wf_histb] in *.
    destruct (i_shutdown inp) eqn:SD.
    { assert (E : poll cfg st inp = Exit) by now apply poll_exit. rewrite E in R. discriminate. }
    apply andb_true_iff in W as [W1 W2]. rewrite W1. cbn [andb].
    cbn [run]. destruct (poll cfg st inp) as [|st' ds ws|st' ds|] eqn:P; try discriminate.
    cbn [t_status t_state] in *. now apply IH.
Qed.

Lemma executed_app cfg pre : forall st rest,
  t_status (run cfg st pre) = Running ->
  executed cfg st (pre ++ rest) = executed cfg st pre ++ executed cfg (t_state (run cfg st pre)) rest.
Proof.
  induction pre as [|inp pre IH]; intros st rest R; cbn [app executed run] in *; [reflexivity|].
  destruct (poll cfg st inp) as [|st' ds ws|st' ds|] eqn:P; try discriminate.
  cbn [t_status t_state] in *. cbn [app]. f_equal. now apply IH.
Qed.

Lemma running_executed cfg hist : forall st, t_status (run cfg st hist) = Running -> executed cfg st hist = hist.
Proof.
  induction hist as [|inp hist IH]; intros st R; cbn [run executed] in *; [reflexivity|].
  destruct (poll cfg st inp) as [|st' ds ws|st' ds|] eqn:P; try discriminate. f_equal. now apply IH.
Qed.

Lemma shutdown_exits cfg st pre inp post :
  t_status (run cfg st pre) = Running -> i_shutdown inp = true ->
  run cfg st (pre ++ inp :: post) =
  {| t_state := t_state (run cfg st pre); t_status := Exited;
     t_disp := t_disp (run cfg st pre); t_writes := t_writes (run cfg st pre) |}.
Proof.
  intros R SD. rewrite run_app by exact R. cbn [run].
  assert (E : poll cfg (t_state (run cfg st pre)) inp = Exit) by now apply poll_exit.
  rewrite E. unfold glue. cbn. now rewrite !app_nil_r.
Qed.

Lemma exited_saw_flag cfg hist : forall st,
  t_status (run cfg st hist) = Exited -> exists pre inp post, hist = pre ++ inp :: post /\ i_shutdown inp = true /\
                                                         t_status (run cfg st pre) = Running.
Proof.
  induction hist as [|inp hist IH]; intros st R; cbn [run] in R; [discriminate|].
  destruct (poll cfg st inp) as [|st' ds ws|st' ds|] eqn:P; try discriminate.
  - exists [], inp, hist. split; [reflexivity|]. split; [now apply (poll_exit cfg st inp)|reflexivity].
  - cbn [t_status] in R. apply IH in R as (pre & i & post & -> & SD & R).
    exists (inp :: pre), i, post. split; [reflexivity|]. split; [exact SD|]. cbn [run]. now rewrite P.
Qed.

(* no receive call blocks -> the loop is never stuck *)
Lemma no_block_per per a :
  forallb (fun p => no_block (pa_recv (snd p))) per = true -> no_block (pa_recv (per_of per a)) = true.
Proof.
  induction per as [|[b p] per IH]; cbn [forallb per_of snd]; [reflexivity|].
  intros [H1 H2]%andb_true_iff. destruct (N.eqb a b); auto.
Qed.

Lemma drain_no_block a rs : no_block rs = true -> snd (drain a rs) <> SBlock.
Proof.
  induction rs as [|r rs IH]; cbn [drain no_block]; [discriminate|].
  destruct r; try discriminate. intros H. destruct (drain a rs). cbn in *. now apply IH.
Qed.

Lemma phase2_no_block cfg wp per order : forall m,
  forallb (fun p => no_block (pa_recv (snd p))) per = true ->
  forall m' ds, phase2 cfg wp per order m <> P2Stuck m' ds.
Proof.
  induction order as [|a rest IH]; intros m NB m' ds; cbn [phase2]; [discriminate|].
  destruct (visit cfg wp per m a) as [m1 ds1 ws1|ds1|] eqn:V.
  - specialize (IH m1 NB). destruct (phase2 cfg wp per rest m1); try discriminate.
    intros E; injection E as <- <-. now apply (IH m0 ds0).
  - exfalso. unfold visit in V. destruct (lookup a m); [|discriminate].
    pose proof (drain_no_block a _ (no_block_per per a NB)) as D.
    destruct (drain a (pa_recv (per_of per a))) as [d s]. cbn in D. destruct s; try discriminate; try congruence.
    destruct (hb cfg) as [[iv to]|]; [destruct (N.leb _ _)|]; discriminate.
  - discriminate.
Qed.

Lemma never_stuck cfg hist : forall st, no_block_hist hist = true -> t_status (run cfg st hist) <> Stuck.
Proof.
  induction hist as [|inp hist IH]; intros st NB; cbn [run]; [discriminate|].
  cbn [no_block_hist] in NB. apply andb_true_iff in NB as [N1 N2].
  destruct (poll cfg st inp) as [|st' ds ws|st' ds|] eqn:P; try discriminate.
  - cbn [t_status]. now apply IH.
  - exfalso. unfold poll in P. destruct (i_shutdown inp); [discriminate|].
    pose proof (phase2_no_block cfg (will_ping cfg st inp) (i_per inp) (i_order inp) (streams st) N1) as K.
    destruct (phase2 cfg (will_ping cfg st inp) (i_per inp) (i_order inp) (streams st)) eqn:E;
      [destruct (admission (i_new inp) m); discriminate| |discriminate].
    now apply (K m ds0).
Qed.

(* ---------------------------------------------------------------------------------------------- *)
(* outgoing messages *)

Lemma permb_Permutation l ks : permb l ks = true -> Permutation l ks.
Proof.
  unfold permb. intros [[L N]%andb_true_iff I]%andb_true_iff.
  apply NoDup_Permutation_bis.
  - now apply nodupb_NoDup.
  - apply Nat.eqb_eq in L. lia.
  - intros x Hx. rewrite forallb_forall in I. apply mem_In. now apply I.
Qed.

Lemma permb_mem l ks a : permb l ks = true -> mem a l = mem a ks.
Proof.
  intros P. pose proof (permb_Permutation _ _ P) as Q.
  destruct (mem a l) eqn:E1, (mem a ks) eqn:E2; try reflexivity.
  - apply mem_In in E1. apply (Permutation_in _ Q) in E1. apply mem_In in E1. congruence.
  - apply mem_In in E2. apply (Permutation_in _ (Permutation_sym Q)) in E2. apply mem_In in E2. congruence.
Qed.

Lemma wcount_bcast a m l : wcount (WMsg a m) (map (fun b => WMsg b m) l) = occ a l.
Proof.
  unfold wcount, occ. induction l as [|b l IH]; [reflexivity|].
  cbn [map filter write_eqb]. rewrite N.eqb_refl, andb_true_r. destruct (N.eqb a b); cbn [length]; now rewrite IH.
Qed.

Lemma broadcast_once ks m order :
  permb order ks = true ->
  (forall a, wcount (WMsg a m) (out_writes ks (OBroadcast m order)) = (if mem a ks then 1 else 0)%nat) /\
  (forall w, In w (out_writes ks (OBroadcast m order)) -> exists a, w = WMsg a m /\ mem a ks = true).
Proof.
  intros P. destruct (permb_parts _ _ P) as [ND ALL]. cbn [out_writes].
  assert (F : filter (fun a => mem a ks) order = order).
  { clear ND P. induction order as [|b l IH]; [reflexivity|]. cbn [forallb] in ALL. apply andb_true_iff in ALL as [H1 H2].
    cbn [filter]. rewrite H1. f_equal. now apply IH. }
  rewrite F. split.
  - intros a. rewrite wcount_bcast, occ_nodup by exact ND. now rewrite (permb_mem _ _ a P).
  - intros w Hw. apply in_map_iff in Hw as (a & <- & Ha). exists a. split; [reflexivity|].
    rewrite forallb_forall in ALL. now apply ALL.
Qed.

Lemma unicast_only ks a m :
  out_writes ks (OUnicast a m) = (if mem a ks then [WMsg a m] else []).
Proof. reflexivity. Qed.

(* the set written to = the addresses whose session is open after this iteration's dispatches *)
Lemma writes_follow_sessions cfg t0 pre inp st' ds ws :
  wf_histb cfg (init t0) (pre ++ [inp]) = true ->
  t_status (run cfg (init t0) pre) = Running ->
  poll cfg (t_state (run cfg (init t0) pre)) inp = Next st' ds ws ->
  let ks := keys (streams st') in
  nodupb ks = true /\
  (forall a, mem a ks = true <-> sessions false (proj a (t_disp (run cfg (init t0) pre) ++ ds)) = Some true) /\
  forallb (out_okb ks) (i_out inp) = true /\
  exists pings, forallb is_ping pings = true /\ ws = pings ++ flush ks (i_out inp).
Proof.
  intros W R P ks.
  destruct (wf_histb_app _ _ _ _ W R) as [W1 W2].
  destruct (run_invariant cfg pre (init t0) W1 eq_refl) as (_ & ND & I).
  cbn [wf_histb] in W2.
  destruct (i_shutdown inp) eqn:SD.
  { apply (poll_exit cfg (t_state (run cfg (init t0) pre)) inp) in SD. congruence. }
  apply andb_true_iff in W2 as [W2 _].
  destruct (poll_next _ _ _ _ _ _ W2 ND P) as [[N1 J] [PG OK]].
  split; [exact N1|]. split; [|split; [exact OK|exact PG]].
  intros a. destruct (I a) as (I1 & _). destruct (J a) as (J1 & _).
  rewrite proj_app, sessions_app. cbn [init streams keys map mem existsb] in I1. rewrite I1, J1.
  fold ks. split; [now intros ->|now intros [= ->]].
Qed.

(* heartbeat *)
Lemma heartbeat_visit cfg wp per m a lp iv to :
  lookup a m = Some lp -> hb cfg = Some (iv, to) ->
  snd (drain a (pa_recv (per_of per a))) = SNone ->
  let p := per_of per a in
  let lp' := match pa_pong p with Some t => t | None => lp end in
  let ds := fst (drain a (pa_recv p)) in
  (N.le to (pa_clock p - lp') -> visit cfg wp per m a = VGo (remove a m) (ds ++ [Disconnect a]) []) /\
  (N.lt (pa_clock p - lp') to -> visit cfg wp per m a = VGo (insert a lp' m) ds (if wp then [WPing a] else [])).
Proof.
  intros L H D. cbn zeta. unfold visit. rewrite L.
  destruct (drain a (pa_recv (per_of per a))) as [d s] eqn:E. cbn [snd fst] in *. subst s. rewrite H.
  split; intros K; [apply N.leb_le in K|apply N.leb_gt in K]; now rewrite K.
Qed.

Lemma outgoing_spec cfg t0 pre inp st' ds ws :
  wf_histb cfg (init t0) (pre ++ [inp]) = true ->
  t_status (run cfg (init t0) pre) = Running ->
  poll cfg (t_state (run cfg (init t0) pre)) inp = Next st' ds ws ->
  exists pings ks,
    forallb is_ping pings = true /\ ws = pings ++ flat_map (out_writes ks) (i_out inp) /\
    ks = keys (streams st') /\
    (forall a, mem a ks = true <-> sessions false (proj a (t_disp (run cfg (init t0) pre) ++ ds)) = Some true) /\
    (forall a m, out_writes ks (OUnicast a m) = if mem a ks then [WMsg a m] else []) /\
    (forall m order, In (OBroadcast m order) (i_out inp) ->
       (forall a, wcount (WMsg a m) (out_writes ks (OBroadcast m order)) = (if mem a ks then 1 else 0)%nat) /\
       (forall w, In w (out_writes ks (OBroadcast m order)) -> exists a, w = WMsg a m /\ mem a ks = true)).
Proof.
  intros W R P. destruct (writes_follow_sessions _ _ _ _ _ _ _ W R P) as (ND & S & OK & pings & PG & ->).
  exists pings, (keys (streams st')). split; [exact PG|]. split; [reflexivity|]. split; [reflexivity|].
  split; [exact S|]. split; [reflexivity|].
  intros m order Hin. rewrite forallb_forall in OK. specialize (OK _ Hin). cbn [out_okb] in OK.
  now apply broadcast_once.
Qed.

(* summary of the per-address statements *)
Lemma per_address cfg t0 hist a :
  wf_histb cfg (init t0) hist = true ->
  let t := run cfg (init t0) hist in
  let es := proj a (t_disp t) in
  t_status t <> Crashed /\
  sessions false es = Some (mem a (keys (streams (t_state t)))) /\
  count EC es = length (filter (N.eqb a) (flat_map admitted (executed cfg (init t0) hist))) /\
  (t_status t <> Stuck -> msgs_of es = flat_map (delivered a) (executed cfg (init t0) hist)).
Proof.
  intros W. destruct (run_invariant cfg hist (init t0) W eq_refl) as (NC & _ & I).
  destruct (I a) as (I1 & I2 & I3). cbn zeta. repeat split; auto.
Qed.

(* ---------------------------------------------------------------------------------------------- *)
(* witnesses *)
Local Open Scope N_scope.

Definition cfg_all : config := {| hb := None; has_connect := true; has_message := true; has_disconnect := true |}.
Definition cfg_hb : config := {| hb := Some (50, 200); has_connect := true; has_message := true; has_disconnect := true |}.

Definition quiet (order : list addr) : inputs :=
  {| i_shutdown := false; i_order := order; i_ping_clock := 0; i_ping_set := 0; i_per := []; i_new := []; i_out := [] |}.

(* two streams with the same peer address admitted in one iteration: two Connects, no Disconnect in between *)
Definition readmit_hist : list inputs :=
  [ {| i_shutdown := false; i_order := []; i_ping_clock := 0; i_ping_set := 0; i_per := [];
       i_new := [(Some 7, 0); (Some 7, 0)]; i_out := [] |} ].

Lemma readmission_breaks_sessions :
  wf_histb cfg_all (init 0) readmit_hist = true /\
  t_disp (run_old cfg_all (init 0) readmit_hist) = [Connect 7; Connect 7] /\
  sessions false (proj 7 (t_disp (run_old cfg_all (init 0) readmit_hist))) = None /\
  t_disp (run cfg_all (init 0) readmit_hist) = [Connect 7; Disconnect 7; Connect 7] /\
  sessions false (proj 7 (t_disp (run cfg_all (init 0) readmit_hist))) = Some true.
Proof. vm_compute. repeat split. Qed.

(* the same for a stream whose end went unnoticed (reads return "nothing yet" for ever) and whose address is reused *)
Definition stale_hist : list inputs :=
  [ {| i_shutdown := false; i_order := []; i_ping_clock := 0; i_ping_set := 0; i_per := [];
       i_new := [(Some 7, 0)]; i_out := [] |};
    {| i_shutdown := false; i_order := [7]; i_ping_clock := 0; i_ping_set := 0;
       i_per := [(7, {| pa_recv := [RMsg 1; RNone]; pa_pong := None; pa_clock := 0 |})]; i_new := []; i_out := [] |};
    {| i_shutdown := false; i_order := [7]; i_ping_clock := 0; i_ping_set := 0;
       i_per := [(7, {| pa_recv := [RNone]; pa_pong := None; pa_clock := 0 |})]; i_new := [(Some 7, 5)]; i_out := [] |};
    {| i_shutdown := false; i_order := [7]; i_ping_clock := 0; i_ping_set := 0;
       i_per := [(7, {| pa_recv := [RMsg 2; RNone]; pa_pong := None; pa_clock := 0 |})]; i_new := []; i_out := [] |} ].

Lemma stale_stream_old_code :
  wf_histb cfg_all (init 0) stale_hist = true /\
  t_disp (run_old cfg_all (init 0) stale_hist) = [Connect 7; Message 7 1; Connect 7; Message 7 2] /\
  t_disp (run cfg_all (init 0) stale_hist) = [Connect 7; Message 7 1; Disconnect 7; Connect 7; Message 7 2].
Proof. vm_compute. repeat split. Qed.

(* under the freshness assumption the code before the repair behaves like the repaired code *)
Lemma remove_absent a m : mem a (keys m) = false -> remove a m = m.
Proof.
  induction m as [|[c w] m IH]; [reflexivity|]. cbn [keys map fst]. rewrite mem_cons.
  intros [H1 H2]%orb_false_iff. cbn [remove filter fst]. rewrite H1. cbn [negb]. f_equal. now apply IH.
Qed.

Lemma admission_old_fresh news : forall m,
  nodupb (addrs_of news) = true -> forallb (fun a => negb (mem a (keys m))) (addrs_of news) = true ->
  admission_old news m = admission news m.
Proof.
  induction news as [|[[a|] lp] r IH]; intros m ND FR; cbn [admission admission_old]; [reflexivity| |].
  - change (addrs_of ((Some a, lp) :: r)) with (a :: addrs_of r) in ND, FR.
    cbn [nodupb] in ND. apply andb_true_iff in ND as [NA ND]. apply negb_true_iff in NA.
    cbn [forallb] in FR. apply andb_true_iff in FR as [Fa FR]. apply negb_true_iff in Fa.
    rewrite Fa, (remove_absent a m Fa). cbn [app].
    rewrite IH; [reflexivity|exact ND|].
    apply forallb_forall. intros x Hx. rewrite forallb_forall in FR. rewrite keys_insert.
    specialize (FR x Hx). apply negb_true_iff in FR. rewrite FR. cbn.
    destruct (N.eqb x a) eqn:E; [|reflexivity]. apply N.eqb_eq in E; subst x. apply mem_In in Hx. congruence.
  - apply IH; assumption.
Qed.

Lemma poll_old_fresh cfg st inp : fresh_inputsb cfg st inp = true -> poll_old cfg st inp = poll cfg st inp.
Proof.
  unfold fresh_inputsb, poll_old, poll. destruct (i_shutdown inp); [reflexivity|].
  destruct (phase2 cfg (will_ping cfg st inp) (i_per inp) (i_order inp) (streams st)); try reflexivity.
  intros [H1 H2]%andb_true_iff. rewrite admission_old_fresh; [reflexivity|exact H1|exact H2].
Qed.

Fixpoint fresh_histb (cfg : config) (st : app_state) (hist : list inputs) : bool :=
  match hist with
  | [] => true
  | inp :: rest =>
    fresh_inputsb cfg st inp && match poll cfg st inp with Next st' _ _ => fresh_histb cfg st' rest | _ => true end
  end.

Lemma run_old_fresh cfg hist : forall st, fresh_histb cfg st hist = true -> run_old cfg st hist = run cfg st hist.
Proof.
  induction hist as [|inp rest IH]; intros st F; cbn [run run_old]; [reflexivity|].
  cbn [fresh_histb] in F. apply andb_true_iff in F as [F1 F2]. rewrite (poll_old_fresh _ _ _ F1).
  destruct (poll cfg st inp); try reflexivity. now rewrite IH.
Qed.

(* a receive call that does not return: the shutdown flag raised afterwards is never looked at *)
Definition blocked_hist : list inputs :=
  [ {| i_shutdown := false; i_order := []; i_ping_clock := 0; i_ping_set := 0; i_per := [];
       i_new := [(Some 7, 0)]; i_out := [] |};
    {| i_shutdown := false; i_order := [7]; i_ping_clock := 0; i_ping_set := 0;
       i_per := [(7, {| pa_recv := [RMsg 1; RBlock]; pa_pong := None; pa_clock := 0 |})]; i_new := []; i_out := [] |};
    {| i_shutdown := true; i_order := [7]; i_ping_clock := 0; i_ping_set := 0; i_per := []; i_new := []; i_out := [] |} ].

Lemma blocked_receive_hides_shutdown :
  wf_histb cfg_all (init 0) blocked_hist = true /\
  t_status (run cfg_all (init 0) blocked_hist) = Stuck /\
  t_disp (run cfg_all (init 0) blocked_hist) = [Connect 7; Message 7 1].
Proof. vm_compute. repeat split. Qed.

(* a complete scenario: two clients, messages, unicast, broadcast, close, heartbeat timeout, shutdown *)
Definition demo_hist : list inputs :=
  [ {| i_shutdown := false; i_order := []; i_ping_clock := 10; i_ping_set := 10; i_per := [];
       i_new := [(Some 1, 5); (None, 6); (Some 2, 7)]; i_out := [OBroadcast 90 [1; 2]] |};
    {| i_shutdown := false; i_order := [2; 1]; i_ping_clock := 60; i_ping_set := 61;
       i_per := [(1, {| pa_recv := [RMsg 11; RMsg 12; RNone]; pa_pong := None; pa_clock := 62 |});
                 (2, {| pa_recv := [RNone]; pa_pong := Some 59; pa_clock := 63 |})];
       i_new := [(Some 3, 60)]; i_out := [OUnicast 1 91; OUnicast 9 92; OBroadcast 93 [3; 1; 2]] |};
    {| i_shutdown := false; i_order := [1; 2; 3]; i_ping_clock := 70; i_ping_set := 70;
       i_per := [(1, {| pa_recv := [RMsg 13; RErr 4]; pa_pong := None; pa_clock := 70 |});
                 (2, {| pa_recv := [RNone]; pa_pong := None; pa_clock := 300 |});
                 (3, {| pa_recv := [RNone]; pa_pong := None; pa_clock := 71 |})];
       i_new := [(Some 1, 70)]; i_out := [OBroadcast 94 [1; 3]; OUnicast 2 95] |};
    {| i_shutdown := true; i_order := []; i_ping_clock := 0; i_ping_set := 0; i_per := []; i_new := []; i_out := [] |};
    quiet [1; 3] ].

Lemma demo_run :
  wf_histb cfg_hb (init 0) demo_hist = true /\
  t_status (run cfg_hb (init 0) demo_hist) = Exited /\
  t_disp (run cfg_hb (init 0) demo_hist) =
    [Connect 1; Connect 2; Message 1 11; Message 1 12; Connect 3; Message 1 13; Disconnect 1; Disconnect 2; Connect 1] /\
  t_writes (run cfg_hb (init 0) demo_hist) =
    [WMsg 1 90; WMsg 2 90; WPing 2; WPing 1; WMsg 1 91; WMsg 3 93; WMsg 1 93; WMsg 2 93; WMsg 1 94; WMsg 3 94].
Proof. vm_compute. repeat split. Qed.

(* ---------------------------------------------------------------------------------------------- *)
(* the statements of props/C12.v *)

Lemma thm_sessions :
  forall (cfg : config) (t0 : N) (hist : list inputs) (a : addr),
    wf_histb cfg (init t0) hist = true ->
    t_status (run cfg (init t0) hist) <> Crashed /\
    sessions false (proj a (t_disp (run cfg (init t0) hist))) =
      Some (mem a (keys (streams (t_state (run cfg (init t0) hist))))).
Proof. intros cfg t0 hist a W. destruct (per_address cfg t0 hist a W) as (H1 & H2 & _). now split. Qed.

Lemma thm_connect_once_first :
  forall (cfg : config) (t0 : N) (hist : list inputs) (a : addr),
    wf_histb cfg (init t0) hist = true ->
    count EC (proj a (t_disp (run cfg (init t0) hist))) =
      length (filter (N.eqb a) (flat_map admitted (executed cfg (init t0) hist))) /\
    (forall p e q, proj a (t_disp (run cfg (init t0) hist)) = p ++ e :: q -> e <> EC ->
       exists p1 p2, p = p1 ++ EC :: p2 /\ forallb is_msg p2 = true) /\
    (forall p q, proj a (t_disp (run cfg (init t0) hist)) = p ++ EC :: q -> p = [] \/ exists p', p = p' ++ [ED]).
Proof.
  intros cfg t0 hist a W. destruct (per_address cfg t0 hist a W) as (_ & S & C & _).
  split; [exact C|]. split.
  - intros p e q E NE. rewrite E in S. exact (sessions_before_msg p e q _ S NE).
  - intros p q E. rewrite E in S. exact (sessions_before_conn p q _ S).
Qed.

Lemma thm_messages_once_in_order :
  forall (cfg : config) (t0 : N) (hist : list inputs) (a : addr),
    wf_histb cfg (init t0) hist = true ->
    t_status (run cfg (init t0) hist) <> Stuck ->
    msgs_of (proj a (t_disp (run cfg (init t0) hist))) = flat_map (delivered a) (executed cfg (init t0) hist).
Proof. intros cfg t0 hist a W NS. destruct (per_address cfg t0 hist a W) as (_ & _ & _ & M). exact (M NS). Qed.

Lemma thm_disconnect_once_last :
  forall (cfg : config) (t0 : N) (hist : list inputs) (a : addr),
    wf_histb cfg (init t0) hist = true ->
    (forall p q, proj a (t_disp (run cfg (init t0) hist)) = p ++ ED :: q -> q = [] \/ exists q', q = EC :: q') /\
    count EC (proj a (t_disp (run cfg (init t0) hist))) =
      (count ED (proj a (t_disp (run cfg (init t0) hist))) +
       (if mem a (keys (streams (t_state (run cfg (init t0) hist)))) then 1 else 0))%nat.
Proof.
  intros cfg t0 hist a W. destruct (per_address cfg t0 hist a W) as (_ & S & _ & _). split.
  - intros p q E. rewrite E in S. exact (sessions_after_disc p q _ S).
  - pose proof (sessions_balance _ _ _ S) as B. cbn [b2n] in B. unfold b2n in B. rewrite Nat.add_0_r in B. exact B.
Qed.

Lemma thm_readmission_refuted :
  exists (cfg : config) (hist : list inputs) (a : addr),
    wf_histb cfg (init 0) hist = true /\
    t_disp (run_old cfg (init 0) hist) = [Connect a; Message a 1; Connect a; Message a 2] /\
    sessions false (proj a (t_disp (run_old cfg (init 0) hist))) = None /\
    t_disp (run cfg (init 0) hist) = [Connect a; Message a 1; Disconnect a; Connect a; Message a 2].
Proof.
  exists cfg_all, stale_hist, 7%N. destruct stale_stream_old_code as (H1 & H2 & H3).
  split; [exact H1|]. split; [exact H2|]. split; [now rewrite H2|exact H3].
Qed.

Lemma thm_blocked_receive_refuted :
  exists (cfg : config) (pre : list inputs) (inp : inputs),
    wf_histb cfg (init 0) (pre ++ [inp]) = true /\ i_shutdown inp = true /\
    t_status (run cfg (init 0) (pre ++ [inp])) = Stuck.
Proof.
  exists cfg_all, (firstn 2 blocked_hist), (nth 2 blocked_hist (quiet [])).
  destruct blocked_receive_hides_shutdown as (H1 & H2 & _). repeat split; assumption.
Qed.

(* optional handlers: what reaches the pool is the logical dispatch sequence with the events of missing handlers left out *)
Definition msg_of (a : addr) (d : dispatch) : list msg :=
  match d with Message b m => if N.eqb a b then [m] else [] | _ => [] end.

Lemma msgs_proj_cons a d ds : msgs_of (proj a (d :: ds)) = msg_of a d ++ msgs_of (proj a ds).
Proof.
  change (proj a (d :: ds)) with (ev_of a d ++ proj a ds). rewrite msgs_of_app. f_equal.
  destruct d as [b|b m|b]; cbn [ev_of msg_of]; destruct (N.eqb a b); reflexivity.
Qed.

Lemma proj_dispatched_msgs cfg a ds :
  msgs_of (proj a (dispatched cfg ds)) = if has_message cfg then msgs_of (proj a ds) else [].
Proof.
  unfold dispatched. induction ds as [|d ds IH]; [now destruct (has_message cfg)|].
  cbn [filter]. rewrite (msgs_proj_cons a d ds).
  destruct (visible cfg d) eqn:V.
  - rewrite msgs_proj_cons, IH. destruct d as [b|b m|b]; cbn [visible msg_of] in *; try reflexivity.
    now rewrite V.
  - rewrite IH. destruct d as [b|b m|b]; cbn [visible msg_of] in *; try reflexivity.
    now rewrite V.
Qed.

Lemma thm_messages_any_handlers :
  forall (cfg : config) (t0 : N) (hist : list inputs) (a : addr),
    wf_histb cfg (init t0) hist = true ->
    t_status (run cfg (init t0) hist) <> Stuck ->
    has_message cfg = true ->
    msgs_of (proj a (dispatched cfg (t_disp (run cfg (init t0) hist)))) = flat_map (delivered a) (executed cfg (init t0) hist).
Proof.
  intros cfg t0 hist a W NS HM. rewrite proj_dispatched_msgs, HM. now apply thm_messages_once_in_order.
Qed.

Lemma dispatched_all cfg ds :
  has_connect cfg = true -> has_message cfg = true -> has_disconnect cfg = true -> dispatched cfg ds = ds.
Proof.
  intros H1 H2 H3. unfold dispatched. induction ds as [|d ds IH]; [reflexivity|].
  cbn [filter]. destruct d; cbn [visible]; rewrite ?H1, ?H2, ?H3; now f_equal.
Qed.

(* a receive error (Close frame, reset, read error) ends the client in the very iteration that sees it: the messages
   received before it are dispatched in order, then exactly one Disconnect, the stream leaves the table, nothing is
   written to it - whatever the heartbeat settings and the clock *)
Fixpoint msgs_before_err (rs : list rres) : option (list msg) :=
  match rs with
  | RMsg m :: rs' => option_map (cons m) (msgs_before_err rs')
  | RErr _ :: _ => Some []
  | _ => None
  end.

Lemma drain_error a rs ms :
  msgs_before_err rs = Some ms -> drain a rs = (map (Message a) ms ++ [Disconnect a], SErr).
Proof.
  revert ms. induction rs as [|r rs IH]; intros ms H; [discriminate|].
  destruct r; cbn [msgs_before_err] in H; try discriminate.
  - destruct (msgs_before_err rs) as [ms'|]; [|discriminate]. injection H as <-.
    cbn [drain]. rewrite (IH ms' eq_refl). reflexivity.
  - injection H as <-. reflexivity.
Qed.

Theorem receive_error_visit (cfg : config) (wp : bool) (per : list (addr * per_addr)) (m : smap) (a : addr) (lp : N) ms :
  lookup a m = Some lp -> msgs_before_err (pa_recv (per_of per a)) = Some ms ->
  visit cfg wp per m a = VGo (remove a m) (map (Message a) ms ++ [Disconnect a]) [].
Proof.
  intros Hl Hm. unfold visit. rewrite Hl, (drain_error a _ ms Hm). reflexivity.
Qed.
