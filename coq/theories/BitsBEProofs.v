(* Lemmas about big-endian bit strings (BitsBE.v). *)
From Coq Require Import Lia.
From Hv Require Import Prelude BitsBE.
Open Scope N_scope.

(* ---------- val_be ---------- *)
Lemma val_be_fold l : forall acc,
  fold_left (fun a b => 2 * a + bit b) l acc = acc * 2 ^ N.of_nat (length l) + val_be l.
Proof.
  unfold val_be. induction l as [|x l IH]; intro acc.
  - cbn [fold_left length]. change (N.of_nat 0) with 0. rewrite N.pow_0_r. lia.
  - cbn [fold_left length]. rewrite IH. rewrite (IH (2 * 0 + bit x)).
    rewrite Nat2N.inj_succ, N.pow_succ_r'. lia.
Qed.

Lemma val_be_nil : val_be [] = 0.
Proof. reflexivity. Qed.

Lemma val_be_cons x l : val_be (x :: l) = bit x * 2 ^ N.of_nat (length l) + val_be l.
Proof. unfold val_be at 1. cbn [fold_left]. rewrite val_be_fold. lia. Qed.

Lemma val_be_app a b : val_be (a ++ b) = val_be a * 2 ^ N.of_nat (length b) + val_be b.
Proof.
  unfold val_be at 1. rewrite fold_left_app. rewrite val_be_fold. reflexivity.
Qed.

Lemma val_be_repeat_false k : val_be (repeat false k) = 0.
Proof.
  induction k as [|k IH]; [reflexivity|]. cbn [repeat]. rewrite val_be_cons, IH. cbn [bit]. lia.
Qed.

Lemma val_be_lt l : val_be l < 2 ^ N.of_nat (length l).
Proof.
  induction l as [|x l IH]; [cbn; lia|].
  rewrite val_be_cons. cbn [length]. rewrite Nat2N.inj_succ, N.pow_succ_r'.
  destruct x; cbn [bit]; lia.
Qed.

(* ---------- bits_be ---------- *)
Lemma bits_be_length w n : length (bits_be w n) = w.
Proof. induction w as [|w IH]; cbn [bits_be length]; congruence. Qed.

Lemma bit_testbit n k : bit (N.testbit n k) = (n / 2 ^ k) mod 2.
Proof. rewrite <- N.testbit_spec'. unfold bit, N.b2n. reflexivity. Qed.

Lemma val_be_bits_be w n : val_be (bits_be w n) = n mod 2 ^ N.of_nat w.
Proof.
  induction w as [|w IH].
  - cbn. now rewrite N.mod_1_r.
  - cbn [bits_be]. rewrite val_be_cons, IH, bits_be_length, bit_testbit.
    rewrite Nat2N.inj_succ, N.pow_succ_r'.
    rewrite (N.mul_comm 2), N.mod_mul_r by (try apply N.pow_nonzero; discriminate). lia.
Qed.

Lemma bits_be_small w n : n < 2 ^ N.of_nat w -> val_be (bits_be w n) = n.
Proof. intro H. rewrite val_be_bits_be. now apply N.mod_small. Qed.

Lemma bits_be_split a b n :
  bits_be (a + b) n = bits_be a (n / 2 ^ N.of_nat b) ++ bits_be b n.
Proof.
  induction a as [|a IH]; [reflexivity|].
  cbn [Nat.add bits_be app]. rewrite IH. f_equal.
  rewrite N.div_pow2_bits. f_equal. lia.
Qed.

Lemma bits_be_mod w k n : (w <= k)%nat -> bits_be w (n mod 2 ^ N.of_nat k) = bits_be w n.
Proof.
  intro H. induction w as [|w IH]; [reflexivity|].
  cbn [bits_be]. rewrite IH by lia. f_equal.
  apply N.mod_pow2_bits_low. lia.
Qed.

Lemma bits_be_join a b x y : y < 2 ^ N.of_nat b ->
  bits_be a x ++ bits_be b y = bits_be (a + b) (x * 2 ^ N.of_nat b + y).
Proof.
  intro Hy. rewrite bits_be_split. f_equal.
  - f_equal. rewrite N.div_add_l by (apply N.pow_nonzero; discriminate).
    rewrite N.div_small by assumption. lia.
  - rewrite <- (bits_be_mod b b (x * _ + y)) by lia.
    rewrite N.add_comm, N.mod_add by (apply N.pow_nonzero; discriminate).
    now rewrite N.mod_small.
Qed.

Lemma bits_be_zero w : bits_be w 0 = repeat false w.
Proof. induction w as [|w IH]; [reflexivity|]. cbn [bits_be repeat]. now rewrite IH, N.bits_0. Qed.

(* ---------- groups ---------- *)
Lemma groups_fuel_indep {A} k : (0 < k)%nat -> forall f1 f2 (l : list A),
  (length l <= f1)%nat -> (length l <= f2)%nat -> groups_fuel f1 k l = groups_fuel f2 k l.
Proof.
  intros Hk f1. induction f1 as [|f1 IH]; intros f2 l H1 H2.
  - destruct l; [now destruct f2 | cbn in H1; lia].
  - destruct l as [|x l]; [now destruct f2|]. cbn [length] in H1, H2.
    destruct f2 as [|f2]; [lia|].
    cbn [groups_fuel]. f_equal.
    assert (Hs : (length (skipn k (x :: l)) <= length l)%nat).
    { rewrite skipn_length. cbn [length]. lia. }
    apply IH; lia.
Qed.

Lemma groups_fuel_enough {A} k : (0 < k)%nat -> forall f (l : list A), (length l <= f)%nat ->
  groups_fuel f k l = groups_fuel (length l) k l.
Proof. intros Hk f l Hl. apply groups_fuel_indep; [assumption|assumption|lia]. Qed.

Lemma groups_nil {A} k : groups k (@nil A) = [].
Proof. reflexivity. Qed.

Lemma groups_app {A} k (a l : list A) : (0 < k)%nat -> length a = k ->
  groups k (a ++ l) = a :: groups k l.
Proof.
  intros Hk Ha. unfold groups. rewrite app_length.
  destruct a as [|x a]; [cbn in Ha; lia|].
  cbn [length Nat.add app groups_fuel]. change (x :: a ++ l) with ((x :: a) ++ l).
  rewrite firstn_app, skipn_app, Ha.
  rewrite Nat.sub_diag, firstn_O, skipn_O, app_nil_r.
  rewrite firstn_all2 by lia.
  rewrite skipn_all2 by lia.
  cbn [app]. apply (f_equal (cons (x :: a))). apply groups_fuel_enough; [assumption|lia].
Qed.

Lemma groups_short {A} k (l : list A) : l <> [] -> (length l <= k)%nat -> groups k l = [l].
Proof.
  intros Hne Hl. unfold groups. destruct l as [|x l]; [congruence|]. cbn [length] in Hl.
  cbn [length groups_fuel]. rewrite firstn_all2 by (cbn [length]; lia).
  rewrite skipn_all2 by (cbn [length]; lia). now destruct (length l).
Qed.

Lemma full_groups_nil {A} k : full_groups k (@nil A) = [].
Proof. reflexivity. Qed.

Lemma full_groups_app {A} k (a l : list A) : (0 < k)%nat -> length a = k ->
  full_groups k (a ++ l) = a :: full_groups k l.
Proof.
  intros Hk Ha. unfold full_groups. rewrite groups_app by assumption.
  cbn [filter]. rewrite Ha, Nat.eqb_refl. reflexivity.
Qed.

Lemma full_groups_short {A} k (l : list A) : (length l < k)%nat -> full_groups k l = [].
Proof.
  intro Hl. destruct l as [|x l]; [reflexivity|].
  unfold full_groups. rewrite groups_short by (try discriminate; lia).
  cbn [filter]. destruct (Nat.eqb_spec (length (x :: l)) k); [lia|reflexivity].
Qed.

(* ---------- finite sweeps ---------- *)
Definition below (n : nat) : list N := map N.of_nat (seq 0 n).

Lemma below_complete n x : x < N.of_nat n -> In x (below n).
Proof.
  intro H. unfold below. apply in_map_iff. exists (N.to_nat x). split; [lia|].
  apply in_seq. lia.
Qed.

Lemma sweep1 (P : N -> bool) n : forallb P (below n) = true -> forall x, x < N.of_nat n -> P x = true.
Proof. intros H x Hx. rewrite forallb_forall in H. apply H, below_complete, Hx. Qed.

Lemma sweep2 (P : N -> N -> bool) n m :
  forallb (fun x => forallb (P x) (below m)) (below n) = true ->
  forall x y, x < N.of_nat n -> y < N.of_nat m -> P x y = true.
Proof.
  intros H x y Hx Hy. apply (sweep1 (P x) m); [|assumption].
  apply (sweep1 (fun x => forallb (P x) (below m)) n); assumption.
Qed.
