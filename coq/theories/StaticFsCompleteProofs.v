(* C06, converse direction: every clean file inside the served directory is returned intact with the Content-Type of its
   extension; directories redirect / serve their index.  Lemmas; the property theorems are in props/C06_complete.v. *)
From Coq Require Import Lia.
From Hv Require Import Prelude Bytes BytesProofs TablesHttp Http TablesPct Percent PercentProofs StaticFs StaticFsProofs
  StaticFsSpec.
Open Scope N_scope.
Arguments N.eqb : simpl never.
Arguments N.leb : simpl never.
Arguments N.ltb : simpl never.

(* BytesProofs and StaticFsProofs both define beq_eq / beq_refl / split_on_app; the StaticFsProofs ones are the last
   imported.  Qualified names are used where it matters. *)

(* ------------------------------------------------------------------------------------------------ *)
(* small facts                                                                                       *)
(* ------------------------------------------------------------------------------------------------ *)
Lemma match42 {A} (x : N) (a b : A) :
  match x with 42 => a | _ => b end = if x =? 42 then a else b.
Proof.
  destruct x as [|p]; [reflexivity|].
  repeat (destruct p as [p|p|]; try reflexivity).
Qed.

Lemma existsb_nob d l : existsb (fun b => b =? d) l = false <-> nob d l = true.
Proof.
  unfold nob. induction l as [|x l IH]; cbn [existsb forallb]; [tauto|].
  destruct (x =? d); cbn [negb orb andb]; [split; discriminate | exact IH].
Qed.

Lemma has_nul_app a b : has_nul (a ++ b) = has_nul a || has_nul b.
Proof. unfold has_nul. apply existsb_app. Qed.

Lemma join_is_join_byte d l : join d l = join_byte d l.
Proof. induction l as [|x [|y l] IH]; reflexivity. Qed.

Lemma join_cons d x l : l <> [] -> join d (x :: l) = x ++ d :: join d l.
Proof. destruct l; [contradiction | reflexivity]. Qed.

Lemma join_snoc d l x : l <> [] -> join d (l ++ [x]) = join d l ++ d :: x.
Proof.
  induction l as [|y l IH]; intro H; [contradiction|].
  destruct l as [|z l]; [reflexivity|].
  change ((y :: z :: l) ++ [x]) with (y :: ((z :: l) ++ [x])).
  rewrite join_cons by (destruct l; discriminate). rewrite IH by discriminate.
  rewrite (join_cons d y (z :: l)) by discriminate. now rewrite <- app_assoc.
Qed.

Lemma dir_path_join l : l <> [] -> dir_path l = join SLASH l ++ [SLASH].
Proof.
  induction l as [|x l IH]; intro H; [contradiction|]. unfold dir_path in *. cbn [flat_map].
  destruct l as [|y l]; [cbn [flat_map join]; now rewrite app_nil_r|].
  rewrite IH by discriminate. rewrite (join_cons SLASH x (y :: l)) by discriminate. now rewrite <- !app_assoc.
Qed.

Lemma dir_path_app a b : dir_path (a ++ b) = dir_path a ++ dir_path b.
Proof. unfold dir_path. now rewrite flat_map_app. Qed.

(* ------------------------------------------------------------------------------------------------ *)
(* the file tree                                                                                     *)
(* ------------------------------------------------------------------------------------------------ *)
Lemma assoc_name_In n es v : assoc_name n es = Some v -> In (n, v) es.
Proof.
  induction es as [|[k w] es IH]; cbn [assoc_name]; [discriminate|].
  destruct (beq n k) eqn:E.
  - apply StaticFsProofs.beq_eq in E. subst k. intros [= ->]. now left.
  - intro H. right. now apply IH.
Qed.

(* with unique names, the first entry called n is the entry called n *)
Lemma assoc_name_unique n es v : NoDup (map fst es) -> In (n, v) es -> assoc_name n es = Some v.
Proof.
  induction es as [|[k w] es IH]; intros Hnd Hin; [destruct Hin|].
  cbn [map fst] in Hnd. inversion Hnd as [|? ? Hk Hnd']; subst. cbn [assoc_name].
  destruct Hin as [[= -> ->]|Hin].
  - now rewrite StaticFsProofs.beq_refl.
  - destruct (beq n k) eqn:E; [|now apply IH].
    apply StaticFsProofs.beq_eq in E. subst k. exfalso. apply Hk.
    change n with (fst (n, v)). now apply in_map.
Qed.

Lemma node_at_app fs a b :
  node_at fs (a ++ b) = match node_at fs a with Some n => node_at n b | None => None end.
Proof.
  revert fs. induction a as [|x a IH]; intro fs; [reflexivity|]. cbn [app node_at].
  destruct fs as [c|es]; [reflexivity|]. destruct (assoc_name x es); [apply IH | reflexivity].
Qed.

Lemma node_at_file_cons c x l : node_at (File c) (x :: l) = None.
Proof. reflexivity. Qed.

(* well-formedness is inherited, and every name on an existing path is a possible name *)
Lemma wf_fs_node_at : forall loc fs n, wf_fs fs -> node_at fs loc = Some n -> wf_fs n /\ Forall name_ok loc.
Proof.
  induction loc as [|x loc IH]; intros fs n Hwf H; cbn [node_at] in H.
  - injection H as <-. now split.
  - destruct fs as [c|es]; [discriminate|].
    destruct (assoc_name x es) as [ch|] eqn:E; [|discriminate]. apply assoc_name_In in E.
    inversion Hwf as [|? Hnd Hnames Hsub]; subst.
    destruct (IH ch n (Hsub _ _ E) H) as [W F]. split; [exact W|]. constructor; [now apply (Hnames x ch)|exact F].
Qed.

Lemma name_okb_ok n : name_okb n = true -> name_ok n.
Proof.
  unfold name_okb, name_ok. intro H.
  repeat (apply andb_true_iff in H as [H ?]).
  repeat match goal with X : negb _ = true |- _ => apply negb_true_iff in X end.
  repeat split; try assumption; now apply StaticFsProofs.beq_false.
Qed.

Lemma nodupb_NoDup l : nodupb l = true -> NoDup l.
Proof.
  induction l as [|x l IH]; cbn [nodupb]; intro H; [constructor|].
  apply andb_true_iff in H as [H1 H2]. apply negb_true_iff in H1. constructor; [|now apply IH].
  intro Hin. assert (E : existsb (beq x) l = true) by (apply existsb_exists; exists x; split; [exact Hin | apply StaticFsProofs.beq_refl]).
  congruence.
Qed.

Lemma wf_fsb_sound : forall fs, wf_fsb fs = true -> wf_fs fs.
Proof.
  fix REC 1. intros [c|es] H; [constructor|]. cbn [wf_fsb] in H.
  apply andb_true_iff in H as [Hnd Hgo]. apply nodupb_NoDup in Hnd.
  assert (G : forall k v, In (k, v) es -> name_ok k /\ wf_fs v).
  { clear Hnd. induction es as [|[k0 v0] es IHes]; intros k v Hin; [destruct Hin|].
    apply andb_true_iff in Hgo as [Hkv Hgo]. apply andb_true_iff in Hkv as [Hk Hv].
    destruct Hin as [[= <- <-]|Hin].
    - split; [now apply name_okb_ok | now apply REC].
    - now apply IHes. }
  constructor; [exact Hnd | intros k v Hin; now apply (G k v) | intros k v Hin; now apply (G k v)].
Qed.

(* ------------------------------------------------------------------------------------------------ *)
(* walking along existing names                                                                      *)
(* ------------------------------------------------------------------------------------------------ *)
(* a component that `walk` looks up (neither skipped nor "..") *)
Definition step_ok (c : bytes) : Prop := c <> [] /\ c <> [DOT] /\ c <> [DOT; DOT].

Lemma name_ok_step c : name_ok c -> step_ok c.
Proof. intros (H1 & H2 & H3 & _). now repeat split. Qed.

Lemma walk_step fs cur c comps es :
  node_at fs cur = Some (Dir es) -> step_ok c ->
  walk fs cur (c :: comps) =
  match node_at fs (cur ++ [c]) with Some _ => walk fs (cur ++ [c]) comps | None => None end.
Proof.
  intros Hn (H1 & H2 & H3). cbn [walk]. rewrite Hn.
  apply StaticFsProofs.beq_false in H1, H2, H3. rewrite H1, H2, H3. reflexivity.
Qed.

(* for components that are all looked up, walking succeeds exactly when the whole path exists, and lands on it *)
Lemma walk_exact fs : forall comps cur, Forall step_ok comps -> comps <> [] ->
  walk fs cur comps = match node_at fs (cur ++ comps) with Some _ => Some (cur ++ comps) | None => None end.
Proof.
  induction comps as [|c comps IH]; intros cur Hok Hne; [contradiction|].
  inversion Hok as [|? ? Hc Hok']; subst.
  rewrite (node_at_app fs cur (c :: comps)).
  destruct (node_at fs cur) as [[f|es]|] eqn:Ecur.
  - cbn [walk]. rewrite Ecur. reflexivity.
  - rewrite (walk_step fs cur c comps es Ecur Hc).
    rewrite (node_at_app fs cur [c]), Ecur.
    cbn [node_at]. destruct (assoc_name c es) as [ch|] eqn:Ea; [|reflexivity].
    destruct comps as [|c' comps'].
    + cbn [walk node_at]. reflexivity.
    + rewrite IH by (assumption || discriminate). rewrite <- app_assoc. cbn [app].
      rewrite (node_at_app fs cur (c :: c' :: comps')), Ecur. cbn [node_at]. rewrite Ea. reflexivity.
  - cbn [walk]. rewrite Ecur. reflexivity.
Qed.

(* ---- NUL bytes: a directory string that resolves in a well-formed tree has none ---- *)
Lemma has_nul_split p : has_nul p = existsb has_nul (split_on SLASH p).
Proof.
  induction p as [|x p IH]; [reflexivity|]. cbn [split_on].
  destruct (x =? SLASH) eqn:E.
  - apply N.eqb_eq in E. subst x. cbn [existsb]. rewrite <- IH. reflexivity.
  - pose proof (split_on_nonempty SLASH p) as Hne. destruct (split_on SLASH p) as [|f fs]; [congruence|].
    cbn [existsb] in *. unfold has_nul in *. cbn [existsb]. rewrite IH. now rewrite orb_assoc.
Qed.

Lemma walk_no_nul fs : wf_fs fs -> forall comps cur loc,
  walk fs cur comps = Some loc -> existsb has_nul comps = false.
Proof.
  intros Hwf. induction comps as [|c comps IH]; intros cur loc H; [reflexivity|]. cbn [walk] in H. cbn [existsb].
  destruct (node_at fs cur) as [[?|es]|]; try discriminate.
  destruct (beq c [] || beq c [DOT]) eqn:E1.
  { apply orb_true_iff in E1 as [E|E]; apply StaticFsProofs.beq_eq in E; subst c; cbn [has_nul existsb orb]; eapply IH; exact H. }
  destruct (beq c [DOT; DOT]) eqn:E2.
  { apply StaticFsProofs.beq_eq in E2; subst c; cbn [has_nul existsb orb]; eapply IH; exact H. }
  destruct (node_at fs (cur ++ [c])) as [nd|] eqn:En; [|discriminate].
  destruct (wf_fs_node_at _ _ _ Hwf En) as [_ F]. apply Forall_app in F as [_ F].
  inversion F as [|? ? (_ & _ & _ & _ & Hn) _]; subst. rewrite Hn. cbn [orb]. eapply IH; exact H.
Qed.

Lemma dir_no_nul fs dir root : wf_fs fs -> walk fs [] (split_on SLASH dir) = Some root -> has_nul dir = false.
Proof. intros Hwf H. rewrite has_nul_split. eapply walk_no_nul; eassumption. Qed.

(* ---- resolve along existing names ---- *)
Lemma ends_with_slash_app a b : b <> [] -> ends_with_slash (a ++ b) = ends_with_slash b.
Proof.
  intro Hb. unfold ends_with_slash. rewrite rev_app_distr.
  destruct (rev b) as [|x r] eqn:E; [|reflexivity].
  apply (f_equal (@rev N)) in E. rewrite rev_involutive in E. now subst b.
Qed.

Lemma ends_with_slash_snoc l x : ends_with_slash (l ++ [x]) = (x =? 47).
Proof. unfold ends_with_slash. rewrite rev_app_distr. cbn [rev app]. rewrite match47. now destruct (x =? 47). Qed.

Lemma resolve_path fs dir p root comps :
  has_nul dir = false -> has_nul p = false ->
  walk fs [] (split_on SLASH dir) = Some root ->
  split_on SLASH p = comps -> Forall step_ok comps ->
  resolve fs (dir ++ [SLASH] ++ p) =
    match node_at fs (root ++ comps) with
    | Some (File _) => if ends_with_slash p then None else Some (root ++ comps)
    | Some (Dir _) => Some (root ++ comps)
    | None => None
    end.
Proof.
  intros Hnd Hnp Hd Hs Hok.
  assert (Hp : p <> []).
  { intros ->. cbn [split_on] in Hs. subst comps. inversion Hok as [|? ? (Hc & _) _]. now apply Hc. }
  unfold resolve. rewrite !has_nul_app, Hnd, Hnp. cbn [has_nul existsb orb].
  change (0 =? 0) with true. change (SLASH =? 0) with false. cbn [orb].
  cbn [app]. rewrite StaticFsProofs.split_on_app, walk_app, Hd, Hs.
  rewrite walk_exact by (assumption || (rewrite <- Hs; apply split_on_nonempty)).
  change (match rev (dir ++ SLASH :: p) with 47 :: _ => true | _ => false end) with (ends_with_slash (dir ++ SLASH :: p)).
  rewrite (ends_with_slash_app dir (SLASH :: p)) by discriminate.
  change (SLASH :: p) with ([SLASH] ++ p). rewrite (ends_with_slash_app [SLASH] p Hp).
  destruct (node_at fs (root ++ comps)) as [[c|es]|] eqn:En; rewrite ?En; reflexivity.
Qed.

(* ------------------------------------------------------------------------------------------------ *)
(* the string  dir_path front ++ t  ("a/b/" ++ "c"): components, forbidden substrings, UTF-8, NUL     *)
(* ------------------------------------------------------------------------------------------------ *)
Definition no_slash (n : bytes) : Prop := existsb (fun b => b =? SLASH) n = false.

Lemma name_ok_no_slash n : name_ok n -> no_slash n.
Proof. now intros (_ & _ & _ & H & _). Qed.

Lemma dir_path_cons x l : dir_path (x :: l) = x ++ SLASH :: dir_path l.
Proof. unfold dir_path. cbn [flat_map]. now rewrite <- app_assoc. Qed.

Lemma join_snoc_dir_path l x : join SLASH (l ++ [x]) = dir_path l ++ x.
Proof.
  induction l as [|y l IH]; [reflexivity|].
  change ((y :: l) ++ [x]) with (y :: (l ++ [x])). rewrite join_cons by (destruct l; discriminate).
  rewrite IH, dir_path_cons, <- app_assoc. reflexivity.
Qed.

Lemma split_path front t :
  Forall no_slash front -> no_slash t -> split_on SLASH (dir_path front ++ t) = front ++ [t].
Proof.
  intros Hf Ht. induction Hf as [|x front Hx Hf IH].
  - cbn [dir_path flat_map app]. now apply split_on_no_delim.
  - rewrite dir_path_cons, <- app_assoc. cbn [app].
    rewrite StaticFsProofs.split_on_app, (split_on_no_delim _ _ Hx), IH. reflexivity.
Qed.

(* ".." cannot straddle a '/' *)
Lemma contains_dd_slash a b :
  contains_sub [DOT; DOT] (a ++ SLASH :: b) = contains_sub [DOT; DOT] a || contains_sub [DOT; DOT] b.
Proof.
  induction a as [|x a IH].
  - cbn [app contains_sub length firstn]. destruct b as [|y b]; reflexivity.
  - cbn [app]. cbn [contains_sub]. rewrite IH. rewrite orb_assoc. f_equal.
    destruct a as [|y a]; cbn [app length firstn beq].
    + change (SLASH =? DOT) with false. reflexivity.
    + reflexivity.
Qed.

Lemma contains_1 c l : contains_sub [c] l = existsb (fun b => b =? c) l.
Proof.
  induction l as [|x l IH]; [reflexivity|]. cbn [contains_sub length firstn beq existsb]. rewrite IH.
  now rewrite andb_true_r.
Qed.

Lemma contains_dd_path front t :
  Forall (fun n => contains_sub [DOT; DOT] n = false) front -> contains_sub [DOT; DOT] t = false ->
  contains_sub [DOT; DOT] (dir_path front ++ t) = false.
Proof.
  intros Hf Ht. induction Hf as [|x front Hx Hf IH]; [exact Ht|].
  rewrite dir_path_cons, <- app_assoc. cbn [app]. now rewrite contains_dd_slash, Hx, IH.
Qed.

Lemma contains_colon_path front t :
  Forall (fun n => contains_sub [58] n = false) front -> contains_sub [58] t = false ->
  contains_sub [58] (dir_path front ++ t) = false.
Proof.
  intros Hf Ht. induction Hf as [|x front Hx Hf IH]; [exact Ht|].
  rewrite dir_path_cons, <- app_assoc. cbn [app]. rewrite contains_1 in *.
  rewrite existsb_app. cbn [existsb]. rewrite Hx, IH. reflexivity.
Qed.

Lemma contains_dd_slashes k l : contains_sub [DOT; DOT] (repeat SLASH k ++ l) = contains_sub [DOT; DOT] l.
Proof.
  induction k as [|k IH]; [reflexivity|]. cbn [repeat app contains_sub]. rewrite IH.
  cbn [length firstn]. destruct (repeat SLASH k ++ l) as [|y r]; reflexivity.
Qed.

Lemma contains_colon_slashes k l : contains_sub [58] (repeat SLASH k ++ l) = contains_sub [58] l.
Proof.
  rewrite !contains_1, existsb_app. induction k as [|k IH]; [reflexivity|]. cbn [repeat existsb]. exact IH.
Qed.

Lemma utf8_path front t : Forall utf8 front -> utf8 t -> utf8 (dir_path front ++ t).
Proof.
  intros Hf Ht. induction Hf as [|x front Hx Hf IH]; [exact Ht|].
  rewrite dir_path_cons, <- app_assoc. cbn [app]. apply utf8_join_ascii; [reflexivity | exact Hx | exact IH].
Qed.

Lemma utf8_slashes k l : utf8 l -> utf8 (repeat SLASH k ++ l).
Proof. intro H. induction k as [|k IH]; [exact H|]. cbn [repeat app]. now apply utf8_ascii_cons. Qed.

Lemma has_nul_path front t : Forall (fun n => has_nul n = false) front -> has_nul t = false ->
  has_nul (dir_path front ++ t) = false.
Proof.
  intros Hf Ht. induction Hf as [|x front Hx Hf IH]; [exact Ht|].
  rewrite dir_path_cons, <- app_assoc. cbn [app]. rewrite has_nul_app, Hx. cbn [orb]. unfold has_nul in *. cbn [existsb].
  exact IH.
Qed.

Lemma trim_start_slashes_repeat k l : trim_start_slashes (repeat SLASH k ++ l) = trim_start_slashes l.
Proof. induction k as [|k IH]; [reflexivity|]. cbn [repeat app]. now rewrite trim_start_slashes_cons, N.eqb_refl. Qed.

Lemma trim_start_no_slash l : no_slash l -> trim_start_slashes l = l.
Proof.
  destruct l as [|x l]; [reflexivity|]. unfold no_slash. cbn [existsb]. intro H. apply orb_false_iff in H as [H _].
  rewrite trim_start_slashes_cons. unfold SLASH in H. now rewrite H.
Qed.

Lemma trim_start_path front t :
  Forall name_ok front -> no_slash t -> trim_start_slashes (dir_path front ++ t) = dir_path front ++ t.
Proof.
  intros Hf Ht. destruct Hf as [|x front Hx Hf]; [now apply trim_start_no_slash|].
  rewrite dir_path_cons, <- app_assoc. destruct Hx as (Hne & _ & _ & Hs & _).
  destruct x as [|b x]; [contradiction|]. cbn [app]. cbn [existsb] in Hs. apply orb_false_iff in Hs as [Hs _].
  rewrite trim_start_slashes_cons. unfold SLASH in Hs. now rewrite Hs.
Qed.

Lemma ends_with_slash_no_slash t : no_slash t -> ends_with_slash t = false.
Proof.
  intro H. destruct (ends_with_slash t) eqn:E; [|reflexivity]. apply ends_with_slash_spec in E as (r & ->).
  unfold no_slash in H. rewrite existsb_app in H. cbn [existsb] in H. rewrite N.eqb_refl in H.
  now rewrite orb_true_r in H.
Qed.

Lemma ends_with_slash_path_file front t : t <> [] -> no_slash t -> ends_with_slash (dir_path front ++ t) = false.
Proof. intros Hne Ht. rewrite ends_with_slash_app by assumption. now apply ends_with_slash_no_slash. Qed.

Lemma ends_with_slash_dir_path front : front <> [] -> ends_with_slash (dir_path front) = true.
Proof. intro H. rewrite dir_path_join by assumption. now rewrite ends_with_slash_snoc. Qed.

(* ------------------------------------------------------------------------------------------------ *)
(* percent-decoding a path segment by segment                                                        *)
(* ------------------------------------------------------------------------------------------------ *)
Lemma PctDenotes_app a a' b b' : PctDenotes a a' -> PctDenotes b b' -> PctDenotes (a ++ b) (a' ++ b').
Proof.
  induction 1 as [|c s d Hc H IH|h1 h2 v1 v2 s d H1 H2 H IH]; intro Hb; [exact Hb| |]; cbn [app].
  - apply pd_lit; [exact Hc | now apply IH].
  - apply pd_esc; [exact H1 | exact H2 | now apply IH].
Qed.

Lemma decode_app a a' b b' :
  pct_decode a = Some a' -> pct_decode b = Some b' -> pct_decode (a ++ b) = Some (a' ++ b').
Proof.
  unfold pct_decode. rewrite !decode_iff_denotes. apply PctDenotes_app.
Qed.

Lemma decode_slash : pct_decode [SLASH] = Some [SLASH].
Proof. reflexivity. Qed.

Lemma decode_slashes k : pct_decode (repeat SLASH k) = Some (repeat SLASH k).
Proof.
  induction k as [|k IH]; [reflexivity|]. change (repeat SLASH (S k)) with ([SLASH] ++ repeat SLASH k).
  apply decode_app; [reflexivity | exact IH].
Qed.

Lemma decode_dir_path segs names : spells segs names -> pct_decode (dir_path segs) = Some (dir_path names).
Proof.
  induction 1 as [|s n segs names Hs H IH]; [reflexivity|].
  rewrite !dir_path_cons. apply decode_app; [exact Hs|].
  change (SLASH :: dir_path segs) with ([SLASH] ++ dir_path segs).
  change (SLASH :: dir_path names) with ([SLASH] ++ dir_path names). apply decode_app; [reflexivity | exact IH].
Qed.

Lemma decode_path k segs st front t :
  spells segs front -> pct_decode st = Some t ->
  pct_decode (repeat SLASH k ++ dir_path segs ++ st) = Some (repeat SLASH k ++ dir_path front ++ t).
Proof.
  intros Hs Ht. apply decode_app; [apply decode_slashes|]. apply decode_app; [now apply decode_dir_path | exact Ht].
Qed.

(* a literal string without '%' decodes to itself *)
Lemma decode_raw n : existsb (fun b => b =? pct) n = false -> pct_decode n = Some n.
Proof.
  unfold pct_decode. induction n as [|c n IH]; [reflexivity|]. cbn [existsb percent_decode]. intro H.
  apply orb_false_iff in H as [H1 H2]. rewrite H1, (IH H2). reflexivity.
Qed.

(* conversely, a string that decodes to itself contains no '%' *)
Lemma decode_self_no_pct n : pct_decode n = Some n -> existsb (fun b => b =? pct) n = false.
Proof.
  unfold pct_decode. intro H.
  assert (L : forall s b, PctDenotes s b -> (length b <= length s)%nat /\
             (existsb (fun c => c =? pct) s = true -> (length b < length s)%nat)).
  { induction 1 as [|c s b Hc H' [IH1 IH2]|h1 h2 v1 v2 s b H1 H2 H' [IH1 IH2]]; cbn [length existsb].
    - split; [lia | discriminate].
    - split; [lia|]. apply N.eqb_neq in Hc. rewrite Hc. cbn [orb]. intro E. specialize (IH2 E). lia.
    - split; [lia|]. intros _. lia. }
  apply decode_iff_denotes in H. destruct (L _ _ H) as [_ L2].
  destruct (existsb (fun c => c =? pct) n); [|reflexivity]. specialize (L2 eq_refl). lia.
Qed.

Lemma spells_raw names : Forall (fun n => pct_decode n = Some n) names -> spells names names.
Proof. induction 1; constructor; assumption. Qed.

Lemma spells_encode names : Forall (Forall is_byte) names -> spells (map percent_encode names) names.
Proof.
  induction 1 as [|n names Hn H IH]; constructor; [|exact IH]. unfold pct_decode. now apply percent_decode_encode.
Qed.

Lemma spells_split segs front t : spells segs (front ++ [t]) ->
  exists sf st, segs = sf ++ [st] /\ spells sf front /\ pct_decode st = Some t.
Proof.
  intro H. apply Forall2_app_inv_r in H as (sf & sl & H1 & H2 & ->).
  inversion H2 as [|st ? sl' ? Hst Hnil]; subst. inversion Hnil; subst. now exists sf, st.
Qed.

(* ------------------------------------------------------------------------------------------------ *)
(* a valid UTF-8 string consists of bytes and does not start with a continuation byte                *)
(* ------------------------------------------------------------------------------------------------ *)
Ltac b2p := repeat match goal with
  | H : _ && _ = true |- _ => apply andb_true_iff in H as [? ?]
  | H : _ || _ = true |- _ => apply orb_true_iff in H as [?|?]
  | H : (_ <=? _) = true |- _ => apply N.leb_le in H
  | H : (_ <? _) = true |- _ => apply N.ltb_lt in H
  | H : (_ =? _) = true |- _ => apply N.eqb_eq in H
  | H : (_ <? _) = false |- _ => apply N.ltb_ge in H
  | H : cont _ = true |- _ => unfold cont in H
  end.

Lemma utf8_char_len_bytes l n : utf8_char_len l = S n ->
  Forall is_byte (firstn (S n) l) /\ match l with b :: _ => cont b = false | [] => True end.
Proof.
  destruct l as [|b r]; [discriminate|]. cbn [utf8_char_len].
  repeat (case_if; [ destruct r as [|c1 [|c2 [|c3 r]]]; try discriminate; repeat case_if; try discriminate;
                     intros [= <-]; cbn [firstn]; b2p;
                     (split; [repeat constructor; unfold is_byte; lia
                             | unfold cont; apply andb_false_iff; rewrite N.leb_gt, N.leb_gt; lia]) | ]).
  discriminate.
Qed.

Lemma utf8_bytes l : utf8 l -> Forall is_byte l.
Proof.
  induction 1 as [|l n E H IH]; [constructor|]. rewrite <- (firstn_skipn (S n) l).
  apply Forall_app. split; [now apply utf8_char_len_bytes | exact IH].
Qed.

Definition starts_on_boundary (l : bytes) : Prop := match l with b :: _ => cont b = false | [] => True end.

Lemma utf8_starts_on_boundary l : utf8 l -> starts_on_boundary l.
Proof. destruct 1 as [|l n E H]; [exact I|]. now apply (utf8_char_len_bytes l n). Qed.

(* ------------------------------------------------------------------------------------------------ *)
(* try_find_path on a clean path                                                                     *)
(* ------------------------------------------------------------------------------------------------ *)
Definition cleanP (n : bytes) : Prop := utf8 n /\ contains_sub [DOT; DOT] n = false /\ contains_sub [58] n = false.

Lemma clean_cleanP n : clean n -> cleanP n.
Proof. intros (H1 & H2 & H3). split; [now apply utf8_valid_iff | now split]. Qed.

Section TryFind.
Variables (fs : node) (directory : bytes) (root : list bytes).
Let dir := trim_end_slashes directory.
Hypothesis Hnul : has_nul dir = false.
Hypothesis Hd : walk fs [] (split_on SLASH dir) = Some root.

(* the decoded request path  "/"^k ++ "a/b/" ++ "c"  with c a name: file, directory or nothing *)
Lemma try_find_path_name k segs st front t :
  spells segs front -> pct_decode st = Some t ->
  Forall name_ok front -> Forall cleanP front -> name_ok t -> cleanP t ->
  try_find_path fs directory (repeat SLASH k ++ dir_path segs ++ st) =
    match node_at fs (root ++ front ++ [t]) with
    | Some (File _) => Some (LFile (root ++ front ++ [t]))
    | Some (Dir _) => Some LDir
    | None => None
    end.
Proof.
  intros Hs Hst Hfo Hfc Hto (Htu & Htd & Htc).
  unfold try_find_path. rewrite (decode_path k segs st front t Hs Hst).
  assert (Hslash : Forall no_slash front) by (eapply Forall_impl; [|exact Hfo]; apply name_ok_no_slash).
  assert (Hu : utf8_valid (repeat SLASH k ++ dir_path front ++ t) = true).
  { apply utf8_valid_iff, utf8_slashes, utf8_path; [|exact Htu]. eapply Forall_impl; [|exact Hfc]. now intros a (? & _). }
  rewrite Hu. cbn [negb].
  rewrite contains_dd_slashes, contains_colon_slashes.
  rewrite contains_dd_path, contains_colon_path; try assumption;
    try (eapply Forall_impl; [|exact Hfc]; now intros a (? & ? & ?)).
  cbn [orb]. rewrite trim_start_slashes_repeat, trim_start_path by (assumption || now apply name_ok_no_slash).
  destruct Hto as (Hne & Hd1 & Hd2 & Hts & Htn).
  rewrite ends_with_slash_path_file by assumption.
  assert (Hnn : dir_path front ++ t <> []) by (destruct (dir_path front); [exact Hne | discriminate]).
  destruct (dir_path front ++ t) as [|y q] eqn:Eq; [contradiction|]. rewrite <- Eq. cbn [orb].
  fold dir.
  rewrite (resolve_path fs dir (dir_path front ++ t) root (front ++ [t]) Hnul).
  - rewrite ends_with_slash_path_file by assumption.
    destruct (node_at fs (root ++ front ++ [t])) as [[c|es]|] eqn:En; rewrite ?En; reflexivity.
  - apply has_nul_path; [|exact Htn]. eapply Forall_impl; [|exact Hfo]. now intros a (_ & _ & _ & _ & ?).
  - exact Hd.
  - now apply split_path.
  - apply Forall_app. split; [eapply Forall_impl; [|exact Hfo]; apply name_ok_step|]. constructor; [|constructor].
    now repeat split.
Qed.

(* index lookup in an existing directory *)
Lemma index_lookup front es f :
  Forall name_ok front -> node_at fs (root ++ front) = Some (Dir es) ->
  name_ok f ->
  resolve fs ((dir ++ [SLASH] ++ dir_path front) ++ f) =
    match assoc_name f es with Some _ => Some (root ++ front ++ [f]) | None => None end /\
  node_at fs (root ++ front ++ [f]) = assoc_name f es.
Proof.
  intros Hfo Hn Hf.
  assert (Hslash : Forall no_slash front) by (eapply Forall_impl; [|exact Hfo]; apply name_ok_no_slash).
  assert (Hat : node_at fs (root ++ front ++ [f]) = assoc_name f es).
  { rewrite app_assoc, node_at_app, Hn. cbn [node_at]. now destruct (assoc_name f es). }
  split; [|exact Hat].
  rewrite <- !app_assoc. destruct Hf as (Hne & Hd1 & Hd2 & Hfs & Hfn).
  rewrite (resolve_path fs dir (dir_path front ++ f) root (front ++ [f]) Hnul).
  - rewrite ends_with_slash_path_file by assumption. rewrite Hat. now destruct (assoc_name f es) as [[c|es']|].
  - apply has_nul_path; [|exact Hfn]. eapply Forall_impl; [|exact Hfo]. now intros a (_ & _ & _ & _ & ?).
  - exact Hd.
  - now apply split_path.
  - apply Forall_app. split; [eapply Forall_impl; [|exact Hfo]; apply name_ok_step|]. constructor; [|constructor].
    now repeat split.
Qed.

Lemma index_html_ok : name_ok INDEX_HTML.
Proof. repeat split; (discriminate || reflexivity). Qed.
Lemma index_htm_ok : name_ok INDEX_HTM.
Proof. repeat split; (discriminate || reflexivity). Qed.

Lemma first_index_dir front es :
  Forall name_ok front -> node_at fs (root ++ front) = Some (Dir es) ->
  first_index fs (dir ++ [SLASH] ++ dir_path front) INDEX_FILES =
    match assoc_name INDEX_HTML es with
    | Some (File _) => Some (LFile (root ++ front ++ [INDEX_HTML]))
    | _ => match assoc_name INDEX_HTM es with
           | Some (File _) => Some (LFile (root ++ front ++ [INDEX_HTM]))
           | _ => None
           end
    end.
Proof.
  intros Hfo Hn. unfold INDEX_FILES. fold INDEX_HTML. fold INDEX_HTM. cbn [first_index].
  destruct (index_lookup front es INDEX_HTML Hfo Hn index_html_ok) as [R1 N1].
  destruct (index_lookup front es INDEX_HTM Hfo Hn index_htm_ok) as [R2 N2].
  rewrite R1, R2.
  destruct (assoc_name INDEX_HTML es) as [[c1|es1]|]; rewrite ?N1;
    destruct (assoc_name INDEX_HTM es) as [[c2|es2]|]; rewrite ?N2; reflexivity.
Qed.

(* the decoded request path  "/"^k ++ "a/b/"  (slash form of a directory; "" for the served directory itself) *)
Lemma try_find_path_slash k segs front es :
  spells segs front -> Forall name_ok front -> Forall cleanP front ->
  node_at fs (root ++ front) = Some (Dir es) ->
  try_find_path fs directory (repeat SLASH k ++ dir_path segs) =
    match assoc_name INDEX_HTML es with
    | Some (File _) => Some (LFile (root ++ front ++ [INDEX_HTML]))
    | _ => match assoc_name INDEX_HTM es with
           | Some (File _) => Some (LFile (root ++ front ++ [INDEX_HTM]))
           | _ => None
           end
    end.
Proof.
  intros Hs Hfo Hfc Hn.
  unfold try_find_path.
  pose proof (decode_path k segs [] front [] Hs eq_refl) as Hdec. rewrite !app_nil_r in Hdec. rewrite Hdec.
  assert (Hu : utf8_valid (repeat SLASH k ++ dir_path front) = true).
  { apply utf8_valid_iff, utf8_slashes. rewrite <- (app_nil_r (dir_path front)). apply utf8_path; [|constructor].
    eapply Forall_impl; [|exact Hfc]. now intros a (? & _). }
  rewrite Hu. cbn [negb].
  rewrite contains_dd_slashes, contains_colon_slashes.
  rewrite <- (app_nil_r (dir_path front)).
  rewrite contains_dd_path, contains_colon_path; try reflexivity;
    try (eapply Forall_impl; [|exact Hfc]; now intros a (? & ? & ?)).
  cbn [orb]. rewrite trim_start_slashes_repeat, trim_start_path by (assumption || reflexivity).
  rewrite app_nil_r. fold dir.
  assert (E : ends_with_slash (dir_path front) || match dir_path front with [] => true | _ :: _ => false end = true).
  { destruct front as [|x front]; [reflexivity|]. now rewrite ends_with_slash_dir_path. }
  rewrite E. now apply first_index_dir.
Qed.
End TryFind.

(* ------------------------------------------------------------------------------------------------ *)
(* prefix stripping                                                                                  *)
(* ------------------------------------------------------------------------------------------------ *)
Lemma strip_prefix_app p r : strip_prefix p (p ++ r) = Some r.
Proof. induction p as [|x p IH]; [now destruct r|]. cbn [app strip_prefix]. now rewrite N.eqb_refl. Qed.

Lemma route_without_wildcard_star p : match rev (p ++ [42]) with 42 :: r => rev r | _ => p ++ [42] end = p.
Proof. rewrite rev_app_distr. cbn [rev app]. apply rev_involutive. Qed.

Lemma route_without_wildcard_none p : last p 0 <> 42 -> match rev p with 42 :: r => rev r | _ => p end = p.
Proof.
  intro H. destruct (rev p) as [|x r] eqn:E; [reflexivity|]. rewrite match42.
  destruct (x =? 42) eqn:Ex; [|reflexivity]. apply N.eqb_eq in Ex. subst x. exfalso. apply H.
  apply (f_equal (@rev N)) in E. rewrite rev_involutive in E. subst p. cbn [rev]. apply last_last.
Qed.

Lemma literal_prefix_len_cons x pat :
  literal_prefix_len (x :: pat) =
  if x =? 42 then O else if cont x then literal_prefix_len pat else S (literal_prefix_len pat).
Proof. cbn [literal_prefix_len]. apply match42. Qed.

Lemma skip_cont_boundary l : starts_on_boundary l -> skip_cont l = l.
Proof. destruct l as [|b r]; [reflexivity|]. cbn [starts_on_boundary skip_cont]. now intros ->. Qed.

Lemma drop_chars_skip suffix rest : literal_prefix_len suffix = O -> starts_on_boundary rest -> forall p, nob 42 p = true ->
  drop_chars (literal_prefix_len (p ++ suffix)) (skip_cont (p ++ rest)) = Some rest.
Proof.
  intros Hsuf Hr. induction p as [|x p IH]; intro Hp.
  - cbn [app]. rewrite Hsuf. cbn [drop_chars]. now rewrite skip_cont_boundary.
  - rewrite nob_cons in Hp. apply andb_true_iff in Hp as [Hx Hp]. apply negb_true_iff in Hx.
    cbn [app]. rewrite literal_prefix_len_cons, Hx. cbn [skip_cont].
    destruct (cont x); [now apply IH|]. cbn [drop_chars]. now apply IH.
Qed.

(* String::remove(0) as many times as the pattern has characters before its first '*' (or in all, without '*') removes
   exactly that prefix *)
Lemma drop_chars_prefix p suffix rest :
  (suffix = [] \/ exists tail, suffix = 42 :: tail) ->
  nob 42 p = true -> starts_on_boundary p -> starts_on_boundary rest ->
  drop_chars (literal_prefix_len (p ++ suffix)) (p ++ rest) = Some rest.
Proof.
  intros Hsuf Hp Hb Hr.
  assert (H0 : literal_prefix_len suffix = O) by (destruct Hsuf as [->|(tail & ->)]; reflexivity).
  rewrite <- (skip_cont_boundary (p ++ rest)); [now apply drop_chars_skip|].
  destruct p as [|x p]; [exact Hr | exact Hb].
Qed.

Lemma decode_boundary s n : pct_decode s = Some n -> starts_on_boundary n -> starts_on_boundary s.
Proof.
  unfold pct_decode. destruct s as [|c r]; [intros; exact I|]. cbn [percent_decode starts_on_boundary].
  destruct (c =? pct) eqn:E; [apply N.eqb_eq in E; subst c; reflexivity|].
  destruct (percent_decode r); [|discriminate]. intros [= <-]. exact (fun H => H).
Qed.

Lemma boundary_app a b : a <> [] -> starts_on_boundary a -> starts_on_boundary (a ++ b).
Proof. destruct a; [contradiction | intros _ H; exact H]. Qed.

Lemma rest_boundary k segs st front t :
  spells segs front -> pct_decode st = Some t -> Forall name_ok front -> Forall cleanP front -> utf8 t ->
  starts_on_boundary (repeat SLASH k ++ dir_path segs ++ st).
Proof.
  intros Hs Hst Hfo Hfc Htu. destruct k as [|k]; [|reflexivity]. cbn [repeat app].
  destruct Hs as [|s n segs front Hsn Hs].
  - cbn [dir_path flat_map app]. eapply decode_boundary; [exact Hst | now apply utf8_starts_on_boundary].
  - rewrite dir_path_cons, <- app_assoc. apply boundary_app.
    + intros ->. inversion Hfo as [|? ? (Hne & _) _]; subst. cbv in Hsn. congruence.
    + eapply decode_boundary; [exact Hsn|]. inversion Hfc as [|? ? (Hu & _) _]; subst. now apply utf8_starts_on_boundary.
Qed.

(* ------------------------------------------------------------------------------------------------ *)
(* Path::extension                                                                                   *)
(* ------------------------------------------------------------------------------------------------ *)
Definition no_dot (l : bytes) : Prop := existsb (fun b => b =? DOT) l = false.

Lemma last_dot_split_no_dot l : no_dot l -> forall acc cur seen,
  last_dot_split l acc cur seen = if seen then Some (acc, cur ++ l) else None.
Proof.
  unfold no_dot. induction l as [|c l IH]; intros H acc cur seen; cbn [last_dot_split].
  - now rewrite app_nil_r.
  - cbn [existsb] in H. apply orb_false_iff in H as [H1 H2]. rewrite H1, (IH H2). now rewrite <- app_assoc.
Qed.

Lemma last_dot_split_spec ext : no_dot ext -> forall l1 acc cur seen,
  last_dot_split (l1 ++ DOT :: ext) acc cur seen =
  Some ((if seen then acc ++ DOT :: cur else cur) ++ l1, ext).
Proof.
  intro He. induction l1 as [|c l1 IH]; intros acc cur seen; cbn [app last_dot_split].
  - rewrite N.eqb_refl, (last_dot_split_no_dot ext He). cbn [app]. now rewrite app_nil_r.
  - destruct (c =? DOT) eqn:E.
    + apply N.eqb_eq in E. subst c. rewrite IH. cbn [app]. f_equal. f_equal. now rewrite <- app_assoc.
    + rewrite IH. f_equal. f_equal. destruct seen; rewrite <- !app_assoc; cbn [app]; rewrite <- ?app_assoc; reflexivity.
Qed.

(* the extension is the text after the last '.', unless the name has no '.' or only a leading one *)
Lemma extension_some stem ext : stem <> [] -> no_dot ext -> extension (stem ++ DOT :: ext) = Some ext.
Proof.
  intros Hs He. unfold extension. rewrite (last_dot_split_spec ext He). cbn [app]. now destruct stem.
Qed.

Lemma extension_none name : no_dot name -> extension name = None.
Proof. intro H. unfold extension. now rewrite (last_dot_split_no_dot name H). Qed.

Lemma extension_hidden r : no_dot r -> extension (DOT :: r) = None.
Proof. intro H. unfold extension. now rewrite (last_dot_split_spec r H []). Qed.

Lemma mime_html : mime_of_ext [104;116;109;108] = [116;101;120;116;47;104;116;109;108].
Proof. vm_compute. reflexivity. Qed.
Lemma mime_htm : mime_of_ext [104;116;109] = [116;101;120;116;47;104;116;109;108].
Proof. vm_compute. reflexivity. Qed.

(* ------------------------------------------------------------------------------------------------ *)
(* serving a located file                                                                            *)
(* ------------------------------------------------------------------------------------------------ *)
Lemma serve_loc_file fs loc t always c :
  node_at fs (loc ++ [t]) = Some (File c) ->
  serve_loc fs (loc ++ [t]) always = R200 c (content_type_of always t).
Proof.
  intro H. unfold serve_loc, content_type_of. rewrite H, last_last. now destruct (extension t).
Qed.

(* ------------------------------------------------------------------------------------------------ *)
(* the handlers: serve_dir and the server's directory routes                                         *)
(* ------------------------------------------------------------------------------------------------ *)
Lemma names_split (names : list bytes) : names <> [] -> names = removelast names ++ [last names []].
Proof. intro H. now apply app_removelast_last. Qed.

Lemma Forall_clean_cleanP names : Forall clean names -> Forall cleanP names.
Proof. intro H. eapply Forall_impl; [|exact H]. apply clean_cleanP. Qed.

(* how a route pattern relates to the literal prefix it strips from the uri *)
Definition path_aware_route (route prefix : bytes) : Prop :=
  route = prefix ++ [42] \/ (route = prefix /\ last prefix 0 <> 42).

Lemma serve_dir_strip route prefix rest :
  path_aware_route route prefix ->
  match strip_prefix (match rev route with 42 :: r => rev r | _ => route end) (prefix ++ rest) with
  | Some r => r | None => prefix ++ rest end = rest.
Proof.
  intros [->|[-> H]].
  - now rewrite route_without_wildcard_star, strip_prefix_app.
  - now rewrite route_without_wildcard_none, strip_prefix_app.
Qed.

Definition directory_route (matches prefix : bytes) : Prop :=
  (matches = prefix \/ exists tail, matches = prefix ++ 42 :: tail) /\
  existsb (fun b => b =? 42) prefix = false /\ utf8_valid prefix = true.

Section Complete.
Variables (fs : node) (directory : bytes) (root : list bytes).
Hypothesis Hwf : wf_fs fs.
Hypothesis Hd : walk fs [] (split_on SLASH (trim_end_slashes directory)) = Some root.

Let Hnul : has_nul (trim_end_slashes directory) = false := dir_no_nul fs _ root Hwf Hd.

Lemma names_ok names nd : node_at fs (root ++ names) = Some nd -> Forall name_ok names.
Proof. intro H. destruct (wf_fs_node_at _ _ _ Hwf H) as [_ F]. now apply Forall_app in F as [_ F]. Qed.

(* the shared path finder locates every clean existing path: files as files, directories as directories *)
Theorem try_find_path_complete k names segs nd :
  names <> [] -> Forall clean names -> spells segs names -> node_at fs (root ++ names) = Some nd ->
  try_find_path fs directory (repeat SLASH k ++ join SLASH segs) =
  match nd with File _ => Some (LFile (root ++ names)) | Dir _ => Some LDir end.
Proof.
  intros Hne Hc Hs Hn. pose proof (names_ok names nd Hn) as Hok. apply Forall_clean_cleanP in Hc.
  rewrite (names_split names Hne) in *. set (front := removelast names) in *. set (t := last names []) in *.
  clearbody front t. clear Hne.
  apply spells_split in Hs as (sf & st & -> & Hsf & Hst). rewrite join_snoc_dir_path.
  apply Forall_app in Hok as [Hfo Hto]. apply Forall_app in Hc as [Hfc Htc].
  inversion Hto as [|? ? Hto' _]; subst. inversion Htc as [|? ? Htc' _]; subst.
  rewrite (try_find_path_name fs directory root Hnul Hd k sf st front t Hsf Hst Hfo Hfc Hto' Htc').
  rewrite Hn. now destruct nd.
Qed.

Lemma rest_boundary_names k names segs nd :
  names <> [] -> Forall clean names -> spells segs names -> node_at fs (root ++ names) = Some nd ->
  starts_on_boundary (repeat SLASH k ++ join SLASH segs).
Proof.
  intros Hne Hc Hs Hn. pose proof (names_ok names nd Hn) as Hok. apply Forall_clean_cleanP in Hc.
  rewrite (names_split names Hne) in *. set (front := removelast names) in *. set (t := last names []) in *.
  clearbody front t. clear Hne.
  apply spells_split in Hs as (sf & st & -> & Hsf & Hst). rewrite join_snoc_dir_path.
  apply Forall_app in Hok as [Hfo _]. apply Forall_app in Hc as [Hfc Htc].
  inversion Htc as [|? ? (Htu & _) _]; subst.
  now apply (rest_boundary k sf st front t).
Qed.

Lemma serve_loc_names names always c :
  names <> [] -> node_at fs (root ++ names) = Some (File c) ->
  serve_loc fs (root ++ names) always = R200 c (content_type_of always (last names [])).
Proof.
  intros Hne Hn. rewrite (names_split names Hne) in Hn |- * at 1. rewrite app_assoc in *. now apply serve_loc_file.
Qed.

Lemma directory_strip matches prefix rest :
  directory_route matches prefix -> starts_on_boundary rest ->
  drop_chars (literal_prefix_len matches) (prefix ++ rest) = Some rest.
Proof.
  intros (Hm & Hstar & Hu) Hr.
  assert (E : exists suffix, matches = prefix ++ suffix /\ (suffix = [] \/ exists tail, suffix = 42 :: tail)).
  { destruct Hm as [->|(tail & ->)]; [exists []; rewrite app_nil_r; now split; [|left] | exists (42 :: tail); split; [reflexivity | right; now exists tail]]. }
  destruct E as (suffix & -> & Hsuf).
  apply drop_chars_prefix; [exact Hsuf | now apply existsb_nob | | exact Hr].
  now apply utf8_starts_on_boundary, utf8_valid_iff.
Qed.

(* 1. serve_dir returns every clean file *)
Theorem serve_dir_complete route prefix k names segs content :
  path_aware_route route prefix ->
  names <> [] -> Forall clean names -> spells segs names ->
  node_at fs (root ++ names) = Some (File content) ->
  serve_dir fs directory route (prefix ++ repeat SLASH k ++ join SLASH segs) =
  R200 content (content_type_of false (last names [])).
Proof.
  intros Hr Hne Hc Hs Hn. unfold serve_dir. rewrite (serve_dir_strip route prefix _ Hr).
  rewrite (try_find_path_complete k names segs _ Hne Hc Hs Hn). now apply serve_loc_names.
Qed.

(* 2. so do the server's directory routes *)
Theorem directory_handler_complete matches prefix k names segs content :
  directory_route matches prefix ->
  names <> [] -> Forall clean names -> spells segs names ->
  node_at fs (root ++ names) = Some (File content) ->
  directory_handler fs directory matches (prefix ++ repeat SLASH k ++ join SLASH segs) =
  R200 content (content_type_of true (last names [])).
Proof.
  intros Hr Hne Hc Hs Hn. unfold directory_handler.
  rewrite (directory_strip matches prefix _ Hr (rest_boundary_names k names segs _ Hne Hc Hs Hn)).
  rewrite (try_find_path_complete k names segs _ Hne Hc Hs Hn). now apply serve_loc_names.
Qed.

(* 4. a directory requested without trailing slash redirects to the slash form *)
Theorem serve_dir_redirect route prefix k names segs es :
  path_aware_route route prefix ->
  names <> [] -> Forall clean names -> spells segs names ->
  node_at fs (root ++ names) = Some (Dir es) ->
  serve_dir fs directory route (prefix ++ repeat SLASH k ++ join SLASH segs) =
  R301 ((prefix ++ repeat SLASH k ++ join SLASH segs) ++ [SLASH]).
Proof.
  intros Hr Hne Hc Hs Hn. unfold serve_dir. rewrite (serve_dir_strip route prefix _ Hr).
  now rewrite (try_find_path_complete k names segs _ Hne Hc Hs Hn).
Qed.

Theorem directory_handler_redirect matches prefix k names segs es :
  directory_route matches prefix ->
  names <> [] -> Forall clean names -> spells segs names ->
  node_at fs (root ++ names) = Some (Dir es) ->
  directory_handler fs directory matches (prefix ++ repeat SLASH k ++ join SLASH segs) =
  R301 ((prefix ++ repeat SLASH k ++ join SLASH segs) ++ [SLASH]).
Proof.
  intros Hr Hne Hc Hs Hn. unfold directory_handler.
  rewrite (directory_strip matches prefix _ Hr (rest_boundary_names k names segs _ Hne Hc Hs Hn)).
  now rewrite (try_find_path_complete k names segs _ Hne Hc Hs Hn).
Qed.

(* 5. the slash form serves index.html, else index.htm, else 404 (names = [] is the served directory itself) *)
Lemma index_serve front es always :
  node_at fs (root ++ front) = Some (Dir es) ->
  match
    match assoc_name INDEX_HTML es with
    | Some (File _) => Some (LFile (root ++ front ++ [INDEX_HTML]))
    | _ => match assoc_name INDEX_HTM es with
           | Some (File _) => Some (LFile (root ++ front ++ [INDEX_HTM]))
           | _ => None
           end
    end
  with
  | Some LDir => R301 []
  | Some (LFile loc) => serve_loc fs loc always
  | None => R404
  end = index_response es.
Proof.
  intro Hn. unfold index_response.
  assert (A : forall f, node_at fs ((root ++ front) ++ [f]) = assoc_name f es).
  { intro f. rewrite node_at_app, Hn. cbn [node_at]. now destruct (assoc_name f es). }
  destruct (assoc_name INDEX_HTML es) as [[c1|es1]|] eqn:E1.
  - rewrite app_assoc. rewrite (serve_loc_file fs (root ++ front) INDEX_HTML always c1) by (now rewrite A). reflexivity.
  - destruct (assoc_name INDEX_HTM es) as [[c2|es2]|] eqn:E2; try reflexivity.
    rewrite app_assoc. rewrite (serve_loc_file fs (root ++ front) INDEX_HTM always c2) by (now rewrite A). reflexivity.
  - destruct (assoc_name INDEX_HTM es) as [[c2|es2]|] eqn:E2; try reflexivity.
    rewrite app_assoc. rewrite (serve_loc_file fs (root ++ front) INDEX_HTM always c2) by (now rewrite A). reflexivity.
Qed.

Lemma try_find_path_index k names segs es :
  Forall clean names -> spells segs names -> node_at fs (root ++ names) = Some (Dir es) ->
  try_find_path fs directory (repeat SLASH k ++ dir_path segs) =
    match assoc_name INDEX_HTML es with
    | Some (File _) => Some (LFile (root ++ names ++ [INDEX_HTML]))
    | _ => match assoc_name INDEX_HTM es with
           | Some (File _) => Some (LFile (root ++ names ++ [INDEX_HTM]))
           | _ => None
           end
    end.
Proof.
  intros Hc Hs Hn. apply (try_find_path_slash fs directory root Hnul Hd k segs names es Hs); [|now apply Forall_clean_cleanP|exact Hn].
  exact (names_ok names _ Hn).
Qed.

Theorem serve_dir_index route prefix k names segs es :
  path_aware_route route prefix ->
  Forall clean names -> spells segs names ->
  node_at fs (root ++ names) = Some (Dir es) ->
  serve_dir fs directory route (prefix ++ repeat SLASH k ++ dir_path segs) = index_response es.
Proof.
  intros Hr Hc Hs Hn. unfold serve_dir. rewrite (serve_dir_strip route prefix _ Hr).
  rewrite (try_find_path_index k names segs es Hc Hs Hn).
  rewrite <- (index_serve names es false Hn).
  destruct (assoc_name INDEX_HTML es) as [[?|?]|]; try reflexivity; destruct (assoc_name INDEX_HTM es) as [[?|?]|]; reflexivity.
Qed.

Lemma dir_rest_boundary k names segs es :
  Forall clean names -> spells segs names -> node_at fs (root ++ names) = Some (Dir es) ->
  starts_on_boundary (repeat SLASH k ++ dir_path segs).
Proof.
  intros Hc Hs Hn. rewrite <- (app_nil_r (dir_path segs)).
  apply (rest_boundary k segs [] names []); [exact Hs | reflexivity | exact (names_ok names _ Hn) | now apply Forall_clean_cleanP | constructor].
Qed.

Theorem directory_handler_index matches prefix k names segs es :
  directory_route matches prefix ->
  Forall clean names -> spells segs names ->
  node_at fs (root ++ names) = Some (Dir es) ->
  directory_handler fs directory matches (prefix ++ repeat SLASH k ++ dir_path segs) = index_response es.
Proof.
  intros Hr Hc Hs Hn. unfold directory_handler.
  rewrite (directory_strip matches prefix _ Hr (dir_rest_boundary k names segs es Hc Hs Hn)).
  rewrite (try_find_path_index k names segs es Hc Hs Hn).
  rewrite <- (index_serve names es true Hn).
  destruct (assoc_name INDEX_HTML es) as [[?|?]|]; try reflexivity; destruct (assoc_name INDEX_HTM es) as [[?|?]|]; reflexivity.
Qed.

(* a clean path that does not exist is a 404 (no other file is served in its place) *)
Theorem serve_dir_missing route prefix k front t segs es :
  path_aware_route route prefix ->
  Forall clean (front ++ [t]) -> name_ok t -> spells segs (front ++ [t]) ->
  node_at fs (root ++ front) = Some (Dir es) -> assoc_name t es = None ->
  serve_dir fs directory route (prefix ++ repeat SLASH k ++ join SLASH segs) = R404.
Proof.
  intros Hr Hc Ht Hs Hn Hnone. unfold serve_dir. rewrite (serve_dir_strip route prefix _ Hr).
  apply Forall_clean_cleanP in Hc. apply Forall_app in Hc as [Hfc Htc]. inversion Htc as [|? ? Htc' _]; subst.
  apply spells_split in Hs as (sf & st & -> & Hsf & Hst). rewrite join_snoc_dir_path.
  rewrite (try_find_path_name fs directory root Hnul Hd k sf st front t Hsf Hst (names_ok front _ Hn) Hfc Ht Htc').
  rewrite app_assoc, node_at_app, Hn. cbn [node_at]. now rewrite Hnone.
Qed.
End Complete.

(* ------------------------------------------------------------------------------------------------ *)
(* 3. serve_as_file_path: the literal (undecoded) path                                               *)
(* ------------------------------------------------------------------------------------------------ *)
Theorem serve_as_file_path_complete fs directory root names content :
  wf_fs fs ->
  walk fs [] (split_on SLASH (match rev directory with 47 :: r => rev r | _ => directory end)) = Some root ->
  names <> [] -> Forall no_dd_colon names ->
  node_at fs (root ++ names) = Some (File content) ->
  serve_as_file_path fs directory (SLASH :: join SLASH names) =
  R200 content (content_type_of false (last names [])).
Proof.
  intros Hwf Hd Hne Hc Hn. change (SLASH :: join SLASH names) with (47 :: join SLASH names).
  unfold serve_as_file_path. lazy match.
  match goal with |- context [resolve fs (?d ++ _)] => set (dir := d) in * end.
  change (walk fs [] (split_on SLASH dir) = Some root) in Hd.
  pose proof (dir_no_nul fs dir root Hwf Hd) as Hnul.
  destruct (wf_fs_node_at _ _ _ Hwf Hn) as [_ Hok]. apply Forall_app in Hok as [_ Hok].
  rewrite (names_split names Hne) in *. set (front := removelast names) in *. set (t := last names []) in *.
  clearbody front t. clear Hne. rewrite join_snoc_dir_path, last_last.
  apply Forall_app in Hok as [Hfo Hto]. apply Forall_app in Hc as [Hfc Htc].
  inversion Hto as [|? ? Hto' _]; subst. inversion Htc as [|? ? (Htd & Htc') _]; subst.
  assert (Hslash : Forall no_slash front) by (eapply Forall_impl; [|exact Hfo]; apply name_ok_no_slash).
  rewrite contains_dd_path, contains_colon_path; try assumption;
    try (eapply Forall_impl; [|exact Hfc]; now intros a (? & ?)).
  cbn [orb]. destruct Hto' as (Hne & Hd1 & Hd2 & Hts & Htn).
  rewrite (resolve_path fs dir (dir_path front ++ t) root (front ++ [t]) Hnul).
  - rewrite ends_with_slash_path_file by assumption. rewrite Hn, Hn.
    cbn [app]. rewrite StaticFsProofs.split_on_app, split_path by assumption.
    rewrite app_assoc, last_last. unfold content_type_of. now destruct (extension t).
  - apply has_nul_path; [|exact Htn]. eapply Forall_impl; [|exact Hfo]. now intros a (_ & _ & _ & _ & ?).
  - exact Hd.
  - now apply split_path.
  - apply Forall_app. split; [eapply Forall_impl; [|exact Hfo]; apply name_ok_step|]. constructor; [|constructor].
    now repeat split.
Qed.

(* ------------------------------------------------------------------------------------------------ *)
(* the two spellings the property names                                                              *)
(* ------------------------------------------------------------------------------------------------ *)
Lemma clean_bytes names : Forall clean names -> Forall (Forall is_byte) names.
Proof. intro H. eapply Forall_impl; [|exact H]. intros a (Hu & _). now apply utf8_bytes, utf8_valid_iff. Qed.

(* every name percent-encoded (the unreserved bytes stay, every other byte becomes %XX) *)
Lemma spells_encoded names : Forall clean names -> spells (map percent_encode names) names.
Proof. intro H. now apply spells_encode, clean_bytes. Qed.

Lemma decode_self_iff n : pct_decode n = Some n <-> existsb (fun b => b =? pct) n = false.
Proof. split; [apply decode_self_no_pct | apply decode_raw]. Qed.

(* ------------------------------------------------------------------------------------------------ *)
(* the statements as the property words them: request = route prefix ++ the path, each name percent-encoded (or raw)  *)
(* ------------------------------------------------------------------------------------------------ *)
Section Spelled.
Variables (fs : node) (directory : bytes) (root : list bytes).
Hypothesis Hwf : wf_fs fs.
Hypothesis Hd : walk fs [] (split_on SLASH (trim_end_slashes directory)) = Some root.

Corollary serve_dir_complete_encoded route prefix names content :
  path_aware_route route prefix -> names <> [] -> Forall clean names ->
  node_at fs (root ++ names) = Some (File content) ->
  serve_dir fs directory route (prefix ++ join SLASH (map percent_encode names)) =
  R200 content (content_type_of false (last names [])).
Proof.
  intros Hr Hne Hc Hn.
  exact (serve_dir_complete fs directory root Hwf Hd route prefix 0 names _ content Hr Hne Hc (spells_encoded names Hc) Hn).
Qed.

Corollary serve_dir_complete_raw route prefix names content :
  path_aware_route route prefix -> names <> [] -> Forall clean names ->
  Forall (fun n => pct_decode n = Some n) names ->
  node_at fs (root ++ names) = Some (File content) ->
  serve_dir fs directory route (prefix ++ join SLASH names) =
  R200 content (content_type_of false (last names [])).
Proof.
  intros Hr Hne Hc Hraw Hn.
  exact (serve_dir_complete fs directory root Hwf Hd route prefix 0 names _ content Hr Hne Hc (spells_raw names Hraw) Hn).
Qed.

Corollary directory_handler_complete_encoded matches prefix names content :
  directory_route matches prefix -> names <> [] -> Forall clean names ->
  node_at fs (root ++ names) = Some (File content) ->
  directory_handler fs directory matches (prefix ++ join SLASH (map percent_encode names)) =
  R200 content (content_type_of true (last names [])).
Proof.
  intros Hr Hne Hc Hn.
  exact (directory_handler_complete fs directory root Hwf Hd matches prefix 0 names _ content Hr Hne Hc
           (spells_encoded names Hc) Hn).
Qed.

Corollary directory_handler_complete_raw matches prefix names content :
  directory_route matches prefix -> names <> [] -> Forall clean names ->
  Forall (fun n => pct_decode n = Some n) names ->
  node_at fs (root ++ names) = Some (File content) ->
  directory_handler fs directory matches (prefix ++ join SLASH names) =
  R200 content (content_type_of true (last names [])).
Proof.
  intros Hr Hne Hc Hraw Hn.
  exact (directory_handler_complete fs directory root Hwf Hd matches prefix 0 names _ content Hr Hne Hc
           (spells_raw names Hraw) Hn).
Qed.

Corollary serve_dir_redirect_encoded route prefix names es :
  path_aware_route route prefix -> names <> [] -> Forall clean names ->
  node_at fs (root ++ names) = Some (Dir es) ->
  serve_dir fs directory route (prefix ++ join SLASH (map percent_encode names)) =
  R301 ((prefix ++ join SLASH (map percent_encode names)) ++ [SLASH]).
Proof.
  intros Hr Hne Hc Hn.
  exact (serve_dir_redirect fs directory root Hwf Hd route prefix 0 names _ es Hr Hne Hc (spells_encoded names Hc) Hn).
Qed.

Corollary directory_handler_redirect_encoded matches prefix names es :
  directory_route matches prefix -> names <> [] -> Forall clean names ->
  node_at fs (root ++ names) = Some (Dir es) ->
  directory_handler fs directory matches (prefix ++ join SLASH (map percent_encode names)) =
  R301 ((prefix ++ join SLASH (map percent_encode names)) ++ [SLASH]).
Proof.
  intros Hr Hne Hc Hn.
  exact (directory_handler_redirect fs directory root Hwf Hd matches prefix 0 names _ es Hr Hne Hc
           (spells_encoded names Hc) Hn).
Qed.

Corollary serve_dir_index_encoded route prefix names es :
  path_aware_route route prefix -> names <> [] -> Forall clean names ->
  node_at fs (root ++ names) = Some (Dir es) ->
  serve_dir fs directory route (prefix ++ join SLASH (map percent_encode names) ++ [SLASH]) = index_response es.
Proof.
  intros Hr Hne Hc Hn. rewrite <- dir_path_join by (destruct names; [contradiction | discriminate]).
  exact (serve_dir_index fs directory root Hwf Hd route prefix 0 names _ es Hr Hc (spells_encoded names Hc) Hn).
Qed.

Corollary directory_handler_index_encoded matches prefix names es :
  directory_route matches prefix -> names <> [] -> Forall clean names ->
  node_at fs (root ++ names) = Some (Dir es) ->
  directory_handler fs directory matches (prefix ++ join SLASH (map percent_encode names) ++ [SLASH]) = index_response es.
Proof.
  intros Hr Hne Hc Hn. rewrite <- dir_path_join by (destruct names; [contradiction | discriminate]).
  exact (directory_handler_index fs directory root Hwf Hd matches prefix 0 names _ es Hr Hc (spells_encoded names Hc) Hn).
Qed.

(* the served directory itself: the request is the route prefix alone *)
Corollary serve_dir_index_root route prefix es :
  path_aware_route route prefix -> node_at fs root = Some (Dir es) ->
  serve_dir fs directory route prefix = index_response es.
Proof.
  intros Hr Hn. rewrite <- (app_nil_r root) in Hn. rewrite <- (app_nil_r prefix) at 1.
  exact (serve_dir_index fs directory root Hwf Hd route prefix 0 [] [] es Hr (Forall_nil _) (Forall2_nil _) Hn).
Qed.

Corollary directory_handler_index_root matches prefix es :
  directory_route matches prefix -> node_at fs root = Some (Dir es) ->
  directory_handler fs directory matches prefix = index_response es.
Proof.
  intros Hr Hn. rewrite <- (app_nil_r root) in Hn. rewrite <- (app_nil_r prefix) at 1.
  exact (directory_handler_index fs directory root Hwf Hd matches prefix 0 [] [] es Hr (Forall_nil _) (Forall2_nil _) Hn).
Qed.
End Spelled.

(* ------------------------------------------------------------------------------------------------ *)
(* reading aids                                                                                      *)
(* ------------------------------------------------------------------------------------------------ *)
Lemma assoc_name_iff n es v : NoDup (map fst es) -> (In (n, v) es <-> assoc_name n es = Some v).
Proof. intro H. split; [now apply assoc_name_unique | apply assoc_name_In]. Qed.

Lemma split_join names : names <> [] ->
  Forall (fun n => existsb (fun b => b =? SLASH) n = false) names -> split_on SLASH (join SLASH names) = names.
Proof.
  intros Hne H. rewrite (names_split names Hne) in *. apply Forall_app in H as [Hf Ht].
  inversion Ht as [|? ? Ht' _]; subst. rewrite join_snoc_dir_path. now apply split_path.
Qed.

Lemma index_response_spec es :
  index_response es =
  match assoc_name [105;110;100;101;120;46;104;116;109;108] es with
  | Some (File c) => R200 c (Some [116;101;120;116;47;104;116;109;108])
  | _ => match assoc_name [105;110;100;101;120;46;104;116;109] es with
         | Some (File c) => R200 c (Some [116;101;120;116;47;104;116;109;108])
         | _ => R404
         end
  end.
Proof. unfold index_response. rewrite mime_html, mime_htm. reflexivity. Qed.

(* ------------------------------------------------------------------------------------------------ *)
(* the exclusions are sharp: a file whose name has "..", ':' or is not UTF-8 is NOT served (404), although it is a    *)
(* possible entry of a well-formed tree.  (Confirmed on the real handlers: names "a..b", "a:b", "\xff.txt".)         *)
(* ------------------------------------------------------------------------------------------------ *)
Lemma complete_exclusions_sharp :
  forall bad, In bad [[97;46;46;98]; [97;58;98]; [255;46;116;120;116]] ->
    wf_fs (one_file_tree bad) /\
    walk (one_file_tree bad) [] (split_on SLASH (trim_end_slashes [47;119;119;119])) = Some [[119;119;119]] /\
    node_at (one_file_tree bad) ([[119;119;119]] ++ [bad]) = Some (File [1]) /\
    serve_dir (one_file_tree bad) [47;119;119;119] [47;42] ([47] ++ join SLASH (map percent_encode [bad])) = R404 /\
    directory_handler (one_file_tree bad) [47;119;119;119] [47;42] ([47] ++ join SLASH (map percent_encode [bad])) = R404 /\
    ~ clean bad.
Proof.
  intros bad [<-|[<-|[<-|[]]]]; (split; [apply wf_fsb_sound; vm_compute; reflexivity|]);
    repeat (split; [vm_compute; reflexivity|]); intros (H1 & H2 & H3); vm_compute in H1, H2, H3; discriminate.
Qed.
