(* C06, converse direction: every clean file inside the served directory is returned intact with the Content-Type of its
   extension; directories redirect / serve their index.  Lemmas; the property theorems are in props/C06_complete.v. *)
From Coq Require Import Lia.
From Hv Require Import Prelude Bytes BytesProofs TablesHttp Http TablesPct Percent PercentProofs StaticFs StaticFsProofs
  StaticFsSpec.
Open Scope N_scope.
Arguments N.eqb : simpl never.
Arguments N.leb : simpl never.
Arguments N.ltb : simpl never.

(* BytesProofs and StaticFsProofs both define beq_eq / beq_refl / split_on_app; the StaticFsProofs ones are the last
   imported.  Qualified names are used where it matters. *)

(* ------------------------------------------------------------------------------------------------ *)
(* small facts                                                                                       *)
(* ------------------------------------------------------------------------------------------------ *)
Lemma match42 {A} (x : N) (a b : A) :
  match x with 42 => a | _ => b end = if x =? 42 then a else b.
Proof.
  destruct x as [|p]; [reflexivity|].
  repeat (destruct p as [p|p|]; try reflexivity).
Qed.

Lemma existsb_nob d l : existsb (fun b => b =? d) l = false <-> nob d l = true.
Proof.
  unfold nob. induction l as [|x l IH]; cbn [existsb forallb]; [tauto|].
  destruct (x =? d); cbn [negb orb andb]; [split; discriminate | exact IH].
Qed.

Lemma has_nul_app a b : has_nul (a ++ b) = has_nul a || has_nul b.
Proof. unfold has_nul. apply existsb_app. Qed.

Lemma join_is_join_byte d l : join d l = join_byte d l.
Proof. induction l as [|x [|y l] IH]; reflexivity. Qed.

Lemma join_cons d x l : l <> [] -> join d (x :: l) = x ++ d :: join d l.
Proof. destruct l; [contradiction | reflexivity]. Qed.

Lemma join_snoc d l x : l <> [] -> join d (l ++ [x]) = join d l ++ d :: x.
Proof.
  induction l as [|y l IH]; intro H; [contradiction|].
  destruct l as [|z l]; [reflexivity|].
  change ((y :: z :: l) ++ [x]) with (y :: ((z :: l) ++ [x])).
  rewrite join_cons by (destruct l; discriminate). rewrite IH by discriminate.
  rewrite (join_cons d y (z :: l)) by discriminate. now rewrite <- app_assoc.
Qed.

Lemma dir_path_join l : l <> [] -> dir_path l = join SLASH l ++ [SLASH].
Proof.
  induction l as [|x l IH]; intro H; [contradiction|]. unfold dir_path in *. cbn [flat_map].
  destruct l as [|y l]; [cbn [flat_map join]; now rewrite app_nil_r|].
  rewrite IH by discriminate. rewrite (join_cons SLASH x (y :: l)) by discriminate. now rewrite <- !app_assoc.
Qed.

Lemma dir_path_app a b : dir_path (a ++ b) = dir_path a ++ dir_path b.
Proof. unfold dir_path. now rewrite flat_map_app. Qed.

(* ------------------------------------------------------------------------------------------------ *)
(* the file tree                                                                                     *)
(* ------------------------------------------------------------------------------------------------ *)
Lemma assoc_name_In n es v : assoc_name n es = Some v -> In (n, v) es.
Proof.
  induction es as [|[k w] es IH]; cbn [assoc_name]; [discriminate|].
  destruct (beq n k) eqn:E.
  - apply StaticFsProofs.beq_eq in E. subst k. intros [= ->]. now left.
  - intro H. right. now apply IH.
Qed.

(* with unique names, the first entry called n is the entry called n *)
Lemma assoc_name_unique n es v : NoDup (map fst es) -> In (n, v) es -> assoc_name n es = Some v.
Proof.
  induction es as [|[k w] es IH]; intros Hnd Hin; [destruct Hin|].
  cbn [map fst] in Hnd. inversion Hnd as [|? ? Hk Hnd']; subst. cbn [assoc_name].
  destruct Hin as [[= -> ->]|Hin].
  - now rewrite StaticFsProofs.beq_refl.
  - destruct (beq n k) eqn:E; [|now apply IH].
    apply StaticFsProofs.beq_eq in E. subst k. exfalso. apply Hk.
    change n with (fst (n, v)). now apply in_map.
Qed.

Lemma node_at_app fs a b :
  node_at fs (a ++ b) = match node_at fs a with Some n => node_at n b | None => None end.
Proof.
  revert fs. induction a as [|x a IH]; intro fs; [reflexivity|]. cbn [app node_at].
  destruct fs as [c|es]; [reflexivity|]. destruct (assoc_name x es); [apply IH | reflexivity].
Qed.

Lemma node_at_file_cons c x l : node_at (File c) (x :: l) = None.
Proof. reflexivity. Qed.

(* well-formedness is inherited, and every name on an existing path is a possible name *)
Lemma wf_fs_node_at : forall loc fs n, wf_fs fs -> node_at fs loc = Some n -> wf_fs n /\ Forall name_ok loc.
Proof.
  induction loc as [|x loc IH]; intros fs n Hwf H; cbn [node_at] in H.
  - injection H as <-. now split.
  - destruct fs as [c|es]; [discriminate|].
    destruct (assoc_name x es) as [ch|] eqn:E; [|discriminate]. apply assoc_name_In in E.
    inversion Hwf as [|? Hnd Hnames Hsub]; subst.
    destruct (IH ch n (Hsub _ _ E) H) as [W F]. split; [exact W|]. constructor; [now apply (Hnames x ch)|exact F].
Qed.

Lemma name_okb_ok n : name_okb n = true -> name_ok n.
Proof.
  unfold name_okb, name_ok. intro H.
  repeat (apply andb_true_iff in H as [H ?]).
  repeat match goal with X : negb _ = true |- _ => apply negb_true_iff in X end.
  repeat split; try assumption; now apply StaticFsProofs.beq_false.
Qed.

Lemma nodupb_NoDup l : nodupb l = true -> NoDup l.
Proof.
  induction l as [|x l IH]; cbn [nodupb]; intro H; [constructor|].
  apply andb_true_iff in H as [H1 H2]. apply negb_true_iff in H1. constructor; [|now apply IH].
  intro Hin. assert (E : existsb (beq x) l = true) by (apply existsb_exists; exists x; split; [exact Hin | apply StaticFsProofs.beq_refl]).
  congruence.
Qed.

Lemma wf_fsb_sound : forall fs, wf_fsb fs = true -> wf_fs fs.
Proof.
  fix REC 1. intros [c|es] H; [constructor|]. cbn [wf_fsb] in H.
  apply andb_true_iff in H as [Hnd Hgo]. apply nodupb_NoDup in Hnd.
  assert (G : forall k v, In (k, v) es -> name_ok k /\ wf_fs v).
  { clear Hnd. induction es as [|[k0 v0] es IHes]; intros k v Hin; [destruct Hin|].
    apply andb_true_iff in Hgo as [Hkv Hgo]. apply andb_true_iff in Hkv as [Hk Hv].
    destruct Hin as [[= <- <-]|Hin].
    - split; [now apply name_okb_ok | now apply REC].
    - now apply IHes. }
  constructor; [exact Hnd | intros k v Hin; now apply (G k v) | intros k v Hin; now apply (G k v)].
Qed.

(* ------------------------------------------------------------------------------------------------ *)
(* walking along existing names                                                                      *)
(* ------------------------------------------------------------------------------------------------ *)
(* a component that `walk` looks up (neither skipped nor "..") *)
Definition step_ok (c : bytes) : Prop := c <> [] /\ c <> [DOT] /\ c <> [DOT; DOT].

Lemma name_ok_step c : name_ok c -> step_ok c.
Proof. intros (H1 & H2 & H3 & _). now repeat split. Qed.

Lemma walk_step fs cur c comps es :
  node_at fs cur = Some (Dir es) -> step_ok c ->
  walk fs cur (c :: comps) =
  match node_at fs (cur ++ [c]) with Some _ => walk fs (cur ++ [c]) comps | None => None end.
Proof.
  intros Hn (H1 & H2 & H3). cbn [walk]. rewrite Hn.
  apply StaticFsProofs.beq_false in H1, H2, H3. rewrite H1, H2, H3. reflexivity.
Qed.

(* for components that are all looked up, walking succeeds exactly when the whole path exists, and lands on it *)
Lemma walk_exact fs : forall comps cur, Forall step_ok comps -> comps <> [] ->
  walk fs cur comps = match node_at fs (cur ++ comps) with Some _ => Some (cur ++ comps) | None => None end.
Proof.
  induction comps as [|c comps IH]; intros cur Hok Hne; [contradiction|].
  inversion Hok as [|? ? Hc Hok']; subst.
  rewrite (node_at_app fs cur (c :: comps)).
  destruct (node_at fs cur) as [[f|es]|] eqn:Ecur.
  - cbn [walk]. rewrite Ecur. reflexivity.
  - rewrite (walk_step fs cur c comps es Ecur Hc).
    rewrite (node_at_app fs cur [c]), Ecur.
    cbn [node_at]. destruct (assoc_name c es) as [ch|] eqn:Ea; [|reflexivity].
    destruct comps as [|c' comps'].
    + cbn [walk node_at]. reflexivity.
    + rewrite IH by (assumption || discriminate). rewrite <- app_assoc. cbn [app].
      rewrite (node_at_app fs cur (c :: c' :: comps')), Ecur. cbn [node_at]. rewrite Ea. reflexivity.
  - cbn [walk]. rewrite Ecur. reflexivity.
Qed.

(* ---- NUL bytes: a directory string that resolves in a well-formed tree has none ---- *)
Lemma has_nul_split p : has_nul p = existsb has_nul (split_on SLASH p).
Proof.
  induction p as [|x p IH]; [reflexivity|]. cbn [split_on].
  destruct (x =? SLASH) eqn:E.
  - apply N.eqb_eq in E. subst x. cbn [existsb]. rewrite <- IH. reflexivity.
  - pose proof (split_on_nonempty SLASH p) as Hne. destruct (split_on SLASH p) as [|f fs]; [congruence|].
    cbn [existsb] in *. unfold has_nul in *. cbn [existsb]. rewrite IH. now rewrite orb_assoc.
Qed.

Lemma walk_no_nul fs : wf_fs fs -> forall comps cur loc,
  walk fs cur comps = Some loc -> existsb has_nul comps = false.
Proof.
  intros Hwf. induction comps as [|c comps IH]; intros cur loc H; [reflexivity|]. cbn [walk] in H. cbn [existsb].
  destruct (node_at fs cur) as [[?|es]|]; try discriminate.
  destruct (beq c [] || beq c [DOT]) eqn:E1.
  { apply orb_true_iff in E1 as [E|E]; apply StaticFsProofs.beq_eq in E; subst c; cbn [has_nul existsb orb]; eapply IH; exact H. }
  destruct (beq c [DOT; DOT]) eqn:E2.
  { apply StaticFsProofs.beq_eq in E2; subst c; cbn [has_nul existsb orb]; eapply IH; exact H. }
  destruct (node_at fs (cur ++ [c])) as [nd|] eqn:En; [|discriminate].
  destruct (wf_fs_node_at _ _ _ Hwf En) as [_ F]. apply Forall_app in F as [_ F].
  inversion F as [|? ? (_ & _ & _ & _ & Hn) _]; subst. rewrite Hn. cbn [orb]. eapply IH; exact H.
Qed.

Lemma dir_no_nul fs dir root : wf_fs fs -> walk fs [] (split_on SLASH dir) = Some root -> has_nul dir = false.
Proof. intros Hwf H. rewrite has_nul_split. eapply walk_no_nul; eassumption. Qed.

(* ---- resolve along existing names ---- *)
Lemma ends_with_slash_app a b : b <> [] -> ends_with_slash (a ++ b) = ends_with_slash b.
Proof.
  intro Hb. unfold ends_with_slash. rewrite rev_app_distr.
  destruct (rev b) as [|x r] eqn:E; [|reflexivity].
  apply (f_equal (@rev N)) in E. rewrite rev_involutive in E. now subst b.
Qed.

Lemma ends_with_slash_snoc l x : ends_with_slash (l ++ [x]) = (x =? 47).
Proof. unfold ends_with_slash. rewrite rev_app_distr. cbn [rev app]. rewrite match47. now destruct (x =? 47). Qed.

Lemma resolve_path fs dir p root comps :
  has_nul dir = false -> has_nul p = false ->
  walk fs [] (split_on SLASH dir) = Some root ->
  split_on SLASH p = comps -> Forall step_ok comps ->
  resolve fs (dir ++ [SLASH] ++ p) =
    match node_at fs (root ++ comps) with
    | Some (File _) => if ends_with_slash p then None else Some (root ++ comps)
    | Some (Dir _) => Some (root ++ comps)
    | None => None
    end.
Proof.
  intros Hnd Hnp Hd Hs Hok.
  assert (Hp : p <> []).
  { intros ->. cbn [split_on] in Hs. subst comps. inversion Hok as [|? ? (Hc & _) _]. now apply Hc. }
  unfold resolve. rewrite !has_nul_app, Hnd, Hnp. cbn [has_nul existsb orb].
  change (0 =? 0) with true. change (SLASH =? 0) with false. cbn [orb].
  cbn [app]. rewrite StaticFsProofs.split_on_app, walk_app, Hd, Hs.
  rewrite walk_exact by (assumption || (rewrite <- Hs; apply split_on_nonempty)).
  change (match rev (dir ++ SLASH :: p) with 47 :: _ => true | _ => false end) with (ends_with_slash (dir ++ SLASH :: p)).
  rewrite (ends_with_slash_app dir (SLASH :: p)) by discriminate.
  change (SLASH :: p) with ([SLASH] ++ p). rewrite (ends_with_slash_app [SLASH] p Hp).
  destruct (node_at fs (root ++ comps)) as [[c|es]|] eqn:En; rewrite ?En; reflexivity.
Qed.

(* ------------------------------------------------------------------------------------------------ *)
(* the string  dir_path front ++ t  ("a/b/" ++ "c"): components, forbidden substrings, UTF-8, NUL     *)
(* ------------------------------------------------------------------------------------------------ *)
Definition no_slash (n : bytes) : Prop := existsb (fun b => b =? SLASH) n = false.

Lemma name_ok_no_slash n : name_ok n -> no_slash n.
Proof. now intros (_ & _ & _ & H & _). Qed.

Lemma dir_path_cons x l : dir_path (x :: l) = x ++ SLASH :: dir_path l.
Proof. unfold dir_path. cbn [flat_map]. now rewrite <- app_assoc. Qed.

Lemma join_snoc_dir_path l x : join SLASH (l ++ [x]) = dir_path l ++ x.
Proof.
  induction l as [|y l IH]; [reflexivity|].
  change ((y :: l) ++ [x]) with (y :: (l ++ [x])). rewrite join_cons by (destruct l; discriminate).
  rewrite IH, dir_path_cons, <- app_assoc. reflexivity.
Qed.

Lemma split_path front t :
  Forall no_slash front -> no_slash t -> split_on SLASH (dir_path front ++ t) = front ++ [t].
Proof.
  intros Hf Ht. induction Hf as [|x front Hx Hf IH].
  - cbn [dir_path flat_map app]. now apply split_on_no_delim.
  - rewrite dir_path_cons, <- app_assoc. cbn [app].
    rewrite StaticFsProofs.split_on_app, (split_on_no_delim _ _ Hx), IH. reflexivity.
Qed.

(* ".." cannot straddle a '/' *)
Lemma contains_dd_slash a b :
  contains_sub [DOT; DOT] (a ++ SLASH :: b) = contains_sub [DOT; DOT] a || contains_sub [DOT; DOT] b.
Proof.
  induction a as [|x a IH].
  - cbn [app contains_sub length firstn]. destruct b as [|y b]; reflexivity.
  - cbn [app]. cbn [contains_sub]. rewrite IH. rewrite orb_assoc. f_equal.
    destruct a as [|y a]; cbn [app length firstn beq].
    + change (SLASH =? DOT) with false. reflexivity.
    + reflexivity.
Qed.

Lemma contains_1 c l : contains_sub [c] l = existsb (fun b => b =? c) l.
Proof.
  induction l as [|x l IH]; [reflexivity|]. cbn [contains_sub length firstn beq existsb]. rewrite IH.
  now rewrite andb_true_r.
Qed.

Lemma contains_dd_path front t :
  Forall (fun n => contains_sub [DOT; DOT] n = false) front -> contains_sub [DOT; DOT] t = false ->
  contains_sub [DOT; DOT] (dir_path front ++ t) = false.
Proof.
  intros Hf Ht. induction Hf as [|x front Hx Hf IH]; [exact Ht|].
  rewrite dir_path_cons, <- app_assoc. cbn [app]. now rewrite contains_dd_slash, Hx, IH.
Qed.

Lemma contains_colon_path front t :
  Forall (fun n => contains_sub [58] n = false) front -> contains_sub [58] t = false ->
  contains_sub [58] (dir_path front ++ t) = false.
Proof.
  intros Hf Ht. induction Hf as [|x front Hx Hf IH]; [exact Ht|].
  rewrite dir_path_cons, <- app_assoc. cbn [app]. rewrite contains_1 in *.
  rewrite existsb_app. cbn [existsb]. rewrite Hx, IH. reflexivity.
Qed.

Lemma contains_dd_slashes k l : contains_sub [DOT; DOT] (repeat SLASH k ++ l) = contains_sub [DOT; DOT] l.
Proof.
  induction k as [|k IH]; [reflexivity|]. cbn [repeat app contains_sub]. rewrite IH.
  cbn [length firstn]. destruct (repeat SLASH k ++ l) as [|y r]; reflexivity.
Qed.

Lemma contains_colon_slashes k l : contains_sub [58] (repeat SLASH k ++ l) = contains_sub [58] l.
Proof.
  rewrite !contains_1, existsb_app. induction k as [|k IH]; [reflexivity|]. cbn [repeat existsb]. exact IH.
Qed.

Lemma utf8_path front t : Forall utf8 front -> utf8 t -> utf8 (dir_path front ++ t).
Proof.
  intros Hf Ht. induction Hf as [|x front Hx Hf IH]; [exact Ht|].
  rewrite dir_path_cons, <- app_assoc. cbn [app]. apply utf8_join_ascii; [reflexivity | exact Hx | exact IH].
Qed.

Lemma utf8_slashes k l : utf8 l -> utf8 (repeat SLASH k ++ l).
Proof. intro H. induction k as [|k IH]; [exact H|]. cbn [repeat app]. now apply utf8_ascii_cons. Qed.

Lemma has_nul_path front t : Forall (fun n => has_nul n = false) front -> has_nul t = false ->
  has_nul (dir_path front ++ t) = false.
Proof.
  intros Hf Ht. induction Hf as [|x front Hx Hf IH]; [exact Ht|].
  rewrite dir_path_cons, <- app_assoc. cbn [app]. rewrite has_nul_app, Hx. cbn [orb]. unfold has_nul in *. cbn [existsb].
  exact IH.
Qed.

Lemma trim_start_slashes_repeat k l : trim_start_slashes (repeat SLASH k ++ l) = trim_start_slashes l.
Proof. induction k as [|k IH]; [reflexivity|]. cbn [repeat app]. now rewrite trim_start_slashes_cons, N.eqb_refl. Qed.

Lemma trim_start_no_slash l : no_slash l -> trim_start_slashes l = l.
Proof.
  destruct l as [|x l]; [reflexivity|]. unfold no_slash. cbn [existsb]. intro H. apply orb_false_iff in H as [H _].
  rewrite trim_start_slashes_cons. unfold SLASH in H. now rewrite H.
Qed.

Lemma trim_start_path front t :
  Forall name_ok front -> no_slash t -> trim_start_slashes (dir_path front ++ t) = dir_path front ++ t.
Proof.
  intros Hf Ht. destruct Hf as [|x front Hx Hf]; [now apply trim_start_no_slash|].
  rewrite dir_path_cons, <- app_assoc. destruct Hx as (Hne & _ & _ & Hs & _).
  destruct x as [|b x]; [contradiction|]. cbn [app]. cbn [existsb] in Hs. apply orb_false_iff in Hs as [Hs _].
  rewrite trim_start_slashes_cons. unfold SLASH in Hs. now rewrite Hs.
Qed.

Lemma ends_with_slash_no_slash t : no_slash t -> ends_with_slash t = false.
Proof.
  intro H. destruct (ends_with_slash t) eqn:E; [|reflexivity]. apply ends_with_slash_spec in E as (r & ->).
  unfold no_slash in H. rewrite existsb_app in H. cbn [existsb] in H. rewrite N.eqb_refl in H.
  now rewrite orb_true_r in H.
Qed.

Lemma ends_with_slash_path_file front t : t <> [] -> no_slash t -> ends_with_slash (dir_path front ++ t) = false.
Proof. intros Hne Ht. rewrite ends_with_slash_app by assumption. now apply ends_with_slash_no_slash. Qed.

Lemma ends_with_slash_dir_path front : front <> [] -> ends_with_slash (dir_path front) = true.
Proof. intro H. rewrite dir_path_join by assumption. now rewrite ends_with_slash_snoc. Qed.

(* ------------------------------------------------------------------------------------------------ *)
(* percent-decoding a path segment by segment                                                        *)
(* ------------------------------------------------------------------------------------------------ *)
Lemma PctDenotes_app a a' b b' : PctDenotes a a' -> PctDenotes b b' -> PctDenotes (a ++ b) (a' ++ b').
Proof.
  induction 1 as [|c s d Hc H IH|h1 h2 v1 v2 s d H1 H2 H IH]; intro Hb; [exact Hb| |]; cbn [app].
  - apply pd_lit; [exact Hc | now apply IH].
  - apply pd_esc; [exact H1 | exact H2 | now apply IH].
Qed.

Lemma decode_app a a' b b' :
  pct_decode a = Some a' -> pct_decode b = Some b' -> pct_decode (a ++ b) = Some (a' ++ b').
Proof.
  unfold pct_decode. rewrite !decode_iff_denotes. apply PctDenotes_app.
Qed.

Lemma decode_slash : pct_decode [SLASH] = Some [SLASH].
Proof. reflexivity. Qed.

Lemma decode_slashes k : pct_decode (repeat SLASH k) = Some (repeat SLASH k).
Proof.
  induction k as [|k IH]; [reflexivity|]. change (repeat SLASH (S k)) with ([SLASH] ++ repeat SLASH k).
  apply decode_app; [reflexivity | exact IH].
Qed.

Lemma decode_dir_path segs names : spells segs names -> pct_decode (dir_path segs) = Some (dir_path names).
Proof.
  induction 1 as [|s n segs names Hs H IH]; [reflexivity|].
  rewrite !dir_path_cons. apply decode_app; [exact Hs|].
  change (SLASH :: dir_path segs) with ([SLASH] ++ dir_path segs).
  change (SLASH :: dir_path names) with ([SLASH] ++ dir_path names). apply decode_app; [reflexivity | exact IH].
Qed.

Lemma decode_path k segs st front t :
  spells segs front -> pct_decode st = Some t ->
  pct_decode (repeat SLASH k ++ dir_path segs ++ st) = Some (repeat SLASH k ++ dir_path front ++ t).
Proof.
  intros Hs Ht. apply decode_app; [apply decode_slashes|]. apply decode_app; [now apply decode_dir_path | exact Ht].
Qed.

(* a literal string without '%' decodes to itself *)
Lemma decode_raw n : existsb (fun b => b =? pct) n = false -> pct_decode n = Some n.
Proof.
  unfold pct_decode. induction n as [|c n IH]; [reflexivity|]. cbn [existsb percent_decode]. intro H.
  apply orb_false_iff in H as [H1 H2]. rewrite H1, (IH H2). reflexivity.
Qed.

(* conversely, a string that decodes to itself contains no '%' *)
Lemma decode_self_no_pct n : pct_decode n = Some n -> existsb (fun b => b =? pct) n = false.
Proof.
  unfold pct_decode. intro H.
  assert (L : forall s b, PctDenotes s b -> (length b <= length s)%nat /\
             (existsb (fun c => c =? pct) s = true -> (length b < length s)%nat)).
  { induction 1 as [|c s b Hc H' [IH1 IH2]|h1 h2 v1 v2 s b H1 H2 H' [IH1 IH2]]; cbn [length existsb].
    - split; [lia | discriminate].
    - split; [lia|]. apply N.eqb_neq in Hc. rewrite Hc. cbn [orb]. intro E. specialize (IH2 E). lia.
    - split; [lia|]. intros _. lia. }
  apply decode_iff_denotes in H. destruct (L _ _ H) as [_ L2].
  destruct (existsb (fun c => c =? pct) n); [|reflexivity]. specialize (L2 eq_refl). lia.
Qed.

Lemma spells_raw names : Forall (fun n => pct_decode n = Some n) names -> spells names names.
Proof. induction 1; constructor; assumption. Qed.

Lemma spells_encode names : Forall (Forall is_byte) names -> spells (map percent_encode names) names.
Proof.
  induction 1 as [|n names Hn H IH]; constructor; [|exact IH]. unfold pct_decode. now apply percent_decode_encode.
Qed.

Lemma spells_split segs front t : spells segs (front ++ [t]) ->
  exists sf st, segs = sf ++ [st] /\ spells sf front /\ pct_decode st = Some t.
Proof.
  intro H. apply Forall2_app_inv_r in H as (sf & sl & H1 & H2 & ->).
  inversion H2 as [|st ? sl' ? Hst Hnil]; subst. inversion Hnil; subst. now exists sf, st.
Qed.

(* ------------------------------------------------------------------------------------------------ *)
(* a valid UTF-8 string consists of bytes and does not start with a continuation byte                *)
(* ------------------------------------------------------------------------------------------------ *)
Ltac b2p := repeat match goal with
  | H : _ && _ = true |- _ => apply andb_true_iff in H as [? ?]
  | H : _ || _ = true |- _ => apply orb_true_iff in H as [?|?]
  | H : (_ <=? _) = true |- _ => apply N.leb_le in H
  | H : (_ <? _) = true |- _ => apply N.ltb_lt in H
  | H : (_ =? _) = true |- _ => apply N.eqb_eq in H
  | H : (_ <? _) = false |- _ => apply N.ltb_ge in H
  | H : cont _ = true |- _ => unfold cont in H
  end.

Lemma utf8_char_len_bytes l n : utf8_char_len l = S n ->
  Forall is_byte (firstn (S n) l) /\ match l with b :: _ => cont b = false | [] => True end.
Proof.
  destruct l as [|b r]; [discriminate|]. cbn [utf8_char_len].
  repeat (case_if; [ destruct r as [|c1 [|c2 [|c3 r]]]; try discriminate; repeat case_if; try discriminate;
                     intros [= <-]; cbn [firstn]; b2p;
                     (split; [repeat constructor; unfold is_byte; lia
                             | unfold cont; apply andb_false_iff; rewrite N.leb_gt, N.leb_gt; lia]) | ]).
  discriminate.
Qed.

Lemma utf8_bytes l : utf8 l -> Forall is_byte l.
Proof.
  induction 1 as [|l n E H IH]; [constructor|]. rewrite <- (firstn_skipn (S n) l).
  apply Forall_app. split; [now apply utf8_char_len_bytes | exact IH].
Qed.

Definition starts_on_boundary (l : bytes) : Prop := match l with b :: _ => cont b = false | [] => True end.

Lemma utf8_starts_on_boundary l : utf8 l -> starts_on_boundary l.
Proof. destruct 1 as [|l n E H]; [exact I|]. now apply (utf8_char_len_bytes l n). Qed.

(* ------------------------------------------------------------------------------------------------ *)
(* try_find_path on a clean path                                                                     *)
(* ------------------------------------------------------------------------------------------------ *)
Definition cleanP (n : bytes) : Prop := utf8 n /\ contains_sub [DOT; DOT] n = false /\ contains_sub [58] n = false.

Lemma clean_cleanP n : clean n -> cleanP n.
Proof. intros (H1 & H2 & H3). split; [now apply utf8_valid_iff | now split]. Qed.

Section TryFind.
Variables (fs : node) (directory : bytes) (root : list bytes).
Let dir := trim_end_slashes directory.
Hypothesis Hnul : has_nul dir = false.
Hypothesis Hd : walk fs [] (split_on SLASH dir) = Some root.

(* the decoded request path  "/"^k ++ "a/b/" ++ "c"  with c a name: file, directory or nothing *)
Lemma try_find_path_name k segs st front t :
  spells segs front -> pct_decode st = Some t ->
  Forall name_ok front -> Forall cleanP front -> name_ok t -> cleanP t ->
  try_find_path fs directory (repeat SLASH k ++ dir_path segs ++ st) =
    match node_at fs (root ++ front ++ [t]) with
    | Some (File _) => Some (LFile (root ++ front ++ [t]))
    | Some (Dir _) => Some LDir
    | None => None
    end.
Proof.
  intros Hs Hst Hfo Hfc Hto (Htu & Htd & Htc).
  unfold try_find_path. rewrite (decode_path k segs st front t Hs Hst).
  assert (Hslash : Forall no_slash front) by (eapply Forall_impl; [|exact Hfo]; apply name_ok_no_slash).
  assert (Hu : utf8_valid (repeat SLASH k ++ dir_path front ++ t) = true).
  { apply utf8_valid_iff, utf8_slashes, utf8_path; [|exact Htu]. eapply Forall_impl; [|exact Hfc]. now intros a (? & _). }
  rewrite Hu. cbn [negb].
  rewrite contains_dd_slashes, contains_colon_slashes.
  rewrite contains_dd_path, contains_colon_path; try assumption;
    try (eapply Forall_impl; [|exact Hfc]; now intros a (? & ? & ?)).
  cbn [orb]. rewrite trim_start_slashes_repeat, trim_start_path by (assumption || now apply name_ok_no_slash).
  destruct Hto as (Hne & Hd1 & Hd2 & Hts & Htn).
  rewrite ends_with_slash_path_file by assumption.
  assert (Hnn : dir_path front ++ t <> []) by (destruct (dir_path front); [exact Hne | discriminate]).
  destruct (dir_path front ++ t) as [|y q] eqn:Eq; [contradiction|]. rewrite <- Eq. cbn [orb].
  fold dir.
  rewrite (resolve_path fs dir (dir_path front ++ t) root (front ++ [t]) Hnul).
  - rewrite ends_with_slash_path_file by assumption.
    destruct (node_at fs (root ++ front ++ [t])) as [[c|es]|] eqn:En; rewrite ?En; reflexivity.
  - apply has_nul_path; [|exact Htn]. eapply Forall_impl; [|exact Hfo]. now intros a (_ & _ & _ & _ & ?).
  - exact Hd.
  - now apply split_path.
  - apply Forall_app. split; [eapply Forall_impl; [|exact Hfo]; apply name_ok_step|]. constructor; [|constructor].
    now repeat split.
Qed.

(* index lookup in an existing directory *)
Lemma index_lookup front es f :
  Forall name_ok front -> node_at fs (root ++ front) = Some (Dir es) ->
  name_ok f ->
  resolve fs ((dir ++ [SLASH] ++ dir_path front) ++ f) =
    match assoc_name f es with Some _ => Some (root ++ front ++ [f]) | None => None end /\
  node_at fs (root ++ front ++ [f]) = assoc_name f es.
Proof.
  intros Hfo Hn Hf.
  assert (Hslash : Forall no_slash front) by (eapply Forall_impl; [|exact Hfo]; apply name_ok_no_slash).
  assert (Hat : node_at fs (root ++ front ++ [f]) = assoc_name f es).
  { rewrite app_assoc, node_at_app, Hn. cbn [node_at]. now destruct (assoc_name f es). }
  split; [|exact Hat].
  rewrite <- !app_assoc. destruct Hf as (Hne & Hd1 & Hd2 & Hfs & Hfn).
  rewrite (resolve_path fs dir (dir_path front ++ f) root (front ++ [f]) Hnul).
  - rewrite ends_with_slash_path_file by assumption. rewrite Hat. now destruct (assoc_name f es) as [[c|es']|].
  - apply has_nul_path; [|exact Hfn]. eapply Forall_impl; [|exact Hfo]. now intros a (_ & _ & _ & _ & ?).
  - exact Hd.
  - now apply split_path.
  - apply Forall_app. split; [eapply Forall_impl; [|exact Hfo]; apply name_ok_step|]. constructor; [|constructor].
    now repeat split.
Qed.

Lemma index_html_ok : name_ok INDEX_HTML.
Proof. repeat split; (discriminate || reflexivity). Qed.
Lemma index_htm_ok : name_ok INDEX_HTM.
Proof. repeat split; (discriminate || reflexivity). Qed.

Lemma first_index_dir front es :
  Forall name_ok front -> node_at fs (root ++ front) = Some (Dir es) ->
  first_index fs (dir ++ [SLASH] ++ dir_path front) INDEX_FILES =
    match assoc_name INDEX_HTML es with
    | Some (File _) => Some (LFile (root ++ front ++ [INDEX_HTML]))
    | _ => match assoc_name INDEX_HTM es with
           | Some (File _) => Some (LFile (root ++ front ++ [INDEX_HTM]))
           | _ => None
           end
    end.
Proof.
  intros Hfo Hn. unfold INDEX_FILES. fold INDEX_HTML. fold INDEX_HTM. cbn [first_index].
  destruct (index_lookup front es INDEX_HTML Hfo Hn index_html_ok) as [R1 N1].
  destruct (index_lookup front es INDEX_HTM Hfo Hn index_htm_ok) as [R2 N2].
  rewrite R1, R2.
  destruct (assoc_name INDEX_HTML es) as [[c1|es1]|]; rewrite ?N1;
    destruct (assoc_name INDEX_HTM es) as [[c2|es2]|]; rewrite ?N2; reflexivity.
Qed.

(* the decoded request path  "/"^k ++ "a/b/"  (slash form of a directory; "" for the served directory itself) *)
Lemma try_find_path_slash k segs front es :
  spells segs front -> Forall name_ok front -> Forall cleanP front ->
  node_at fs (root ++ front) = Some (Dir es) ->
  try_find_path fs directory (repeat SLASH k ++ dir_path segs) =
    match assoc_name INDEX_HTML es with
    | Some (File _) => Some (LFile (root ++ front ++ [INDEX_HTML]))
    | _ => match assoc_name INDEX_HTM es with
           | Some (File _) => Some (LFile (root ++ front ++ [INDEX_HTM]))
           | _ => None
           end
    end.
Proof.
  intros Hs Hfo Hfc Hn.
  unfold try_find_path.
  pose proof (decode_path k segs [] front [] Hs eq_refl) as Hdec. rewrite !app_nil_r in Hdec. rewrite Hdec.
  assert (Hu : utf8_valid (repeat SLASH k ++ dir_path front) = true).
  { apply utf8_valid_iff, utf8_slashes. rewrite <- (app_nil_r (dir_path front)). apply utf8_path; [|constructor].
    eapply Forall_impl; [|exact Hfc]. now intros a (? & _). }
  rewrite Hu. cbn [negb].
  rewrite contains_dd_slashes, contains_colon_slashes.
  rewrite <- (app_nil_r (dir_path front)).
  rewrite contains_dd_path, contains_colon_path; try reflexivity;
    try (eapply Forall_impl; [|exact Hfc]; now intros a (? & ? & ?)).
  cbn [orb]. rewrite trim_start_slashes_repeat, trim_start_path by (assumption || reflexivity).
  rewrite app_nil_r. fold dir.
  assert (E : ends_with_slash (dir_path front) || match dir_path front with [] => true | _ :: _ => false end = true).
  { destruct front as [|x front]; [reflexivity|]. now rewrite ends_with_slash_dir_path. }
  rewrite E. now apply first_index_dir.
Qed.
End TryFind.
