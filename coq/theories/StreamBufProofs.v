(* The BufReader model refines the flat (list) readers: results depend only on the concatenation of the chunks,
   never on how the bytes were split across read() calls; and the fuel given to the loops always suffices. *)
From Coq Require Import Lia Arith.
From Hv Require Import Prelude Bytes StreamBuf.
Open Scope N_scope.
Arguments N.eqb : simpl never.

Lemma cap_pos : (0 < cap)%nat.
Proof. unfold cap. lia. Qed.
Global Opaque cap.

Lemma read_concat n cs d cs' : read n cs = (d, cs') -> concat cs = d ++ concat cs'.
Proof.
  destruct cs as [|c cs0]; cbn [read].
  - intros [= <- <-]. reflexivity.
  - destruct (length c <=? n)%nat; intros [= <- <-]; cbn [concat]; [reflexivity|].
    now rewrite app_assoc, firstn_skipn.
Qed.

Lemma read_wf n cs d cs' : (0 < n)%nat -> wf_chunks cs -> read n cs = (d, cs') ->
  wf_chunks cs' /\ (d = [] -> cs = []) /\ (length d <= n)%nat.
Proof.
  intros Hn W. destruct cs as [|c cs0]; cbn [read].
  - intros [= <- <-]. repeat split; [constructor | cbn; lia].
  - inversion W as [|? ? Hc W0]; subst. destruct (length c <=? n)%nat eqn:E; intros [= <- <-].
    + apply Nat.leb_le in E. repeat split; [assumption | | assumption]. intros ->. congruence.
    + apply Nat.leb_gt in E. repeat split.
      * constructor; [|assumption]. intro Hs. apply (f_equal (@length N)) in Hs.
        rewrite skipn_length in Hs. cbn in Hs. lia.
      * intro Hf. apply (f_equal (@length N)) in Hf. rewrite firstn_length in Hf. cbn in Hf. lia.
      * rewrite firstn_length. lia.
Qed.

Definition weight (cs : chunks) : nat := length (concat cs) + length cs.

Lemma read_weight n cs d cs' : (0 < n)%nat -> read n cs = (d, cs') -> cs <> [] -> (weight cs' < weight cs)%nat.
Proof.
  intros Hn. destruct cs as [|c cs0]; cbn [read]; [congruence|]. intros H _. unfold weight.
  destruct (length c <=? n)%nat eqn:E; injection H as <- <-; cbn [concat length]; rewrite ?app_length.
  - lia.
  - apply Nat.leb_gt in E. rewrite skipn_length. lia.
Qed.

Lemma fill_buf_contents br : contents (fill_buf br) = contents br.
Proof.
  unfold fill_buf, contents. destruct (buf br) eqn:E; [|now rewrite E].
  destruct (read cap (inner br)) as [d cs'] eqn:R. cbn [buf inner]. symmetry. cbn [app].
  eapply read_concat; eassumption.
Qed.

Lemma fill_buf_wf br : wf_chunks (inner br) ->
  wf_chunks (inner (fill_buf br)) /\ (buf (fill_buf br) = [] -> contents br = []).
Proof.
  intro W. unfold fill_buf, contents. destruct (buf br) eqn:E.
  - destruct (read cap (inner br)) as [dd cs'] eqn:R. cbn [buf inner].
    destruct (read_wf cap _ _ _ cap_pos W R) as (W' & Hd & _). split; [assumption|].
    intros ->. now rewrite (Hd eq_refl).
  - rewrite E. split; [assumption|discriminate].
Qed.

(* ---- split_incl ---- *)
Lemma split_incl_app d l a b : split_incl d l = Some (a, b) -> l = a ++ b.
Proof.
  revert a b. induction l as [|x l IH]; cbn [split_incl]; intros a b H; [discriminate|].
  destruct (x =? d). - now injection H as <- <-.
  - destruct (split_incl d l) as [[a' b']|]; [|discriminate]. injection H as <- <-. cbn. f_equal. now apply IH.
Qed.

Lemma split_incl_app_l d l r a b : split_incl d l = Some (a, b) -> split_incl d (l ++ r) = Some (a, b ++ r).
Proof.
  revert a b. induction l as [|x l IH]; cbn [split_incl app]; intros a b H; [discriminate|].
  destruct (x =? d). - now injection H as <- <-.
  - destruct (split_incl d l) as [[a' b']|]; [|discriminate]. injection H as <- <-. now rewrite (IH a' b').
Qed.

Lemma split_incl_app_none d l r : split_incl d l = None ->
  split_incl d (l ++ r) = match split_incl d r with Some (a, b) => Some (l ++ a, b) | None => None end.
Proof.
  induction l as [|x l IH]; cbn [split_incl app]; intro H.
  - now destruct (split_incl d r) as [[? ?]|].
  - destruct (x =? d); [discriminate|]. destruct (split_incl d l) as [[? ?]|]; [discriminate|].
    rewrite IH by reflexivity. now destruct (split_incl d r) as [[? ?]|].
Qed.

(* ---- read_until ---- *)
Lemma read_until_refines d : forall fuel br acc line br',
  wf_chunks (inner br) ->
  read_until fuel d br acc = Some (line, br') ->
  line = acc ++ fst (read_until_flat d (contents br)) /\
  contents br' = snd (read_until_flat d (contents br)) /\ wf_chunks (inner br').
Proof.
  induction fuel as [|f IH]; intros br acc line br' W H; [discriminate|].
  cbn [read_until] in H.
  pose proof (fill_buf_contents br) as FC.
  destruct (fill_buf_wf br W) as [W1 Hempty].
  set (br1 := fill_buf br) in *.
  assert (EC : contents br = buf br1 ++ concat (inner br1)) by (now rewrite <- FC).
  destruct (buf br1) as [|x b0] eqn:Eb.
  - injection H as <- <-. rewrite (Hempty eq_refl). cbn.
    repeat split; [now rewrite app_nil_r | | assumption].
    unfold contents. rewrite Eb. rewrite (Hempty eq_refl) in EC. cbn in *. now rewrite <- EC.
  - rewrite EC. unfold read_until_flat.
    destruct (split_incl d (x :: b0)) as [[a rest]|] eqn:Es.
    + injection H as <- <-. rewrite (split_incl_app_l _ _ _ _ _ Es). cbn. repeat split; assumption.
    + apply IH in H; [|assumption]. unfold contents in H. cbn [buf inner app] in H.
      destruct H as (-> & Hc & Hw). unfold read_until_flat in *.
      rewrite (split_incl_app_none _ _ _ Es).
      destruct (split_incl d (concat (inner br1))) as [[a b]|]; cbn [fst snd] in *;
        repeat split; try assumption; now rewrite <- app_assoc.
Qed.

Lemma fill_buf_weight br : buf br = [] -> inner br <> [] -> (weight (inner (fill_buf br)) < weight (inner br))%nat.
Proof.
  intros E Hn. unfold fill_buf. rewrite E. destruct (read cap (inner br)) as [d cs'] eqn:R. cbn [inner].
  eapply read_weight; [apply cap_pos | eassumption | assumption].
Qed.

Lemma fill_buf_id br : buf br <> [] -> fill_buf br = br.
Proof. unfold fill_buf. destruct (buf br); congruence. Qed.

Lemma fill_buf_nil_inner br : buf br = [] -> inner br = [] -> buf (fill_buf br) = [].
Proof. intros E1 E2. unfold fill_buf. rewrite E1, E2. reflexivity. Qed.

Lemma read_until_fuel d : forall fuel br acc,
  (weight (inner br) + match buf br with [] => 0 | _ => 1 end < fuel)%nat ->
  read_until fuel d br acc <> None.
Proof.
  induction fuel as [|f IH]; intros br acc Hf; [lia|].
  cbn [read_until]. destruct (buf br) as [|x0 b0] eqn:Eb.
  - destruct (inner br) as [|c cs0] eqn:Ei.
    + rewrite (fill_buf_nil_inner br Eb Ei). discriminate.
    + assert (Hw : (weight (inner (fill_buf br)) < weight (inner br))%nat)
        by (apply fill_buf_weight; [assumption | rewrite Ei; discriminate]).
      destruct (buf (fill_buf br)) as [|x b1] eqn:Eb1; [discriminate|].
      destruct (split_incl d (x :: b1)) as [[a rest]|]; [discriminate|].
      apply IH. cbn [buf inner]. rewrite Ei in *. lia.
  - rewrite fill_buf_id by (rewrite Eb; discriminate). rewrite Eb.
    destruct (split_incl d (x0 :: b0)) as [[a rest]|]; [discriminate|].
    apply IH. cbn [buf inner]. lia.
Qed.

Theorem read_line_spec br : wf_chunks (inner br) ->
  exists line br', read_line br = Some (line, br') /\
    (line, contents br') = read_until_flat LF (contents br) /\ wf_chunks (inner br').
Proof.
  intro W. unfold read_line.
  destruct (read_until (fuel_of br) LF br []) as [[line br']|] eqn:E.
  - exists line, br'. split; [reflexivity|].
    destruct (read_until_refines _ _ _ _ _ _ W E) as (-> & Hc & Hw). cbn [app]. split; [|assumption].
    rewrite Hc. now destruct (read_until_flat LF (contents br)).
  - exfalso. revert E. apply read_until_fuel. unfold fuel_of, weight. destruct (buf br); lia.
Qed.

(* ---- read_exact ---- *)
Lemma read_exact_br_0 f br acc : read_exact_br f 0 br acc = ROk acc br.
Proof. destruct f; reflexivity. Qed.

Lemma read_exact_br_buf f n br acc x b0 : buf br = x :: b0 -> n <> 0%nat ->
  read_exact_br (S f) n br acc =
  read_exact_br f (n - Nat.min n (length (x :: b0)))
    {| buf := skipn (Nat.min n (length (x :: b0))) (x :: b0); inner := inner br |}
    (acc ++ firstn (Nat.min n (length (x :: b0))) (x :: b0)).
Proof. intros H Hn. destruct n; [congruence|]. cbn [read_exact_br]. rewrite H. reflexivity. Qed.

Lemma read_exact_flat_step n d c : (length d <= n)%nat ->
  read_exact_flat n (d ++ c) =
  match read_exact_flat (n - length d) c with Some (x, r) => Some (d ++ x, r) | None => None end.
Proof.
  intro H. unfold read_exact_flat. rewrite app_length.
  destruct (n - length d <=? length c)%nat eqn:E.
  - apply Nat.leb_le in E. replace (n <=? length d + length c)%nat with true by (symmetry; apply Nat.leb_le; lia).
    rewrite firstn_app, skipn_app. rewrite (firstn_all2 d) by lia. rewrite (skipn_all2 d) by lia. reflexivity.
  - apply Nat.leb_gt in E. replace (n <=? length d + length c)%nat with false by (symmetry; apply Nat.leb_gt; lia).
    reflexivity.
Qed.

Definition rx_ok (r : rx) (acc : bytes) (spec : option (bytes * bytes)) : Prop :=
  match spec with
  | Some (d, rest) => exists br', r = ROk (acc ++ d) br' /\ contents br' = rest /\ wf_chunks (inner br')
  | None => r = REof
  end.

Lemma rx_ok_step r acc d spec : rx_ok r (acc ++ d) spec ->
  rx_ok r acc (match spec with Some (x, rest) => Some (d ++ x, rest) | None => None end).
Proof.
  unfold rx_ok. destruct spec as [[x rest]|]; [|auto]. intros (br' & -> & H). exists br'. now rewrite app_assoc.
Qed.

Lemma read_exact_br_spec : forall fuel n br acc,
  wf_chunks (inner br) ->
  (2 * length (inner br) + match buf br with [] => 0 | _ => 1 end + 1 < fuel)%nat ->
  rx_ok (read_exact_br fuel n br acc) acc (read_exact_flat n (contents br)).
Proof.
  induction fuel as [|f IH]; intros n br acc W Hf; [lia|].
  destruct n as [|n0].
  - unfold read_exact_flat. cbn [Nat.leb firstn skipn read_exact_br rx_ok]. exists br. rewrite app_nil_r. auto.
  - cbn [read_exact_br]. remember (S n0) as n eqn:En. destruct (buf br) as [|x0 b0] eqn:Eb.
    + (* empty buffer *)
      assert (Hc : contents br = concat (inner br)) by (unfold contents; now rewrite Eb).
      destruct (cap <=? n)%nat eqn:Ecap.
      * destruct (read n (inner br)) as [d cs'] eqn:R.
        assert (Hn : (0 < n)%nat) by lia.
        destruct (read_wf _ _ _ _ Hn W R) as (W' & Hd & Hlen).
        pose proof (read_concat _ _ _ _ R) as HC.
        destruct d as [|y d0].
        -- rewrite Hc, (Hd eq_refl), En. reflexivity.
        -- remember (y :: d0) as d eqn:Ed. assert (Hdpos : (0 < length d)%nat) by (rewrite Ed; cbn; lia). rewrite Hc, HC, (read_exact_flat_step n d _ Hlen).
           apply rx_ok_step.
           destruct (n - length d)%nat as [|k] eqn:Ek.
           ++ rewrite read_exact_br_0. unfold read_exact_flat. cbn [Nat.leb firstn skipn rx_ok].
              exists {| buf := []; inner := cs' |}. rewrite app_nil_r. auto.
           ++ rewrite <- Ek.
              replace (concat cs') with (contents {| buf := []; inner := cs' |}) by reflexivity.
              apply IH; [assumption|]. cbn [buf inner].
              assert ((length cs' < length (inner br))%nat).
              { destruct (inner br) as [|c cs0]; cbn [read] in R; [injection R as Hd0 _; rewrite <- Hd0 in Hdpos; cbn in Hdpos; lia|].
                destruct (length c <=? n)%nat eqn:E; injection R as Hd' <-.
                - cbn. lia.
                - exfalso. apply Nat.leb_gt in E. assert (length d = n) by (rewrite <- Hd', firstn_length; lia). lia. }
              lia.
      * (* fill the buffer *)
        destruct (fill_buf_wf br W) as [W1 Hempty]. pose proof (fill_buf_contents br) as FC.
        destruct (buf (fill_buf br)) as [|x b1] eqn:Eb1.
        -- rewrite (Hempty eq_refl), En. reflexivity.
        -- destruct (inner br) as [|c cs0] eqn:Ei.
           { rewrite (fill_buf_nil_inner br Eb Ei) in Eb1. discriminate. }
           rewrite <- FC.
           (* after fill_buf the buffer is non-empty: either a whole chunk was consumed (induction), or the buffer now
              holds cap > n bytes and the next step finishes *)
           assert (Hcase : (length (inner (fill_buf br)) < length (inner br))%nat \/ (n < length (x :: b1))%nat).
           { unfold fill_buf in Eb1 |- *. rewrite Eb, Ei in *. cbn [read] in *.
             destruct (length c <=? cap)%nat eqn:E; cbn [buf inner length] in *; [left; lia|].
             right. apply Nat.leb_gt in E. apply Nat.leb_gt in Ecap.
             change (S (length b1)) with (length (x :: b1)). rewrite <- Eb1, firstn_length. lia. }
           destruct Hcase as [Hlt|Hbig].
           ++ apply IH; [assumption|]. rewrite Eb1. rewrite Ei in *. cbn [length] in *. lia.
           ++ destruct f as [|f']; [cbn [length] in Hf; lia|].
              rewrite (read_exact_br_buf f' n (fill_buf br) acc x b1 Eb1) by lia.
              remember (x :: b1) as b eqn:Eqb.
              replace (Nat.min n (length b)) with n by lia. rewrite Nat.sub_diag, read_exact_br_0.
              unfold contents. rewrite Eb1.
              replace (b ++ concat (inner (fill_buf br))) with (firstn n b ++ (skipn n b ++ concat (inner (fill_buf br))))
                by (now rewrite app_assoc, firstn_skipn).
              assert (Hfk : length (firstn n b) = n) by (rewrite firstn_length; lia).
              rewrite (read_exact_flat_step n (firstn n b)) by lia.
              apply rx_ok_step. rewrite Hfk, Nat.sub_diag.
              unfold read_exact_flat. cbn [Nat.leb firstn skipn rx_ok].
              exists {| buf := skipn n b; inner := inner (fill_buf br) |}. rewrite app_nil_r. auto.
    + (* bytes in the buffer *)
      remember (x0 :: b0) as b eqn:Eqb. assert (Hbpos : (0 < length b)%nat) by (rewrite Eqb; cbn; lia).
      remember (Nat.min n (length b)) as k eqn:Ek0.
      assert (Hkpos : (0 < k)%nat) by lia.
      unfold contents at 1. rewrite Eb.
      replace (b ++ concat (inner br)) with (firstn k b ++ (skipn k b ++ concat (inner br)))
        by (now rewrite app_assoc, firstn_skipn).
      assert (Hfk : length (firstn k b) = k) by (rewrite firstn_length; lia).
      rewrite (read_exact_flat_step n (firstn k b)) by (rewrite Hfk; lia).
      apply rx_ok_step. rewrite Hfk.
      destruct (n - k)%nat as [|j] eqn:Ej.
      * rewrite read_exact_br_0. unfold read_exact_flat. cbn [Nat.leb firstn skipn rx_ok].
        exists {| buf := skipn k b; inner := inner br |}. rewrite app_nil_r. auto.
      * rewrite <- Ej.
        replace (skipn k b ++ concat (inner br)) with (contents {| buf := skipn k b; inner := inner br |}) by reflexivity.
        apply IH; [assumption|]. cbn [buf inner].
        assert (Hkb : k = length b) by lia.
        rewrite Hkb, skipn_all. lia.
Qed.

Theorem read_exact_spec n br : wf_chunks (inner br) ->
  rx_ok (read_exact n br) [] (read_exact_flat n (contents br)).
Proof.
  intro W. unfold read_exact. apply read_exact_br_spec; [assumption|]. destruct (buf br); lia.
Qed.

Theorem read_exact_N_spec n br : wf_chunks (inner br) ->
  rx_ok (read_exact_N n br) [] (read_exact_flat_N n (contents br)).
Proof.
  intro W. unfold read_exact_N, read_exact_flat_N.
  destruct (N.of_nat (length (contents br)) <? n); [reflexivity|]. now apply read_exact_spec.
Qed.
