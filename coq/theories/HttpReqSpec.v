(* C02 — what a well-formed HTTP/1.x request is, which bytes denote it, and which `request` those bytes denote.
   Definitions only; the theorems are in HttpReqProofs.v and coq/props/C02_flat.v.

   A `greq` is the abstract syntax of a request message:
       method SP path [ "?" query ] SP version CRLF
       ( name ":" OWS value CRLF )*
       CRLF
       [ body ]
   `render` writes it out, `denote` is the `request` value the parser has to produce for it.
   `wf_greq` is a boolean, so it can be evaluated on examples; it asks only what makes the byte string unambiguous
   (delimiters do not occur inside the fields they delimit, every line is valid UTF-8, the value does not start
   with white space, the body is announced by the first Content-Length field).  It is deliberately weaker than
   RFC 7230 token / field-content syntax: every RFC-well-formed request satisfies it. *)
From Hv Require Import Prelude Bytes StreamBuf TablesHttp Http BytesProofs.
Open Scope N_scope.

Definition HTAB : N := 9.
Definition QMARK : N := 63.

Record gheader := { gh_name : bytes; gh_sep : bytes; gh_value : bytes }.

Record greq := {
  g_method : N;                 (* variant index of Method *)
  g_path : bytes;
  g_query : option bytes;       (* Some q: "?" q is present (q may be empty) *)
  g_version : bytes;
  g_headers : list gheader;     (* in the order in which they are sent *)
  g_body : option bytes }.

(* ---- bytes ---- *)
Definition render_target (g : greq) : bytes :=
  g_path g ++ match g_query g with Some q => QMARK :: q | None => [] end.

Definition render_start (g : greq) : bytes :=
  method_str (g_method g) ++ SP :: render_target g ++ SP :: g_version g.

Definition render_header_line (h : gheader) : bytes :=
  gh_name h ++ COLON :: gh_sep h ++ gh_value h ++ CRLF.

Definition render_headers (hs : list gheader) : bytes := concat (map render_header_line hs).

Definition render_body (g : greq) : bytes := match g_body g with Some b => b | None => [] end.

Definition render (g : greq) : bytes :=
  render_start g ++ CRLF ++ render_headers (g_headers g) ++ CRLF ++ render_body g.

(* ---- meaning ---- *)
Definition denote_header (h : gheader) : header := (hname_of (gh_name h), gh_value h).
Definition denote_headers (hs : list gheader) : headers := map denote_header hs.

Definition denote (ipp : bytes -> option bytes) (g : greq) (p : peer) : request :=
  {| r_method := g_method g;
     r_uri := g_path g;
     r_query := match g_query g with Some q => q | None => [] end;
     r_version := g_version g;
     r_headers := denote_headers (g_headers g);
     r_content := g_body g;
     r_addr := address_of ipp (denote_headers (g_headers g)) p |}.

(* ---- well-formedness ---- *)
(* the method is one of the variants of the (generated) method table *)
Definition wf_method (m : N) : bool := existsb (fun e => snd e =? m) method_parse_table.

Definition is_ows (b : N) : bool := (b =? SP) || (b =? HTAB).

Definition wf_header (h : gheader) : bool :=
  nob COLON (gh_name h) && nob LF (gh_name h) && utf8_valid (gh_name h) &&
  forallb is_ows (gh_sep h) &&
  nob LF (gh_value h) && utf8_valid (gh_value h) && beq (trim_start (gh_value h)) (gh_value h).

(* a body is present exactly when a Content-Length field is, and the first such field gives its length
   (any spelling str::parse::<usize> accepts; `dec_render (length body)` is one: BytesProofs.parse_usize_dec_render) *)
Definition wf_body (g : greq) : bool :=
  match hget (HKnown H_ContentLength) (denote_headers (g_headers g)), g_body g with
  | None, None => true
  | Some cl, Some b => match parse_usize cl with Some n => n =? N.of_nat (length b) | None => false end
  | _, _ => false
  end.

Definition wf_greq (g : greq) : bool :=
  wf_method (g_method g) &&
  nob SP (g_path g) && nob LF (g_path g) && nob QMARK (g_path g) && utf8_valid (g_path g) &&
  match g_query g with Some q => nob SP q && nob LF q && utf8_valid q | None => true end &&
  negb (beq (g_version g) []) && nob SP (g_version g) && nob LF (g_version g) && utf8_valid (g_version g) &&
  forallb wf_header (g_headers g) &&
  wf_body g.

(* ---- equality of requests up to the order between differently named header fields ---- *)
Definition req_equiv (a b : request) : Prop :=
  r_method a = r_method b /\ r_uri a = r_uri b /\ r_query a = r_query b /\ r_version a = r_version b /\
  r_content a = r_content b /\ r_addr a = r_addr b /\
  forall n, hget_all n (r_headers a) = hget_all n (r_headers b).

(* ASCII-case-insensitive equality of field names *)
Definition ci_eqb (a b : bytes) : bool := beq (ascii_lower a) (ascii_lower b).

(* what Vec<u8>::from(Request) writes after the blank line when the request has no header field at all: the
   header block is then the empty string, followed by CRLF CRLF, i.e. one CRLF more than the blank line *)
Definition roundtrip_residue (r : request) : bytes :=
  match r_headers r with [] => CRLF | _ => [] end.

(* ---- Cookie field value ---- *)
Definition SEMI : N := 59.
Definition EQUALS : N := 61.
Definition COMMA : N := 44.

(* one `;`-separated piece: `k = x` (raw, padding included) or a piece without `=` *)
Inductive citem := CPair (k x : bytes) | CBare (j : bytes).
Definition citem_text (i : citem) : bytes := match i with CPair k x => k ++ EQUALS :: x | CBare j => j end.
Definition citem_wf (i : citem) : bool :=
  match i with
  | CPair k x => nob SEMI k && nob EQUALS k && nob SEMI x       (* x may contain `=` *)
  | CBare j => nob SEMI j && nob EQUALS j
  end.
Definition citem_denote (i : citem) : option (bytes * bytes) :=
  match i with CPair k x => Some (trim k, trim x) | CBare _ => None end.
Definition cookie_value (items : list citem) : bytes := join_byte SEMI (map citem_text items).

(* the usual spelling "k1=v1; k2=v2; ..." *)
Fixpoint cookie_std (kvs : list (bytes * bytes)) : bytes :=
  match kvs with
  | [] => []
  | [(k, v)] => k ++ EQUALS :: v
  | (k, v) :: t => k ++ EQUALS :: v ++ SEMI :: SP :: cookie_std t
  end.
Definition cookie_kv_wf (kv : bytes * bytes) : Prop :=
  trim (fst kv) = fst kv /\ trim (snd kv) = snd kv /\
  nob SEMI (fst kv) = true /\ nob EQUALS (fst kv) = true /\ nob SEMI (snd kv) = true.

(* ---- X-Forwarded-For field value: comma-separated entries with optional padding ---- *)
Record xentry := { xe_pad : bytes; xe_text : bytes; xe_pad' : bytes }.
Definition xe_raw (x : xentry) : bytes := xe_pad x ++ xe_text x ++ xe_pad' x.
Definition xff_value (xs : list xentry) : bytes := join_byte COMMA (map xe_raw xs).
Definition xe_wf (x : xentry) : Prop := nob COMMA (xe_raw x) = true /\ trim (xe_raw x) = xe_text x.
(* sufficient: SP / HTAB padding around a text without a comma and without white space at either end *)
Definition xe_wfb (x : xentry) : bool :=
  forallb is_ows (xe_pad x) && forallb is_ows (xe_pad' x) && nob COMMA (xe_text x) &&
  beq (trim_start (xe_text x)) (xe_text x) && beq (trim_end (xe_text x)) (xe_text x).

(* ---- the exact language of the parser ----
   `accepted g` relaxes wf_greq to precisely what Request::from_stream needs: after the colon any text `sep` may
   precede the value as long as trim_start removes exactly it (Unicode white space included), and only the line as a
   whole has to be valid UTF-8.  HttpReqProofs.parse_accepts_iff: the parser returns (r, rest) on b exactly when
   b = render g ++ rest and r = denote g for some accepted g. *)
Record acc_header (h : gheader) : Prop := {
  ah_name_colon : nob COLON (gh_name h) = true;
  ah_name_lf : nob LF (gh_name h) = true;
  ah_name_u : utf8_valid (gh_name h) = true;
  ah_sep_lf : nob LF (gh_sep h) = true;
  ah_value_lf : nob LF (gh_value h) = true;
  ah_sv_u : utf8_valid (gh_sep h ++ gh_value h) = true;
  ah_trim : trim_start (gh_sep h ++ gh_value h) = gh_value h }.

Record acc_start (g : greq) : Prop := {
  as_method : wf_method (g_method g) = true;
  as_path_sp : nob SP (g_path g) = true;
  as_path_lf : nob LF (g_path g) = true;
  as_path_q : nob QMARK (g_path g) = true;
  as_path_u : utf8_valid (g_path g) = true;
  as_query : match g_query g with
             | Some q => nob SP q = true /\ nob LF q = true /\ utf8_valid q = true
             | None => True
             end;
  as_ver_ne : g_version g <> [];
  as_ver_sp : nob SP (g_version g) = true;
  as_ver_lf : nob LF (g_version g) = true;
  as_ver_u : utf8_valid (g_version g) = true }.

Definition accepted (g : greq) : Prop :=
  acc_start g /\ Forall acc_header (g_headers g) /\ wf_body g = true.
