(* Model of humphrey-server/src/server/cache.rs (Cache::get / Cache::set) and of the two call sites in
   humphrey-server/src/server/static.rs (cache_check, inner_file_handler)  — property C16.
   Definitions only.

   Conventions: usize/u64 are N; every place where the Rust code indexes or subtracts has a Crash branch:
     Crash 1  set: `self.data[0]` on an empty VecDeque inside the eviction loop ("Out of bounds access")
     Crash 2  set: `self.cache_size -= self.data[0].data.len()` underflow (debug build / overflow-checks)
     Crash 3  set: `self.cache_size -= self.data[existing_item].data.len()` underflow
     Crash 4  get/set: `self.data[index]` with an index that is not in range (index comes from `position`)
     Crash 5  get: `time - item.cache_time` underflow (u64, clock went backwards; debug build / overflow-checks)
   `cache_size + value.len()` and `cache_size += value.len()` cannot exceed usize::MAX for data that fits in
   memory (Vec lengths are <= isize::MAX and cache_size is the sum of live Vec lengths); that overflow is not modelled.
   The clock (`SystemTime::now()` in seconds since the epoch) is an input `now` of every operation: `get` reads it
   once at the start, `set` reads it once when it builds the new item. Routes are the UTF-8 bytes of the String
   (String equality = byte equality), hosts are usize, the MIME type is the index of the enum variant. *)
From Hv Require Import Prelude.
Open Scope N_scope.

Record item := mkItem {
  i_route : list N;
  i_host : N;
  i_mime : N;
  i_time : N;
  i_data : bytes }.

Record cache := mkCache {
  c_limit : N;       (* cache_limit *)
  c_tlimit : N;      (* cache_time_limit *)
  c_size : N;        (* cache_size *)
  c_data : list item (* data: VecDeque, front = head *) }.

Definition blen (v : bytes) : N := N.of_nat (length v).
Definition ilen (it : item) : N := blen (i_data it).

(* Cache::from(&Config) / Default *)
Definition empty (lim tl : N) : cache := mkCache lim tl 0 [].

Fixpoint list_eqb (a b : list N) : bool :=
  match a, b with
  | [], [] => true
  | x :: a', y :: b' => (x =? y) && list_eqb a' b'
  | _, _ => false
  end.

(* |item| item.route == route && item.host == host *)
Definition key_match (r : list N) (h : N) (it : item) : bool :=
  list_eqb (i_route it) r && (i_host it =? h).

(* self.data.iter().position(..) *)
Fixpoint position (r : list N) (h : N) (d : list item) : option nat :=
  match d with
  | [] => None
  | it :: d' => if key_match r h it then Some O
                else match position r h d' with Some i => Some (S i) | None => None end
  end.

(* VecDeque::remove(index) (no panic when out of range: returns None and leaves the deque unchanged) *)
Fixpoint remove_at (i : nat) (d : list item) : list item :=
  match d with
  | [] => []
  | it :: d' => match i with O => d' | S j => it :: remove_at j d' end
  end.

(* the list without its first element satisfying f (what position + remove amount to; see CacheProofs.position_find) *)
Fixpoint remove_first (f : item -> bool) (d : list item) : list item :=
  match d with
  | [] => []
  | x :: d' => if f x then d' else x :: remove_first f d'
  end.

(* ---- Cache::get ---- *)
Definition get (c : cache) (r : list N) (h : N) (now : N) : outcome (option item) :=
  match position r h (c_data c) with
  | Some i =>
    match nth_error (c_data c) i with
    | None => Crash 4
    | Some it =>
      if now <? i_time it then Crash 5                       (* time - item.cache_time *)
      else if c_tlimit c <? now - i_time it then Ok None      (* stale *)
      else Ok (Some it)
    end
  | None => Ok None
  end.

(* ---- Cache::set ---- *)
(* while self.cache_size + value.len() > self.cache_limit { self.cache_size -= self.data[0].data.len(); pop_front } *)
Fixpoint evict (size len lim : N) (d : list item) {struct d} : outcome (N * list item) :=
  if lim <? size + len then
    match d with
    | [] => Crash 1
    | it :: d' => if size <? ilen it then Crash 2 else evict (size - ilen it) len lim d'
    end
  else Ok (size, d).

(* if let Some(existing_item) = position(..) { cache_size -= data[existing_item].data.len(); data.remove(existing_item) } *)
Definition remove_existing (size : N) (r : list N) (h : N) (d : list item) : outcome (N * list item) :=
  match position r h d with
  | Some i =>
    match nth_error d i with
    | None => Crash 4
    | Some old => if size <? ilen old then Crash 3 else Ok (size - ilen old, remove_at i d)
    end
  | None => Ok (size, d)
  end.

Definition set (c : cache) (r : list N) (h : N) (v : bytes) (m : N) (now : N) : outcome cache :=
  match evict (c_size c) (blen v) (c_limit c) (c_data c) with
  | Ok (size1, d1) =>
    match remove_existing size1 r h d1 with
    | Ok (size2, d2) =>
      (* cache_size += value.len(); data.push_back(CachedItem { .., cache_time: now }) *)
      Ok (mkCache (c_limit c) (c_tlimit c) (size2 + blen v) (d2 ++ [mkItem r h m now v]))
    | Err e => Err e
    | Crash w => Crash w
    end
  | Err e => Err e
  | Crash w => Crash w
  end.

(* ---- operation sequences on the cache itself (each operation = one critical section of the RwLock) ---- *)
Inductive op :=
| OSet (r : list N) (h : N) (v : bytes) (m : N) (now : N)
| OGet (r : list N) (h : N) (now : N).

Definition op_now (o : op) : N :=
  match o with OSet _ _ _ _ t => t | OGet _ _ t => t end.

Definition step (c : cache) (o : op) : outcome (cache * option (option item)) :=
  match o with
  | OSet r h v m now =>
    match set c r h v m now with Ok c' => Ok (c', None) | Err e => Err e | Crash w => Crash w end
  | OGet r h now =>
    match get c r h now with Ok x => Ok (c, Some x) | Err e => Err e | Crash w => Crash w end
  end.

(* results of the gets so far (in order), and the final cache or the crash that ended the run *)
Fixpoint run (c : cache) (ops : list op) : list (option item) * outcome cache :=
  match ops with
  | [] => ([], Ok c)
  | o :: rest =>
    match step c o with
    | Ok (c', out) =>
      let (outs, fin) := run c' rest in
      (match out with Some x => x :: outs | None => outs end, fin)
    | Err e => ([], Err e)
    | Crash w => ([], Crash w)
    end
  end.

(* number of gets in a history = number of outputs of a complete run *)
Fixpoint ngets (ops : list op) : nat :=
  match ops with
  | [] => O
  | OGet _ _ _ :: rest => S (ngets rest)
  | OSet _ _ _ _ _ :: rest => ngets rest
  end.

(* ---- the call sites in static.rs ----
   cache_check:        if config.cache.size_limit > 0 { cache.read().get(uri, host) } else None
   inner_file_handler: contents = read file; if config.cache.size_limit >= contents.len() { cache.write().set(..) }
   (Cache::from(&Config) copies config.cache.size_limit into cache_limit, so the guard is on c_limit.) *)
Definition lookup (c : cache) (r : list N) (h : N) (now : N) : outcome (option item) :=
  if 0 <? c_limit c then get c r h now else Ok None.

Definition store (c : cache) (r : list N) (h : N) (v : bytes) (m : N) (now : N) : outcome cache :=
  if blen v <=? c_limit c then set c r h v m now else Ok c.

(* One request through file_handler / directory_handler (after the blacklist check) whose path resolves to a
   file that currently has contents q_fs and MIME type q_mime (from the extension). *)
Record req := mkReq {
  q_route : list N;
  q_host : N;
  q_fs : bytes;
  q_mime : N;
  q_now : N }.

Record resp := mkResp {
  p_body : bytes;
  p_mime : N;
  p_cached : bool;     (* answered from the cache *)
  p_stored : bool }.   (* the file was read and put into the cache (not observable in the response itself) *)

(* a cache hit answers from the cache; otherwise the file is read, stored when it fits, and served *)
Definition handle (c : cache) (q : req) : outcome (cache * resp) :=
  match lookup c (q_route q) (q_host q) (q_now q) with
  | Ok (Some it) => Ok (c, mkResp (i_data it) (i_mime it) true false)
  | Ok None =>
    match store c (q_route q) (q_host q) (q_fs q) (q_mime q) (q_now q) with
    | Ok c' => Ok (c', mkResp (q_fs q) (q_mime q) false (blen (q_fs q) <=? c_limit c))
    | Err e => Err e
    | Crash w => Crash w
    end
  | Err e => Err e
  | Crash w => Crash w
  end.

Fixpoint hrun (c : cache) (qs : list req) : list resp * outcome cache :=
  match qs with
  | [] => ([], Ok c)
  | q :: rest =>
    match handle c q with
    | Ok (c', p) => let (ps, fin) := hrun c' rest in (p :: ps, fin)
    | Err e => ([], Err e)
    | Crash w => ([], Crash w)
    end
  end.

(* the atomic cache operations that a request performs when it meets cache c (read section, then on a miss that
   fits a write section); other threads' operations may come between the two — CacheProofs.v shows that hrun is
   run over the concatenation of these, so every handler history is a cache-operation history *)
Definition req_ops (c : cache) (q : req) : list op :=
  (if 0 <? c_limit c then [OGet (q_route q) (q_host q) (q_now q)] else []) ++
  match lookup c (q_route q) (q_host q) (q_now q) with
  | Ok None => if blen (q_fs q) <=? c_limit c
               then [OSet (q_route q) (q_host q) (q_fs q) (q_mime q) (q_now q)] else []
  | _ => []
  end.

Fixpoint htrace (c : cache) (qs : list req) : list op :=
  match qs with
  | [] => []
  | q :: rest =>
    req_ops c q ++
    match handle c q with
    | Ok (c', _) => htrace c' rest
    | _ => []
    end
  end.

(* ---- the numeric rendering of a run, used to compare the extracted program with vm_compute inside Coq ---- *)
Definition render_item (it : item) : list N :=
  [i_host it; i_mime it; i_time it; blen (i_data it); blen (i_route it)] ++ i_route it ++ i_data it.

Definition render_run (lim tl : N) (ops : list op) : list N :=
  let (outs, fin) := run (empty lim tl) ops in
  concat (map (fun x => match x with None => [0] | Some it => 1 :: render_item it end) outs) ++
  match fin with
  | Ok c => [2; c_size c; N.of_nat (length (c_data c))] ++ concat (map render_item (c_data c))
  | Crash w => [3; w]
  | Err e => [4; e]
  end.

(* ---- abstract specification: a finite map from (route, host) to the value most recently stored.
   It never evicts and never expires; the cache must be a sub-map of it. ---- *)
Definition key := (list N * N)%type.
Definition entry := (bytes * N * N)%type.           (* bytes, mime, time stored *)
Definition amap := list (key * entry).               (* association list, newest binding first *)

Definition key_eqb (a b : key) : bool := list_eqb (fst a) (fst b) && (snd a =? snd b).

Fixpoint alookup (k : key) (m : amap) : option entry :=
  match m with
  | [] => None
  | (k', e) :: m' => if key_eqb k' k then Some e else alookup k m'
  end.

Definition item_entry (it : item) : entry := (i_data it, i_mime it, i_time it).
Definition item_key (it : item) : key := (i_route it, i_host it).

Definition spec_step (m : amap) (o : op) : amap :=
  match o with
  | OSet r h v mm now => ((r, h), (v, mm, now)) :: m
  | OGet _ _ _ => m
  end.

Definition spec (ops : list op) : amap := fold_left spec_step ops [].

(* the operation stores a value for key k *)
Definition sets_key (k : key) (o : op) : Prop :=
  match o with OSet r h _ _ _ => (r, h) = k | OGet _ _ _ => False end.

Definition req_key (q : req) : key := (q_route q, q_host q).

(* handler-level abstract map: what the most recent *storing* request put there for each key *)
Fixpoint hspec (c : cache) (qs : list req) (m : amap) : amap :=
  match qs with
  | [] => m
  | q :: rest =>
    match handle c q with
    | Ok (c', p) =>
      hspec c' rest (if p_stored p then (req_key q, (q_fs q, q_mime q, q_now q)) :: m else m)
    | _ => m
    end
  end.

(* ---- hypotheses of the sequence theorems ---- *)
(* the caller's guard: every value stored is no larger than the limit (static.rs: size_limit >= contents.len()) *)
Definition op_ok (lim : N) (o : op) : Prop :=
  match o with OSet _ _ v _ _ => blen v <= lim | OGet _ _ _ => True end.

(* non-decreasing clock, starting from t *)
Fixpoint mono (t : N) (ops : list op) : Prop :=
  match ops with
  | [] => True
  | o :: rest => t <= op_now o /\ mono (op_now o) rest
  end.

Fixpoint qmono (t : N) (qs : list req) : Prop :=
  match qs with
  | [] => True
  | q :: rest => t <= q_now q /\ qmono (q_now q) rest
  end.

(* sum of the sizes of the entries *)
Fixpoint total (d : list item) : N :=
  match d with [] => 0 | it :: d' => ilen it + total d' end.

(* size of what a lookup of key k would return at time now (0 when it returns nothing) *)
Definition retrievable_size (c : cache) (now : N) (k : key) : N :=
  match get c (fst k) (snd k) now with Ok (Some it) => ilen it | _ => 0 end.

Fixpoint sumN (l : list N) : N := match l with [] => 0 | x :: r => x + sumN r end.

(* all interleavings of per-thread operation lists that preserve each thread's program order *)
Inductive interleaving : list (list op) -> list op -> Prop :=
| il_done : forall ts, Forall (fun t => t = []) ts -> interleaving ts []
| il_step : forall pre o t post rest,
    interleaving (pre ++ t :: post) rest ->
    interleaving (pre ++ (o :: t) :: post) (o :: rest).

(* ---- a plausible wrong variant, used only to show that the invariants are not vacuous: the existing entry is
   removed without adjusting cache_size ---- *)
Definition set_noadjust (c : cache) (r : list N) (h : N) (v : bytes) (m : N) (now : N) : outcome cache :=
  match evict (c_size c) (blen v) (c_limit c) (c_data c) with
  | Ok (size1, d1) =>
    let d2 := match position r h d1 with Some i => remove_at i d1 | None => d1 end in
    Ok (mkCache (c_limit c) (c_tlimit c) (size1 + blen v) (d2 ++ [mkItem r h m now v]))
  | Err e => Err e
  | Crash w => Crash w
  end.

(* ---- fine-grained executions under a readers-writer lock ----
   Any number of threads; an idle thread may begin any operation at any time. An operation is NOT atomic here: `get`
   computes the index, then (in a later step) reads the entry at that index; `set` runs the eviction loop, then
   removes the existing entry, then pushes — each micro-step reads and writes the shared cache in place, and other
   threads' micro-steps may come in between. The only synchronisation is the RwLock of static.rs, modelled by its
   guarantee: a read guard is granted only while no write guard is held, a write guard only while no guard at all is
   held (a thread state other than TIdle means the thread holds the corresponding guard). A completed operation
   appends (operation, result) to the log. *)
Inductive tstate :=
| TIdle
| TGetA (r : list N) (h now : N)                         (* read guard held; before `position` *)
| TGetB (r : list N) (h now : N) (idx : option nat)      (* index computed; entry not read yet *)
| TSetA (r : list N) (h : N) (v : bytes) (m now : N)     (* write guard held; before the eviction loop *)
| TSetB (r : list N) (h : N) (v : bytes) (m now : N)     (* eviction done in place *)
| TSetC (r : list N) (h : N) (v : bytes) (m now : N).    (* existing entry removed in place; before push_back *)

Definition holds_write (t : tstate) : Prop :=
  match t with TSetA _ _ _ _ _ | TSetB _ _ _ _ _ | TSetC _ _ _ _ _ => True | _ => False end.

Definition upd (ts : nat -> tstate) (i : nat) (x : tstate) : nat -> tstate :=
  fun j => if Nat.eqb j i then x else ts j.

(* second half of get: `&self.data[index]` and the staleness test, on the cache as it is NOW *)
Definition get_at (c : cache) (idx : option nat) (now : N) : outcome (option item) :=
  match idx with
  | Some i =>
    match nth_error (c_data c) i with
    | None => Crash 4
    | Some it => if now <? i_time it then Crash 5
                 else if c_tlimit c <? now - i_time it then Ok None else Ok (Some it)
    end
  | None => Ok None
  end.

Definition logent := (op * option (option item))%type.

Inductive cstep : cache * (nat -> tstate) * list logent -> cache * (nat -> tstate) * list logent -> Prop :=
| cs_begin_get : forall c ts log i r h now,
    ts i = TIdle -> (forall j, ~ holds_write (ts j)) ->
    cstep (c, ts, log) (c, upd ts i (TGetA r h now), log)
| cs_get_a : forall c ts log i r h now,
    ts i = TGetA r h now ->
    cstep (c, ts, log) (c, upd ts i (TGetB r h now (position r h (c_data c))), log)
| cs_get_b : forall c ts log i r h now idx x,
    ts i = TGetB r h now idx -> get_at c idx now = Ok x ->
    cstep (c, ts, log) (c, upd ts i TIdle, log ++ [(OGet r h now, Some x)])
| cs_begin_set : forall c ts log i r h v m now,
    (forall j, ts j = TIdle) ->
    cstep (c, ts, log) (c, upd ts i (TSetA r h v m now), log)
| cs_set_a : forall c ts log i r h v m now s1 d1,
    ts i = TSetA r h v m now ->
    evict (c_size c) (blen v) (c_limit c) (c_data c) = Ok (s1, d1) ->
    cstep (c, ts, log) (mkCache (c_limit c) (c_tlimit c) s1 d1, upd ts i (TSetB r h v m now), log)
| cs_set_b : forall c ts log i r h v m now s2 d2,
    ts i = TSetB r h v m now ->
    remove_existing (c_size c) r h (c_data c) = Ok (s2, d2) ->
    cstep (c, ts, log) (mkCache (c_limit c) (c_tlimit c) s2 d2, upd ts i (TSetC r h v m now), log)
| cs_set_c : forall c ts log i r h v m now,
    ts i = TSetC r h v m now ->
    cstep (c, ts, log)
          (mkCache (c_limit c) (c_tlimit c) (c_size c + blen v) (c_data c ++ [mkItem r h m now v]),
           upd ts i TIdle, log ++ [(OSet r h v m now, None)]).

Inductive creach (lim tl : N) : cache * (nat -> tstate) * list logent -> Prop :=
| cr_init : creach lim tl (empty lim tl, fun _ => TIdle, [])
| cr_step : forall s s', creach lim tl s -> cstep s s' -> creach lim tl s'.

(* running the logged operations one after the other from c gives exactly the logged results and ends in c' *)
Fixpoint seq_exec (c : cache) (log : list logent) (c' : cache) : Prop :=
  match log with
  | [] => c' = c
  | (o, out) :: rest => exists c1, step c o = Ok (c1, out) /\ seq_exec c1 rest c'
  end.
