(* Model of the WebSocket endpoint (C11; recv_safe feeds C03):
     humphrey-ws/src/message.rs   Message::from_stream, Message::from_stream_nonblocking, Message::text
     humphrey-ws/src/stream.rs    WebsocketStream::{recv, recv_nonblocking, send}, Drop
     humphrey-ws/src/frame.rs     Frame::from_stream_nonblocking (the blocking decoder is C10's Frame.v)
     humphrey-ws/src/handler.rs   handshake;   humphrey/src/app.rs  the `Upgrade: websocket` hand-off in client_handler
   after the two repairs
     fix: Pong and Close replies and the Close sent on drop are written as serialised frames       (F20)
     fix: the non-blocking frame read completes a partially received two-byte header               (F21)
   Models of the code as it was (on_frame_old, drop_stream_old, frame_nb_old) are kept for the refutations only.

   A socket is a `chunks` value (Stream.v): what successive blocking reads deliver; end of list = the peer has closed.
   Everything the server writes is returned as a list of byte strings, one per write_all call, in order.  Writes are
   assumed to succeed (WebsocketError::WriteError needs a peer that stopped reading: outside the model).
   Definitions only. *)
From Hv Require Import Prelude Bytes Stream Frame TablesHttp TablesWs Http.
From Hv Require Sha1 Base64.
Open Scope N_scope.

(* error classes of WebsocketError: ReadError = 1 and InvalidOpcode = 2 come from Frame.v *)
Definition HandshakeError : N := 3.
Definition ConnectionClosed : N := 4.
Definition WriteError : N := 5.
Definition OutOfFuel : N := 99.      (* not an error of the code: the model's loop bound, excluded by the theorems *)

(* ---- struct Message { payload, text } ---- *)
Record message := mkMsg { m_text : bool; m_payload : bytes }.

(* Message::is_text / Message::text: Some only for a text message whose payload is valid UTF-8 *)
Definition msg_text (m : message) : option bytes :=
  if m_text m then (if utf8_valid (m_payload m) then Some (m_payload m) else None) else None.

(* Message::new (text iff the payload is valid UTF-8) / new_binary, and to_frame (Frame.v: message_to_frame) *)
Definition message_new (p : bytes) : message := mkMsg (utf8_valid p) p.
Definition message_new_binary (p : bytes) : message := mkMsg false p.
Definition send_bytes (m : message) : bytes := message_to_frame (m_text m) (m_payload m).

(* "Concatenate the payloads of all frames into a single payload"; text iff the FIRST frame has opcode Text *)
Definition finish_message (frames : list frame) : message :=
  mkMsg (match frames with
         | f :: _ => match fopcode f with Text => true | _ => false end
         | [] => false
         end)
        (concat (map payload frames)).

(* ---- the body of the `while` loop after a frame has been read ----
   acc = `frames`, newest first.  SCont = go round the loop again; SDone = return.  w = what is written to the socket. *)
Inductive step : Type :=
| SCont (acc : list frame) (w : list bytes)
| SDone (res : outcome message) (w : list bytes).

Definition on_frame (acc : list frame) (f : frame) : step :=
  match fopcode f with
  | Ping => SCont acc [encode (new_frame Pong (payload f))]       (* write_all(&Vec::<u8>::from(pong)); continue *)
  | Pong => SCont acc []                                          (* last_pong = now; continue *)
  | Close => SDone (Err ConnectionClosed) [encode (new_frame Close (payload f))]
  | _ =>                                                          (* frames.push(frame); loop test: last frame's fin *)
    if fin f then SDone (Ok (finish_message (rev (f :: acc)))) [] else SCont (f :: acc) []
  end.

(* as it was before fix F20: write_all(frame.as_ref()), and AsRef<[u8]> for Frame is the payload *)
Definition on_frame_old (acc : list frame) (f : frame) : step :=
  match fopcode f with
  | Ping => SCont acc [payload (new_frame Pong (payload f))]
  | Pong => SCont acc []
  | Close => SDone (Err ConnectionClosed) [payload (new_frame Close (payload f))]
  | _ => if fin f then SDone (Ok (finish_message (rev (f :: acc)))) [] else SCont (f :: acc) []
  end.

(* Allocation meter (bytes requested from the allocator during one call; an upper bound on the peak):
   payload buffer of every frame read (Frame.v: <= 2*len + 32), the serialised reply (Vec growth: <= 2*(len + 14)),
   one slot of the Vec<Frame> per retained frame (48 bytes, doubling growth: <= 96), the concatenated payload
   (doubling growth: <= 2*len). *)
Definition step_alloc (f : frame) : N :=
  match fopcode f with
  | Ping | Close => 2 * (blen (payload f) + 14)
  | Pong => 0
  | _ => 96
  end.
Definition msg_alloc (res : outcome message) : N :=
  match res with Ok m => 2 * blen (m_payload m) | _ => 0 end.

(* ---- Message::from_stream ---- *)
Record recv_out := mkOut {
  r_res : outcome message;       (* Result<Message, WebsocketError> *)
  r_writes : list bytes;         (* write_all calls made meanwhile *)
  r_rest : chunks;               (* the reader afterwards ([] after a read error: nothing more is read) *)
  r_alloc : N }.

Definition add_write (w : list bytes) (a : N) (o : recv_out) : recv_out :=
  mkOut (r_res o) (w ++ r_writes o) (r_rest o) (a + r_alloc o).

(* fuel: every frame takes at least two bytes from the reader *)
Fixpoint recv_loop (step_fn : list frame -> frame -> step) (fuel : nat) (cs : chunks) (acc : list frame) : recv_out :=
  match fuel with
  | O => mkOut (Err OutOfFuel) [] cs 0
  | S fuel' =>
    let '(r, a) := decode_m cs in                       (* Frame::from_stream(&mut stream.stream)? *)
    match r with
    | Err e => mkOut (Err e) [] [] a
    | Crash w => mkOut (Crash w) [] [] a
    | Ok (f, cs1) =>
      match step_fn acc f with
      | SDone res w => mkOut res w cs1 (a + step_alloc f + msg_alloc res)
      | SCont acc' w => add_write w (a + step_alloc f) (recv_loop step_fn fuel' cs1 acc')
      end
    end
  end.

Definition fuel_of (cs : chunks) : nat := S (N.to_nat (total_len cs)).

(* WebsocketStream::recv (the `closed` flag is set iff the result is ConnectionClosed: see `closed_after`) *)
Definition recv (cs : chunks) : recv_out := recv_loop on_frame (fuel_of cs) cs [].
Definition recv_old (cs : chunks) : recv_out := recv_loop on_frame_old (fuel_of cs) cs [].

Definition closed_after (res : outcome message) : bool :=
  match res with Err e => e =? ConnectionClosed | _ => false end.

(* ---- impl Drop for WebsocketStream ---- *)
Definition drop_stream (closed : bool) : list bytes :=
  if closed then [] else [encode (new_frame Close [])].
Definition drop_stream_old (closed : bool) : list bytes :=
  if closed then [] else [payload (new_frame Close [])].

(* ---- a handler that loops `recv()` until it fails, optionally echoing every message with `send`, optionally
   stopping after `limit` messages; then the stream is dropped ---- *)
Record serve_out := mkServe {
  s_msgs : list message;         (* the Ok results of recv, in order *)
  s_final : outcome unit;        (* Err e = the error that ended the loop; Ok tt = the limit was reached *)
  s_writes : list bytes;         (* every write on the connection, including the one made by Drop *)
  s_alloc : N }.                 (* largest meter of a single recv call *)

Fixpoint serve_loop (step_fn : list frame -> frame -> step) (drop_fn : bool -> list bytes)
                    (fuel : nat) (echo : bool) (limit : option nat) (cs : chunks) : serve_out :=
  match limit with
  | Some O => mkServe [] (Ok tt) (drop_fn false) 0
  | _ =>
    match fuel with
    | O => mkServe [] (Err OutOfFuel) [] 0
    | S fuel' =>
      let o := recv_loop step_fn (fuel_of cs) cs [] in
      match r_res o with
      | Ok m =>
        let rest := serve_loop step_fn drop_fn fuel' echo (option_map pred limit) (r_rest o) in
        mkServe (m :: s_msgs rest) (s_final rest)
                (r_writes o ++ (if echo then [send_bytes m] else []) ++ s_writes rest)
                (N.max (r_alloc o) (s_alloc rest))
      | Err e => mkServe [] (Err e) (r_writes o ++ drop_fn (e =? ConnectionClosed)) (r_alloc o)
      | Crash w => mkServe [] (Crash w) (r_writes o) (r_alloc o)
      end
    end
  end.

Definition serve (echo : bool) (limit : option nat) (cs : chunks) : serve_out :=
  serve_loop on_frame drop_stream (fuel_of cs) echo limit cs.
Definition serve_old (echo : bool) (limit : option nat) (cs : chunks) : serve_out :=
  serve_loop on_frame_old drop_stream_old (fuel_of cs) echo limit cs.

(* ---- Frame::from_stream_nonblocking ----
   k = number of bytes that have arrived when the non-blocking read() of the two header bytes is made.
   None = Restion::None (WouldBlock, or read() = Ok(0)).  After that read the stream is blocking again. *)
Definition frame_nb (k : N) (cs : chunks) : option (outcome (frame * chunks) * N) :=
  if k =? 0 then None
  else
    let '(d, cs1) := read (N.min k 2) cs in
    match d with
    | [] => None                                                   (* Ok(0) => Restion::None *)
    | [h0] =>                                                      (* Ok(1): stream.read_exact(&mut buf[1..]) *)
      match read_exact 1 cs1 with
      | None => Some (Err ReadError, 0)
      | Some ([h1], cs2) => Some (from_stream_inner cs2 h0 h1)
      | Some _ => Some (Crash CrashHeaderLen, 0)
      end
    | [h0; h1] => Some (from_stream_inner cs1 h0 h1)              (* Ok(2): read_exact of an empty slice reads nothing *)
    | _ => Some (Crash CrashHeaderLen, 0)                          (* a read into [u8; 2] cannot return more *)
    end.

(* as it was before fix F21: any Ok(n > 0) taken as a full header; the second byte keeps the buffer's initial 0 *)
Definition frame_nb_old (k : N) (cs : chunks) : option (outcome (frame * chunks) * N) :=
  if k =? 0 then None
  else
    let '(d, cs1) := read (N.min k 2) cs in
    match d with
    | [] => None
    | [h0] => Some (from_stream_inner cs1 h0 0)
    | [h0; h1] => Some (from_stream_inner cs1 h0 h1)
    | _ => Some (Crash CrashHeaderLen, 0)
    end.

(* ---- Message::from_stream_nonblocking ----
   `avail off` = bytes that have arrived and are still unread when a non-blocking header read is made after `off`
   bytes have been consumed by this call.  Only while no data frame has been collected (is_first_frame) is the frame
   read non-blocking; afterwards the loop is the blocking one. *)
Record nb_out := mkNb {
  n_res : option (outcome message);   (* None = Restion::None, "nothing yet" *)
  n_writes : list bytes;
  n_rest : chunks;
  n_alloc : N }.

Definition nb_add (w : list bytes) (a : N) (o : nb_out) : nb_out :=
  mkNb (n_res o) (w ++ n_writes o) (n_rest o) (a + n_alloc o).
Definition nb_of_recv (o : recv_out) : nb_out := mkNb (Some (r_res o)) (r_writes o) (r_rest o) (r_alloc o).

Fixpoint recv_nb_loop (fnb : N -> chunks -> option (outcome (frame * chunks) * N))
                      (fuel : nat) (avail : N -> N) (t0 : N) (cs : chunks) : nb_out :=
  match fuel with
  | O => mkNb (Some (Err OutOfFuel)) [] cs 0
  | S fuel' =>
    match fnb (avail (t0 - total_len cs)) cs with
    | None => mkNb None [] cs 0
    | Some (r, a) =>
      match r with
      | Err e => mkNb (Some (Err e)) [] [] a
      | Crash w => mkNb (Some (Crash w)) [] [] a
      | Ok (f, cs1) =>
        match on_frame [] f with
        | SDone res w => mkNb (Some res) w cs1 (a + step_alloc f + msg_alloc res)
        | SCont [] w => nb_add w (a + step_alloc f) (recv_nb_loop fnb fuel' avail t0 cs1)
        | SCont acc' w => nb_add w (a + step_alloc f) (nb_of_recv (recv_loop on_frame fuel' cs1 acc'))
        end
      end
    end
  end.

(* WebsocketStream::recv_nonblocking *)
Definition recv_nb (avail : N -> N) (cs : chunks) : nb_out :=
  recv_nb_loop frame_nb (fuel_of cs) avail (total_len cs) cs.
Definition recv_nb_old (avail : N -> N) (cs : chunks) : nb_out :=
  recv_nb_loop frame_nb_old (fuel_of cs) avail (total_len cs) cs.

(* arrival marks: bytes (counted from the start of this call) that have arrived after each client write; the call
   starts when the first mark has arrived.  A read made after `off` consumed bytes sees everything up to the first
   mark that is >= off. *)
Fixpoint avail_at (marks : list N) (off : N) : N :=
  match marks with
  | [] => 0
  | m :: r => if off <=? m then m - off else avail_at r off
  end.

(* a poller: calls recv_nonblocking once per entry of `avs` (one arrival pattern per call) and stops at the first error,
   after which the stream is dropped.  p_open = the list was exhausted first: the stream is still open. *)
Record poll_out := mkPoll {
  p_results : list (option (outcome message));     (* every poll result, None = nothing yet *)
  p_writes : list bytes;
  p_rest : chunks;
  p_open : bool }.

Fixpoint poll_loop (avs : list (N -> N)) (cs : chunks) : poll_out :=
  match avs with
  | [] => mkPoll [] [] cs true
  | av :: avs' =>
    let o := recv_nb av cs in
    match n_res o with
    | Some (Ok m) =>
      let rest := poll_loop avs' (n_rest o) in
      mkPoll (Some (Ok m) :: p_results rest) (n_writes o ++ p_writes rest) (p_rest rest) (p_open rest)
    | None =>
      let rest := poll_loop avs' (n_rest o) in
      mkPoll (None :: p_results rest) (n_writes o ++ p_writes rest) (p_rest rest) (p_open rest)
    | Some (Err e) => mkPoll [Some (Err e)] (n_writes o ++ drop_stream (e =? ConnectionClosed)) (n_rest o) false
    | Some (Crash w) => mkPoll [Some (Crash w)] (n_writes o) (n_rest o) false
    end
  end.

(* ---- handler.rs: handshake ---- *)
Definition str_HTTP11 : bytes := [72; 84; 84; 80; 47; 49; 46; 49].   (* Response::empty: version "HTTP/1.1" *)

(* format!("{}{}", handshake_key, MAGIC_STRING).hash().encode() *)
Definition accept_value (key : bytes) : outcome bytes :=
  obind (Sha1.sha1 (key ++ MAGIC_STRING)) Base64.encode.

Definition handshake (req : request) : outcome response :=
  match hget (hname_of WS_KEY_HEADER) (r_headers req) with
  | None => Err HandshakeError                                   (* .ok_or(WebsocketError::HandshakeError)? *)
  | Some key =>
    obind (accept_value key) (fun acc =>
    Ok {| s_version := str_HTTP11; s_status := WS_HANDSHAKE_STATUS;
          s_headers := [(HKnown H_Upgrade, WS_UPGRADE_VALUE); (HKnown H_Connection, WS_CONNECTION_VALUE);
                        (hname_of WS_ACCEPT_HEADER, acc)];
          s_body := [] |})
  end.

(* what is written to the socket: Vec::<u8>::from(response) *)
Definition handshake_bytes (req : request) : outcome bytes :=
  obind (handshake req) (fun r => Ok (serialize_response r)).

(* app.rs client_handler: a parsed request whose Upgrade header is exactly "websocket" is handed to the WebSocket
   route's handler (here: websocket_handler); None = an ordinary HTTP request *)
Definition upgrade (req : request) : option (outcome bytes) :=
  match hget (HKnown H_Upgrade) (r_headers req) with
  | Some v => if beq v WS_APP_UPGRADE_VALUE then Some (handshake_bytes req) else None
  | None => None
  end.
