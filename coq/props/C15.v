(* C15 — configuration files load into exactly what they describe, or are rejected with a line.
   Property theorems only: statements in full, each closed by `exact <lemma>`.

   Vocabulary (coq/theories/ConfigSpec.v):
     item / deco / main_layout   a configuration text as a decorated tree: what is written (keys with typed values, plain /
                                 route / host sections, include directives) AND how it is laid out (indentation, tabs and
                                 blanks between key and value, trailing blanks, comments, blank and comment lines, LF or CRLF
                                 per file, any run of items moved into an include file, recursively)
     render_main m its           the text of the main file; all_files_ok files its: the include files hold the rest
     skeleton its                the layout-free content (sitem): entries and sections in file order
     denote bl ss                the configuration a server-section body describes: documented keys by name (the last one if
                                 repeated), every omitted key at its default (TablesConfig, generated from config.rs), hosts
                                 and routes in file order, one route per comma-separated pattern
     wf_items / wf_conf          the documented syntax and the validation rules of Config::from_tree as conditions on the
                                 description (strings are UTF-8 without the comment character, the double quote and line
                                 breaks; integers fit an i64; route patterns and unquoted host names begin and end with a
                                 visible ASCII character; layout blanks are spaces and tabs; nesting < MAX_DEPTH)
     load                        the model of parse_conf followed by Config::from_tree (coq/theories/Config.v) *)
From Hv Require Import Prelude Bytes Krauss TablesConfig Config ConfigProofs ConfigSpec ConfigRenderProofs ConfigSemProofs ConfigQuoteProofs ConfigValidProofs.
Open Scope N_scope.

(* ---- a file that follows the syntax loads into exactly what it describes, for EVERY layout ---- *)
Theorem C15_load_render :
  forall (ipp : bytes -> option bytes) (files : bytes -> fentry) (file : bytes) (m : main_layout) (its : list item) (bl : list bytes),
    wf_main m -> wf_items its -> all_files_ok files its -> (items_depth its < conf_max_depth)%nat ->
    wf_conf ipp files bl (skeleton its) ->
    load ipp files file (render_main m its) = ROk (denote bl (skeleton its)).
Proof. exact load_render. Qed.

(* the two layers separately: the syntax tree of a rendered item tree, and Config::from_tree on the tree of a description *)
Theorem C15_parse_render :
  forall (files : bytes -> fentry) (file : bytes) (m : main_layout) (its : list item),
    wf_main m -> wf_items its -> all_files_ok files its -> (items_depth its < conf_max_depth)%nat ->
    parse_conf files file (render_main m its) = ROk (NSec kw_server (denote_items its)).
Proof. exact parse_render. Qed.

Theorem C15_from_tree_denote :
  forall (ipp : bytes -> option bytes) (files : bytes -> fentry) (bl : list bytes) (ss : list sitem),
    wf_conf ipp files bl ss -> from_tree ipp files (NSec kw_server (map snode ss)) = ROk (denote bl ss).
Proof. exact from_tree_denote. Qed.

(* independent of layout: same content, any two layouts / include splittings, same result *)
Theorem C15_load_layout_independent :
  forall (ipp : bytes -> option bytes) (files : bytes -> fentry) (file1 file2 : bytes) (m1 m2 : main_layout)
         (its1 its2 : list item) (bl : list bytes),
    wf_main m1 -> wf_main m2 -> wf_items its1 -> wf_items its2 -> all_files_ok files its1 -> all_files_ok files its2 ->
    (items_depth its1 < conf_max_depth)%nat -> (items_depth its2 < conf_max_depth)%nat ->
    skeleton its1 = skeleton its2 -> wf_conf ipp files bl (skeleton its1) ->
    load ipp files file1 (render_main m1 its1) = load ipp files file2 (render_main m2 its2).
Proof. exact load_layout_independent. Qed.

(* every omitted key at its fixed default: the empty server section, and key by key in any description *)
Theorem C15_defaults_spec :
  forall (ipp : bytes -> option bytes) (files : bytes -> fentry),
    from_tree ipp files (NSec kw_server []) =
    ROk {| cf_address := default_address; cf_port := default_port; cf_threads := default_threads; cf_websocket := None;
           cf_timeout := None; cf_bl_list := []; cf_bl_mode := 0; cf_log_level := default_log_level;
           cf_log_console := default_log_console; cf_log_file := None; cf_cache_size := default_cache_size;
           cf_cache_time := default_cache_time;
           cf_default_host := {| hc_matches := default_host_matches; hc_routes := [] |}; cf_hosts := [] |}.
Proof. exact defaults_spec. Qed.

Theorem C15_defaults_per_key :
  forall (bl : list bytes) (ss : list sitem),
    (kv_last k_address ss = None -> cf_address (denote bl ss) = default_address) /\
    (kv_last k_port ss = None -> cf_port (denote bl ss) = default_port) /\
    (kv_last k_threads ss = None -> cf_threads (denote bl ss) = default_threads) /\
    (kv_last k_timeout ss = None -> cf_timeout (denote bl ss) = None) /\
    (kv_last k_websocket ss = None -> cf_websocket (denote bl ss) = None) /\
    (kv_last k_mode (sub_bodies k_blacklist ss) = None -> cf_bl_mode (denote bl ss) = 0) /\
    (kv_last k_level (sub_bodies k_log ss) = None -> cf_log_level (denote bl ss) = default_log_level) /\
    (kv_last k_console (sub_bodies k_log ss) = None -> cf_log_console (denote bl ss) = default_log_console) /\
    (kv_last k_file (sub_bodies k_log ss) = None -> cf_log_file (denote bl ss) = None) /\
    (kv_last k_size (sub_bodies k_cache ss) = None -> cf_cache_size (denote bl ss) = default_cache_size) /\
    (kv_last k_time (sub_bodies k_cache ss) = None -> cf_cache_time (denote bl ss) = default_cache_time).
Proof. exact defaults_per_key. Qed.

(* The defaults regenerated from config.rs / default.rs on every run are the published ones: listening on 0.0.0.0:80 with
   32 threads, no timeout, blacklist mode "block", log level warn on the console, no cache, default host "*"; and the
   configuration used when there is no file at all (default.rs) has the same address, port and thread count. A changed
   default changes TablesConfig.v and breaks this theorem. *)
Theorem C15_defaults_pinned :
  default_address = [48;46;48;46;48;46;48] /\ default_port = 80 /\ default_threads = 32 /\ default_timeout = 0 /\
  default_blacklist_mode = [98;108;111;99;107] /\ default_log_level = 1 /\ default_log_console = true /\
  default_cache_size = 0 /\ default_cache_time = 0 /\ default_host_matches = [42] /\
  default_lb_mode = [114;111;117;110;100;45;114;111;98;105;110] /\ min_threads = 1 /\
  nofile_address = default_address /\ nofile_port = default_port /\ nofile_threads = default_threads /\ nofile_log_level = 2.
Proof. repeat split; reflexivity. Qed.

(* "Every file that violates ... a validation rule is rejected": whatever Config::from_tree accepts has passed every one of
   its validation steps - port a u16, threads a usize >= 1, timeout a u64, the blacklist file readable and every line an
   address, blacklist mode / log level / console flag / cache size and time recognised, every host and route well formed -
   and the accepted values are exactly the parsed ones (never accepted with a different meaning) *)
Theorem C15_accepted_passed_every_validation :
  forall ipp files tree c,
  from_tree ipp files tree = ROk c ->
  let m := flatten [] tree in
  get_optional_parsed parse_u16 m key_port default_port = Some (cf_port c) /\
  get_optional_parsed parse_usize m key_threads default_threads = Some (cf_threads c) /\
  min_threads <= cf_threads c /\
  (exists t, get_optional_parsed parse_u64 m key_timeout default_timeout = Some t /\
             cf_timeout c = if 0 <? t then Some t else None) /\
  load_blacklist ipp files (get_owned m key_blacklist_file) = ROk (cf_bl_list c) /\
  assoc_b (get_optional m key_blacklist_mode default_blacklist_mode) blacklist_mode_table = Some (cf_bl_mode c) /\
  get_optional_parsed parse_log_level m key_log_level default_log_level = Some (cf_log_level c) /\
  get_optional_parsed parse_bool m key_log_console default_log_console = Some (cf_log_console c) /\
  get_optional_parsed parse_usize m key_cache_size default_cache_size = Some (cf_cache_size c) /\
  get_optional_parsed parse_usize m key_cache_time default_cache_time = Some (cf_cache_time c) /\
  parse_host default_host_matches tree = ROk (cf_default_host c) /\
  collect (fun hn => parse_host (fst hn) (snd hn)) (hosts_of tree) = ROk (cf_hosts c).
Proof. exact from_tree_accepts_only_valid. Qed.

(* rule by rule: a tree that fails any validation step is not accepted *)
Theorem C15_validation_failure_rejected :
  forall ipp files tree,
  let m := flatten [] tree in
  (get_optional_parsed parse_u16 m key_port default_port = None \/
   get_optional_parsed parse_usize m key_threads default_threads = None \/
   (exists t, get_optional_parsed parse_usize m key_threads default_threads = Some t /\ t < min_threads) \/
   get_optional_parsed parse_u64 m key_timeout default_timeout = None \/
   (forall bl, load_blacklist ipp files (get_owned m key_blacklist_file) <> ROk bl) \/
   assoc_b (get_optional m key_blacklist_mode default_blacklist_mode) blacklist_mode_table = None \/
   get_optional_parsed parse_log_level m key_log_level default_log_level = None \/
   get_optional_parsed parse_bool m key_log_console default_log_console = None \/
   get_optional_parsed parse_usize m key_cache_size default_cache_size = None \/
   get_optional_parsed parse_usize m key_cache_time default_cache_time = None \/
   (forall h, parse_host default_host_matches tree <> ROk h) \/
   (forall hs, collect (fun hn => parse_host (fst hn) (snd hn)) (hosts_of tree) <> ROk hs)) ->
  forall c, from_tree ipp files tree <> ROk c.
Proof. exact from_tree_rejects. Qed.

(* a route is accepted only with a target (file / directory / redirect path, proxy targets with a recognised load-balancer
   mode, or a websocket target), and an accepted blacklist file consists of addresses only *)
Theorem C15_route_needs_target :
  forall conf wild rt,
  route_for conf wild = ROk rt ->
  rt_matches rt = wild /\
  ((rt_type rt = RT_File /\ rt_path rt <> None) \/ (rt_type rt = RT_Directory /\ rt_path rt <> None) \/
   (rt_type rt = RT_Redirect /\ rt_path rt <> None) \/
   (rt_type rt = RT_Proxy /\ exists targets mode, rt_lb rt = Some (targets, mode) /\
      assoc_b (get_optional conf rkey_lb_mode default_lb_mode) lb_mode_table = Some mode) \/
   (rt_type rt = RT_ExclusiveWebSocket /\ map_has conf rkey_websocket = true)).
Proof. exact route_for_accepts_only_with_target. Qed.

Theorem C15_blacklist_only_addresses :
  forall ipp files p bl,
  load_blacklist ipp files (Some p) = ROk bl ->
  exists b, files p = FData b /\ utf8_valid b = true /\ Forall (fun l => ipp l <> None) (lines b).
Proof. exact blacklist_accepts_only_addresses. Qed.

(* independent of what else is configured; hosts and routes in file order *)
Theorem C15_independent_of_other_keys :
  forall (bl : list bytes) (a b : list sitem) (k : bytes) (v : value), ~ In k documented_keys ->
    denote bl (a ++ SKv k v :: b) = denote bl (a ++ b).
Proof. exact independent_of_other_keys. Qed.

Theorem C15_independent_of_other_sections :
  forall (bl : list bytes) (a b : list sitem) (n : bytes) (body : list sitem), ~ In n documented_sections ->
    denote bl (a ++ SSec (KPlain n) body :: b) = denote bl (a ++ b).
Proof. exact independent_of_other_sections. Qed.

Theorem C15_hosts_in_file_order :
  forall (a : list sitem) (name : bytes) (q : bool) (body b : list sitem),
    denote_hosts (a ++ SSec (KHost name q) body :: b) =
    denote_hosts a ++ {| hc_matches := name; hc_routes := denote_routes body |} :: denote_hosts b.
Proof. exact hosts_in_file_order. Qed.

Theorem C15_routes_in_file_order :
  forall (a : list sitem) (pats : bytes) (rbody b : list sitem),
    denote_routes (a ++ SSec (KRoute pats) rbody :: b) = denote_routes a ++ denote_route pats rbody ++ denote_routes b.
Proof. exact routes_in_file_order. Qed.

(* a route header with a comma-separated pattern list (blanks around the commas free) yields one route per pattern, in order *)
Theorem C15_route_patterns :
  forall (p : bytes) (rest : list (bytes * bytes * bytes)) (rbody : list sitem), wf_pattern p ->
    Forall (fun t => blankb (fst (fst t)) = true /\ blankb (snd (fst t)) = true /\ wf_pattern (snd t)) rest ->
    map rt_matches (denote_route (pats_text p rest) rbody) = p :: map snd rest.
Proof. exact route_patterns. Qed.

(* ---- value typing: sizes ---- *)
(* <n><unit> with unit in K M G k m g denotes n * 1024^i when that fits an i64 and is a value error otherwise *)
Theorem C15_parse_size_correct :
  forall (key : bytes) (n u : N) (m : Z), (Z.of_N n <= i64_max)%Z -> ConfigProofs.unit_mult u = Some m ->
    type_value key (dec_render n ++ [u]) =
    if (Z.of_N n * m <=? i64_max)%Z then Ok (NNum key (dec_render (n * Z.to_N m))) else Err E_Value.
Proof. exact parse_size_correct. Qed.

Theorem C15_unknown_unit_rejected :
  forall (key : bytes) (n u : N), (Z.of_N n <= i64_max)%Z -> u < 128 -> ConfigProofs.unit_mult u = None ->
    is_digit u = false -> is_digit (upper_byte u) = false -> u <> 34 ->
    type_value key (dec_render n ++ [u]) = Err E_Value.
Proof. exact unknown_unit_rejected. Qed.

Theorem C15_unterminated_quote_rejected :
  forall (key s : bytes), forallb (fun b => negb (b =? 34)) s = true -> type_value key (QUOTE :: s) = Err E_Value.
Proof. exact unterminated_quote_value. Qed.

(* the model's quoted-string test on bytes IS the code's wildcard_match("\"*\"", value) on characters (C05's matcher model on
   the decoded scalar values), for every UTF-8 string *)
Theorem C15_is_quoted_is_wildcard_match :
  forall v : bytes, utf8_valid v = true ->
    (Krauss.wildcard_match [34; 42; 34] (utf8_decode v) = true <-> is_quoted v = true).
Proof. exact is_quoted_wildcard. Qed.

(* ---- a file with a fault is rejected with the file and the line of the fault ---- *)
(* General form: raw lines (IRaw) that are bad on their own may stand anywhere in the tree; scan_items walks the tree in
   file order and returns the first of them with the name of the file it is in and its line number in that file. *)
Theorem C15_reject_line :
  forall (files : bytes -> fentry) (file : bytes) (m : main_layout) (its : list item) (e : cerr),
    wf_main m -> wf_items_bad its -> all_files_ok files its -> (items_depth its < conf_max_depth)%nat ->
    scan_items file its (N.of_nat (length (m_before m)) + 1) = inr e ->
    parse_conf files file (render_main m its) = RErr e.
Proof. exact reject_line. Qed.

(* Single fault among the items of the server section: the error is (class, main file, line of the mutated line). *)
Theorem C15_reject_line_top :
  forall (files : bytes -> fentry) (file : bytes) (m : main_layout) (pre : list item) (l : bytes) (post : list item) (c : N),
    wf_main m -> wf_items pre -> wf_items post -> all_files_ok files (pre ++ post) ->
    (items_depth (pre ++ post) < conf_max_depth)%nat ->
    bad_line l = Some c -> forallb (fun b => negb (b =? 10) && negb (b =? 13)) l = true ->
    parse_conf files file (render_main m (pre ++ IRaw l :: post)) =
    RErr (mkerr c file (N.of_nat (length (m_before m)) + 1 + N.of_nat (length (render_items pre)) + 1)).
Proof. exact reject_line_top. Qed.

(* The mutation classes as bad lines (any decoration): a key without a value; a key with a value text that does not type
   (bad number, unknown unit, out-of-range size, unterminated quote, non-ASCII in a number: use the value-typing theorems
   above for the last hypothesis); an include whose argument is not quoted. *)
Theorem C15_missing_value_rejected :
  forall (d : deco) (key : bytes), wf_deco d -> keyb key = true -> key <> [RBRACE] -> last key 0 <> LBRACE ->
    bad_line (line_of d key) = Some E_Syntax.
Proof. exact missing_value_bad. Qed.

Theorem C15_bad_value_rejected :
  forall (d : deco) (key g1 g2 vt : bytes), wf_deco d -> keyb key = true -> key <> kw_include ->
    tabsb g1 = true -> blankb g2 = true -> vtext_ok vt -> plainb vt = true ->
    type_value key vt = Err E_Value ->
    bad_line (line_of d (kv_text key g1 g2 vt)) = Some E_Value.
Proof. exact bad_value_bad. Qed.

Theorem C15_bad_include_rejected :
  forall (d : deco) (g1 g2 vt : bytes), wf_deco d -> tabsb g1 = true -> blankb g2 = true -> vtext_ok vt -> plainb vt = true ->
    is_quoted vt = false ->
    bad_line (line_of d (kv_text kw_include g1 g2 vt)) = Some E_IncValue.
Proof. exact bad_include_bad. Qed.

(* Missing brace. brace_delta l = +1 if the line (comment stripped, trimmed) ends with an opening brace, -1 if it is a
   closing brace, 0 otherwise; balance sums it; from_server = the lines from the `server {` line on. For EVERY file:
   accepted => balanced, so any file that is not balanced is rejected with an error. In particular, taking any accepted
   file and dropping the opening brace of a section header, or emptying / deleting a closing-brace line (anything that
   changes one line's brace_delta), gives a rejected file. *)
Theorem C15_accepted_balanced :
  forall (files : bytes -> fentry) (file conf : bytes) (t : node), parse_conf files file conf = ROk t ->
    exists ls, from_server (lines conf) = Some ls /\ balance ls = 0%Z.
Proof. exact accepted_balanced. Qed.

Theorem C15_unbalanced_rejected :
  forall (files : bytes -> fentry) (file conf : bytes), utf8_valid conf = true ->
    (forall ls, from_server (lines conf) = Some ls -> balance ls <> 0%Z) ->
    exists e, parse_conf files file conf = RErr e.
Proof. exact unbalanced_rejected. Qed.

Theorem C15_missing_brace_rejected :
  forall (files : bytes -> fentry) (file conf conf' : bytes) (t : node) (a : list bytes) (sl : bytes) (b : list bytes)
         (l l' : bytes) (c : list bytes),
    parse_conf files file conf = ROk t -> utf8_valid conf' = true ->
    lines conf = a ++ sl :: b ++ l :: c -> lines conf' = a ++ sl :: b ++ l' :: c ->
    from_server a = None -> beq (clean_up sl) kw_server_open = true ->
    brace_delta l' <> brace_delta l ->
    exists e, parse_conf files file conf' = RErr e.
Proof. exact missing_brace_rejected. Qed.

Theorem C15_deleted_brace_line_rejected :
  forall (files : bytes -> fentry) (file conf conf' : bytes) (t : node) (a : list bytes) (sl : bytes) (b : list bytes)
         (l : bytes) (c : list bytes),
    parse_conf files file conf = ROk t -> utf8_valid conf' = true ->
    lines conf = a ++ sl :: b ++ l :: c -> lines conf' = a ++ sl :: b ++ c ->
    from_server a = None -> beq (clean_up sl) kw_server_open = true ->
    brace_delta l <> 0%Z ->
    exists e, parse_conf files file conf' = RErr e.
Proof. exact deleted_brace_line_rejected. Qed.

(* never by crashing (C03 instance for the loader) *)
Theorem C15_load_safe :
  forall (ipp : bytes -> option bytes) (files : bytes -> fentry) (file conf : bytes), utf8_valid conf = true ->
    match load ipp files file conf with
    | ROk _ => True
    | RErr e => ce_class e <> E_Fuel
    | RCrash _ => False
    end.
Proof. exact config_parse_safe. Qed.

(* Scope note (DESIGN §5 C15): everything after the first comment character is cut before tokenising, so a quoted string
   containing it is rejected with its line (never mis-accepted); wf_str excludes such strings. *)
Example C15_hash_in_string_rejected :
  parse_conf (fun _ => FNone) [109] [115;101;114;118;101;114;32;123;10;32;32;97;100;100;114;101;115;115;32;34;97;35;98;34;10;125;10] = RErr (mkerr E_Value [109] 2).
Proof. vm_compute. reflexivity. Qed.

(* The repaired acceptance defect: `host "x"` without its opening brace used to load (the host's routes became default
   routes, everything after the stray closing brace was dropped); it is now rejected at the line after the early end. *)
Example C15_host_without_brace_rejected :
  parse_conf (fun _ => FNone) [109] [115;101;114;118;101;114;32;123;10;32;32;104;111;115;116;32;34;120;34;10;32;32;32;32;114;111;117;116;101;32;47;97;32;123;10;32;32;32;32;32;32;102;105;108;101;32;34;102;34;10;32;32;32;32;125;10;32;32;125;10;32;32;114;111;117;116;101;32;47;42;32;123;10;32;32;32;32;100;105;114;101;99;116;111;114;121;32;34;47;119;34;10;32;32;125;10;125;10] = RErr (mkerr E_Trailing [109] 7).
Proof. vm_compute. reflexivity. Qed.

(* Non-vacuity: a concrete description with a comment, CRLF include file, a size, a host and a multi-pattern route satisfies
   every hypothesis of C15_load_render, and the loader model computes the configuration on its rendering. *)
Definition ex_d (ind : bytes) (c : option bytes) : deco := {| d_indent := ind; d_trail := [32]; d_comment := c |}.
Definition ex_inc_body : list item :=
  [ISec (ex_d [9] None) (KRoute [47;97;44;32;47;98]) [] [32]
        [IKv (ex_d [32;32] None) k_directory [] [] (VStr [47;118;97;114])] (ex_d [] (Some [32;101;110;100]))].
Definition ex_items : list item :=
  [IKv (ex_d [32;32] (Some [32;112;111;114;116])) k_port [9] [32] (VInt 8080);
   IBlank (ex_d [] (Some [32;99]));
   ISec (ex_d [32] None) (KPlain k_cache) [] [] [IKv (ex_d [] None) k_size [] [] (VSize 4 75)] (ex_d [32] None);
   ISec (ex_d [] None) (KHost [120;46;121] true) [32] [32]
        [ISec (ex_d [] None) (KRoute [47;42]) [] [32] [IKv (ex_d [] None) k_redirect [] [] (VStr [47])] (ex_d [] None)] (ex_d [] None);
   IInc (ex_d [32] None) [] [] [114;46;99] ex_inc_body true].
Definition ex_main : main_layout :=
  {| m_before := [ex_d [] (Some [32;104])]; m_open := ex_d [] None; m_open_w := [32]; m_close := ex_d [] None;
     m_after := [ex_d [] None]; m_crlf := false |}.
Definition ex_files (p : bytes) : fentry :=
  if beq p [114;46;99] then FData (file_text true (render_items ex_inc_body)) else FNone.

Ltac c15_disj := first [left; discriminate | right; c15_disj].
Ltac c15_route_ok := unfold wf_route; vm_compute; repeat split; try exact I; try c15_disj; try (repeat constructor);
                     try (intros; first [discriminate | congruence]).

Example C15_example_hypotheses_satisfiable :
  wf_main ex_main /\ wf_items ex_items /\ all_files_ok ex_files ex_items /\ (items_depth ex_items < conf_max_depth)%nat /\
  wf_conf (fun _ => None) ex_files [] (skeleton ex_items).
Proof.
  split; [unfold wf_main, ex_main; cbn; repeat split; try (constructor; [|constructor]); repeat split|].
  split; [cbn; repeat split; try reflexivity; try discriminate; exists 1024%Z; split; [reflexivity|vm_compute; discriminate]|].
  split; [cbn; repeat split; vm_compute; reflexivity|].
  split; [vm_compute; apply Nat.leb_le; reflexivity|].
  unfold wf_conf. remember (skeleton ex_items) as ss eqn:Ess. vm_compute in Ess. subst ss.
  repeat split.
  all: try (vm_compute; first [exact I | reflexivity | discriminate | (intro; discriminate) | fail]).
  all: try (repeat constructor; vm_compute; first [exact I | intuition discriminate]).
  all: try (repeat constructor; c15_route_ok).
Qed.

Example C15_example_loads :
  match load (fun _ => None) ex_files [109] (render_main ex_main ex_items) with
  | ROk c => cf_port c = 8080 /\ cf_cache_size c = 4096 /\ cf_threads c = default_threads /\
             map hc_matches (cf_hosts c) = [[120;46;121]] /\
             map rt_matches (hc_routes (cf_default_host c)) = [[47;97]; [47;98]]
  | _ => False
  end.
Proof. vm_compute. repeat split. Qed.

Print Assumptions C15_accepted_passed_every_validation.
Print Assumptions C15_validation_failure_rejected.
Print Assumptions C15_route_needs_target.
Print Assumptions C15_blacklist_only_addresses.
Print Assumptions C15_defaults_pinned.
Print Assumptions C15_load_render.
Print Assumptions C15_parse_render.
Print Assumptions C15_from_tree_denote.
Print Assumptions C15_load_layout_independent.
Print Assumptions C15_defaults_spec.
Print Assumptions C15_defaults_per_key.
Print Assumptions C15_independent_of_other_keys.
Print Assumptions C15_independent_of_other_sections.
Print Assumptions C15_hosts_in_file_order.
Print Assumptions C15_routes_in_file_order.
Print Assumptions C15_route_patterns.
Print Assumptions C15_parse_size_correct.
Print Assumptions C15_unknown_unit_rejected.
Print Assumptions C15_unterminated_quote_rejected.
Print Assumptions C15_is_quoted_is_wildcard_match.
Print Assumptions C15_reject_line.
Print Assumptions C15_reject_line_top.
Print Assumptions C15_missing_value_rejected.
Print Assumptions C15_bad_value_rejected.
Print Assumptions C15_bad_include_rejected.
Print Assumptions C15_accepted_balanced.
Print Assumptions C15_unbalanced_rejected.
Print Assumptions C15_missing_brace_rejected.
Print Assumptions C15_deleted_brace_line_rejected.
Print Assumptions C15_load_safe.
Print Assumptions C15_hash_in_string_rejected.
Print Assumptions C15_host_without_brace_rejected.
Print Assumptions C15_example_hypotheses_satisfiable.
Print Assumptions C15_example_loads.
