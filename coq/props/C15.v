(* C15 — configuration files load into exactly what they describe, or are rejected with a line. (theorems being added) *)
From Hv Require Import Prelude Bytes TablesConfig Config.
Open Scope N_scope.

(* "server {\n port 8080\n}\n" loads with port 8080 and every other key at its default *)
Example C15_example_minimal :
  match load (fun _ => None) (fun _ => FNone) [109] [115;101;114;118;101;114;32;123;10;32;112;111;114;116;32;56;48;56;48;10;125;10] with
  | ROk c => cf_port c = 8080 /\ cf_threads c = default_threads /\ cf_hosts c = []
  | _ => False
  end.
Proof. vm_compute. repeat split. Qed.

Print Assumptions C15_example_minimal.
