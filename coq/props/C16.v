(* C16 — the file cache returns only the latest bytes for the same key and keeps its limits.
   Property theorems only; every statement is written out in full and closed by `exact <lemma>`.

   Model (theories/Cache.v): `set`/`get` of humphrey-server/src/server/cache.rs over the list of entries
   (front = head), with a Crash outcome at data[0] on the empty deque, at the three subtractions and at the index
   sites; the clock is an input of every operation. `run c ops` executes a history of atomic operations
   (OSet = one write section, OGet = one read section of the RwLock) and returns the get results so far together
   with the final cache or the crash that ended it. `hrun` executes whole requests through the call sites of
   static.rs (cache_check guard `size_limit > 0`, inner_file_handler guard `size_limit >= len`).

   All theorems quantify over ALL histories `ops` (any length), all limits and all clocks; hypotheses appear
   only where the statement needs them (the caller's guard and a non-decreasing clock for crash freedom). *)
From Hv Require Import Prelude Cache CacheProofs.
Open Scope N_scope.

(* (1) Invariants after every history that did not crash: the tracked size is the sum of the entry sizes
   (size_is_sum), it never exceeds the limit (size_le_limit), no two entries share a (route, host) key
   (keys_unique); the configured limits never change. *)
Theorem C16_invariants :
  forall (lim tl : N) (ops : list op) (c : cache),
    snd (run (empty lim tl) ops) = Ok c ->
    c_size c = total (c_data c) /\
    c_size c <= lim /\
    NoDup (map item_key (c_data c)) /\
    c_limit c = lim /\ c_tlimit c = tl.
Proof. exact invariants. Qed.

(* (2) "The total size of retrievable entries never exceeds the configured size limit": for any set of distinct
   keys and any time, the sizes of what lookups would return add up to at most the limit. *)
Theorem C16_retrievable_total_le_limit :
  forall (lim tl : N) (ops : list op) (c : cache) (now : N) (ks : list key),
    snd (run (empty lim tl) ops) = Ok c ->
    NoDup ks ->
    sumN (map (retrievable_size c now) ks) <= lim.
Proof. exact retrievable_total_le_limit. Qed.

(* (3) get_latest: a lookup returns nothing, or exactly the route, host, bytes, MIME type and time of the most
   recent set for that same key in the history (no later set for the key), and only while not older than the
   time limit. *)
Theorem C16_get_latest :
  forall (lim tl : N) (ops : list op) (c : cache) (r : list N) (h now : N) (it : item),
    snd (run (empty lim tl) ops) = Ok c ->
    get c r h now = Ok (Some it) ->
    exists pre v m t post,
      ops = pre ++ OSet r h v m t :: post /\
      Forall (fun o => ~ sets_key (r, h) o) post /\
      it = mkItem r h m t v /\
      t <= now /\ now - t <= tl.
Proof. exact get_latest. Qed.

(* the same for every result that a run prints: output number (ngets pre) of the run is the result of the get
   that follows `pre` *)
Theorem C16_every_get_in_a_run_is_latest :
  forall (lim tl : N) (pre : list op) (r : list N) (h now : N) (post : list op) (it : item),
    nth_error (fst (run (empty lim tl) (pre ++ OGet r h now :: post))) (ngets pre) = Some (Some it) ->
    exists pre1 v m t pre2,
      pre = pre1 ++ OSet r h v m t :: pre2 /\
      Forall (fun o => ~ sets_key (r, h) o) pre2 /\
      it = mkItem r h m t v /\
      t <= now /\ now - t <= tl.
Proof. exact every_get_latest. Qed.

(* refinement form: the cache is a sub-map of the abstract map "value most recently stored for the key"
   (which never evicts or expires) *)
Theorem C16_get_refines_abstract_map :
  forall (lim tl : N) (ops : list op) (c : cache) (r : list N) (h now : N) (it : item),
    snd (run (empty lim tl) ops) = Ok c ->
    get c r h now = Ok (Some it) ->
    alookup (r, h) (spec ops) = Some (i_data it, i_mime it, i_time it).
Proof. exact get_refines_spec. Qed.

(* (4) never_other_key: whatever the state of the cache (reachable or not), a hit carries the requested key. *)
Theorem C16_never_other_key :
  forall (c : cache) (r : list N) (h now : N) (it : item),
    get c r h now = Ok (Some it) -> i_route it = r /\ i_host it = h.
Proof. exact get_same_key. Qed.

(* (5) retrievable_after_set: after any history, storing a value no larger than the limit succeeds and a lookup
   of that key returns exactly it — at the same clock reading and at any later one within the time limit. *)
Theorem C16_retrievable_after_set :
  forall (lim tl : N) (ops : list op) (c : cache) (r : list N) (h : N) (v : bytes) (m now : N),
    snd (run (empty lim tl) ops) = Ok c ->
    blen v <= lim ->
    exists c', set c r h v m now = Ok c' /\
      forall now', now <= now' -> now' - now <= tl ->
        get c' r h now' = Ok (Some (mkItem r h m now v)).
Proof. exact retrievable_after_set. Qed.

(* exact behaviour, for completeness of the picture: a lookup hits exactly when the (unique) entry for the key is
   present and not older than the time limit ... *)
Theorem C16_get_hit_iff :
  forall (lim tl : N) (ops : list op) (c : cache) (r : list N) (h now : N) (it : item),
    snd (run (empty lim tl) ops) = Ok c ->
    (get c r h now = Ok (Some it) <->
     In it (c_data c) /\ item_key it = (r, h) /\ i_time it <= now /\ now - i_time it <= tl).
Proof. exact get_hit_iff. Qed.

(* ... and a store drops entries oldest first, no more than needed for the new value to fit (counted before the old
   entry for the same key is removed — so an overwrite may evict more than strictly necessary, which the property
   allows), then removes the old entry for the key and appends the new one. *)
Theorem C16_set_shape :
  forall (lim tl : N) (ops : list op) (c : cache) (r : list N) (h : N) (v : bytes) (m now : N) (c' : cache),
    snd (run (empty lim tl) ops) = Ok c ->
    set c r h v m now = Ok c' ->
    exists evicted kept,
      c_data c = evicted ++ kept /\
      c_data c' = remove_first (key_match r h) kept ++ [mkItem r h m now v] /\
      total kept + blen v <= lim /\
      (forall evicted' x, evicted = evicted' ++ [x] -> lim < ilen x + total kept + blen v).
Proof. exact set_shape. Qed.

(* (6) no_crash: under the caller's guard (every stored value fits the limit) and a non-decreasing clock, no
   history reaches data[0] on the empty deque, an out-of-range index or an arithmetic underflow. *)
Theorem C16_no_crash :
  forall (lim tl : N) (ops : list op),
    Forall (op_ok lim) ops -> mono 0 ops ->
    exists c, snd (run (empty lim tl) ops) = Ok c.
Proof. exact no_crash. Qed.

(* the guard is necessary: without it `set` panics at data[0] (after emptying the cache) *)
Theorem C16_oversized_set_crashes :
  forall (lim tl : N) (ops : list op) (c : cache) (r : list N) (h : N) (v : bytes) (m now : N),
    snd (run (empty lim tl) ops) = Ok c ->
    lim < blen v ->
    set c r h v m now = Crash 1.
Proof. exact oversized_set_crashes. Qed.

(* (7) any number of threads: every history of threads t1..tn whose accesses are atomic (one RwLock section per
   operation) is some interleaving of their programs, hence a sequence — all theorems above apply to it; in
   particular it does not crash when every thread respects the guard. *)
Theorem C16_any_interleaving_no_crash :
  forall (lim tl : N) (threads : list (list op)) (ops : list op),
    interleaving threads ops ->
    Forall (Forall (op_ok lim)) threads ->
    mono 0 ops ->
    exists c, snd (run (empty lim tl) ops) = Ok c.
Proof. exact interleaving_no_crash. Qed.

(* (7b) the same without assuming that operations are atomic: in the fine-grained model (`cstep`: get = compute the
   index, then read the entry; set = evict, then remove, then push; any number of threads, micro-steps interleaved
   arbitrarily; synchronisation only by the readers-writer lock) the completed operations, in completion order, form
   a sequential history that yields exactly the logged results ... *)
Theorem C16_concurrent_linearizable :
  forall (lim tl : N) (c : cache) (ts : nat -> tstate) (log : list logent),
    creach lim tl (c, ts, log) -> exists cs, seq_exec (empty lim tl) log cs.
Proof. exact conc_linearizable. Qed.

(* ... whenever no write section is open the shared cache is the state of that sequential history ... *)
Theorem C16_concurrent_quiescent_state :
  forall (lim tl : N) (c : cache) (ts : nat -> tstate) (log : list logent),
    creach lim tl (c, ts, log) -> (forall j, ~ holds_write (ts j)) -> seq_exec (empty lim tl) log c.
Proof. exact conc_quiescent_state. Qed.

(* ... the sequential history is a `run` (so (1)-(6) apply to it) ... *)
Theorem C16_seq_exec_is_run :
  forall (log : list logent) (c c' : cache), seq_exec c log c' -> snd (run c (map fst log)) = Ok c'.
Proof. exact seq_exec_run. Qed.

(* ... and so every hit observed by any thread in any fine-grained execution is the most recent completed set for
   that key, and fresh. *)
Theorem C16_concurrent_get_latest :
  forall (lim tl : N) (c : cache) (ts : nat -> tstate) (log pre : list logent)
         (r : list N) (h now : N) (it : item) (post : list logent),
    creach lim tl (c, ts, log) ->
    log = pre ++ (OGet r h now, Some (Some it)) :: post ->
    exists pre1 v m t pre2,
      map fst pre = pre1 ++ OSet r h v m t :: pre2 /\
      Forall (fun o => ~ sets_key (r, h) o) pre2 /\
      it = mkItem r h m t v /\ t <= now /\ now - t <= tl.
Proof. exact conc_get_latest. Qed.

(* (8) handler level (cache_check + inner_file_handler in static.rs). A request is a read section, then on a
   miss that fits a write section: every request history is a history of atomic cache operations ... *)
Theorem C16_handler_history_is_cache_history :
  forall (qs : list req) (c : cache), snd (hrun c qs) = snd (run c (htrace c qs)).
Proof. exact hrun_trace. Qed.

(* ... whose sets all respect the guard and whose clock is non-decreasing when the requests' clock is *)
Theorem C16_handler_trace_guarded :
  forall (qs : list req) (c : cache), Forall (op_ok (c_limit c)) (htrace c qs).
Proof. exact htrace_ok. Qed.

(* so request histories never crash, with no hypothesis on file sizes, *)
Theorem C16_handler_no_crash :
  forall (lim tl : N) (qs : list req), qmono 0 qs -> exists c, snd (hrun (empty lim tl) qs) = Ok c.
Proof. exact handler_no_crash. Qed.

(* keep the invariants, *)
Theorem C16_handler_invariants :
  forall (lim tl : N) (qs : list req) (c : cache),
    snd (hrun (empty lim tl) qs) = Ok c ->
    c_size c = total (c_data c) /\
    c_size c <= lim /\
    NoDup (map item_key (c_data c)) /\
    c_limit c = lim /\ c_tlimit c = tl.
Proof. exact handler_invariants. Qed.

(* and every response is either the file as it is now (not from the cache), or exactly the bytes and MIME type
   that an earlier request for the same (route, host) read from the file system no more than the time limit
   before (files may change arbitrarily between requests: q_fs is a free input of every request). *)
Theorem C16_handler_fresh :
  forall (lim tl : N) (pre : list req) (q : req) (post : list req) (p : resp),
    nth_error (fst (hrun (empty lim tl) (pre ++ q :: post))) (length pre) = Some p ->
    p = mkResp (q_fs q) (q_mime q) false (blen (q_fs q) <=? lim) \/
    (p_cached p = true /\
     exists pre1 q' pre2, pre = pre1 ++ q' :: pre2 /\
       q_route q' = q_route q /\ q_host q' = q_host q /\
       p_body p = q_fs q' /\ p_mime p = q_mime q' /\
       q_now q' <= q_now q /\ q_now q - q_now q' <= tl).
Proof. exact handler_fresh. Qed.

(* sharper, in step form: after ANY request history `pre`, a request q answered from the cache gets exactly the
   contents and MIME type read by the most recent request for the same (route, host) that stored (q' — which was
   itself answered from the file system), no longer ago than the time limit; every request for that key since then
   stored nothing (it was answered from the cache, or its file did not fit), and a hit leaves the cache unchanged.
   `combine pre ps` pairs every earlier request with its response. *)
Theorem C16_handler_hit_is_latest_stored :
  forall (lim tl : N) (pre : list req) (ps : list resp) (c1 : cache) (q : req) (c2 : cache) (p : resp),
    hrun (empty lim tl) pre = (ps, Ok c1) ->
    handle c1 q = Ok (c2, p) ->
    p_cached p = true ->
    exists a1 q' a2,
      combine pre ps = a1 ++ (q', mkResp (q_fs q') (q_mime q') false true) :: a2 /\
      req_key q' = req_key q /\
      p = mkResp (q_fs q') (q_mime q') true false /\
      q_now q' <= q_now q /\ q_now q - q_now q' <= tl /\
      Forall (same_key_not_stored (req_key q)) a2 /\
      c2 = c1.
Proof. exact handler_hit_is_latest_stored. Qed.

(* the step form covers every request of every history: response number |pre| is the handler's answer in the state
   reached after `pre` *)
Theorem C16_handler_response_is_step :
  forall (c : cache) (pre : list req) (q : req) (post : list req) (p : resp),
    nth_error (fst (hrun c (pre ++ q :: post))) (length pre) = Some p ->
    exists ps c1 c2, hrun c pre = (ps, Ok c1) /\ handle c1 q = Ok (c2, p).
Proof. exact hrun_nth. Qed.

(* ---- non-vacuity: concrete histories ---- *)
Definition kA : list N := [47; 97].        (* "/a" *)
Definition kB : list N := [47; 98].        (* "/b" *)

(* limit 5, time limit 1: store /a (3 bytes), store /b (3 bytes) evicts /a, overwrite /b, lookups hit only the
   latest /b, and it expires after more than one second *)
Example C16_example_history :
  run (empty 5 1)
      [OSet kA 0 [1;2;3] 3 10; OSet kB 0 [4;5;6] 4 10; OGet kA 0 10; OGet kB 0 10;
       OSet kB 0 [7;8] 5 11; OGet kB 0 12; OGet kB 1 12; OGet kB 0 13]
  = ([None; Some (mkItem kB 0 4 10 [4;5;6]); Some (mkItem kB 0 5 11 [7;8]); None; None],
     Ok (mkCache 5 1 2 [mkItem kB 0 5 11 [7;8]])).
Proof. vm_compute. reflexivity. Qed.

(* the hypotheses of no_crash are satisfiable by that history, and a handler history with a changing file *)
Example C16_example_hypotheses :
  Forall (op_ok 5) [OSet kA 0 [1;2;3] 3 10; OSet kB 0 [4;5;6] 4 10; OGet kA 0 10] /\
  mono 0 [OSet kA 0 [1;2;3] 3 10; OSet kB 0 [4;5;6] 4 10; OGet kA 0 10] /\
  hrun (empty 5 1) [mkReq kA 0 [1;2] 3 10; mkReq kA 0 [9;9] 3 11; mkReq kA 0 [9;9] 3 12; mkReq kA 0 [1;2;3;4;5;6] 3 14]
  = ([mkResp [1;2] 3 false true; mkResp [1;2] 3 true false; mkResp [9;9] 3 false true; mkResp [1;2;3;4;5;6] 3 false false],
     Ok (mkCache 5 1 2 [mkItem kA 0 3 12 [9;9]])).
Proof.
  split; [repeat constructor; vm_compute; discriminate|].
  split; [vm_compute; repeat split; discriminate|].
  vm_compute. reflexivity.
Qed.

(* the crash sites are real in the model: an oversized value, and a clock that goes backwards *)
Example C16_example_crashes :
  set (empty 3 0) kA 0 [1;2;3;4] 0 0 = Crash 1 /\
  snd (run (empty 9 5) [OSet kA 0 [1] 0 10; OGet kA 0 9]) = Crash 5.
Proof. vm_compute. split; reflexivity. Qed.

(* the invariants are not vacuous: a variant of set that forgets `cache_size -= old.len()` breaks size_is_sum
   after one overwrite, and then evicts a live entry that would have fitted *)
Example C16_example_wrong_variant_breaks_invariant :
  exists c1 c2, set (empty 4 0) kA 0 [1;2] 0 0 = Ok c1 /\ set_noadjust c1 kA 0 [3;4] 0 0 = Ok c2 /\
                c_size c2 <> total (c_data c2).
Proof. eexists. eexists. split; [vm_compute; reflexivity|]. split; [vm_compute; reflexivity|]. vm_compute. discriminate. Qed.

(* a fine-grained execution with three threads: thread 0 stores (four micro-steps), then threads 1 and 2 look up
   concurrently with their micro-steps interleaved *)
Ltac c16_nobody_writes := let j := fresh "j" in intro j; unfold upd; repeat (destruct (Nat.eqb j _)); cbn; auto.
Example C16_example_concurrent_execution :
  exists c ts log, creach 5 1 (c, ts, log) /\
    log = [(OSet kA 0 [1;2;3] 3 10, None);
           (OGet kA 0 11, Some (Some (mkItem kA 0 3 10 [1;2;3])));
           (OGet kA 1 10, Some None)] /\ ts 1%nat = TIdle /\ ts 2%nat = TIdle.
Proof.
  eexists. eexists. eexists. split.
  - eapply cr_step. eapply cr_step. eapply cr_step. eapply cr_step. eapply cr_step. eapply cr_step.
    eapply cr_step. eapply cr_step. eapply cr_step. eapply cr_step. apply cr_init.
    + apply cs_begin_set with (i := 0%nat) (r := kA) (h := 0) (v := [1;2;3]) (m := 3) (now := 10). reflexivity.
    + eapply cs_set_a with (i := 0%nat); [reflexivity | vm_compute; reflexivity].
    + eapply cs_set_b with (i := 0%nat); [reflexivity | vm_compute; reflexivity].
    + eapply cs_set_c with (i := 0%nat). reflexivity.
    + apply cs_begin_get with (i := 1%nat) (r := kA) (h := 1) (now := 10); [reflexivity | c16_nobody_writes].
    + apply cs_begin_get with (i := 2%nat) (r := kA) (h := 0) (now := 11); [reflexivity | c16_nobody_writes].
    + eapply cs_get_a with (i := 1%nat). reflexivity.
    + eapply cs_get_a with (i := 2%nat). reflexivity.
    + eapply cs_get_b with (i := 2%nat); [reflexivity | vm_compute; reflexivity].
    + eapply cs_get_b with (i := 1%nat); [reflexivity | vm_compute; reflexivity].
  - split; [reflexivity|]. split; reflexivity.
Qed.

(* why the lock is needed in that model: an index computed before another thread's eviction is out of range after it
   (`&self.data[index]` would panic) — the write guard's exclusion of readers is what rules this out *)
Example C16_example_unlocked_get_would_crash :
  exists c1 c2,
    snd (run (empty 2 9) [OSet kA 0 [1] 0 5; OSet kB 0 [2] 0 5]) = Ok c1 /\
    position kB 0 (c_data c1) = Some 1%nat /\            (* a reader computes the index of /b ... *)
    set c1 [47; 99] 0 [9;9] 0 5 = Ok c2 /\                (* ... a writer stores /c, evicting both entries ... *)
    get_at c2 (position kB 0 (c_data c1)) 5 = Crash 4.   (* ... and the reader's data[index] is out of range *)
Proof. eexists. eexists. split; [vm_compute; reflexivity|]. split; [vm_compute; reflexivity|]. split; vm_compute; reflexivity. Qed.

Print Assumptions C16_invariants.
Print Assumptions C16_retrievable_total_le_limit.
Print Assumptions C16_get_latest.
Print Assumptions C16_every_get_in_a_run_is_latest.
Print Assumptions C16_get_refines_abstract_map.
Print Assumptions C16_never_other_key.
Print Assumptions C16_retrievable_after_set.
Print Assumptions C16_get_hit_iff.
Print Assumptions C16_set_shape.
Print Assumptions C16_no_crash.
Print Assumptions C16_oversized_set_crashes.
Print Assumptions C16_any_interleaving_no_crash.
Print Assumptions C16_concurrent_linearizable.
Print Assumptions C16_concurrent_quiescent_state.
Print Assumptions C16_seq_exec_is_run.
Print Assumptions C16_concurrent_get_latest.
Print Assumptions C16_handler_history_is_cache_history.
Print Assumptions C16_handler_trace_guarded.
Print Assumptions C16_handler_no_crash.
Print Assumptions C16_handler_invariants.
Print Assumptions C16_handler_fresh.
Print Assumptions C16_handler_hit_is_latest_stored.
Print Assumptions C16_handler_response_is_step.
Print Assumptions C16_example_history.
Print Assumptions C16_example_hypotheses.
Print Assumptions C16_example_crashes.
Print Assumptions C16_example_wrong_variant_breaks_invariant.
Print Assumptions C16_example_concurrent_execution.
Print Assumptions C16_example_unlocked_get_would_crash.
