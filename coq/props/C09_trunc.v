(* C09 (truncation clause) — a response cut at ANY byte offset never parses to Ok, so proxy_request turns it into 502.
   Property theorems only.  `srv_message h body m` (HttpRespSpec.v): m is the complete message of a conforming server
   with head h — Content-Length framing (m = head ++ body, first Content-Length = |body| in decimal), or no body headers
   (m = head), or chunked coding (m = head ++ chunks ++ "0" CRLF CRLF, any number of chunks, any hex size texts, arbitrary
   chunk bytes).  The theorem is about the repaired parser (repo commit 92f49a5 "a truncated or malformed chunked response
   body is an error"): the final CRLF after the last chunk is required, so a cut inside "0\r\n\r\n" fails as well.
   The error is one of the parser's two classes (0 = ResponseError::Response, 1 = ::Stream) - never Ok, never a
   Crash, never the model's fuel error. *)
From Hv Require Import Prelude Bytes StreamBuf TablesHttp Http BytesNumProofs HttpRespSpec HttpRespProofs.
From Coq Require Import Lia.
From Coq Require String.
Import Coq.Strings.String.StringSyntax.   (* string literals only (for the examples) *)
Open Scope string_scope.
Open Scope list_scope.
Open Scope N_scope.

Theorem C09_truncated_never_ok :
  forall (h : srv_head) (body m p : bytes),
  head_ok h -> srv_message h body m ->
  (exists s, s <> [] /\ m = p ++ s) ->                           (* p is a strict prefix of the complete message m *)
  exists e, parse_response_flat p = Err e /\ (e = E_Response \/ e = E_Stream).
Proof. exact truncated_never_ok_lemma. Qed.

(* a cut inside the head is always ResponseError::Response *)
Theorem C09_truncated_head :
  forall (h : srv_head) (p : bytes), head_ok h ->
  (exists s, s <> [] /\ render_head h = p ++ s) -> parse_response_flat p = Err E_Response.
Proof. exact parse_response_trunc_head. Qed.

(* the statement is not vacuous and is tight: the complete message itself (followed by anything) parses to exactly
   the body that was sent *)
Theorem C09_complete_parses :
  forall (h : srv_head) (body m rest : bytes),
  head_ok h -> srv_message h body m ->
  exists hs', parse_response_flat (m ++ rest) =
              Ok ({| s_version := sh_version h; s_status := sh_status h; s_headers := hs'; s_body := body |}, rest) /\
              (is_chunked (head_headers h) -> hs' = dechunked_headers (head_headers h) body) /\
              (~ is_chunked (head_headers h) -> hs' = head_headers h).
Proof. exact parse_srv_message. Qed.

(* ---- non-vacuity: one concrete message of each kind, and every one of its strict prefixes evaluated ---- *)
Definition ex_cl_head : srv_head :=
  {| sh_version := Txt.s_http11; sh_status := 2; sh_phrase := bos "OK";
     sh_lines := [ {| sl_name := bos "Content-Length"; sl_ows := [32]; sl_value := bos "5" |};
                   {| sl_name := bos "X-A"; sl_ows := [32]; sl_value := bos "b" |} ] |}.
Definition ex_ch_head : srv_head :=
  {| sh_version := Txt.s_http11; sh_status := 2; sh_phrase := bos "OK";
     sh_lines := [ {| sl_name := bos "Transfer-Encoding"; sl_ows := [32]; sl_value := bos "chunked" |} ] |}.
Definition ex_nb_head : srv_head :=
  {| sh_version := Txt.s_http11; sh_status := 19; sh_phrase := bos "Not Found";
     sh_lines := [ {| sl_name := bos "Server"; sl_ows := [32]; sl_value := bos "x" |} ] |}.
Definition ex_chunks : list (bytes * bytes) := [ (bos "3", [97; 98; 10]); (bos "01a", bos "abcdefghijklmnopqrstuvwxyz") ].

Example C09_example_messages :
  head_ok ex_cl_head /\ srv_message ex_cl_head (bos "hello") (render_head ex_cl_head ++ bos "hello") /\
  head_ok ex_nb_head /\ srv_message ex_nb_head [] (render_head ex_nb_head) /\
  head_ok ex_ch_head /\
  srv_message ex_ch_head (concat (map snd ex_chunks)) (render_head ex_ch_head ++ chunks_enc ex_chunks (bos "000")).
Proof.
  split; [apply head_okb_sound; vm_compute; reflexivity|]. split.
  { apply SM_cl. split; [vm_compute; discriminate|]. exists (bos "5"). split; [vm_compute; reflexivity|].
    split; [|vm_compute; discriminate]. split; [discriminate|]. split; [|reflexivity].
    repeat constructor; unfold digit; cbn; lia. }
  split; [apply head_okb_sound; vm_compute; reflexivity|]. split.
  { apply SM_none. split; [vm_compute; discriminate|vm_compute; reflexivity]. }
  split; [apply head_okb_sound; vm_compute; reflexivity|].
  apply SM_chunked; [vm_compute; reflexivity| |].
  - repeat constructor; cbn [fst snd]; try discriminate; try (vm_compute; discriminate);
      unfold is_hex, digit; cbn; lia.
  - split; [discriminate|]. split; [|reflexivity]. repeat constructor; unfold is_hex, digit; cbn; lia.
Qed.

(* all strict prefixes of a byte string *)
Definition strict_prefixes (m : bytes) : list bytes := map (fun k => firstn k m) (seq 0 (length m)).
Definition is_err (x : outcome (response * bytes)) : bool :=
  match x with Err e => (e =? E_Response) || (e =? E_Stream) | _ => false end.
Definition is_ok (x : outcome (response * bytes)) : bool := match x with Ok _ => true | _ => false end.

Example C09_example_all_cuts :
  let m1 := render_head ex_cl_head ++ bos "hello" in
  let m2 := render_head ex_nb_head in
  let m3 := render_head ex_ch_head ++ chunks_enc ex_chunks (bos "000") in
  (length m1 = 51%nat /\ forallb (fun p => is_err (parse_response_flat p)) (strict_prefixes m1) = true /\
   is_ok (parse_response_flat m1) = true) /\
  (length m2 = 37%nat /\ forallb (fun p => is_err (parse_response_flat p)) (strict_prefixes m2) = true /\
   is_ok (parse_response_flat m2) = true) /\
  (length m3 = 95%nat /\ forallb (fun p => is_err (parse_response_flat p)) (strict_prefixes m3) = true /\
   is_ok (parse_response_flat m3) = true).
Proof. vm_compute. repeat split. Qed.

Print Assumptions C09_truncated_never_ok.
Print Assumptions C09_truncated_head.
Print Assumptions C09_complete_parses.
Print Assumptions C09_example_messages.
Print Assumptions C09_example_all_cuts.
