(* C09 through the config-driven server (model Server.v composed with Proxy.v). Property theorems only; proofs in
   ServerProofs.v. The end-to-end part of the C09 check starts humphrey_server::server::main with proxy routes whose
   target echoes the request head it received and compares it with Server.forwarded_text on the same configuration text. *)
From Hv Require Import Prelude Bytes TablesHttp TablesConfig Http Krauss Routing RoutingProofs Blacklist StaticFs Config Proxy
  HttpReqSpec HttpReqProofs ProxyReqProofs BytesProofs Server ServerProofs ServerNoPanicProofs.
Open Scope N_scope.

(* a request is handed to the proxy only when the routing rule (C04) chose a route of type proxy for it, with that route's
   pattern, targets and balancing mode, and the client is not blacklisted (C19) *)
Theorem C09_server_proxied_by_rule :
  forall ipp fs (c : config) p req ts m mt,
    server_response ipp fs c p req = SProxy ts m mt ->
    exists ch rt,
      Routes (map subapp_of (cf_hosts c)) (subapp_of (cf_default_host c))
             (option_map scalars (hget (HKnown H_Host) (r_headers req))) (scalars (r_uri req)) (Some ch) /\
      get_route c (fst (handler_ids ch)) (snd (handler_ids ch)) = Some rt /\
      rt_type rt = RT_Proxy /\ rt_matches rt = mt /\ rt_lb rt = Some (ts, m) /\
      Blacklist.serve ipp (cf_bl_mode c =? BLOCK_MODE) (cf_bl_list c) p (r_headers req) = Served.
Proof. exact server_proxied_by_rule. Qed.

(* and then the bytes written to the target parse, on the target's side, to the same method, query, version, body and
   header values (name by name, in order) with the route prefix stripped from the path and one more X-Forwarded-For *)
Theorem C09_server_upstream_sees :
  forall ipp fs (c : config) p p' req ts m mt uri',
    parsed_ok ipp p req -> server_response ipp fs c p req = SProxy ts m mt ->
    rewrite_uri mt (r_uri req) = Some uri' -> ip_text_ok (a_origin (r_addr req)) ->
    exists b r', forwarded_bytes ipp fs c p req = Some b /\
      parse_request_flat ipp p' b = Ok (r', []) /\
      r_method r' = r_method req /\ r_uri r' = uri' /\ r_query r' = r_query req /\ r_version r' = r_version req /\
      r_content r' = r_content req /\
      (forall n, hget_all n (r_headers r') = hget_all n (r_headers req ++ [(XFF, a_origin (r_addr req))])).
Proof. exact server_upstream_sees. Qed.

Theorem C09_server_forwards_only_proxied :
  forall ipp fs (c : config) p req b,
    forwarded_bytes ipp fs c p req = Some b -> exists ts m mt, server_response ipp fs c p req = SProxy ts m mt.
Proof. exact server_forwards_only_proxied. Qed.

(* "never panics": proxy_handler strips the prefix with String::remove(0), once per pattern character before the first '*',
   which panics on an empty string. On a request the router gave to the route this cannot happen (the matched path has at
   least as many characters as the pattern's literal prefix), so the hypothesis of C09_server_upstream_sees is always met.
   Paths and patterns are Rust Strings, hence valid UTF-8. *)
Theorem C09_server_strip_never_panics :
  forall ipp fs (c : config) p req ts m mt,
    utf8 (r_uri req) -> utf8 mt ->
    server_response ipp fs c p req = SProxy ts m mt ->
    exists uri', rewrite_uri mt (r_uri req) = Some uri'.
Proof. exact server_proxy_strip_never_panics. Qed.

Theorem C09_matched_strip_succeeds :
  forall pat uri : bytes, utf8 pat -> utf8 uri -> wildcard_match (scalars pat) (scalars uri) = true ->
    drop_chars (literal_prefix_len pat) uri <> None.
Proof. exact matched_strip_succeeds. Qed.

(* the two combined: for every parsed request the routing rule gives to a proxy route (pattern a valid string) the target
   receives the request unchanged except for the stripped prefix and the added X-Forwarded-For - no side condition left
   but the well-formedness of the address text the address parser returns *)
Theorem C09_server_upstream_sees_total :
  forall ipp fs (c : config) p p' req ts m mt,
    parsed_ok ipp p req -> server_response ipp fs c p req = SProxy ts m mt -> utf8 mt ->
    ip_text_ok (a_origin (r_addr req)) ->
    exists uri' b r', rewrite_uri mt (r_uri req) = Some uri' /\ forwarded_bytes ipp fs c p req = Some b /\
      parse_request_flat ipp p' b = Ok (r', []) /\
      r_method r' = r_method req /\ r_uri r' = uri' /\ r_query r' = r_query req /\ r_version r' = r_version req /\
      r_content r' = r_content req /\
      (forall n, hget_all n (r_headers r') = hget_all n (r_headers req ++ [(XFF, a_origin (r_addr req))])).
Proof. exact server_upstream_sees_total. Qed.

Print Assumptions C09_server_proxied_by_rule.
Print Assumptions C09_server_upstream_sees_total.
Print Assumptions C09_server_strip_never_panics.
Print Assumptions C09_matched_strip_succeeds.
Print Assumptions C09_server_upstream_sees.
Print Assumptions C09_server_forwards_only_proxied.
