(* C01 — the connection loop: exactly one well-framed response per request, in request order; keep-alive iff; nothing
   dropped or re-interpreted when no read delivers bytes of two requests; known findings F01 (read-ahead dropped) and
   F32 (CRLF after the body) as theorems.  Property theorems only: each is closed by `exact <lemma>`; statements are
   written out here so that weakening a lemma elsewhere breaks this file.

   Model: Conn.v (client_handler of app.rs / tokio/app.rs).  Client input = list (option bytes): `Some c` = the bytes one
   read() can see, `None` = an idle gap longer than the connection timeout.  `aligned_input css tail` =
   concat (map (map Some) css) ++ tail: request i arrives as the reads css[i].  `one_request ipp p cs req` =
   wf_chunks cs /\ parse_request_flat ipp p (concat cs) = Ok (req, []).  `expected` (ConnSpec.v) is the specification:
   it does not mention reads at all. *)
From Hv Require Import Prelude Bytes StreamBuf StreamBufProofs TablesHttp Http HttpStreamProofs Krauss Conn ConnSpec
  StreamAlignProofs ConnProofs.
Open Scope N_scope.

(* ---- 1. what every response carries ---- *)

(* Every response to a parsed request: the request's HTTP version, the Date given by the clock, a Server header, and it is
   self-delimiting with a body exactly as long as its Content-Length (or it is the body-less 204 of the OPTIONS branch);
   the matched route's configured CORS values are present, for OPTIONS and non-OPTIONS alike. *)
Theorem C01_respond_headers :
  forall (rs : list croute) (date : bytes) (req : request) (resp : response),
  respond rs date req = Some resp ->
  s_version resp = r_version req /\
  hget (HKnown H_Date) (s_headers resp) = Some date /\
  (exists s, hget (HKnown H_Server) (s_headers resp) = Some s) /\
  (hget (HKnown H_ContentLength) (s_headers resp) = Some (dec_render (N.of_nat (length (s_body resp))))
   \/ (s_status resp = status_index 204 /\ s_body resp = [])) /\
  (forall r, find_route rs (r_uri req) = Some r ->
     (forall v, c_origin (cr_cors r) = Some v -> hget (HKnown H_AccessControlAllowOrigin) (s_headers resp) = Some v) /\
     (forall v, c_methods (cr_cors r) = Some v -> hget (HKnown H_AccessControlAllowMethods) (s_headers resp) = Some v) /\
     (forall v, c_headers (cr_cors r) = Some v -> hget (HKnown H_AccessControlAllowHeaders) (s_headers resp) = Some v)).
Proof. exact respond_headers. Qed.

(* The 400 / 408 (any code) responses the loop writes itself: HTTP/1.1, that status, Date, Server, Connection: Close,
   Content-Length = body length. *)
Theorem C01_error_frames_headers :
  forall (date : bytes) (code : N),
  let resp := add_default_headers date None (error_response code) in
  s_version resp = str_HTTP11 /\ s_status resp = status_index code /\
  hget (HKnown H_Date) (s_headers resp) = Some date /\
  hget (HKnown H_Server) (s_headers resp) = Some str_Humphrey /\
  hget (HKnown H_Connection) (s_headers resp) = Some str_Close /\
  hget (HKnown H_ContentLength) (s_headers resp) = Some (dec_render (N.of_nat (length (s_body resp)))).
Proof. exact error_frames_headers. Qed.

(* ---- 2. one iteration of the loop ---- *)

(* A well-formed request whose handler returns: exactly its serialised response is appended; the loop continues iff the
   request asked for keep-alive — with the reads the BufReader had not pulled (its buffer is dropped) — else it stops. *)
Theorem C01_conn_keepalive_iff :
  forall (ipp : bytes -> option bytes) (rs : list croute) (date : bytes) (p : peer)
         (f : nat) (inp : list (option bytes)) (out : list bytes) (req : request) (br : bufreader) (resp : response),
  starts_with_timeout inp = false ->
  parse_request_chunked ipp p (fst (take_chunks inp)) = Ok (req, br) ->
  is_upgrade req = false -> respond rs date req = Some resp ->
  (keep_alive_of req = true ->
     conn_loop (S f) ipp rs date p inp out =
     conn_loop f ipp rs date p (map Some (inner br) ++ snd (take_chunks inp)) (out ++ [serialize_response resp])) /\
  (keep_alive_of req = false ->
     conn_loop (S f) ipp rs date p inp out = (out ++ [serialize_response resp], ENoKeepAlive)).
Proof. exact conn_keepalive_iff. Qed.

(* A malformed request is answered 400 and the connection closes. *)
Theorem C01_conn_step_bad_request :
  forall (ipp : bytes -> option bytes) (rs : list croute) (date : bytes) (p : peer)
         (f : nat) (inp : list (option bytes)) (out : list bytes),
  starts_with_timeout inp = false ->
  parse_request_chunked ipp p (fst (take_chunks inp)) = Err E_Request ->
  conn_loop (S f) ipp rs date p inp out =
  (out ++ [serialize_response (add_default_headers date None (error_response 400))], EBadRequest).
Proof. exact conn_step_bad_request. Qed.

(* A timed-out wait is answered 408 and the connection closes. *)
Theorem C01_conn_step_timeout :
  forall (ipp : bytes -> option bytes) (rs : list croute) (date : bytes) (p : peer)
         (f : nat) (inp : list (option bytes)) (out : list bytes),
  conn_loop (S f) ipp rs date p (None :: inp) out =
  (out ++ [serialize_response (add_default_headers date None (error_response 408))], ETimeout).
Proof. exact conn_step_timeout. Qed.

(* A panicking handler: nothing is written, this connection ends (there is no state shared with other connections in
   the model: serve_conn is a function of this connection's input alone). *)
Theorem C01_conn_step_panic :
  forall (ipp : bytes -> option bytes) (rs : list croute) (date : bytes) (p : peer)
         (f : nat) (inp : list (option bytes)) (out : list bytes) (req : request) (br : bufreader),
  starts_with_timeout inp = false ->
  parse_request_chunked ipp p (fst (take_chunks inp)) = Ok (req, br) ->
  is_upgrade req = false -> respond rs date req = None ->
  conn_loop (S f) ipp rs date p inp out = (out, EPanic).
Proof. exact conn_step_panic. Qed.

(* respond has no response only through a panicking handler on the matched route (never for OPTIONS or 404). *)
Theorem C01_respond_none_iff_panic :
  forall (rs : list croute) (date : bytes) (req : request),
  respond rs date req = None <->
  (r_method req <> M_OPTIONS /\ exists r, find_route rs (r_uri req) = Some r /\ cr_beh r = HPanic).
Proof. exact respond_none_iff_panic. Qed.

(* The client closes while the server waits for a request / inside a request: nothing is written. *)
Theorem C01_conn_step_closed :
  forall (ipp : bytes -> option bytes) (rs : list croute) (date : bytes) (p : peer)
         (f : nat) (inp : list (option bytes)) (out : list bytes),
  starts_with_timeout inp = false ->
  parse_request_chunked ipp p (fst (take_chunks inp)) = Err E_Disconnected ->
  conn_loop (S f) ipp rs date p inp out = (out, EClosedByClient).
Proof. exact conn_step_closed. Qed.

Theorem C01_conn_step_stream_error :
  forall (ipp : bytes -> option bytes) (rs : list croute) (date : bytes) (p : peer)
         (f : nat) (inp : list (option bytes)) (out : list bytes),
  starts_with_timeout inp = false ->
  parse_request_chunked ipp p (fst (take_chunks inp)) = Err E_Stream ->
  conn_loop (S f) ipp rs date p inp out = (out, EStreamError).
Proof. exact conn_step_stream_error. Qed.

Theorem C01_conn_step_upgrade :
  forall (ipp : bytes -> option bytes) (rs : list croute) (date : bytes) (p : peer)
         (f : nat) (inp : list (option bytes)) (out : list bytes) (req : request) (br : bufreader),
  starts_with_timeout inp = false ->
  parse_request_chunked ipp p (fst (take_chunks inp)) = Ok (req, br) ->
  is_upgrade req = true ->
  conn_loop (S f) ipp rs date p inp out = (out, EUpgrade).
Proof. exact conn_step_upgrade. Qed.

(* ---- 5. fuel: the loop's fuel never runs out (every continuing iteration consumes at least one byte) ---- *)
Theorem C01_serve_conn_terminates :
  forall (ipp : bytes -> option bytes) (rs : list croute) (date : bytes) (p : peer) (inp : list (option bytes)),
  Forall (fun o => o <> Some []) inp -> snd (serve_conn ipp rs date p inp) <> EFuel.
Proof. exact serve_conn_terminates. Qed.

(* ---- 3. alignment and the main theorem ---- *)

(* KEY LEMMA (any read sizes, including reads longer than the 8 KiB BufReader capacity): if the reads cs hold exactly one
   complete request and the later reads are `more`, the code-shaped parser returns that request, its buffer is empty and
   its unread part is `more` as a list: no byte of the next request was pulled in, none is lost with the reader. *)
Theorem C01_parse_request_chunked_exact :
  forall (ipp : bytes -> option bytes) (p : peer) (cs more : chunks) (req : request),
  wf_chunks cs -> wf_chunks more ->
  parse_request_flat ipp p (concat cs) = Ok (req, []) ->
  exists br, parse_request_chunked ipp p (cs ++ more) = Ok (req, br) /\ buf br = [] /\ inner br = more.
Proof. exact parse_request_chunked_exact. Qed.

(* MAIN: no read delivers bytes of two requests => the connection writes exactly what the read-free specification
   `expected` says for the parsed requests, then behaves on `tail` like a fresh wait. *)
Theorem C01_conn_one_response_per_request :
  forall (ipp : bytes -> option bytes) (rs : list croute) (date : bytes) (p : peer)
         (css : list chunks) (reqs : list request) (tail : list (option bytes)),
  Forall2 (fun cs req => wf_chunks cs /\ parse_request_flat ipp p (concat cs) = Ok (req, [])) css reqs ->
  Forall (fun o => o <> Some []) tail ->
  serve_conn ipp rs date p (concat (map (fun cs => map Some cs) css) ++ tail) =
  expected rs date reqs (serve_conn ipp rs date p tail).
Proof. exact conn_one_response_per_request. Qed.

(* All requests keep the connection open: every request is answered, in order, exactly one response each, and the
   connection is still open when the client closes it. *)
Theorem C01_conn_all_answered :
  forall (ipp : bytes -> option bytes) (rs : list croute) (date : bytes) (p : peer)
         (css : list chunks) (reqs : list request),
  Forall2 (fun cs req => wf_chunks cs /\ parse_request_flat ipp p (concat cs) = Ok (req, [])) css reqs ->
  Forall (fun req => is_upgrade req = false /\ respond rs date req <> None /\ keep_alive_of req = true) reqs ->
  serve_conn ipp rs date p (concat (map (fun cs => map Some cs) css) ++ []) =
    (flat_map (fun req => match respond rs date req with Some resp => [serialize_response resp] | None => [] end) reqs,
     EClosedByClient) /\
  length (fst (serve_conn ipp rs date p (concat (map (fun cs => map Some cs) css) ++ []))) = length reqs.
Proof. exact conn_all_answered. Qed.

(* Headline form: output element i answers request i and is the serialisation of a response with the request's HTTP
   version, the clock's Date, a Server and a Connection header, the matched route's configured CORS values, and a body
   exactly as long as its Content-Length (or the body-less 204 of OPTIONS). *)
Theorem C01_conn_responses_in_order :
  forall (ipp : bytes -> option bytes) (rs : list croute) (date : bytes) (p : peer)
         (css : list chunks) (reqs : list request),
  Forall2 (fun cs req => wf_chunks cs /\ parse_request_flat ipp p (concat cs) = Ok (req, [])) css reqs ->
  Forall (fun req => is_upgrade req = false /\ respond rs date req <> None /\ keep_alive_of req = true) reqs ->
  Forall2 (fun req o => exists resp, respond rs date req = Some resp /\ o = serialize_response resp /\
     let c := match find_route rs (r_uri req) with Some r => cr_cors r | None => cors_none end in
     s_version resp = r_version req /\
     hget (HKnown H_Date) (s_headers resp) = Some date /\
     (exists s, hget (HKnown H_Server) (s_headers resp) = Some s) /\
     (exists k, hget (HKnown H_Connection) (s_headers resp) = Some k) /\
     (hget (HKnown H_ContentLength) (s_headers resp) = Some (dec_render (N.of_nat (length (s_body resp))))
      \/ (s_status resp = status_index 204 /\ s_body resp = [])) /\
     (forall v, c_origin c = Some v -> hget (HKnown H_AccessControlAllowOrigin) (s_headers resp) = Some v) /\
     (forall v, c_methods c = Some v -> hget (HKnown H_AccessControlAllowMethods) (s_headers resp) = Some v) /\
     (forall v, c_headers c = Some v -> hget (HKnown H_AccessControlAllowHeaders) (s_headers resp) = Some v))
    reqs (fst (serve_conn ipp rs date p (concat (map (fun cs => map Some cs) css) ++ []))).
Proof. exact conn_responses_in_order. Qed.

(* The first request after which the connection does not stay open (not keep-alive / panicking handler / upgrade) ends
   it: responses to everything before it, its own response unless it panics or is an upgrade, nothing after; the ending
   says why. *)
Theorem C01_conn_stops_at_first :
  forall (ipp : bytes -> option bytes) (rs : list croute) (date : bytes) (p : peer)
         (css : list chunks) (reqs1 : list request) (req : request) (reqs2 : list request) (tail : list (option bytes)),
  Forall2 (fun cs req => wf_chunks cs /\ parse_request_flat ipp p (concat cs) = Ok (req, [])) css
          (reqs1 ++ req :: reqs2) ->
  Forall (fun o => o <> Some []) tail ->
  Forall (fun req => is_upgrade req = false /\ respond rs date req <> None /\ keep_alive_of req = true) reqs1 ->
  ~ (is_upgrade req = false /\ respond rs date req <> None /\ keep_alive_of req = true) ->
  serve_conn ipp rs date p (concat (map (fun cs => map Some cs) css) ++ tail) =
  (flat_map (response_of rs date) reqs1 ++ (if is_upgrade req then [] else response_of rs date req),
   if is_upgrade req then EUpgrade else match respond rs date req with None => EPanic | Some _ => ENoKeepAlive end).
Proof. exact conn_stops_at_first. Qed.

(* The connection is still open after the last response iff every request was answered and asked for keep-alive. *)
Theorem C01_conn_stays_open_iff :
  forall (ipp : bytes -> option bytes) (rs : list croute) (date : bytes) (p : peer)
         (css : list chunks) (reqs : list request),
  Forall2 (fun cs req => wf_chunks cs /\ parse_request_flat ipp p (concat cs) = Ok (req, [])) css reqs ->
  (snd (serve_conn ipp rs date p (concat (map (fun cs => map Some cs) css) ++ [])) = EClosedByClient <->
   Forall (fun req => is_upgrade req = false /\ respond rs date req <> None /\ keep_alive_of req = true) reqs).
Proof. exact conn_stays_open_iff. Qed.

(* Two segmentations that respect request boundaries and carry the same request byte strings give the same output. *)
Theorem C01_conn_segmentation_independent :
  forall (ipp : bytes -> option bytes) (rs : list croute) (date : bytes) (p : peer)
         (css1 css2 : list chunks) (reqs : list request) (tail : list (option bytes)),
  Forall2 (fun cs req => wf_chunks cs /\ parse_request_flat ipp p (concat cs) = Ok (req, [])) css1 reqs ->
  Forall wf_chunks css2 ->
  map (@concat N) css1 = map (@concat N) css2 ->
  Forall (fun o => o <> Some []) tail ->
  serve_conn ipp rs date p (concat (map (fun cs => map Some cs) css1) ++ tail) =
  serve_conn ipp rs date p (concat (map (fun cs => map Some cs) css2) ++ tail).
Proof. exact conn_segmentation_independent. Qed.

(* What the loop parses from an aligned input is the flat parse of exactly the reads of the first request, and what it
   would continue with is exactly the rest of the input: no byte dropped, none interpreted as part of another request. *)
Theorem C01_conn_bytes_not_reinterpreted :
  forall (ipp : bytes -> option bytes) (p : peer) (cs : chunks) (req : request) (later : list (option bytes)),
  wf_chunks cs /\ parse_request_flat ipp p (concat cs) = Ok (req, []) ->
  Forall (fun o => o <> Some []) later ->
  exists br, parse_request_chunked ipp p (fst (take_chunks (map Some cs ++ later))) = Ok (req, br) /\
             buf br = [] /\ map Some (inner br) ++ snd (take_chunks (map Some cs ++ later)) = later.
Proof. exact conn_bytes_not_reinterpreted. Qed.

(* After kept-alive requests, a malformed request is answered 400 and the connection closes ... *)
Theorem C01_conn_then_bad_request :
  forall (ipp : bytes -> option bytes) (rs : list croute) (date : bytes) (p : peer)
         (css : list chunks) (reqs : list request) (bad : chunks),
  Forall2 (fun cs req => wf_chunks cs /\ parse_request_flat ipp p (concat cs) = Ok (req, [])) css reqs ->
  Forall (fun req => is_upgrade req = false /\ respond rs date req <> None /\ keep_alive_of req = true) reqs ->
  wf_chunks bad -> parse_request_chunked ipp p bad = Err E_Request ->
  serve_conn ipp rs date p (concat (map (fun cs => map Some cs) css) ++ map Some bad) =
  (flat_map (response_of rs date) reqs ++ [serialize_response (add_default_headers date None (error_response 400))],
   EBadRequest).
Proof. exact conn_then_bad_request. Qed.

(* ... and a timed-out wait is answered 408 and the connection closes (whatever the client sends afterwards). *)
Theorem C01_conn_then_timeout :
  forall (ipp : bytes -> option bytes) (rs : list croute) (date : bytes) (p : peer)
         (css : list chunks) (reqs : list request) (t : list (option bytes)),
  Forall2 (fun cs req => wf_chunks cs /\ parse_request_flat ipp p (concat cs) = Ok (req, [])) css reqs ->
  Forall (fun req => is_upgrade req = false /\ respond rs date req <> None /\ keep_alive_of req = true) reqs ->
  Forall (fun o => o <> Some []) t ->
  serve_conn ipp rs date p (concat (map (fun cs => map Some cs) css) ++ None :: t) =
  (flat_map (response_of rs date) reqs ++ [serialize_response (add_default_headers date None (error_response 408))],
   ETimeout).
Proof. exact conn_then_timeout. Qed.

(* ---- 4. known findings ---- *)

(* F01: two complete keep-alive requests delivered by ONE read: only the first is answered (and the server then just
   waits), although the same two requests delivered by two reads are both answered.  The alignment hypothesis of the
   main theorem is exactly the excluded class. *)
Theorem C01_conn_readahead_refuted :
  exists (rs : list croute) (date : bytes) (p : peer) (r1 r2 : bytes),
    complete_keepalive_request ipv4_parse p r1 = true /\ complete_keepalive_request ipv4_parse p r2 = true /\
    length (fst (serve_conn ipv4_parse rs date p [Some r1; Some r2])) = 2%nat /\
    length (fst (serve_conn ipv4_parse rs date p [Some (r1 ++ r2)])) = 1%nat /\
    snd (serve_conn ipv4_parse rs date p [Some (r1 ++ r2)]) = EClosedByClient.
Proof. exact conn_readahead_refuted. Qed.

(* F01 for ALL inputs of that class: one read of at most 8192 bytes delivers a complete request r1 followed by any
   further bytes r2.  The parser returns r1's request with ALL of r2 in the BufReader's buffer and nothing unread; the
   connection then behaves exactly as if r2 had never been sent (neither answered nor rejected). *)
Theorem C01_parse_request_chunked_coalesced :
  forall (ipp : bytes -> option bytes) (p : peer) (r1 r2 : bytes) (req : request),
  (length (r1 ++ r2) <= cap)%nat ->
  parse_request_flat ipp p r1 = Ok (req, []) ->
  exists br, parse_request_chunked ipp p [r1 ++ r2] = Ok (req, br) /\ buf br = r2 /\ inner br = [].
Proof. exact parse_request_chunked_coalesced. Qed.

Theorem C01_conn_readahead_general :
  forall (ipp : bytes -> option bytes) (rs : list croute) (date : bytes) (p : peer) (r1 r2 : bytes) (req : request),
  (length (r1 ++ r2) <= cap)%nat -> parse_request_flat ipp p r1 = Ok (req, []) ->
  serve_conn ipp rs date p [Some (r1 ++ r2)] = expected rs date [req] ([], EClosedByClient) /\
  serve_conn ipp rs date p [Some (r1 ++ r2)] = serve_conn ipp rs date p [Some r1].
Proof. exact conn_readahead_general. Qed.

(* F32: every response with a non-empty body is followed by CRLF outside its Content-Length. *)
Theorem C01_conn_stray_crlf_refuted :
  forall r : response, s_body r <> [] -> exists head, serialize_response r = head ++ s_body r ++ [13; 10].
Proof. exact conn_stray_crlf_refuted. Qed.

(* ---- non-vacuity ---- *)

(* three requests; the first split inside its start line, the second one read of 9072 bytes (longer than the 8 KiB
   BufReader capacity, body 9000 bytes), the third not keep-alive: the hypotheses of the main theorem hold and the
   connection writes three responses and ends with ENoKeepAlive *)
Example C01_example_aligned :
  let css := [[firstn 7 ex_get_ka; skipn 7 ex_get_ka]; [ex_post_big]; [ex_get_close]] in
  let reqs := [ex_req ex_get_ka; ex_req ex_post_big; ex_req ex_get_close] in
  Forall2 (fun cs req => wf_chunks cs /\ parse_request_flat ipv4_parse ex_peer (concat cs) = Ok (req, [])) css reqs /\
  Forall (fun req => is_upgrade req = false /\ respond ex_routes [68] req <> None /\ keep_alive_of req = true)
         [ex_req ex_get_ka; ex_req ex_post_big] /\
  keep_alive_of (ex_req ex_get_close) = false /\
  length (fst (serve_conn ipv4_parse ex_routes [68] ex_peer (concat (map (fun cs => map Some cs) css) ++ []))) = 3%nat /\
  snd (serve_conn ipv4_parse ex_routes [68] ex_peer (concat (map (fun cs => map Some cs) css) ++ [])) = ENoKeepAlive /\
  (cap <? length ex_post_big)%nat = true.
Proof.
  cbv zeta. split; [|split; [|split; [|split; [|split]]]].
  - repeat constructor; try discriminate; vm_compute; reflexivity.
  - repeat constructor; try (vm_compute; discriminate); vm_compute; reflexivity.
  - vm_compute. reflexivity.
  - vm_compute. reflexivity.
  - vm_compute. reflexivity.
  - vm_compute. reflexivity.
Qed.

(* OPTIONS on a route with CORS: 204, no body, the three configured CORS headers; a panicking handler: no bytes, EPanic;
   a malformed request after a kept-alive one: one response then the 400; a timeout after a kept-alive one: then the 408 *)
Example C01_example_options_panic_400_408 :
  (match respond ex_routes [68] (ex_req ex_options) with
   | Some resp => s_status resp = status_index 204 /\ s_body resp = [] /\
                  hget (HKnown H_AccessControlAllowOrigin) (s_headers resp) = Some [42] /\
                  hget (HKnown H_AccessControlAllowHeaders) (s_headers resp) = Some [88;45;75;101;121]
   | None => False end) /\
  serve_conn ipv4_parse ex_routes [68] ex_peer [Some ex_get_ka; Some ex_get_panic; Some ex_get_ka] =
    (response_of ex_routes [68] (ex_req ex_get_ka), EPanic) /\
  parse_request_chunked ipv4_parse ex_peer [ex_bad] = Err E_Request /\
  serve_conn ipv4_parse ex_routes [68] ex_peer [Some ex_get_ka; Some ex_bad] =
    (response_of ex_routes [68] (ex_req ex_get_ka) ++ [frame_400 [68]], EBadRequest) /\
  serve_conn ipv4_parse ex_routes [68] ex_peer [Some ex_get_ka; None; Some ex_get_ka] =
    (response_of ex_routes [68] (ex_req ex_get_ka) ++ [frame_408 [68]], ETimeout).
Proof. vm_compute. repeat split; reflexivity. Qed.

Print Assumptions C01_respond_headers.
Print Assumptions C01_error_frames_headers.
Print Assumptions C01_conn_keepalive_iff.
Print Assumptions C01_conn_step_bad_request.
Print Assumptions C01_conn_step_timeout.
Print Assumptions C01_conn_step_panic.
Print Assumptions C01_respond_none_iff_panic.
Print Assumptions C01_conn_step_closed.
Print Assumptions C01_conn_step_stream_error.
Print Assumptions C01_conn_step_upgrade.
Print Assumptions C01_serve_conn_terminates.
Print Assumptions C01_parse_request_chunked_exact.
Print Assumptions C01_conn_one_response_per_request.
Print Assumptions C01_conn_all_answered.
Print Assumptions C01_conn_responses_in_order.
Print Assumptions C01_conn_stops_at_first.
Print Assumptions C01_conn_stays_open_iff.
Print Assumptions C01_conn_segmentation_independent.
Print Assumptions C01_conn_bytes_not_reinterpreted.
Print Assumptions C01_conn_then_bad_request.
Print Assumptions C01_conn_then_timeout.
Print Assumptions C01_parse_request_chunked_coalesced.
Print Assumptions C01_conn_readahead_general.
Print Assumptions C01_conn_readahead_refuted.
Print Assumptions C01_conn_stray_crlf_refuted.
Print Assumptions C01_example_aligned.
Print Assumptions C01_example_options_panic_400_408.
