(* C02 (flat part) — a well-formed HTTP/1.x request is parsed into exactly what its bytes denote; field names are
   matched ASCII-case-insensitively with values and same-name order kept; cookies; client / forwarded addresses;
   serialise-then-parse gives an equal request.  Independence from the way the bytes are split across reads is the
   subject of C02_stream.v (refinement of these flat functions by the BufReader-shaped ones).
   Property theorems only: statements in full, each closed by `exact <lemma>`. *)
From Hv Require Import Prelude Bytes StreamBuf TablesHttp Http BytesProofs HttpReqSpec HttpReqProofs.
Open Scope N_scope.

(* 1. Faithfulness.  For EVERY well-formed abstract request g (HttpReqSpec.wf_greq: any method of the method table,
   any path / query / version / header list / body subject only to "delimiters do not occur inside the fields they
   delimit, lines are valid UTF-8, values do not start with white space, the first Content-Length announces the
   body"), every peer, every address parser and EVERY following byte string `rest`: parsing `render g ++ rest`
   yields exactly `denote g` and leaves exactly `rest` unread. *)
Theorem C02_parse_faithful :
  forall (ipp : bytes -> option bytes) (p : peer) (g : greq) (rest : bytes),
    wf_greq g = true ->
    parse_request_flat ipp p (render g ++ rest) = Ok (denote ipp g p, rest).
Proof. exact parse_faithful. Qed.

(* Non-vacuity: a request with a query, a body, mixed-case names, the three separator spellings and a repeated name
   is well-formed, and `render` is the expected byte string:
   "POST /a/b?x=1 HTTP/1.1\r\nHost: h\r\ncontent-LENGTH:\t 3\r\nX-A:1\r\nx-a: 2\r\n\r\nabc" *)
Definition C02_example_greq : greq :=
  {| g_method := 1; g_path := [47;97;47;98]; g_query := Some [120;61;49]; g_version := [72;84;84;80;47;49;46;49];
     g_headers := [ {| gh_name := [72;111;115;116]; gh_sep := [32]; gh_value := [104] |};
                    {| gh_name := [99;111;110;116;101;110;116;45;76;69;78;71;84;72]; gh_sep := [9;32]; gh_value := [51] |};
                    {| gh_name := [88;45;65]; gh_sep := []; gh_value := [49] |};
                    {| gh_name := [120;45;97]; gh_sep := [32]; gh_value := [50] |} ];
     g_body := Some [97;98;99] |}.
Example C02_example_wf :
  wf_greq C02_example_greq = true /\
  render C02_example_greq =
    [80;79;83;84;32;47;97;47;98;63;120;61;49;32;72;84;84;80;47;49;46;49;13;10;
     72;111;115;116;58;32;104;13;10;
     99;111;110;116;101;110;116;45;76;69;78;71;84;72;58;9;32;51;13;10;
     88;45;65;58;49;13;10; 120;45;97;58;32;50;13;10; 13;10; 97;98;99] /\
  r_headers (denote ipv4_parse C02_example_greq {| p_ip := [49]; p_port := 1 |}) =
    [(HKnown H_Host, [104]); (HKnown H_ContentLength, [51]); (HCustom [120;45;97], [49]); (HCustom [120;45;97], [50])].
Proof. vm_compute. repeat split. Qed.

Print Assumptions C02_parse_faithful.
Print Assumptions C02_example_wf.
