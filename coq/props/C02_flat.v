(* C02 (flat part) — a well-formed HTTP/1.x request is parsed into exactly what its bytes denote; field names are
   matched ASCII-case-insensitively with values and same-name order kept; cookies; client / forwarded addresses;
   serialise-then-parse gives an equal request.  Independence from the way the bytes are split across reads is the
   subject of C02_stream.v (refinement of these flat functions by the BufReader-shaped ones).
   Property theorems only: statements in full, each closed by `exact <lemma>`. *)
From Hv Require Import Prelude Bytes StreamBuf TablesHttp Http BytesProofs HttpReqSpec HttpReqProofs.
Open Scope N_scope.

(* 1. Faithfulness.  For EVERY well-formed abstract request g (HttpReqSpec.wf_greq: any method of the method table,
   any path / query / version / header list / body subject only to "delimiters do not occur inside the fields they
   delimit, lines are valid UTF-8, values do not start with white space, the first Content-Length announces the
   body"), every peer, every address parser and EVERY following byte string `rest`: parsing `render g ++ rest`
   yields exactly `denote g` and leaves exactly `rest` unread. *)
Theorem C02_parse_faithful :
  forall (ipp : bytes -> option bytes) (p : peer) (g : greq) (rest : bytes),
    wf_greq g = true ->
    parse_request_flat ipp p (render g ++ rest) = Ok (denote ipp g p, rest).
Proof. exact parse_faithful. Qed.

(* Non-vacuity: a request with a query, a body, mixed-case names, the three separator spellings and a repeated name
   is well-formed, and `render` is the expected byte string:
   "POST /a/b?x=1 HTTP/1.1\r\nHost: h\r\ncontent-LENGTH:\t 3\r\nX-A:1\r\nx-a: 2\r\n\r\nabc" *)
Definition C02_example_greq : greq :=
  {| g_method := 1; g_path := [47;97;47;98]; g_query := Some [120;61;49]; g_version := [72;84;84;80;47;49;46;49];
     g_headers := [ {| gh_name := [72;111;115;116]; gh_sep := [32]; gh_value := [104] |};
                    {| gh_name := [99;111;110;116;101;110;116;45;76;69;78;71;84;72]; gh_sep := [9;32]; gh_value := [51] |};
                    {| gh_name := [88;45;65]; gh_sep := []; gh_value := [49] |};
                    {| gh_name := [120;45;97]; gh_sep := [32]; gh_value := [50] |} ];
     g_body := Some [97;98;99] |}.
Example C02_example_wf :
  wf_greq C02_example_greq = true /\
  render C02_example_greq =
    [80;79;83;84;32;47;97;47;98;63;120;61;49;32;72;84;84;80;47;49;46;49;13;10;
     72;111;115;116;58;32;104;13;10;
     99;111;110;116;101;110;116;45;76;69;78;71;84;72;58;9;32;51;13;10;
     88;45;65;58;49;13;10; 120;45;97;58;32;50;13;10; 13;10; 97;98;99] /\
  r_headers (denote ipv4_parse C02_example_greq {| p_ip := [49]; p_port := 1 |}) =
    [(HKnown H_Host, [104]); (HKnown H_ContentLength, [51]); (HCustom [120;45;97], [49]); (HCustom [120;45;97], [50])].
Proof. vm_compute. repeat split. Qed.

(* 2. Field names are matched ASCII-case-insensitively, and nothing else is identified: two names give the same
   HeaderType exactly when they are equal up to ASCII case.  Looking a name up in the parsed header list returns the
   values of exactly the fields whose names equal it up to ASCII case: all of them, unchanged, in arrival order
   (`get_all`), respectively the first of them (`get`). *)
Theorem C02_names_case_insensitive :
  (forall a b : bytes, ascii_lower a = ascii_lower b <-> hname_of a = hname_of b) /\
  (forall (n : bytes) (hs : list gheader),
     hget_all (hname_of n) (denote_headers hs) = map gh_value (filter (fun h => ci_eqb n (gh_name h)) hs)) /\
  (forall (n : bytes) (hs : list gheader),
     hget (hname_of n) (denote_headers hs) = hd_error (map gh_value (filter (fun h => ci_eqb n (gh_name h)) hs))).
Proof. exact names_case_insensitive. Qed.

Example C02_example_names :
  hname_of [67;79;78;84;69;78;84;45;116;121;112;101] = HKnown H_ContentType /\        (* CONTENT-type *)
  hname_of [88;45;70;111;111] = hname_of [120;45;102;79;79] /\                        (* X-Foo, x-fOO *)
  hname_of [88;45;70;111;111] <> hname_of [88;45;70;111;111;32] /\                   (* "X-Foo" vs "X-Foo " *)
  hget_all (hname_of [88;45;97]) (r_headers (denote ipv4_parse C02_example_greq {| p_ip := [49]; p_port := 1 |}))
    = [[49]; [50]].
Proof. vm_compute. repeat split. discriminate. Qed.

(* 5. Round trip.  `Headers::iter` (hsort) is a stable sort: a permutation that keeps the relative order of the
   fields of every single name. *)
Theorem C02_hsort_stable :
  forall l : headers,
    Permutation.Permutation (hsort l) l /\
    (forall n, filter (fun h => hname_eqb n (fst h)) (hsort l) = filter (fun h => hname_eqb n (fst h)) l) /\
    (forall n, hget_all n (hsort l) = hget_all n l) /\ (forall n, hget n (hsort l) = hget n l).
Proof. exact hsort_stable. Qed.

(* For EVERY request r the parser can return (from any bytes b, valid or not, any peer, any address parser) and any
   following bytes rest': parsing what `Vec<u8>::from(r)` writes succeeds and returns r' with the same method, uri,
   query, version, body, address and, for every field name, the same values in the same order; precisely, r' is r
   with its header list in Headers::iter order.  The bytes left unread are rest', preceded by one CRLF exactly when r
   has no header field (HttpReqSpec.roundtrip_residue): see C02_roundtrip_residue below. *)
Theorem C02_roundtrip :
  forall (ipp : bytes -> option bytes) (p : peer) (b : bytes) (r : request) (rest rest' : bytes),
    parse_request_flat ipp p b = Ok (r, rest) ->
    exists r', parse_request_flat ipp p (serialize_request r ++ rest') = Ok (r', roundtrip_residue r ++ rest') /\
               req_equiv r' r /\ r_headers r' = hsort (r_headers r).
Proof. exact roundtrip. Qed.

(* with at least one header field the serialised request is consumed exactly *)
Theorem C02_roundtrip_exact :
  forall (ipp : bytes -> option bytes) (p : peer) (b : bytes) (r : request) (rest rest' : bytes),
    parse_request_flat ipp p b = Ok (r, rest) -> r_headers r <> [] ->
    exists r', parse_request_flat ipp p (serialize_request r ++ rest') = Ok (r', rest') /\ req_equiv r' r.
Proof. exact roundtrip_exact. Qed.

(* "GET / HTTP/1.1 CRLF CRLF" is serialised as "GET / HTTP/1.1 CRLF CRLF CRLF": the request parsed back is equal, one
   CRLF stays unread after it (observed on the real code as well: req_roundtrip in the harness prints this `ser`). *)
Theorem C02_roundtrip_residue :
  exists b r, parse_request_flat ipv4_parse {| p_ip := [49;46;50;46;51;46;52]; p_port := 80 |} b = Ok (r, []) /\
              parse_request_flat ipv4_parse {| p_ip := [49;46;50;46;51;46;52]; p_port := 80 |} (serialize_request r)
              = Ok (r, CRLF).
Proof. exact roundtrip_residue_witness. Qed.

Print Assumptions C02_parse_faithful.
Print Assumptions C02_example_wf.
Print Assumptions C02_names_case_insensitive.
Print Assumptions C02_example_names.
Print Assumptions C02_hsort_stable.
Print Assumptions C02_roundtrip.
Print Assumptions C02_roundtrip_exact.
Print Assumptions C02_roundtrip_residue.
