(* C02 (flat part) — a well-formed HTTP/1.x request is parsed into exactly what its bytes denote; field names are
   matched ASCII-case-insensitively with values and same-name order kept; cookies; client / forwarded addresses;
   serialise-then-parse gives an equal request.  Independence from the way the bytes are split across reads is the
   subject of the companion props file on the stream functions (refinement of these flat functions by the
   BufReader-shaped ones, StreamBufProofs.v / HttpStreamProofs.v).
   Property theorems only: statements in full, each closed by `exact <lemma>`. *)
From Hv Require Import Prelude Bytes StreamBuf TablesHttp Http BytesProofs HttpReqSpec HttpReqProofs.
Open Scope N_scope.

(* 1. Faithfulness.  For EVERY well-formed abstract request g (HttpReqSpec.wf_greq: any method of the method table,
   any path / query / version / header list / body subject only to "delimiters do not occur inside the fields they
   delimit, lines are valid UTF-8, values do not start with white space, the first Content-Length announces the
   body"), every peer, every address parser and EVERY following byte string `rest`: parsing `render g ++ rest`
   yields exactly `denote g` and leaves exactly `rest` unread. *)
Theorem C02_parse_faithful :
  forall (ipp : bytes -> option bytes) (p : peer) (g : greq) (rest : bytes),
    wf_greq g = true ->
    parse_request_flat ipp p (render g ++ rest) = Ok (denote ipp g p, rest).
Proof. exact parse_faithful. Qed.

(* Non-vacuity: a request with a query, a body, mixed-case names, the three separator spellings and a repeated name
   is well-formed, and `render` is the expected byte string:
   "POST /a/b?x=1 HTTP/1.1\r\nHost: h\r\ncontent-LENGTH:\t 3\r\nX-A:1\r\nx-a: 2\r\n\r\nabc" *)
Definition C02_example_greq : greq :=
  {| g_method := 1; g_path := [47;97;47;98]; g_query := Some [120;61;49]; g_version := [72;84;84;80;47;49;46;49];
     g_headers := [ {| gh_name := [72;111;115;116]; gh_sep := [32]; gh_value := [104] |};
                    {| gh_name := [99;111;110;116;101;110;116;45;76;69;78;71;84;72]; gh_sep := [9;32]; gh_value := [51] |};
                    {| gh_name := [88;45;65]; gh_sep := []; gh_value := [49] |};
                    {| gh_name := [120;45;97]; gh_sep := [32]; gh_value := [50] |} ];
     g_body := Some [97;98;99] |}.
Example C02_example_wf :
  wf_greq C02_example_greq = true /\
  render C02_example_greq =
    [80;79;83;84;32;47;97;47;98;63;120;61;49;32;72;84;84;80;47;49;46;49;13;10;
     72;111;115;116;58;32;104;13;10;
     99;111;110;116;101;110;116;45;76;69;78;71;84;72;58;9;32;51;13;10;
     88;45;65;58;49;13;10; 120;45;97;58;32;50;13;10; 13;10; 97;98;99] /\
  r_headers (denote ipv4_parse C02_example_greq {| p_ip := [49]; p_port := 1 |}) =
    [(HKnown H_Host, [104]); (HKnown H_ContentLength, [51]); (HCustom [120;45;97], [49]); (HCustom [120;45;97], [50])].
Proof. vm_compute. repeat split. Qed.

(* "Exactly": the parser succeeds with (r, rest) on b if and only if b is `render g ++ rest` and r is `denote g` for a
   request g of the language `accepted` (HttpReqSpec), which contains every well-formed request and differs from
   wf_greq only in allowing, after the colon, any text that trim_start removes (e.g. U+00A0) and in asking UTF-8
   validity of the line rather than of its parts.  So nothing else is ever parsed as a request, and no request is
   parsed as anything but its denotation. *)
Theorem C02_parse_accepts_iff :
  forall (ipp : bytes -> option bytes) (p : peer) (b : bytes) (r : request) (rest : bytes),
    parse_request_flat ipp p b = Ok (r, rest) <->
    exists g : greq, accepted g /\ b = render g ++ rest /\ r = denote ipp g p.
Proof. exact parse_accepts_iff. Qed.

Theorem C02_wf_accepted : forall g : greq, wf_greq g = true -> accepted g.
Proof. exact wf_greq_accepted. Qed.

(* The body condition of wf_greq is met in particular by the canonical spelling of the length (what usize's Display
   writes): `Content-Length: <dec_render |body|>` as the first Content-Length field. *)
Theorem C02_content_length_canonical :
  forall (g : greq) (b : bytes),
    g_body g = Some b -> N.of_nat (length b) <= usize_max ->
    hget (HKnown H_ContentLength) (denote_headers (g_headers g)) = Some (dec_render (N.of_nat (length b))) ->
    wf_body g = true.
Proof. exact wf_body_canonical. Qed.

(* 2. Field names are matched ASCII-case-insensitively, and nothing else is identified: two names give the same
   HeaderType exactly when they are equal up to ASCII case.  Looking a name up in the parsed header list returns the
   values of exactly the fields whose names equal it up to ASCII case: all of them, unchanged, in arrival order
   (`get_all`), respectively the first of them (`get`). *)
Theorem C02_names_case_insensitive :
  (forall a b : bytes, ascii_lower a = ascii_lower b <-> hname_of a = hname_of b) /\
  (forall (n : bytes) (hs : list gheader),
     hget_all (hname_of n) (denote_headers hs) = map gh_value (filter (fun h => ci_eqb n (gh_name h)) hs)) /\
  (forall (n : bytes) (hs : list gheader),
     hget (hname_of n) (denote_headers hs) = hd_error (map gh_value (filter (fun h => ci_eqb n (gh_name h)) hs))).
Proof. exact names_case_insensitive. Qed.

Example C02_example_names :
  hname_of [67;79;78;84;69;78;84;45;116;121;112;101] = HKnown H_ContentType /\        (* CONTENT-type *)
  hname_of [88;45;70;111;111] = hname_of [120;45;102;79;79] /\                        (* X-Foo, x-fOO *)
  hname_of [88;45;70;111;111] <> hname_of [88;45;70;111;111;32] /\                   (* "X-Foo" vs "X-Foo " *)
  hget_all (hname_of [88;45;97]) (r_headers (denote ipv4_parse C02_example_greq {| p_ip := [49]; p_port := 1 |}))
    = [[49]; [50]].
Proof. vm_compute. repeat split. discriminate. Qed.

(* 5. Round trip.  `Headers::iter` (hsort) is a stable sort: a permutation that keeps the relative order of the
   fields of every single name. *)
Theorem C02_hsort_stable :
  forall l : headers,
    Permutation.Permutation (hsort l) l /\
    (forall n, filter (fun h => hname_eqb n (fst h)) (hsort l) = filter (fun h => hname_eqb n (fst h)) l) /\
    (forall n, hget_all n (hsort l) = hget_all n l) /\ (forall n, hget n (hsort l) = hget n l).
Proof. exact hsort_stable. Qed.

(* For EVERY request r the parser can return (from any bytes b, valid or not, any peer, any address parser) and any
   following bytes rest': parsing what `Vec<u8>::from(r)` writes succeeds and returns r' with the same method, uri,
   query, version, body, address and, for every field name, the same values in the same order; precisely, r' is r
   with its header list in Headers::iter order.  The bytes left unread are rest', preceded by one CRLF exactly when r
   has no header field (HttpReqSpec.roundtrip_residue): see C02_roundtrip_residue below. *)
Theorem C02_roundtrip :
  forall (ipp : bytes -> option bytes) (p : peer) (b : bytes) (r : request) (rest rest' : bytes),
    parse_request_flat ipp p b = Ok (r, rest) ->
    exists r', parse_request_flat ipp p (serialize_request r ++ rest') = Ok (r', roundtrip_residue r ++ rest') /\
               req_equiv r' r /\ r_headers r' = hsort (r_headers r).
Proof. exact roundtrip. Qed.

(* with at least one header field the serialised request is consumed exactly *)
Theorem C02_roundtrip_exact :
  forall (ipp : bytes -> option bytes) (p : peer) (b : bytes) (r : request) (rest rest' : bytes),
    parse_request_flat ipp p b = Ok (r, rest) -> r_headers r <> [] ->
    exists r', parse_request_flat ipp p (serialize_request r ++ rest') = Ok (r', rest') /\ req_equiv r' r.
Proof. exact roundtrip_exact. Qed.

(* "GET / HTTP/1.1 CRLF CRLF" is serialised as "GET / HTTP/1.1 CRLF CRLF CRLF": the request parsed back is equal, one
   CRLF stays unread after it (observed on the real code as well: req_roundtrip in the harness prints this `ser`). *)
Theorem C02_roundtrip_residue :
  exists b r, parse_request_flat ipv4_parse {| p_ip := [49;46;50;46;51;46;52]; p_port := 80 |} b = Ok (r, []) /\
              parse_request_flat ipv4_parse {| p_ip := [49;46;50;46;51;46;52]; p_port := 80 |} (serialize_request r)
              = Ok (r, CRLF).
Proof. exact roundtrip_residue_witness. Qed.

(* 3. Cookies.  The Cookie field value is a `;`-separated list of pieces; a piece `k=x` (k without `=`, x possibly
   containing `=`) gives the cookie (trim k, trim x), a piece without `=` is skipped; order is kept.  `hs` is any
   header list (e.g. the one `C02_parse_faithful` yields). *)
Theorem C02_cookies_spec :
  forall (hs : headers) (items : list citem),
    hget (HKnown H_Cookie) hs = Some (cookie_value items) -> forallb citem_wf items = true ->
    cookies_of hs = filter_map citem_denote items.
Proof. exact cookies_spec. Qed.

(* in particular "k1=v1; k2=v2; ..." with trimmed keys / values gives exactly [(k1,v1); (k2,v2); ...] *)
Theorem C02_cookies_std :
  forall (hs : headers) (kvs : list (bytes * bytes)),
    hget (HKnown H_Cookie) hs = Some (cookie_std kvs) -> Forall cookie_kv_wf kvs -> cookies_of hs = kvs.
Proof. exact cookies_std. Qed.

Theorem C02_cookies_none : forall hs : headers, hget (HKnown H_Cookie) hs = None -> cookies_of hs = [].
Proof. exact cookies_none. Qed.

(* "a=1; junk;b = x=y ;c=" -> [(a,1); (b,x=y); (c,"")] ; the standard form of [(a,1);(b,2)] is "a=1; b=2" *)
Example C02_example_cookies :
  let items := [CPair [97] [49]; CBare [32;106;117;110;107]; CPair [98;32] [32;120;61;121;32]; CPair [99] []] in
  forallb citem_wf items = true /\
  cookie_value items = [97;61;49;59;32;106;117;110;107;59;98;32;61;32;120;61;121;32;59;99;61] /\
  cookies_of [(HKnown H_Cookie, cookie_value items)] = [([97],[49]); ([98],[120;61;121]); ([99],[])] /\
  cookie_std [([97],[49]); ([98],[50])] = [97;61;49;59;32;98;61;50] /\
  hname_of [99;79;79;75;105;101] = HKnown H_Cookie.
Proof. vm_compute. repeat split. Qed.
Example C02_example_cookie_kv_wf : Forall cookie_kv_wf [([97],[49]); ([98],[50;61;51])].
Proof. repeat constructor. Qed.

(* 4. Addresses.  With an X-Forwarded-For field whose value is a comma-separated list of entries (each: padding,
   text, padding, with `trim` removing exactly the padding and no comma inside), and `ipp` (IpAddr::from_str) deciding
   which texts are addresses: the origin is the LAST entry that is an address, the proxies are the earlier ones that
   are addresses, in order, followed by the peer; with no address among the entries, or no such field, the origin is
   the peer and there are no proxies. *)
Theorem C02_address_spec :
  forall (ipp : bytes -> option bytes) (hs : headers) (p : peer) (xs : list xentry),
    hget XFF hs = Some (xff_value xs) -> xs <> [] -> Forall xe_wf xs ->
    (filter_map (fun x => ipp (xe_text x)) xs = [] -> address_of ipp hs p = peer_only p) /\
    (forall init last, filter_map (fun x => ipp (xe_text x)) xs = init ++ [last] ->
       address_of ipp hs p = {| a_origin := last; a_proxies := init ++ [p_ip p]; a_port := p_port p |}).
Proof. exact address_spec. Qed.

Theorem C02_address_no_header :
  forall (ipp : bytes -> option bytes) (hs : headers) (p : peer), hget XFF hs = None -> address_of ipp hs p = peer_only p.
Proof. exact address_no_header. Qed.

(* the hypothesis on entries holds for SP / HTAB padding around any text without comma that neither starts nor ends
   with white space (so "a, b", "a,b", "a ,\tb" are all covered) *)
Theorem C02_address_padding : forall x : xentry, xe_wfb x = true -> xe_wf x.
Proof. exact xe_wfb_wf. Qed.

(* "1.1.1.1, bogus ,\t2.2.2.2" from peer 9.9.9.9:7 -> origin 2.2.2.2, proxies [1.1.1.1; 9.9.9.9] *)
Example C02_example_address :
  let xs := [ {| xe_pad := []; xe_text := [49;46;49;46;49;46;49]; xe_pad' := [] |};
              {| xe_pad := [32]; xe_text := [98;111;103;117;115]; xe_pad' := [32] |};
              {| xe_pad := [9]; xe_text := [50;46;50;46;50;46;50]; xe_pad' := [] |} ] in
  let p := {| p_ip := [57;46;57;46;57;46;57]; p_port := 7 |} in
  forallb xe_wfb xs = true /\
  filter_map (fun x => ipv4_parse (xe_text x)) xs = [[49;46;49;46;49;46;49]] ++ [[50;46;50;46;50;46;50]] /\
  address_of ipv4_parse [(XFF, xff_value xs)] p =
    {| a_origin := [50;46;50;46;50;46;50]; a_proxies := [[49;46;49;46;49;46;49]; [57;46;57;46;57;46;57]]; a_port := 7 |} /\
  hname_of [88;45;70;111;114;119;97;114;100;101;100;45;70;111;114] = XFF.
Proof. vm_compute. repeat split. Qed.

(* End to end on concrete bytes (peer 9.9.9.9:7):
     POST /p?q=1 HTTP/1.0 | X-B: 1 | COOKIE: a=1; b=2 | Host:h | x-b:<TAB>2 | X-Forwarded-For: 1.1.1.1, x ,2.2.2.2 |
     Content-Length: 2 | | hi  followed by "NEXT"
   parses to the expected request and leaves "NEXT"; cookies and addresses are as specified; its serialisation puts the
   fields in Headers::iter order and parses back to the same request up to that order. *)
Definition C02_example_bytes : bytes :=
  [80;79;83;84;32;47;112;63;113;61;49;32;72;84;84;80;47;49;46;48;13;10; 88;45;66;58;32;49;13;10;
   67;79;79;75;73;69;58;32;97;61;49;59;32;98;61;50;13;10; 72;111;115;116;58;104;13;10; 120;45;98;58;9;50;13;10;
   88;45;70;111;114;119;97;114;100;101;100;45;70;111;114;58;32;49;46;49;46;49;46;49;44;32;120;32;44;50;46;50;46;50;46;50;13;10;
   67;111;110;116;101;110;116;45;76;101;110;103;116;104;58;32;50;13;10; 13;10; 104;105; 78;69;88;84].
Definition C02_example_peer : peer := {| p_ip := [57;46;57;46;57;46;57]; p_port := 7 |}.
Definition C02_example_request : request :=
  {| r_method := 1; r_uri := [47;112]; r_query := [113;61;49]; r_version := [72;84;84;80;47;49;46;48];
     r_headers := [(HCustom [120;45;98], [49]); (HKnown H_Cookie, [97;61;49;59;32;98;61;50]); (HKnown H_Host, [104]);
                   (HCustom [120;45;98], [50]);
                   (XFF, [49;46;49;46;49;46;49;44;32;120;32;44;50;46;50;46;50;46;50]); (HKnown H_ContentLength, [50])];
     r_content := Some [104;105];
     r_addr := {| a_origin := [50;46;50;46;50;46;50]; a_proxies := [[49;46;49;46;49;46;49]; [57;46;57;46;57;46;57]];
                  a_port := 7 |} |}.
Example C02_example_end_to_end :
  parse_request_flat ipv4_parse C02_example_peer C02_example_bytes = Ok (C02_example_request, [78;69;88;84]) /\
  cookies_of (r_headers C02_example_request) = [([97],[49]); ([98],[50])] /\
  hget_all (hname_of [88;45;98]) (r_headers C02_example_request) = [[49];[50]] /\
  map fst (hsort (r_headers C02_example_request)) =
    [HKnown H_Cookie; HKnown H_Host; HKnown H_ContentLength; HCustom [120;45;98]; HCustom [120;45;98]; XFF] /\
  parse_request_flat ipv4_parse C02_example_peer (serialize_request C02_example_request ++ [78;69;88;84]) =
    Ok (sorted_request C02_example_request, [78;69;88;84]) /\
  sorted_request C02_example_request <> C02_example_request.
Proof. vm_compute. repeat split. discriminate. Qed.

Print Assumptions C02_parse_faithful.
Print Assumptions C02_example_wf.
Print Assumptions C02_names_case_insensitive.
Print Assumptions C02_example_names.
Print Assumptions C02_hsort_stable.
Print Assumptions C02_roundtrip.
Print Assumptions C02_roundtrip_exact.
Print Assumptions C02_roundtrip_residue.
Print Assumptions C02_cookies_spec.
Print Assumptions C02_cookies_std.
Print Assumptions C02_cookies_none.
Print Assumptions C02_example_cookies.
Print Assumptions C02_example_cookie_kv_wf.
Print Assumptions C02_address_spec.
Print Assumptions C02_address_no_header.
Print Assumptions C02_address_padding.
Print Assumptions C02_example_address.
Print Assumptions C02_content_length_canonical.
Print Assumptions C02_example_end_to_end.
Print Assumptions C02_parse_accepts_iff.
Print Assumptions C02_wf_accepted.
