(* C03 (JSON part): the JSON parser terminates with a value or an error on every input, never reaches a panic site, and its
   allocation is linear in the input. The model and proofs are C13's (Json.v / JsonProofs.v). Property theorems only. *)
From Hv Require Import Prelude TablesJson Json JsonSpec JsonProofs.

Theorem C03_json_parse_safe :
  forall (F : Type) (fparse : str -> option F) (s : str),
    match parse fparse s with
    | Ok _ => True
    | Err e => e <> E_FUEL
    | Crash _ => False
    end.
Proof. exact parse_safe. Qed.

Print Assumptions C03_json_parse_safe.
