(* C03 (WebSocket frame decoder part): no crash, allocation bounded by the bytes supplied, on every input.
   The frame model and proofs are C10's (Frame.v / FrameProofs.v). Property theorems only. *)
From Hv Require Import Prelude Stream Frame FrameProofs.
Open Scope N_scope.

Theorem C03_ws_decode_safe :
  forall cs : chunks, is_crash (decode cs) = false /\ decode_alloc cs <= 2 * total_len cs + 32.
Proof. exact decode_safe. Qed.

Print Assumptions C03_ws_decode_safe.
