(* C03 (HTTP part) — the request and response parsers terminate on every input with a value or an error, never panic,
   and a parsed body consists of bytes that were supplied (allocation follows the data, not the claimed length).
   Property theorems only. *)
From Hv Require Import Prelude Bytes StreamBuf StreamBufProofs TablesHttp Http HttpStreamProofs.
Open Scope N_scope.

(* For EVERY chunked input (all byte strings, all segmentations into non-empty reads): the model's loops never exhaust
   their fuel (= the parser terminates: every loop iteration consumes input) and no panic site is reached. *)
Theorem C03_parse_request_safe :
  forall (ipp : bytes -> option bytes) (p : peer) (cs : chunks), wf_chunks cs ->
    parse_request_chunked ipp p cs <> Err 99 /\ is_crash (parse_request_chunked ipp p cs) = false.
Proof. exact parse_request_chunked_safe. Qed.

Theorem C03_parse_response_safe :
  forall cs : chunks, wf_chunks cs ->
    parse_response_chunked cs <> Err 99 /\ is_crash (parse_response_chunked cs) = false.
Proof. exact parse_response_chunked_safe. Qed.

(* The body handed back is never longer than the input that was supplied (so a huge Content-Length with few bytes is an
   error, not an allocation): |body| + |unread rest| <= |input|. *)
Theorem C03_request_body_bounded_by_input :
  forall (ipp : bytes -> option bytes) (p : peer) (l : bytes) (r : request) (rest : bytes),
    parse_request_flat ipp p l = Ok (r, rest) ->
    (length (match r_content r with Some d => d | None => [] end) + length rest <= length l)%nat.
Proof. exact parse_request_flat_alloc. Qed.

(* ... and the same for responses, under Content-Length framing and under chunked coding: a claimed length or chunk size
   larger than what follows is an error, and the body handed back never exceeds the bytes supplied *)
Theorem C03_response_body_bounded_by_input :
  forall (l : bytes) (r : response) (rest : bytes),
    parse_response_flat l = Ok (r, rest) -> (length (s_body r) + length rest <= length l)%nat.
Proof. exact parse_response_flat_alloc. Qed.

(* Non-vacuity / the repaired panic sites: a header line that ends inside a multi-byte character without CRLF, a
   response header without a colon, and a 60-byte request claiming 10^14 bytes are all plain errors. *)
Example C03_example_former_panics :
  parse_request_flat ipv4_parse {| p_ip := [49]; p_port := 80 |}
    [71;69;84;32;47;32;72;84;84;80;47;49;46;49;13;10;88;58;32;226;130;172] = Err E_Request /\
  parse_response_flat [72;84;84;80;47;49;46;49;32;50;48;48;32;79;75;13;10;110;111;99;111;108;111;110;13;10;13;10] = Err E_Response /\
  parse_request_flat ipv4_parse {| p_ip := [49]; p_port := 80 |}
    [71;69;84;32;47;32;72;84;84;80;47;49;46;49;13;10;67;111;110;116;101;110;116;45;76;101;110;103;116;104;58;32;49;48;48;48;48;48;48;48;48;48;48;48;48;48;48;13;10;13;10;97] = Err E_Stream.
Proof. vm_compute. repeat split. Qed.

Print Assumptions C03_parse_request_safe.
Print Assumptions C03_parse_response_safe.
Print Assumptions C03_request_body_bounded_by_input.
Print Assumptions C03_response_body_bounded_by_input.
Print Assumptions C03_example_former_panics.
