(* C02 — placeholder while proofs are written: table sanity obligations tied to the generated tables. *)
From Hv Require Import Prelude Bytes StreamBuf TablesHttp Http.
Open Scope N_scope.

(* Headers::iter must use the stable sort (F06): regenerated from headers.rs on every run. *)
Theorem C02_headers_iter_stable : headers_iter_sort_is_stable = true.
Proof. reflexivity. Qed.

Print Assumptions C02_headers_iter_stable.
