(* C02 — request parsing: segmentation independence (this file) ; faithfulness / round trip are in C02_flat.v.
   Property theorems only. *)
From Hv Require Import Prelude Bytes StreamBuf StreamBufProofs TablesHttp Http HttpStreamProofs.
Open Scope N_scope.

(* Headers::iter must use the stable sort (F06): the flag is regenerated from headers.rs on every run. *)
Theorem C02_headers_iter_stable : headers_iter_sort_is_stable = true.
Proof. reflexivity. Qed.

(* The code-shaped parser (one raw read for the first byte, then a fresh 8 KiB BufReader, read_until / read_exact as in
   request.rs) computes, for EVERY byte string and EVERY chunking of it into non-empty reads, exactly what the flat
   parser computes on the concatenation: same request, same error class; and the bytes still unread (buffered or not)
   are exactly the flat parser's remainder. *)
Theorem C02_parse_request_chunked_refines_flat :
  forall (ipp : bytes -> option bytes) (p : peer) (cs : chunks),
    wf_chunks cs ->
    orel (parse_request_chunked ipp p cs) (parse_request_flat ipp p (concat cs)).
Proof. exact parse_request_chunked_refines. Qed.

(* Hence the result does not depend on how the bytes are split across reads. *)
Theorem C02_parse_request_segmentation_independent :
  forall (ipp : bytes -> option bytes) (p : peer) (cs1 cs2 : chunks),
    wf_chunks cs1 -> wf_chunks cs2 -> concat cs1 = concat cs2 ->
    oval (parse_request_chunked ipp p cs1) = oval (parse_request_chunked ipp p cs2).
Proof. exact parse_request_segmentation_independent. Qed.

(* BufReader model: a line read through the buffer is the flat split at the first LF, whatever the chunking. *)
Theorem C02_read_line_refines_flat :
  forall br : bufreader, wf_chunks (inner br) ->
    exists line br', read_line br = Some (line, br') /\
      (line, contents br') = read_until_flat LF (contents br) /\ wf_chunks (inner br').
Proof. exact read_line_spec. Qed.

(* Non-vacuity: a concrete request split in the middle of a header name parses, and equals the unsplit parse. *)
Example C02_example_split :
  let b1 := [71;69;84;32;47;32;72;84;84;80;47;49;46;49;13;10;72;111] in
  let b2 := [115;116;58;32;120;13;10;13;10] in
  wf_chunks [b1; b2] /\
  oval (parse_request_chunked ipv4_parse {| p_ip := [49]; p_port := 80 |} [b1; b2]) =
  oval (parse_request_chunked ipv4_parse {| p_ip := [49]; p_port := 80 |} [b1 ++ b2]) /\
  is_crash (parse_request_chunked ipv4_parse {| p_ip := [49]; p_port := 80 |} [b1; b2]) = false /\
  (exists r br, parse_request_chunked ipv4_parse {| p_ip := [49]; p_port := 80 |} [b1; b2] = Ok (r, br)).
Proof.
  cbv zeta. split; [repeat constructor; discriminate|]. split; [vm_compute; reflexivity|]. split; [vm_compute; reflexivity|].
  vm_compute. eexists. eexists. reflexivity.
Qed.

Print Assumptions C02_headers_iter_stable.
Print Assumptions C02_parse_request_chunked_refines_flat.
Print Assumptions C02_parse_request_segmentation_independent.
Print Assumptions C02_read_line_refines_flat.
Print Assumptions C02_example_split.
