(* C07 — response parsing: segmentation independence (this file); serialisation validity, round trip, Content-Length and
   chunked faithfulness are in C07_flat.v. Property theorems only. *)
From Hv Require Import Prelude Bytes StreamBuf StreamBufProofs TablesHttp Http HttpStreamProofs.
Open Scope N_scope.

Theorem C07_headers_iter_stable : headers_iter_sort_is_stable = true.
Proof. reflexivity. Qed.

(* Response::from_stream over the BufReader model computes, for every byte string and every chunking into non-empty
   reads, what the flat parser computes on the concatenation (same response or same error class, same remainder):
   "under every division into read segments". *)
Theorem C07_parse_response_chunked_refines_flat :
  forall cs : chunks, wf_chunks cs ->
    orel (parse_response_chunked cs) (parse_response_flat (concat cs)).
Proof. exact parse_response_chunked_refines. Qed.

Theorem C07_parse_response_segmentation_independent :
  forall cs1 cs2 : chunks, wf_chunks cs1 -> wf_chunks cs2 -> concat cs1 = concat cs2 ->
    oval (parse_response_chunked cs1) = oval (parse_response_chunked cs2).
Proof. exact parse_response_segmentation_independent. Qed.

(* Non-vacuity: a chunked response split inside the chunk-size line. *)
Example C07_example_chunked_split :
  let b1 := [72;84;84;80;47;49;46;49;32;50;48;48;32;79;75;13;10;84;114;97;110;115;102;101;114;45;69;110;99;111;100;105;110;103;58;32;99;104;117;110;107;101;100;13;10;13;10;51] in
  let b2 := [13;10;97;98;99;13;10;48;13;10;13;10] in
  wf_chunks [b1; b2] /\
  (exists r br, parse_response_chunked [b1; b2] = Ok (r, br) /\ s_body r = [97;98;99]) /\
  oval (parse_response_chunked [b1; b2]) = oval (parse_response_chunked [b1 ++ b2]).
Proof.
  cbv zeta. split; [repeat constructor; discriminate|]. split.
  - vm_compute. eexists. eexists. split; reflexivity.
  - vm_compute. reflexivity.
Qed.

Print Assumptions C07_headers_iter_stable.
Print Assumptions C07_parse_response_chunked_refines_flat.
Print Assumptions C07_parse_response_segmentation_independent.
Print Assumptions C07_example_chunked_split.
