(* C07 — placeholder while proofs are written. *)
From Hv Require Import Prelude Bytes StreamBuf TablesHttp Http.
Open Scope N_scope.
Theorem C07_headers_iter_stable : headers_iter_sort_is_stable = true.
Proof. reflexivity. Qed.
Print Assumptions C07_headers_iter_stable.
