(* C14 — typed JSON mapping (derive / json_map! / traits.rs) and the json! macro preserve every value.
   Property theorems only: each is closed by `exact <lemma>`; statements are written out in full here so that weakening a
   lemma elsewhere breaks this file.

   Reading guide.
   * JsonTyped.v: `ty` is the universe of types the mapping can be applied to (bool, the integer types as TInt bits signed, f64,
     f32, String, Option, Vec, named structs with per-field optional #[rename] - json_map! pairs are recorded as renames -, tuple
     structs, enums of unit variants with optional #[rename]); `rval` are Rust values, `has_type v t` the typing judgement;
     `to_json t` / `from_json t` are the bodies of IntoJson::to_json / FromJson::from_json that trait resolution and the macros
     produce for t.  `value F` is C13's model of humphrey_json::Value.
   * f64 / f32 are abstract types F / F32.  of_int : Z -> F is `n as f64`, f2z : F -> Z the integer part used by the saturating
     `x as iN/uN` (cast_int clamps it to the type's range), widen / narrow are `as f64` / `as f32`.  The two hypotheses used are
     spelled out in each theorem:  f2z (of_int z) = z for |z| <= 2^53,  narrow (widen x) = x.
   * Two genuine losses of the encoding are NOT hidden in hypotheses but recorded as findings with witnesses below:
     F26 integers that `as f64` rounds (only 64/128-bit types can hold one), F27 Some(None) at Option<Option<_>>.
     `lossless t v` says that neither occurs in v; C14_typed_roundtrip_iff shows it is EXACTLY the condition for the round trip.
   * JsonMacro.v: `tt` are token trees, `json_macro old ts` is the result of json!(ts) computed arm by arm by the models of the
     three macro_rules! munchers (old = false: the tree after fix F03); Err = compile error.  `Lit t v` is the JSON literal grammar
     on token trees (null / any Rust expression / arrays / objects, trailing commas, any nesting) with the value a literal denotes;
     `denote` is the same as a function. *)
From Coq Require Import Lia.
From Hv Require Import Prelude TablesJson Json JsonSpec JsonTyped JsonTypedProofs JsonMacro JsonMacroProofs.
Open Scope N_scope.

(* ---------------- typed mapping: round trip ---------------- *)

(* from_json (to_json v) = v for every value of every well-formed type without Option<Option<_>>, all of whose integers have
   magnitude at most 2^53 *)
Theorem C14_typed_roundtrip :
  forall (F F32 : Type) (of_int : Z -> F) (f2z : F -> Z) (widen : F32 -> F) (narrow : F -> F32),
    (forall x : F32, narrow (widen x) = x) ->
    (forall z : Z, (Z.abs z <= 2 ^ 53)%Z -> f2z (of_int z) = z) ->
    forall (t : ty) (v : rval F F32),
      wf_ty t -> has_type F F32 v t -> in_range F F32 t v -> no_nested_option t ->
      from_json F F32 f2z narrow t (to_json F F32 of_int widen t v) = Ok v.
Proof. exact typed_roundtrip. Qed.

(* the same with the exclusion stated on the value: a type may contain Option<Option<_>> as long as the value holds no Some(None) *)
Theorem C14_typed_roundtrip_values :
  forall (F F32 : Type) (of_int : Z -> F) (f2z : F -> Z) (widen : F32 -> F) (narrow : F -> F32),
    (forall x : F32, narrow (widen x) = x) ->
    (forall z : Z, (Z.abs z <= 2 ^ 53)%Z -> f2z (of_int z) = z) ->
    forall (t : ty) (v : rval F F32),
      wf_ty t -> has_type F F32 v t -> in_range F F32 t v -> no_some_none F F32 t v ->
      from_json F F32 f2z narrow t (to_json F F32 of_int widen t v) = Ok v.
Proof. exact typed_roundtrip_values. Qed.

(* exact characterisation: the round trip succeeds IF AND ONLY IF every integer of the value survives `as f64` then `as <its type>`
   and the value contains no Some(None)  (lossless, JsonTyped.v).  No hypothesis on the integer casts at all. *)
Theorem C14_typed_roundtrip_iff :
  forall (F F32 : Type) (of_int : Z -> F) (f2z : F -> Z) (widen : F32 -> F) (narrow : F -> F32),
    (forall x : F32, narrow (widen x) = x) ->
    forall t : ty, wf_ty t -> forall v : rval F F32, has_type F F32 v t ->
      (from_json F F32 f2z narrow t (to_json F F32 of_int widen t v) = Ok v <-> lossless F F32 of_int f2z t v).
Proof. exact typed_roundtrip_iff. Qed.

(* the advertised API: humphrey_json::from_str(&humphrey_json::to_string(&v)) = v, by composition with C13's round trip
   (numbers of the JSON value finite, strings made of code points, nesting within Value::parse's limit) *)
Theorem C14_typed_text_roundtrip :
  forall (F F32 : Type) (of_int : Z -> F) (f2z : F -> Z) (widen : F32 -> F) (narrow : F -> F32)
         (fparse : str -> option F) (fdisplay : F -> str) (ffinite : F -> Prop),
    (forall x : F32, narrow (widen x) = x) ->
    (forall x, ffinite x -> JNumber (fdisplay x)) ->
    (forall x, ffinite x -> fparse (fdisplay x) = Some x) ->
    forall (t : ty) (v : rval F F32),
      wf_ty t -> has_type F F32 v t -> lossless F F32 of_int f2z t v ->
      serialisable F ffinite (to_json F F32 of_int widen t v) -> depth (to_json F F32 of_int widen t v) <= MAX_DEPTH ->
      from_str F F32 f2z narrow fparse t (to_string F F32 of_int widen fdisplay t v) = Ok v.
Proof. exact typed_text_roundtrip. Qed.

(* ... with hypotheses that can be read off the declaration and the value: every JSON name of the type and every string of the
   value is made of code points (always true in Rust), every number of the value is finite as a double (text_ok: floats finite,
   of_int z finite), and the type nests at most MAX_DEPTH arrays / objects (ty_depth) *)
Theorem C14_typed_text_roundtrip_decl :
  forall (F F32 : Type) (of_int : Z -> F) (f2z : F -> Z) (widen : F32 -> F) (narrow : F -> F32)
         (fparse : str -> option F) (fdisplay : F -> str) (ffinite : F -> Prop),
    (forall x : F32, narrow (widen x) = x) ->
    (forall x, ffinite x -> JNumber (fdisplay x)) ->
    (forall x, ffinite x -> fparse (fdisplay x) = Some x) ->
    forall (t : ty) (v : rval F F32),
      wf_ty t -> has_type F F32 v t -> lossless F F32 of_int f2z t v ->
      names_all str_ok t -> text_ok F F32 of_int widen ffinite t v -> ty_depth t <= MAX_DEPTH ->
      from_str F F32 f2z narrow fparse t (to_string F F32 of_int widen fdisplay t v) = Ok v.
Proof. exact typed_text_roundtrip_decl. Qed.

(* ---------------- typed mapping: documented shape ---------------- *)

(* a named struct maps to an object whose members are, in declaration order, (field name or rename, to_json of the field) *)
Theorem C14_shape_struct :
  forall (F F32 : Type) (of_int : Z -> F) (widen : F32 -> F) (fs : list (str * option str * ty)) (vs : list (rval F F32)),
    has_type F F32 (RStruct vs) (TStruct fs) ->
    exists ms, to_json F F32 of_int widen (TStruct fs) (RStruct vs) = VObj ms /\
               map fst ms = map field_key fs /\
               Forall2 (fun fv m => snd m = to_json F F32 of_int widen (field_ty (fst fv)) (snd fv)) (combine fs vs) ms.
Proof. exact shape_struct. Qed.

(* a tuple struct maps to an array of its fields, in order *)
Theorem C14_shape_tuple :
  forall (F F32 : Type) (of_int : Z -> F) (widen : F32 -> F) (ts : list ty) (vs : list (rval F F32)),
    has_type F F32 (RTuple vs) (TTuple ts) ->
    exists js, to_json F F32 of_int widen (TTuple ts) (RTuple vs) = VArr js /\
               length js = length ts /\
               Forall2 (fun tv j => j = to_json F F32 of_int widen (fst tv) (snd tv)) (combine ts vs) js.
Proof. exact shape_tuple. Qed.

(* an enum variant maps to the string of its name or rename *)
Theorem C14_shape_enum :
  forall (F F32 : Type) (of_int : Z -> F) (widen : F32 -> F) (names : list (str * option str)) (i : nat) (vr : str * option str),
    nth_error names i = Some vr ->
    to_json F F32 of_int widen (TEnum names) (REnum i) = VStr (variant_name vr).
Proof. exact shape_enum. Qed.

(* scalars, Option and Vec *)
Theorem C14_shape_scalars :
  forall (F F32 : Type) (of_int : Z -> F) (widen : F32 -> F),
    (forall b, to_json F F32 of_int widen TBool (RBool b) = VBool b) /\
    (forall bits sg z, to_json F F32 of_int widen (TInt bits sg) (RInt z) = VNum (of_int z)) /\
    (forall x, to_json F F32 of_int widen TF64 (RF64 x) = VNum x) /\
    (forall x, to_json F F32 of_int widen TF32 (RF32 x) = VNum (widen x)) /\
    (forall s, to_json F F32 of_int widen TString (RStr s) = VStr s) /\
    (forall t, to_json F F32 of_int widen (TOption t) RNone = VNull) /\
    (forall t v, to_json F F32 of_int widen (TOption t) (RSome v) = to_json F F32 of_int widen t v) /\
    (forall t l, to_json F F32 of_int widen (TVec t) (RVec l) = VArr (map (to_json F F32 of_int widen t) l)).
Proof. intros. repeat split. Qed.

(* documented: a key that is missing from the object is read as null, so an Option field becomes None *)
Theorem C14_missing_key_is_none :
  forall (F F32 : Type) (f2z : F -> Z) (narrow : F -> F32) (t : ty) (k : str) (j : value F),
    get_key F k j = None -> from_json F F32 f2z narrow (TOption t) (or_null F (get_key F k j)) = Ok RNone.
Proof. exact missing_key_is_none. Qed.

(* from_json applied to ANY JSON value (not only to the image of to_json) returns a value of the type or TypeError: the generated
   code has no panic site, `as` casts land inside the integer type, the variant index is in range
   (ints_ok: every integer type of the declaration has a positive width) *)
Theorem C14_from_json_total :
  forall (F F32 : Type) (f2z : F -> Z) (narrow : F -> F32) (t : ty),
    ints_ok t -> forall j : value F,
      (exists v, from_json F F32 f2z narrow t j = Ok v /\ has_type F F32 v t) \/ from_json F F32 f2z narrow t j = Err E_TYPE.
Proof. exact from_json_total. Qed.

(* ---------------- json! ---------------- *)

(* every literal of the JSON literal grammar (any nesting, trailing commas, expressions in every value position, any
   single-token expression as key) evaluates to the value it denotes *)
Theorem C14_macro_sound :
  forall (F : Type) (t : tt F) (v : value F), Lit F t v -> json_macro F false [t] = Ok v.
Proof. exact macro_sound. Qed.

(* the grammar as a function, and the same statement for it *)
Theorem C14_denote_iff_lit :
  forall (F : Type) (t : tt F) (v : value F), denote F t = Some v <-> Lit F t v.
Proof. exact denote_iff. Qed.

Theorem C14_macro_denote :
  forall (F : Type) (t : tt F) (v : value F), denote F t = Some v -> json_macro F false [t] = Ok v.
Proof. exact macro_denote. Qed.

(* "... evaluates to the same value as parsing the equivalent JSON text": `render` (JsonMacro.v) writes the RFC 8259 text of a
   literal (expressions as the JSON text of their value, keys as JSON strings, trailing commas dropped).  For every literal of
   the grammar that text IS a JSON text denoting the literal's value (JText: C13's RFC 8259 relation), and C13's model of
   Value::parse returns exactly what the macro evaluates to.  Hypotheses: C13's two facts about f64 printing / parsing;
   serialisable = numbers finite, strings made of code points; nesting within Value::parse's MAX_DEPTH. *)
Theorem C14_literal_text_valid :
  forall (F : Type) (fparse : str -> option F) (fdisplay : F -> str) (ffinite : F -> Prop),
    (forall x, ffinite x -> JNumber (fdisplay x)) ->
    (forall x, ffinite x -> fparse (fdisplay x) = Some x) ->
    forall (t : tt F) (v : value F),
      Lit F t v -> serialisable F ffinite v -> JText fparse (render F fdisplay t) v.
Proof. exact render_text. Qed.

Theorem C14_macro_equals_parse :
  forall (F : Type) (fparse : str -> option F) (fdisplay : F -> str) (ffinite : F -> Prop),
    (forall x, ffinite x -> JNumber (fdisplay x)) ->
    (forall x, ffinite x -> fparse (fdisplay x) = Some x) ->
    forall (t : tt F) (v : value F),
      Lit F t v -> serialisable F ffinite v -> depth v <= MAX_DEPTH ->
      parse fparse (render F fdisplay t) = json_macro F false [t].
Proof. exact macro_equals_parse. Qed.

(* for EVERY token sequence (inside or outside the grammar; repaired or old macro) the model answers with a value or a compile
   error: the fuel of the rewriting function (json_fuel = 1 + size of the token trees) is never exhausted *)
Theorem C14_json_macro_total :
  forall (F : Type) (old : bool) (ts : list (tt F)), json_macro F old ts <> Err E_FUEL.
Proof. exact json_macro_total. Qed.

(* the literals that #[derive(IntoJson)] and json_map! write for a named struct evaluate to the object of C14_shape_struct:
   the typed mapping of structs goes through the macro, and the macro does not lose members *)
Theorem C14_derive_literal :
  forall (F : Type) (ms : list (str * value F)), json_macro F false [derive_tokens F ms] = Ok (VObj ms).
Proof. exact derive_template. Qed.

Theorem C14_json_map_literal :
  forall (F : Type) (ms : list (str * value F)), json_macro F false [map_tokens F ms] = Ok (VObj ms).
Proof. exact map_template. Qed.

(* ---------------- findings ---------------- *)

(* F03 (fixed): on the model of the old `null` arm of json_array_internal! a literal of the grammar evaluates to a different value:
   json!([null, "a"]) = [null] *)
Theorem C14_macro_old_refuted :
  forall F : Type, exists (t : tt F) (v v' : value F), Lit F t v /\ json_macro F true [t] = Ok v' /\ v' <> v.
Proof. exact macro_old_refuted. Qed.

(* F26 (known finding): in EVERY instance of the casts, an integer z that `as f64` rounds to the double of another integer z'
   is read back as z' *)
Theorem C14_int_rounding_lossy :
  forall (F F32 : Type) (of_int : Z -> F) (f2z : F -> Z) (widen : F32 -> F) (narrow : F -> F32),
    (forall z : Z, (Z.abs z <= 2 ^ 53)%Z -> f2z (of_int z) = z) ->
    forall (bits : N) (sg : bool) (z z' : Z),
      of_int z = of_int z' -> z <> z' -> (Z.abs z' <= 2 ^ 53)%Z -> (int_lo bits sg <= z' <= int_hi bits sg)%Z ->
      from_json F F32 f2z narrow (TInt bits sg) (to_json F F32 of_int widen (TInt bits sg) (RInt z)) = Ok (RInt z') /\
      from_json F F32 f2z narrow (TInt bits sg) (to_json F F32 of_int widen (TInt bits sg) (RInt z)) <> Ok (RInt z).
Proof. exact int_rounding_lossy. Qed.

(* ... and a concrete witness in the integer-only instance (doubles holding integers = integers of at most 53 significant bits,
   round53 = round to nearest even): struct { a: u64 } with a = 2^53 + 1 satisfies every hypothesis of C14_typed_roundtrip
   except in_range, and comes back as 2^53 *)
Theorem C14_typed_int_refuted :
  wf_ty f26_type /\ has_type Z Z f26_value f26_type /\ no_nested_option f26_type /\
  zroundtrip f26_type f26_value = Ok (RStruct [RInt (2 ^ 53)]) /\
  zroundtrip f26_type f26_value <> Ok f26_value.
Proof. exact typed_int_refuted. Qed.

(* F27 (known finding): in EVERY instance Some(None) : Option<Option<T>> is read back as None *)
Theorem C14_nested_option_lossy :
  forall (F F32 : Type) (of_int : Z -> F) (f2z : F -> Z) (widen : F32 -> F) (narrow : F -> F32) (t : ty),
    from_json F F32 f2z narrow (TOption (TOption t)) (to_json F F32 of_int widen (TOption (TOption t)) (RSome RNone)) = Ok RNone.
Proof. exact nested_option_lossy. Qed.

(* ... witness: struct { a: Option<Option<bool>> } with a = Some(None) satisfies every hypothesis of C14_typed_roundtrip except
   no_nested_option *)
Theorem C14_typed_nested_option_refuted :
  wf_ty f27_type /\ has_type Z Z f27_value f27_type /\ in_range Z Z f27_type f27_value /\
  zroundtrip f27_type f27_value = Ok (RStruct [RNone]) /\
  zroundtrip f27_type f27_value <> Ok f27_value.
Proof. exact typed_nested_option_refuted. Qed.

(* ---------------- non-vacuity ---------------- *)

(* the hypotheses on the casts are satisfiable: the integer-only instance (of_int = round53, f2z = narrow = widen = identity) *)
Example C14_cast_hypotheses_satisfiable :
  (forall x : Z, (fun y : Z => y) ((fun y : Z => y) x) = x) /\
  (forall z : Z, (Z.abs z <= 2 ^ 53)%Z -> (fun y : Z => y) (round53 z) = z).
Proof. split; [reflexivity|exact zinstance_exact]. Qed.

(* a non-trivial type and value:
     struct S { #[rename = "a b"] x: Vec<Option<i64>>, y: (tuple struct)(bool, E), z: Option<String> }   enum E { P, #[rename = "q"] Q }
   satisfies the hypotheses, has the documented shape and round-trips (computed inside Coq) *)
Definition ex_enum : ty := TEnum [([0x50], None); ([0x51], Some [0x71])].
Definition ex_type : ty :=
  TStruct [([0x78], Some [0x61; 0x20; 0x62], TVec (TOption (TInt 64 true)));
           ([0x79], None, TTuple [TBool; ex_enum]);
           ([0x7a], None, TOption TString)].
Definition ex_value : rval Z Z :=
  RStruct [RVec [RSome (RInt (-5)); RNone; RSome (RInt (2 ^ 53))]; RTuple [RBool true; REnum 1]; RSome (RStr [0xe9])].

Example C14_example_roundtrip :
  wf_ty ex_type /\ has_type Z Z ex_value ex_type /\ in_range Z Z ex_type ex_value /\ no_nested_option ex_type /\
  zto_json ex_type ex_value =
    VObj [([0x61; 0x20; 0x62], VArr [VNum (-5)%Z; VNull; VNum (2 ^ 53)%Z]);
          ([0x79], VArr [VBool true; VStr [0x71]]);
          ([0x7a], VStr [0xe9])] /\
  zroundtrip ex_type ex_value = Ok ex_value.
Proof.
  split; [|split; [|split; [|split; [|split]]]].
  - apply wf_tyb_sound. vm_compute. reflexivity.
  - apply has_typeb_sound. vm_compute. reflexivity.
  - cbn. repeat split; try exact I; repeat constructor; cbn; try lia; try exact I.
  - cbn. tauto.
  - vm_compute. reflexivity.
  - vm_compute. reflexivity.
Qed.

(* json!({"k": [null, 1, {"n": null,}, [],], "e": {}}) with 1 standing for any expression: the macro value, computed inside Coq *)
Example C14_example_macro :
  let one : value Z := VNum 1%Z in
  let t : tt Z :=
    TBrace [TExpr (VStr [0x6b]) (Some [0x6b]); TColon;
            TBracket [TNull; TComma; TExpr one None; TComma;
                      TBrace [TExpr (VStr [0x6e]) (Some [0x6e]); TColon; TNull; TComma]; TComma;
                      TBracket []; TComma]; TComma;
            TExpr (VStr [0x65]) (Some [0x65]); TColon; TBrace []] in
  let v : value Z := VObj [([0x6b], VArr [VNull; one; VObj [([0x6e], VNull)]; VArr []]); ([0x65], VObj [])] in
  denote Z t = Some v /\ json_macro Z false [t] = Ok v /\ json_macro Z true [t] = Ok (VObj [([0x6b], VArr [VNull]); ([0x65], VObj [])]).
Proof. cbv zeta. repeat split; vm_compute; reflexivity. Qed.

(* outside the grammar the macro may be a compile error: json!([1 2]) matches no arm *)
Example C14_example_no_arm :
  json_macro Z false [TBracket [TExpr (VNum 1%Z) None; TExpr (VNum 2%Z) None]] = Err E_NOARM.
Proof. vm_compute. reflexivity. Qed.

Print Assumptions C14_typed_roundtrip.
Print Assumptions C14_typed_roundtrip_values.
Print Assumptions C14_typed_roundtrip_iff.
Print Assumptions C14_typed_text_roundtrip.
Print Assumptions C14_typed_text_roundtrip_decl.
Print Assumptions C14_shape_struct.
Print Assumptions C14_shape_tuple.
Print Assumptions C14_shape_enum.
Print Assumptions C14_shape_scalars.
Print Assumptions C14_missing_key_is_none.
Print Assumptions C14_from_json_total.
Print Assumptions C14_macro_sound.
Print Assumptions C14_denote_iff_lit.
Print Assumptions C14_macro_denote.
Print Assumptions C14_literal_text_valid.
Print Assumptions C14_macro_equals_parse.
Print Assumptions C14_json_macro_total.
Print Assumptions C14_derive_literal.
Print Assumptions C14_json_map_literal.
Print Assumptions C14_macro_old_refuted.
Print Assumptions C14_int_rounding_lossy.
Print Assumptions C14_typed_int_refuted.
Print Assumptions C14_nested_option_lossy.
Print Assumptions C14_typed_nested_option_refuted.
Print Assumptions C14_cast_hypotheses_satisfiable.
Print Assumptions C14_example_roundtrip.
Print Assumptions C14_example_macro.
Print Assumptions C14_example_no_arm.
