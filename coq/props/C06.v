(* C06 — placeholder: theorems follow (StaticFsProofs). *)
From Hv Require Import Prelude StaticFs.
Example C06_example_traversal_refused :
  let fs := Dir [([119;119;119], Dir [([97], File [1])]); ([115], File [9])] in
  serve_as_file_path fs [47;119;119;119] [47;46;46;47;115] = R404 /\
  serve_as_file_path_old fs [47;119;119;119] [47;46;46;47;115] = R200 [9] None /\
  serve_as_file_path fs [47;119;119;119] [47;97] = R200 [1] None.
Proof. vm_compute. repeat split. Qed.
Print Assumptions C06_example_traversal_refused.
