(* C06 — static handlers never leave their directory. Property theorems only.
   fs is ANY file tree (no symlinks), `directory` any configured directory string that resolves to location `root`,
   `uri`/`route` ANY byte strings (dot-segments, percent-encodings, repeated slashes, NUL, absolute components ...). *)
From Hv Require Import Prelude Bytes TablesHttp Http StaticFs StaticFsProofs.
Open Scope N_scope.

Theorem C06_serve_dir_confined :
  forall (fs : node) (directory : bytes) (root : list bytes) (route uri body : bytes) (ct : option bytes),
    walk fs [] (split_on SLASH (trim_end_slashes directory)) = Some root ->
    serve_dir fs directory route uri = R200 body ct ->
    exists loc, under root loc /\ node_at fs loc = Some (File body).
Proof. exact serve_dir_confined. Qed.

Theorem C06_directory_route_confined :
  forall (fs : node) (directory : bytes) (root : list bytes) (matches uri body : bytes) (ct : option bytes),
    walk fs [] (split_on SLASH (trim_end_slashes directory)) = Some root ->
    directory_handler fs directory matches uri = R200 body ct ->
    exists loc, under root loc /\ node_at fs loc = Some (File body).
Proof. exact directory_handler_confined. Qed.

Theorem C06_serve_as_file_path_confined :
  forall (fs : node) (directory : bytes) (root : list bytes) (uri body : bytes) (ct : option bytes),
    walk fs [] (split_on SLASH (match rev directory with 47 :: r => rev r | _ => directory end)) = Some root ->
    serve_as_file_path fs directory uri = R200 body ct ->
    exists loc, under root loc /\ node_at fs loc = Some (File body).
Proof. exact serve_as_file_path_confined. Qed.

(* the shared path finder only ever locates regular files under the directory *)
Theorem C06_try_find_path_confined :
  forall (fs : node) (directory rp : bytes) (root loc : list bytes),
    walk fs [] (split_on SLASH (trim_end_slashes directory)) = Some root ->
    try_find_path fs directory rp = Some (LFile loc) ->
    under root loc /\ exists c, node_at fs loc = Some (File c).
Proof. exact try_find_path_confined. Qed.

(* before fix F14 serve_as_file_path escaped *)
Theorem C06_serve_as_file_path_old_refuted :
  exists fs directory root uri body,
    walk fs [] (split_on SLASH directory) = Some root /\
    serve_as_file_path_old fs directory uri = R200 body None /\
    ~ (exists loc, under root loc /\ node_at fs loc = Some (File body)).
Proof. exact serve_as_file_path_old_refuted. Qed.

(* Non-vacuity and the positive direction on a concrete tree: files are served with content and MIME type, a directory
   redirects without slash and serves index.html with it, traversal is refused. *)
Example C06_example :
  let fs := Dir [([119;119;119], Dir [([97;46;116;120;116], File [1;2]);
                                      ([115], Dir [([105;110;100;101;120;46;104;116;109;108], File [7])])]);
                 ([115;101;99], File [9])] in
  let d := [47;119;119;119] in
  walk fs [] (split_on SLASH (trim_end_slashes d)) = Some [[119;119;119]] /\
  serve_dir fs d [47;42] [47;97;46;116;120;116] = R200 [1;2] (Some [116;101;120;116;47;112;108;97;105;110]) /\
  serve_dir fs d [47;42] [47;115] = R301 [47;115;47] /\
  serve_dir fs d [47;42] [47;115;47] = R200 [7] (Some [116;101;120;116;47;104;116;109;108]) /\
  serve_dir fs d [47;42] [47;37;50;101;37;50;101;47;115;101;99] = R404 /\
  serve_as_file_path fs d [47;46;46;47;115;101;99] = R404 /\
  serve_as_file_path_old fs d [47;46;46;47;115;101;99] = R200 [9] None /\
  directory_handler fs d [47;42] [47;97;46;116;120;116] = R200 [1;2] (Some [116;101;120;116;47;112;108;97;105;110]).
Proof. vm_compute. repeat split. Qed.

Print Assumptions C06_serve_dir_confined.
Print Assumptions C06_directory_route_confined.
Print Assumptions C06_serve_as_file_path_confined.
Print Assumptions C06_try_find_path_confined.
Print Assumptions C06_serve_as_file_path_old_refuted.
Print Assumptions C06_example.
