(* C05 — `*` matches any character sequence, everything else matches only itself.
   Property theorems only: each is closed by `exact <lemma>`; statements are written out in full here
   so that weakening a lemma elsewhere breaks this file. *)
From Hv Require Import Prelude Krauss KraussProofs.
Open Scope N_scope.

(* The matcher (model of the current krauss.rs loop) decides exactly the declarative relation:
   text = pattern with every `*` replaced by some string; every other scalar value matches itself only.
   Patterns and texts are arbitrary lists of scalar values: any number/placement of `*`, ASCII or not. *)
Theorem C05_wildcard_match_iff_glob :
  forall w t : list N, wildcard_match w t = true <-> Glob w t.
Proof. exact wildcard_match_spec. Qed.

(* The loop terminates on every input (the fuel given to the model is never exhausted). *)
Theorem C05_wildcard_match_terminates :
  forall w t : list N, wildcard_match_opt w t <> None.
Proof. exact wildcard_match_terminates. Qed.

(* The relation means what the executable reference procedure computes (guards the spec itself). *)
Theorem C05_glob_reference :
  forall p t : list N, globb p t = true <-> Glob p t.
Proof. exact globb_spec. Qed.

(* The pre-fix loop (F02) violates the property: kept so a regression is recognisable. *)
Theorem C05_old_loop_refuted :
  exists w t, Glob w t /\ wildcard_match_old w t = Some false.
Proof. exact wildcard_old_refuted. Qed.

(* Non-vacuity: concrete non-trivial instances. *)
Example C05_example_overlap : wildcard_match [42;97;97;98] [97;97;97;98] = true
                              /\ wildcard_match [97;42;98] [97;98;99] = false
                              /\ wildcard_match [42;98] [42;97;98] = true
                              /\ wildcard_match [233;42;128512] [233;120;121;128512] = true.
Proof. vm_compute. repeat split. Qed.

Print Assumptions C05_wildcard_match_iff_glob.
Print Assumptions C05_wildcard_match_terminates.
Print Assumptions C05_glob_reference.
Print Assumptions C05_old_loop_refuted.
Print Assumptions C05_example_overlap.
