(* C05 — `*` matches any character sequence, everything else matches only itself.
   Property theorems only: each is closed by `exact <lemma>`; statements are written out in full here
   so that weakening a lemma elsewhere breaks this file. *)
From Hv Require Import Prelude Krauss KraussProofs KraussCorollaries.
Open Scope N_scope.

(* The matcher (model of the current krauss.rs loop) decides exactly the declarative relation:
   text = pattern with every `*` replaced by some string; every other scalar value matches itself only.
   Patterns and texts are arbitrary lists of scalar values: any number/placement of `*`, ASCII or not. *)
Theorem C05_wildcard_match_iff_glob :
  forall w t : list N, wildcard_match w t = true <-> Glob w t.
Proof. exact wildcard_match_spec. Qed.

(* The loop terminates on every input (the fuel given to the model is never exhausted). *)
Theorem C05_wildcard_match_terminates :
  forall w t : list N, wildcard_match_opt w t <> None.
Proof. exact wildcard_match_terminates. Qed.

(* The relation means what the executable reference procedure computes (guards the spec itself). *)
Theorem C05_glob_reference :
  forall p t : list N, globb p t = true <-> Glob p t.
Proof. exact globb_spec. Qed.

(* The pre-fix loop (F02) violates the property: kept so a regression is recognisable. *)
Theorem C05_old_loop_refuted :
  exists w t, Glob w t /\ wildcard_match_old w t = Some false.
Proof. exact wildcard_old_refuted. Qed.

(* The wording of the property, case by case (corollaries of the first theorem). *)
Theorem C05_literal_matches_only_itself :
  forall w t : list N, starfree w -> (wildcard_match w t = true <-> t = w).
Proof. exact literal_matches_only_itself. Qed.

Theorem C05_star_matches_everything : forall t : list N, wildcard_match [star] t = true.
Proof. exact star_matches_everything. Qed.

Theorem C05_prefix_pattern :
  forall l t : list N, starfree l -> (wildcard_match (l ++ [star]) t = true <-> exists s, t = l ++ s).
Proof. exact prefix_pattern. Qed.

Theorem C05_suffix_pattern :
  forall l t : list N, starfree l -> (wildcard_match (star :: l) t = true <-> exists s, t = s ++ l).
Proof. exact suffix_pattern. Qed.

(* prefix and suffix may not overlap in the text (the `"*"` quoted-value test of the configuration parser relies on it) *)
Theorem C05_infix_pattern :
  forall a b t : list N, starfree a -> starfree b ->
    (wildcard_match (a ++ star :: b) t = true <-> exists m, t = a ++ m ++ b).
Proof. exact infix_pattern. Qed.

Theorem C05_adjacent_stars :
  forall p t : list N, wildcard_match (star :: star :: p) t = wildcard_match (star :: p) t.
Proof. exact adjacent_stars. Qed.

(* a concatenated pattern matches exactly the concatenations of what its parts match (stars anywhere in either part) *)
Theorem C05_concat_pattern :
  forall p q t : list N,
    wildcard_match (p ++ q) t = true <->
    exists t1 t2, t = t1 ++ t2 /\ wildcard_match p t1 = true /\ wildcard_match q t2 = true.
Proof. exact concat_pattern. Qed.

(* generalising a pattern never loses a match: any one pattern character replaced by `*` *)
Theorem C05_widen_to_star :
  forall (a : list N) (c : N) (b t : list N),
    wildcard_match (a ++ c :: b) t = true -> wildcard_match (a ++ star :: b) t = true.
Proof. exact widen_to_star. Qed.

(* every non-`*` pattern character consumes a text character: a matched text is at least as long as the literal part *)
Theorem C05_match_at_least_literals :
  forall p t : list N,
    wildcard_match p t = true ->
    (length (filter (fun c => negb (N.eqb c star)) p) <= length t)%nat.
Proof. exact match_at_least_literals. Qed.

(* Non-vacuity: concrete non-trivial instances. *)
Example C05_example_overlap : wildcard_match [42;97;97;98] [97;97;97;98] = true
                              /\ wildcard_match [97;42;98] [97;98;99] = false
                              /\ wildcard_match [42;98] [42;97;98] = true
                              /\ wildcard_match [233;42;128512] [233;120;121;128512] = true.
Proof. vm_compute. repeat split. Qed.

Print Assumptions C05_wildcard_match_iff_glob.
Print Assumptions C05_literal_matches_only_itself.
Print Assumptions C05_star_matches_everything.
Print Assumptions C05_prefix_pattern.
Print Assumptions C05_suffix_pattern.
Print Assumptions C05_infix_pattern.
Print Assumptions C05_adjacent_stars.
Print Assumptions C05_concat_pattern.
Print Assumptions C05_widen_to_star.
Print Assumptions C05_match_at_least_literals.
Print Assumptions C05_wildcard_match_terminates.
Print Assumptions C05_glob_reference.
Print Assumptions C05_old_loop_refuted.
Print Assumptions C05_example_overlap.
