(* The config-driven server as a whole (model Server.v: server.rs main / init_app_routes / request_handler over the
   models of C04, C19, C06 and C15). Property theorems only; proofs in ServerProofs.v. These lift the per-property
   theorems through the wiring of the real server, which the end-to-end parts of the C04 / C19 / C06 checks exercise
   (humphrey_server::server::main started from configuration texts, model = serve_text on the same text). *)
From Hv Require Import Prelude Bytes TablesHttp TablesConfig Http Krauss Routing RoutingProofs Blacklist StaticFs StaticFsProofs
  Config Server ServerProofs.
Open Scope N_scope.

(* C19: a client at a listed address never receives content (a redirect, a file, a proxied answer, a WebSocket tunnel)
   from any route type, whatever it sends - an Upgrade: websocket header included; block mode closes
   its connection, forbidden mode answers 403 on every route; forwarded on behalf of a listed address: 403; all
   unlisted: the route's handler answers *)
Theorem C19_server_listed_never_content :
  forall ipp fs (c : config) p req, mem (p_ip p) (cf_bl_list c) = true -> ~ gives_content (server_response ipp fs c p req).
Proof. exact server_listed_never_content. Qed.

Theorem C19_server_listed_block_dropped :
  forall ipp fs (c : config) p req,
    mem (p_ip p) (cf_bl_list c) = true -> cf_bl_mode c = BLOCK_MODE -> server_response ipp fs c p req = SDropped.
Proof. exact server_listed_block_dropped. Qed.

Theorem C19_server_listed_forbidden_mode :
  forall ipp fs (c : config) p req,
    mem (p_ip p) (cf_bl_list c) = true -> cf_bl_mode c <> BLOCK_MODE ->
    server_response ipp fs c p req = SNotFound \/ server_response ipp fs c p req = SWsOnly \/
    server_response ipp fs c p req = SForbidden \/ server_response ipp fs c p req = SClosed.
Proof. exact server_listed_forbidden_mode. Qed.

Theorem C19_server_forwarded_listed :
  forall ipp fs (c : config) p req a,
    mem (p_ip p) (cf_bl_list c) = false -> In a (forwarded ipp (r_headers req)) -> mem a (cf_bl_list c) = true ->
    server_response ipp fs c p req = SNotFound \/ server_response ipp fs c p req = SWsOnly \/
    server_response ipp fs c p req = SForbidden \/ server_response ipp fs c p req = SClosed.
Proof. exact server_forwarded_listed. Qed.

Theorem C19_server_unlisted_served :
  forall ipp fs (c : config) p req,
    mem (p_ip p) (cf_bl_list c) = false ->
    (forall a, In a (forwarded ipp (r_headers req)) -> mem a (cf_bl_list c) = false) ->
    server_response ipp fs c p req =
    if is_upgrade req then ws_response c Served req else
    match get_handler (map subapp_of (cf_hosts c)) (subapp_of (cf_default_host c))
                      (option_map scalars (hget (HKnown H_Host) (r_headers req))) (scalars (r_uri req)) with
    | None => SNotFound
    | Some ch => match get_route c (fst (handler_ids ch)) (snd (handler_ids ch)) with
                 | Some rt => dispatch fs c rt Served req
                 | None => SPanic
                 end
    end.
Proof. exact server_unlisted_served. Qed.

(* ... and an upgrade request of such a client is tunnelled to the target of the first matching WebSocket route, or the
   connection is closed when there is none. A listed client's upgrade request never is (C19_server_listed_never_content
   counts SWsProxy as content): this is the defect F37 repaired in server.rs. *)
Theorem C19_server_unlisted_upgrade :
  forall (c : config) req,
    ws_response c Served req = SClosed \/
    exists h j rt t, get_route c h j = Some rt /\ rt_ws rt = Some t /\
      wildcard_match (scalars (rt_matches rt)) (scalars (r_uri req)) = true /\ ws_response c Served req = SWsProxy t.
Proof. exact server_unlisted_upgrade. Qed.

Print Assumptions C19_server_listed_never_content.
Print Assumptions C19_server_listed_block_dropped.
Print Assumptions C19_server_listed_forbidden_mode.
Print Assumptions C19_server_forwarded_listed.
Print Assumptions C19_server_unlisted_served.
Print Assumptions C19_server_unlisted_upgrade.
