(* The config-driven server as a whole (model Server.v: server.rs main / init_app_routes / request_handler over the
   models of C04, C19, C06 and C15). Property theorems only; proofs in ServerProofs.v. These lift the per-property
   theorems through the wiring of the real server, which the end-to-end parts of the C04 / C19 / C06 checks exercise
   (humphrey_server::server::main started from configuration texts, model = serve_text on the same text). *)
From Hv Require Import Prelude Bytes TablesHttp TablesConfig Http Krauss Routing RoutingProofs Blacklist StaticFs StaticFsProofs
  Config Server ServerProofs.
Open Scope N_scope.

(* C19: a client at a listed address never receives content from any route type, whatever it sends; block mode closes
   its connection, forbidden mode answers 403 on every route; forwarded on behalf of a listed address: 403; all
   unlisted: the route's handler answers *)
Theorem C19_server_listed_never_content :
  forall ipp fs (c : config) p req, mem (p_ip p) (cf_bl_list c) = true -> ~ gives_content (server_response ipp fs c p req).
Proof. exact server_listed_never_content. Qed.

Theorem C19_server_listed_block_dropped :
  forall ipp fs (c : config) p req,
    mem (p_ip p) (cf_bl_list c) = true -> cf_bl_mode c = BLOCK_MODE -> server_response ipp fs c p req = SDropped.
Proof. exact server_listed_block_dropped. Qed.

Theorem C19_server_listed_forbidden_mode :
  forall ipp fs (c : config) p req,
    mem (p_ip p) (cf_bl_list c) = true -> cf_bl_mode c <> BLOCK_MODE ->
    server_response ipp fs c p req = SNotFound \/ server_response ipp fs c p req = SWsOnly \/
    server_response ipp fs c p req = SForbidden.
Proof. exact server_listed_forbidden_mode. Qed.

Theorem C19_server_forwarded_listed :
  forall ipp fs (c : config) p req a,
    mem (p_ip p) (cf_bl_list c) = false -> In a (forwarded ipp (r_headers req)) -> mem a (cf_bl_list c) = true ->
    server_response ipp fs c p req = SNotFound \/ server_response ipp fs c p req = SWsOnly \/
    server_response ipp fs c p req = SForbidden.
Proof. exact server_forwarded_listed. Qed.

Theorem C19_server_unlisted_served :
  forall ipp fs (c : config) p req,
    mem (p_ip p) (cf_bl_list c) = false ->
    (forall a, In a (forwarded ipp (r_headers req)) -> mem a (cf_bl_list c) = false) ->
    server_response ipp fs c p req =
    match get_handler (map subapp_of (cf_hosts c)) (subapp_of (cf_default_host c))
                      (option_map scalars (hget (HKnown H_Host) (r_headers req))) (scalars (r_uri req)) with
    | None => SNotFound
    | Some ch => match get_route c (fst (handler_ids ch)) (snd (handler_ids ch)) with
                 | Some rt => dispatch fs c rt Served req
                 | None => SPanic
                 end
    end.
Proof. exact server_unlisted_served. Qed.

Print Assumptions C19_server_listed_never_content.
Print Assumptions C19_server_listed_block_dropped.
Print Assumptions C19_server_listed_forbidden_mode.
Print Assumptions C19_server_forwarded_listed.
Print Assumptions C19_server_unlisted_served.
