(* C07 (response direction, flat parser) — property theorems only.  Every statement is written out in full over the
   model (Http.v) and the declarative vocabulary of HttpRespSpec.v; each is closed by `exact <lemma>`.
   Read-segmentation independence (parse_response_chunked vs parse_response_flat) is a separate refinement theorem and
   not in this file; the client clause (redirect chains, request builders) is in C07_client.v.
   Intrinsic bounds that appear as hypotheses: lengths <= usize_max (2^64-1), the limit of Rust's usize parse. *)
From Hv Require Import Prelude Bytes StreamBuf TablesHttp Http BytesNumProofs HttpRespSpec HttpRespProofs.
From Coq Require Import Permutation Lia.
From Coq Require String.
Import Coq.Strings.String.StringSyntax.   (* string literals only (for the examples); no String names are imported *)
Open Scope string_scope.
Open Scope list_scope.
Open Scope N_scope.

(* ---------------------------------------------------------------------------------------------------------------
   1. Status tables (generated from status.rs on every run; a changed arm breaks this theorem).
   u16 <-> variant is a bijection on the 39 variants; codes are three-digit; every phrase is the RFC 2616 section-10
   title of its code (the spelling the Rust source follows); against RFC 7231 section 6.1 / the IANA registry the
   phrases are the registered ones (RFC 7231 section 6 / IANA) for EVERY variant; they also agree with RFC 2616 except for
   413, 414, 416, which RFC 7231 renamed ("Payload Too Large", "URI Too Long", "Range Not Satisfiable": fix F38); codes of
   the RFC tables without a variant: 402 (both RFCs), 426 (RFC 7231). *)
Theorem C07_status_tables :
  (forall s, s < status_count -> status_of_code (status_code s) = Some s) /\
  (forall s1 s2, s1 < status_count -> s2 < status_count -> status_code s1 = status_code s2 -> s1 = s2) /\
  (forall c s, status_of_code c = Some s -> s < status_count /\ status_code s = c) /\
  (forall s, s < status_count -> 100 <= status_code s /\ status_code s <= 599) /\
  (forall s, s < status_count -> In (status_code s, status_phrase s) Txt.rfc7231_phrases) /\
  (forall s, s < status_count ->
     In (status_code s, status_phrase s) Txt.rfc2616_phrases \/ In (status_code s) [413; 414; 416]) /\
  (forall c ph, In (c, ph) Txt.rfc2616_phrases -> (exists s, s < status_count /\ status_code s = c) \/ c = 402) /\
  (forall c ph, In (c, ph) Txt.rfc7231_phrases -> (exists s, s < status_count /\ status_code s = c) \/ c = 402 \/ c = 426).
Proof. exact status_tables_lemma. Qed.

(* before fix F38 the comparison with RFC 7231 / IANA failed for 413 / 414 / 416 (RFC 2616 spellings): the old phrase of
   413 is not in the registry table *)
Theorem C07_status_phrases_old_refuted :
  ~ In (413, [82; 101; 113; 117; 101; 115; 116; 32; 69; 110; 116; 105; 116; 121; 32; 84; 111; 111; 32; 76; 97; 114; 103; 101] (* "Request Entity Too Large" *)) Txt.rfc7231_phrases.
Proof. exact status_phrases_old_rfc7231_refuted. Qed.

(* ---------------------------------------------------------------------------------------------------------------
   2. The serialisation of a well-formed response is a syntactically valid HTTP/1.x message (RFC 7230 section 3):
   status line = version SP 3DIGIT SP registered-phrase CRLF, then one `name ":" OWS value OWS CRLF` line per header - the
   lines are a permutation of the response's headers that keeps the order of same-named headers (each Set-Cookie stays
   in place relative to the others) -, blank line, body, and then NOTHING or one CRLF (known finding F32: the Rust
   serialiser appends CRLF after a non-empty body, outside Content-Length; the grammar's `tail`). *)
Theorem C07_serialize_valid :
  forall r : response, wf_response r ->
  exists hs' : headers,
    Permutation hs' (s_headers r) /\
    (forall n, filter (fun h => hname_eqb n (fst h)) hs' = filter (fun h => hname_eqb n (fst h)) (s_headers r)) /\
    Renders {| m_version := s_version r; m_code := status_code (s_status r); m_phrase := status_phrase (s_status r);
               m_fields := map (fun hd => (hname_str (fst hd), snd hd)) hs'; m_body := s_body r |}
            (serialize_response r).
Proof. exact serialize_valid_lemma. Qed.

Theorem C07_serialize_is_message :
  forall r : response, wf_response r -> HttpMessage (serialize_response r).
Proof. exact serialize_is_message. Qed.

(* Headers::iter is a stable sort: a permutation that keeps same-name order, hence get / get_all are unchanged,
   and the output is ordered by (category, name) *)
Theorem C07_hsort_stable :
  forall l : headers,
  Permutation (hsort l) l /\
  (forall n, filter (fun h => hname_eqb n (fst h)) (hsort l) = filter (fun h => hname_eqb n (fst h)) l) /\
  (forall n, hget_all n (hsort l) = hget_all n l) /\ (forall n, hget n (hsort l) = hget n l) /\
  hsorted (hsort l).
Proof. exact hsort_stable_lemma. Qed.

(* ---------------------------------------------------------------------------------------------------------------
   3. Round trip.  parse(serialise r) gives r back: same version, status and body, the same header values name by name
   in the same order (the header list itself is the stably sorted one), and what is left unread is [] or the CRLF of F32.
   framing_ok = not `Transfer-Encoding: chunked`, and the first Content-Length is the decimal body length (what the
   server adds) or there is neither Content-Length nor body. *)
Theorem C07_roundtrip :
  forall r : response, wf_response r -> framing_ok r ->
  exists r' leftover,
    parse_response_flat (serialize_response r) = Ok (r', leftover) /\
    s_version r' = s_version r /\ s_status r' = s_status r /\ s_body r' = s_body r /\
    same_headers (s_headers r') (s_headers r) /\ Permutation (s_headers r') (s_headers r) /\
    (leftover = [] \/ leftover = CRLF) /\ (s_body r = [] -> leftover = []).
Proof. exact roundtrip_same. Qed.

(* the same under the weaker conditions the parser actually needs (any version text without SP/LF, values without LF) *)
Theorem C07_roundtrip_exact :
  forall r : response, rt_response r -> framing_ok r ->
  parse_response_flat (serialize_response r) =
  Ok ({| s_version := s_version r; s_status := s_status r; s_headers := hsort (s_headers r); s_body := s_body r |},
      match s_body r with [] => [] | _ => CRLF end).
Proof. exact roundtrip_lemma. Qed.

(* every name HeaderType::from produces is a fixed point of to_string ; from (known names by table sweep, custom
   names because lower-casing is idempotent) *)
Theorem C07_header_name_roundtrip :
  forall s : bytes, hname_of (hname_str (hname_of s)) = hname_of s.
Proof. exact hname_of_canonical. Qed.

Theorem C07_number_roundtrip :
  (forall c, c <= 65535 -> parse_u16 (dec_render c) = Some c) /\
  (forall n, n <= usize_max -> parse_usize (dec_render n) = Some n) /\
  (forall up n, n <= usize_max -> parse_usize_hex (trim_end (hex_render up n ++ CRLF)) = Some n) /\
  (forall s n, hex_str s n -> n <= usize_max -> parse_usize_hex (trim_end (s ++ CRLF)) = Some n).
Proof. exact number_roundtrip_lemma. Qed.

(* boundary of the round trip (finding, confirmed on the real code): a value starting with a non-ASCII Unicode
   whitespace (U+00A0) is legal field-content without leading SP/HTAB, yet the parser's trim_start removes it *)
Theorem C07_roundtrip_unicode_ws_refuted :
  exists r r' leftover,
    (s_version r = Txt.s_http11 /\ s_status r < status_count /\
     Forall (fun h => canonical_name (fst h) /\ token (hname_str (fst h)) /\ field_text (snd h) /\
                      utf8_valid (snd h) = true /\
                      (forall b, hd_error (snd h) = Some b -> b <> 32 /\ b <> 9) /\
                      ws_suffix_len (rev (snd h)) = 0%nat) (s_headers r)) /\
    framing_ok r /\
    parse_response_flat (serialize_response r) = Ok (r', leftover) /\
    ~ same_headers (s_headers r') (s_headers r).
Proof. exact roundtrip_unicode_ws_refuted. Qed.

(* ---------------------------------------------------------------------------------------------------------------
   4. The parser returns exactly what a conforming server sent.  head_ok h: any modelled status, any reason-phrase
   text, header names any token in any letter case, optional SP/HTAB after the colon, values valid UTF-8 without LF and
   without leading whitespace.  `rest` = whatever follows on the connection (returned unread). *)
Theorem C07_parse_cl :
  forall (h : srv_head) (body rest : bytes), head_ok h -> cl_framed h body ->
  parse_response_flat (render_head h ++ body ++ rest) =
  Ok ({| s_version := sh_version h; s_status := sh_status h; s_headers := head_headers h; s_body := body |}, rest).
Proof. exact parse_cl_lemma. Qed.

Theorem C07_parse_nobody :
  forall (h : srv_head) (rest : bytes), head_ok h -> no_body h ->
  parse_response_flat (render_head h ++ rest) =
  Ok ({| s_version := sh_version h; s_status := sh_status h; s_headers := head_headers h; s_body := [] |}, rest).
Proof. exact parse_nobody_lemma. Qed.

(* chunked: any number of chunks (sizes: any list of positive lengths summing to |body|), hex sizes in lower or upper
   case, arbitrary body bytes (CR / LF inside chunk data included); reported as a plain body with Transfer-Encoding
   removed and Content-Length = |body| appended *)
Theorem C07_parse_chunked :
  forall (h : srv_head) (up : bool) (sizes : list nat) (body rest : bytes),
  head_ok h -> is_chunked (head_headers h) -> sizes_ok sizes body ->
  parse_response_flat (render_head h ++ chunked_encode up sizes body ++ rest) =
  Ok ({| s_version := sh_version h; s_status := sh_status h;
         s_headers := dechunked_headers (head_headers h) body; s_body := body |}, rest).
Proof. exact parse_chunked_lemma. Qed.

(* the same with each chunk carrying its own size text: any non-empty hex digit string of that value - mixed case,
   leading zeros - and any hex text of value 0 for the last chunk *)
Theorem C07_parse_chunked_general :
  forall (h : srv_head) (cs : list (bytes * bytes)) (last rest : bytes),
  head_ok h -> is_chunked (head_headers h) -> Forall chunk_ok cs -> hex_str last 0 ->
  parse_response_flat (render_head h ++ chunks_enc cs last ++ rest) =
  Ok ({| s_version := sh_version h; s_status := sh_status h;
         s_headers := dechunked_headers (head_headers h) (concat (map snd cs));
         s_body := concat (map snd cs) |}, rest).
Proof. exact parse_chunked_general. Qed.

(* ---------------------------------------------------------------------------------------------------------------
   6. Set-Cookie: name=value followed by the attributes in the order Expires, Max-Age, Domain, Path, SameSite, Secure,
   HttpOnly, each present iff set (cookie_attrs is built from one optional piece per attribute, in that order), each
   introduced by "; "; the header name renders as "Set-Cookie". *)
Theorem C07_set_cookie_spec :
  forall c : set_cookie,
  set_cookie_header c = (HKnown H_SetCookie, cookie_text c) /\ hname_str (HKnown H_SetCookie) = Txt.s_set_cookie.
Proof. exact set_cookie_spec_lemma. Qed.

(* every header of the response is one complete line `CRLF name ": " value CRLF` of the output (no hypothesis), and
   for a cookie added with with_cookie that line is "Set-Cookie: " followed by the text above *)
Theorem C07_header_line :
  forall (r : response) (h : header), In h (s_headers r) ->
  exists pre post, serialize_response r = pre ++ CRLF ++ render_header h ++ CRLF ++ post.
Proof. exact serialize_header_line. Qed.

Theorem C07_cookie_line :
  forall (r : response) (c : set_cookie), In (set_cookie_header c) (s_headers r) ->
  exists pre post,
    serialize_response r = pre ++ CRLF ++ Txt.s_set_cookie ++ [COLON; SP] ++ cookie_text c ++ CRLF ++ post.
Proof. exact serialize_cookie_line. Qed.

(* ---------------------------------------------------------------------------------------------------------------
   Non-vacuity: the hypotheses are satisfiable on non-trivial values, and the functions compute what one expects. *)
Definition ex_cookie1 : set_cookie :=
  {| sc_name := bos "id"; sc_value := bos "1"; sc_expires := None; sc_max_age := Some 3600; sc_domain := None;
     sc_path := Some (bos "/"); sc_secure := true; sc_http_only := false; sc_same_site := Some 1 |}.
Definition ex_cookie2 : set_cookie :=
  {| sc_name := bos "t"; sc_value := bos "x y"; sc_expires := None; sc_max_age := None; sc_domain := None;
     sc_path := None; sc_secure := false; sc_http_only := true; sc_same_site := None |}.
(* built as the API builds it: Content-Type, two Set-Cookie, a custom header, then the server's Content-Length *)
Definition ex_response : response :=
  {| s_version := Txt.s_http11; s_status := 19 (* 404 *);
     s_headers := [ (HKnown H_ContentType, bos "text/html"); set_cookie_header ex_cookie1; set_cookie_header ex_cookie2;
                    (hname_of (bos "X-Trace"), bos "a b"); (HKnown H_ContentLength, bos "5") ];
     s_body := bos "hello" |}.

Example C07_example_cookie :
  snd (set_cookie_header ex_cookie1) = bos "id=1; Max-Age=3600; Path=/; SameSite=Lax; Secure" /\
  snd (set_cookie_header ex_cookie2) = bos "t=x y; HttpOnly".
Proof. vm_compute. split; reflexivity. Qed.

Example C07_example_wf : wf_response ex_response /\ framing_ok ex_response.
Proof.
  split; [apply wf_responseb_sound; vm_compute; reflexivity|].
  split; [vm_compute; discriminate|]. left. vm_compute. reflexivity.
Qed.

(* what the round trip computes on it: the two Set-Cookie lines keep their order, the CRLF of F32 is left over *)
Example C07_example_roundtrip :
  exists r', parse_response_flat (serialize_response ex_response) = Ok (r', CRLF) /\
             s_body r' = bos "hello" /\ s_status r' = 19 /\
             hget_all (HKnown H_SetCookie) (s_headers r') =
               [bos "id=1; Max-Age=3600; Path=/; SameSite=Lax; Secure"; bos "t=x y; HttpOnly"].
Proof. eexists. split; [vm_compute; reflexivity|]. vm_compute. repeat split. Qed.

(* a server response: mixed-case names, no space / two spaces after the colon, chunked in 3 chunks with upper-case
   sizes, chunk data containing CR LF *)
Definition ex_head : srv_head :=
  {| sh_version := Txt.s_http11; sh_status := 2 (* 200 *); sh_phrase := bos "Fine";
     sh_lines := [ {| sl_name := bos "transfer-ENCODING"; sl_ows := []; sl_value := bos "chunked" |};
                   {| sl_name := bos "X-A"; sl_ows := [32; 32]; sl_value := bos "v  " |} ] |}.
Definition ex_body : bytes := [13; 10; 0; 255] ++ bos "abcdefghijklmnopqrstuvwxyz" ++ [10].

Example C07_example_head_ok : head_ok ex_head /\ is_chunked (head_headers ex_head) /\ sizes_ok [4; 26; 1]%nat ex_body.
Proof.
  split; [apply head_okb_sound; vm_compute; reflexivity|]. split; [vm_compute; reflexivity|]. split; [|reflexivity].
  repeat constructor; unfold usize_max; lia.
Qed.

Example C07_example_chunked_bytes :
  chunked_encode true [4; 26; 1]%nat ex_body =
  [52; 13; 10] ++ [13; 10; 0; 255] ++ [13; 10] ++ bos "1A" ++ [13; 10] ++ bos "abcdefghijklmnopqrstuvwxyz" ++ [13; 10] ++
  [49; 13; 10; 10; 13; 10] ++ [48; 13; 10; 13; 10].
Proof. vm_compute. reflexivity. Qed.

Example C07_example_chunked_parse :
  parse_response_flat (render_head ex_head ++ chunked_encode true [4; 26; 1]%nat ex_body ++ bos "NEXT") =
  Ok ({| s_version := Txt.s_http11; s_status := 2;
         s_headers := [ (HCustom (bos "x-a"), bos "v  "); (HKnown H_ContentLength, bos "31") ];
         s_body := ex_body |}, bos "NEXT").
Proof. vm_compute. reflexivity. Qed.

Print Assumptions C07_status_tables.
Print Assumptions C07_status_phrases_old_refuted.
Print Assumptions C07_serialize_valid.
Print Assumptions C07_serialize_is_message.
Print Assumptions C07_hsort_stable.
Print Assumptions C07_roundtrip.
Print Assumptions C07_roundtrip_exact.
Print Assumptions C07_header_name_roundtrip.
Print Assumptions C07_number_roundtrip.
Print Assumptions C07_roundtrip_unicode_ws_refuted.
Print Assumptions C07_parse_cl.
Print Assumptions C07_parse_nobody.
Print Assumptions C07_parse_chunked.
Print Assumptions C07_parse_chunked_general.
Print Assumptions C07_set_cookie_spec.
Print Assumptions C07_header_line.
Print Assumptions C07_cookie_line.
Print Assumptions C07_example_cookie.
Print Assumptions C07_example_wf.
Print Assumptions C07_example_roundtrip.
Print Assumptions C07_example_head_ok.
Print Assumptions C07_example_chunked_bytes.
Print Assumptions C07_example_chunked_parse.
