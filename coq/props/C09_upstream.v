(* C09 — what the upstream receives. Property theorems only. *)
From Hv Require Import Prelude Bytes StreamBuf TablesHttp Http StaticFs Conn Proxy BytesProofs HttpReqSpec HttpReqProofs ProxyReqProofs.
Open Scope N_scope.

(* For every request the server parsed (parsed_ok: exactly the invariants of a parse result), every route pattern whose
   literal prefix can be stripped and every well-formed origin address text: the bytes written to the upstream parse —
   under the upstream's own view of its peer — to the same method, query, version and body, the rewritten path, and, name
   by name, the same header values in the same order plus one more X-Forwarded-For carrying the origin address. *)
Theorem C09_upstream_sees :
  forall (ipp : bytes -> option bytes) (p p' : peer) (req : request) (matches uri' : bytes),
    parsed_ok ipp p req -> rewrite_uri matches (r_uri req) = Some uri' -> ip_text_ok (a_origin (r_addr req)) ->
    exists r', parse_request_flat ipp p' (upstream_bytes req uri') = Ok (r', []) /\
      r_method r' = r_method req /\ r_uri r' = uri' /\ r_query r' = r_query req /\ r_version r' = r_version req /\
      r_content r' = r_content req /\
      (forall n, hget_all n (r_headers r') = hget_all n (r_headers req ++ [(XFF, a_origin (r_addr req))])).
Proof. exact upstream_sees_fields. Qed.

(* every request the parser returns satisfies parsed_ok, so the hypothesis is met by every request the proxy handles *)
Theorem C09_parsed_requests_qualify :
  forall ipp p b r rest, parse_request_flat ipp p b = Ok (r, rest) -> parsed_ok ipp p r.
Proof. exact parse_request_flat_ok. Qed.

(* the prefix strip keeps a well-formed target well-formed (it removes whole characters and restores the leading '/') *)
Theorem C09_rewritten_target_well_formed :
  forall matches uri uri' m q v, start_ok m uri q v -> rewrite_uri matches uri = Some uri' -> start_ok m uri' q v.
Proof. exact rewrite_uri_ok. Qed.

Example C09_example_rewrite :
  rewrite_uri [47;97;112;105;47;42] [47;97;112;105;47;118;49] = Some [47;118;49] /\
  rewrite_uri [47;97;112;105;42] [47;97;112;105;97;114;121] = Some [47;97;114;121] /\
  rewrite_uri [47;195;169;47;42] [47;195;169;47;122] = Some [47;122].
Proof. vm_compute. repeat split. Qed.

Print Assumptions C09_upstream_sees.
Print Assumptions C09_parsed_requests_qualify.
Print Assumptions C09_rewritten_target_well_formed.
Print Assumptions C09_example_rewrite.
