(* C06, converse direction — "every file inside the directory whose path contains no `..` or `:` is returned intact, with
   the Content-Type of its extension, when requested by its path", "a directory path without trailing slash redirects
   (301) to the slash form, and with it serves index.html, else index.htm, else 404".  Property theorems only.

   Setting of every theorem (no bound on the tree, the names or the contents):
     fs        ANY well-formed file tree (StaticFsSpec.wf_fs: in every directory the entry names are pairwise different,
               non-empty, not "." or "..", without '/' and NUL — i.e. a tree a POSIX file system can hold.  Uniqueness is
               what makes `assoc_name n es`, the first entry called n, THE entry called n: C06_assoc_name_unique);
     directory ANY configured directory string that resolves (POSIX walk) to the location `root`;
     names     the path of an existing node below root, every component `clean` (StaticFsSpec.clean: valid UTF-8, no
               substring "..", no ':' — the property's exclusions plus the documented residue "non-UTF-8 file names");
     the request is  prefix ++ path  where `prefix` is the literal part of the route pattern that the handler strips.
   `join SLASH names` is "a/b/c"; `dir_path names` is "a/b/c/" ("" for no name); `spells segs names` says that segment i
   percent-decodes to name i (any mixture of raw, %XX upper/lower case); `repeat SLASH k` is k extra leading slashes. *)
From Hv Require Import Prelude Bytes BytesProofs TablesHttp Http Percent PercentProofs StaticFs StaticFsProofs StaticFsSpec
  StaticFsCompleteProofs.
Open Scope N_scope.

(* ---------------------------------------------------------------------------------------------- *)
(* 1. serve_dir (library, path-aware route `prefix*` or the literal route `prefix`)                 *)
(* ---------------------------------------------------------------------------------------------- *)
Theorem C06_serve_dir_complete :
  forall (fs : node) (directory : bytes) (root : list bytes),
    wf_fs fs ->
    walk fs [] (split_on SLASH (trim_end_slashes directory)) = Some root ->
  forall (route prefix : bytes) (names : list bytes) (content : bytes),
    (route = prefix ++ [42] \/ (route = prefix /\ last prefix 0 <> 42)) ->
    names <> [] -> Forall clean names ->
    node_at fs (root ++ names) = Some (File content) ->
    serve_dir fs directory route (prefix ++ join SLASH (map percent_encode names)) =
    R200 content (match extension (last names []) with Some e => Some (mime_of_ext e) | None => None end).
Proof. exact serve_dir_complete_encoded. Qed.

(* names sent raw: allowed when decoding does not change them, i.e. they contain no '%' (C06_raw_iff_no_percent) *)
Theorem C06_serve_dir_complete_raw :
  forall (fs : node) (directory : bytes) (root : list bytes),
    wf_fs fs ->
    walk fs [] (split_on SLASH (trim_end_slashes directory)) = Some root ->
  forall (route prefix : bytes) (names : list bytes) (content : bytes),
    (route = prefix ++ [42] \/ (route = prefix /\ last prefix 0 <> 42)) ->
    names <> [] -> Forall clean names ->
    Forall (fun n => pct_decode n = Some n) names ->
    node_at fs (root ++ names) = Some (File content) ->
    serve_dir fs directory route (prefix ++ join SLASH names) =
    R200 content (match extension (last names []) with Some e => Some (mime_of_ext e) | None => None end).
Proof. exact serve_dir_complete_raw. Qed.

(* any spelling that decodes (once) to the names, after any number of extra slashes *)
Theorem C06_serve_dir_complete_any_spelling :
  forall (fs : node) (directory : bytes) (root : list bytes),
    wf_fs fs ->
    walk fs [] (split_on SLASH (trim_end_slashes directory)) = Some root ->
  forall (route prefix : bytes) (k : nat) (names segs : list bytes) (content : bytes),
    (route = prefix ++ [42] \/ (route = prefix /\ last prefix 0 <> 42)) ->
    names <> [] -> Forall clean names ->
    Forall2 (fun s n => pct_decode s = Some n) segs names ->
    node_at fs (root ++ names) = Some (File content) ->
    serve_dir fs directory route (prefix ++ repeat SLASH k ++ join SLASH segs) =
    R200 content (match extension (last names []) with Some e => Some (mime_of_ext e) | None => None end).
Proof. exact serve_dir_complete. Qed.

(* ---------------------------------------------------------------------------------------------- *)
(* 2. the server's `directory` routes (pattern `prefix*...` or `prefix`; Content-Type always present) *)
(* ---------------------------------------------------------------------------------------------- *)
Theorem C06_directory_route_complete :
  forall (fs : node) (directory : bytes) (root : list bytes),
    wf_fs fs ->
    walk fs [] (split_on SLASH (trim_end_slashes directory)) = Some root ->
  forall (matches prefix : bytes) (names : list bytes) (content : bytes),
    ((matches = prefix \/ exists tail, matches = prefix ++ 42 :: tail) /\
     existsb (fun b => b =? 42) prefix = false /\ utf8_valid prefix = true) ->
    names <> [] -> Forall clean names ->
    node_at fs (root ++ names) = Some (File content) ->
    directory_handler fs directory matches (prefix ++ join SLASH (map percent_encode names)) =
    R200 content (match extension (last names []) with
                  | Some e => Some (mime_of_ext e)
                  | None => Some (mime_of_ext [])
                  end).
Proof. exact directory_handler_complete_encoded. Qed.

Theorem C06_directory_route_complete_raw :
  forall (fs : node) (directory : bytes) (root : list bytes),
    wf_fs fs ->
    walk fs [] (split_on SLASH (trim_end_slashes directory)) = Some root ->
  forall (matches prefix : bytes) (names : list bytes) (content : bytes),
    ((matches = prefix \/ exists tail, matches = prefix ++ 42 :: tail) /\
     existsb (fun b => b =? 42) prefix = false /\ utf8_valid prefix = true) ->
    names <> [] -> Forall clean names ->
    Forall (fun n => pct_decode n = Some n) names ->
    node_at fs (root ++ names) = Some (File content) ->
    directory_handler fs directory matches (prefix ++ join SLASH names) =
    R200 content (match extension (last names []) with
                  | Some e => Some (mime_of_ext e)
                  | None => Some (mime_of_ext [])
                  end).
Proof. exact directory_handler_complete_raw. Qed.

Theorem C06_directory_route_complete_any_spelling :
  forall (fs : node) (directory : bytes) (root : list bytes),
    wf_fs fs ->
    walk fs [] (split_on SLASH (trim_end_slashes directory)) = Some root ->
  forall (matches prefix : bytes) (k : nat) (names segs : list bytes) (content : bytes),
    ((matches = prefix \/ exists tail, matches = prefix ++ 42 :: tail) /\
     existsb (fun b => b =? 42) prefix = false /\ utf8_valid prefix = true) ->
    names <> [] -> Forall clean names ->
    Forall2 (fun s n => pct_decode s = Some n) segs names ->
    node_at fs (root ++ names) = Some (File content) ->
    directory_handler fs directory matches (prefix ++ repeat SLASH k ++ join SLASH segs) =
    R200 content (match extension (last names []) with
                  | Some e => Some (mime_of_ext e)
                  | None => Some (mime_of_ext [])
                  end).
Proof. exact directory_handler_complete. Qed.

(* the prefix strip of directory routes (String::remove(0) once per character of the pattern before its first '*')
   removes exactly the prefix: no panic, no off-by-one on multi-byte characters *)
Theorem C06_directory_route_strip :
  forall (p suffix rest : bytes),
    (suffix = [] \/ exists tail, suffix = 42 :: tail) ->
    nob 42 p = true ->
    match p with b :: _ => cont b = false | [] => True end ->
    match rest with b :: _ => cont b = false | [] => True end ->
    drop_chars (literal_prefix_len (p ++ suffix)) (p ++ rest) = Some rest.
Proof. exact drop_chars_prefix. Qed.

(* ---------------------------------------------------------------------------------------------- *)
(* 3. serve_as_file_path: the literal request path, not decoded                                     *)
(* ---------------------------------------------------------------------------------------------- *)
Theorem C06_serve_as_file_path_complete :
  forall (fs : node) (directory : bytes) (root names : list bytes) (content : bytes),
    wf_fs fs ->
    walk fs [] (split_on SLASH (match rev directory with 47 :: r => rev r | _ => directory end)) = Some root ->
    names <> [] ->
    Forall (fun n => contains_sub [DOT; DOT] n = false /\ contains_sub [58] n = false) names ->
    node_at fs (root ++ names) = Some (File content) ->
    serve_as_file_path fs directory (SLASH :: join SLASH names) =
    R200 content (match extension (last names []) with Some e => Some (mime_of_ext e) | None => None end).
Proof. exact serve_as_file_path_complete. Qed.

(* ---------------------------------------------------------------------------------------------- *)
(* 4. a directory requested without trailing slash: 301 to the slash form                           *)
(* ---------------------------------------------------------------------------------------------- *)
Theorem C06_serve_dir_redirect :
  forall (fs : node) (directory : bytes) (root : list bytes),
    wf_fs fs ->
    walk fs [] (split_on SLASH (trim_end_slashes directory)) = Some root ->
  forall (route prefix : bytes) (names : list bytes) (es : list (bytes * node)),
    (route = prefix ++ [42] \/ (route = prefix /\ last prefix 0 <> 42)) ->
    names <> [] -> Forall clean names ->
    node_at fs (root ++ names) = Some (Dir es) ->
    serve_dir fs directory route (prefix ++ join SLASH (map percent_encode names)) =
    R301 ((prefix ++ join SLASH (map percent_encode names)) ++ [SLASH]).
Proof. exact serve_dir_redirect_encoded. Qed.

Theorem C06_directory_route_redirect :
  forall (fs : node) (directory : bytes) (root : list bytes),
    wf_fs fs ->
    walk fs [] (split_on SLASH (trim_end_slashes directory)) = Some root ->
  forall (matches prefix : bytes) (names : list bytes) (es : list (bytes * node)),
    ((matches = prefix \/ exists tail, matches = prefix ++ 42 :: tail) /\
     existsb (fun b => b =? 42) prefix = false /\ utf8_valid prefix = true) ->
    names <> [] -> Forall clean names ->
    node_at fs (root ++ names) = Some (Dir es) ->
    directory_handler fs directory matches (prefix ++ join SLASH (map percent_encode names)) =
    R301 ((prefix ++ join SLASH (map percent_encode names)) ++ [SLASH]).
Proof. exact directory_handler_redirect_encoded. Qed.

Theorem C06_serve_dir_redirect_any_spelling :
  forall (fs : node) (directory : bytes) (root : list bytes),
    wf_fs fs ->
    walk fs [] (split_on SLASH (trim_end_slashes directory)) = Some root ->
  forall (route prefix : bytes) (k : nat) (names segs : list bytes) (es : list (bytes * node)),
    (route = prefix ++ [42] \/ (route = prefix /\ last prefix 0 <> 42)) ->
    names <> [] -> Forall clean names ->
    Forall2 (fun s n => pct_decode s = Some n) segs names ->
    node_at fs (root ++ names) = Some (Dir es) ->
    serve_dir fs directory route (prefix ++ repeat SLASH k ++ join SLASH segs) =
    R301 ((prefix ++ repeat SLASH k ++ join SLASH segs) ++ [SLASH]).
Proof. exact serve_dir_redirect. Qed.

Theorem C06_directory_route_redirect_any_spelling :
  forall (fs : node) (directory : bytes) (root : list bytes),
    wf_fs fs ->
    walk fs [] (split_on SLASH (trim_end_slashes directory)) = Some root ->
  forall (matches prefix : bytes) (k : nat) (names segs : list bytes) (es : list (bytes * node)),
    ((matches = prefix \/ exists tail, matches = prefix ++ 42 :: tail) /\
     existsb (fun b => b =? 42) prefix = false /\ utf8_valid prefix = true) ->
    names <> [] -> Forall clean names ->
    Forall2 (fun s n => pct_decode s = Some n) segs names ->
    node_at fs (root ++ names) = Some (Dir es) ->
    directory_handler fs directory matches (prefix ++ repeat SLASH k ++ join SLASH segs) =
    R301 ((prefix ++ repeat SLASH k ++ join SLASH segs) ++ [SLASH]).
Proof. exact directory_handler_redirect. Qed.

(* ---------------------------------------------------------------------------------------------- *)
(* 5. a directory requested in its slash form: index.html, else index.htm, else 404                 *)
(*    index_response es = the file entry index.html of es (200, text/html), else the file entry      *)
(*    index.htm, else 404; an entry of that name that is a directory does not count                  *)
(* ---------------------------------------------------------------------------------------------- *)
Theorem C06_index_response_spec :
  forall es : list (bytes * node),
    index_response es =
    match assoc_name [105;110;100;101;120;46;104;116;109;108] es with
    | Some (File c) => R200 c (Some [116;101;120;116;47;104;116;109;108])
    | _ => match assoc_name [105;110;100;101;120;46;104;116;109] es with
           | Some (File c) => R200 c (Some [116;101;120;116;47;104;116;109;108])
           | _ => R404
           end
    end.
Proof. exact index_response_spec. Qed.

Theorem C06_serve_dir_index :
  forall (fs : node) (directory : bytes) (root : list bytes),
    wf_fs fs ->
    walk fs [] (split_on SLASH (trim_end_slashes directory)) = Some root ->
  forall (route prefix : bytes) (names : list bytes) (es : list (bytes * node)),
    (route = prefix ++ [42] \/ (route = prefix /\ last prefix 0 <> 42)) ->
    names <> [] -> Forall clean names ->
    node_at fs (root ++ names) = Some (Dir es) ->
    serve_dir fs directory route (prefix ++ join SLASH (map percent_encode names) ++ [SLASH]) = index_response es.
Proof. exact serve_dir_index_encoded. Qed.

Theorem C06_directory_route_index :
  forall (fs : node) (directory : bytes) (root : list bytes),
    wf_fs fs ->
    walk fs [] (split_on SLASH (trim_end_slashes directory)) = Some root ->
  forall (matches prefix : bytes) (names : list bytes) (es : list (bytes * node)),
    ((matches = prefix \/ exists tail, matches = prefix ++ 42 :: tail) /\
     existsb (fun b => b =? 42) prefix = false /\ utf8_valid prefix = true) ->
    names <> [] -> Forall clean names ->
    node_at fs (root ++ names) = Some (Dir es) ->
    directory_handler fs directory matches (prefix ++ join SLASH (map percent_encode names) ++ [SLASH]) =
    index_response es.
Proof. exact directory_handler_index_encoded. Qed.

(* the served directory itself *)
Theorem C06_serve_dir_index_root :
  forall (fs : node) (directory : bytes) (root : list bytes),
    wf_fs fs ->
    walk fs [] (split_on SLASH (trim_end_slashes directory)) = Some root ->
  forall (route prefix : bytes) (es : list (bytes * node)),
    (route = prefix ++ [42] \/ (route = prefix /\ last prefix 0 <> 42)) ->
    node_at fs root = Some (Dir es) ->
    serve_dir fs directory route prefix = index_response es.
Proof. exact serve_dir_index_root. Qed.

Theorem C06_directory_route_index_root :
  forall (fs : node) (directory : bytes) (root : list bytes),
    wf_fs fs ->
    walk fs [] (split_on SLASH (trim_end_slashes directory)) = Some root ->
  forall (matches prefix : bytes) (es : list (bytes * node)),
    ((matches = prefix \/ exists tail, matches = prefix ++ 42 :: tail) /\
     existsb (fun b => b =? 42) prefix = false /\ utf8_valid prefix = true) ->
    node_at fs root = Some (Dir es) ->
    directory_handler fs directory matches prefix = index_response es.
Proof. exact directory_handler_index_root. Qed.

(* any spelling, extra leading slashes, names = [] included *)
Theorem C06_serve_dir_index_any_spelling :
  forall (fs : node) (directory : bytes) (root : list bytes),
    wf_fs fs ->
    walk fs [] (split_on SLASH (trim_end_slashes directory)) = Some root ->
  forall (route prefix : bytes) (k : nat) (names segs : list bytes) (es : list (bytes * node)),
    (route = prefix ++ [42] \/ (route = prefix /\ last prefix 0 <> 42)) ->
    Forall clean names ->
    Forall2 (fun s n => pct_decode s = Some n) segs names ->
    node_at fs (root ++ names) = Some (Dir es) ->
    serve_dir fs directory route (prefix ++ repeat SLASH k ++ dir_path segs) = index_response es.
Proof. exact serve_dir_index. Qed.

Theorem C06_directory_route_index_any_spelling :
  forall (fs : node) (directory : bytes) (root : list bytes),
    wf_fs fs ->
    walk fs [] (split_on SLASH (trim_end_slashes directory)) = Some root ->
  forall (matches prefix : bytes) (k : nat) (names segs : list bytes) (es : list (bytes * node)),
    ((matches = prefix \/ exists tail, matches = prefix ++ 42 :: tail) /\
     existsb (fun b => b =? 42) prefix = false /\ utf8_valid prefix = true) ->
    Forall clean names ->
    Forall2 (fun s n => pct_decode s = Some n) segs names ->
    node_at fs (root ++ names) = Some (Dir es) ->
    directory_handler fs directory matches (prefix ++ repeat SLASH k ++ dir_path segs) = index_response es.
Proof. exact directory_handler_index. Qed.

(* ---------------------------------------------------------------------------------------------- *)
(* the shared path finder, and the negative case                                                    *)
(* ---------------------------------------------------------------------------------------------- *)
Theorem C06_try_find_path_complete :
  forall (fs : node) (directory : bytes) (root : list bytes),
    wf_fs fs ->
    walk fs [] (split_on SLASH (trim_end_slashes directory)) = Some root ->
  forall (k : nat) (names segs : list bytes) (nd : node),
    names <> [] -> Forall clean names ->
    Forall2 (fun s n => pct_decode s = Some n) segs names ->
    node_at fs (root ++ names) = Some nd ->
    try_find_path fs directory (repeat SLASH k ++ join SLASH segs) =
    match nd with File _ => Some (LFile (root ++ names)) | Dir _ => Some LDir end.
Proof. exact try_find_path_complete. Qed.

(* a clean path whose last component does not exist in its (existing) directory: 404, nothing served in its place *)
Theorem C06_serve_dir_missing_404 :
  forall (fs : node) (directory : bytes) (root : list bytes),
    wf_fs fs ->
    walk fs [] (split_on SLASH (trim_end_slashes directory)) = Some root ->
  forall (route prefix : bytes) (k : nat) (front : list bytes) (t : bytes) (segs : list bytes) (es : list (bytes * node)),
    (route = prefix ++ [42] \/ (route = prefix /\ last prefix 0 <> 42)) ->
    Forall clean (front ++ [t]) -> name_ok t ->
    Forall2 (fun s n => pct_decode s = Some n) segs (front ++ [t]) ->
    node_at fs (root ++ front) = Some (Dir es) -> assoc_name t es = None ->
    serve_dir fs directory route (prefix ++ repeat SLASH k ++ join SLASH segs) = R404.
Proof. exact serve_dir_missing. Qed.

(* The exclusions are sharp.  A file named "a..b", "a:b" or "\xff.txt" (not UTF-8) is a possible entry of a well-formed
   tree, yet it is answered 404 (confirmed on the real handlers): the converse cannot be stated without `clean`. *)
Theorem C06_complete_without_exclusions_refuted :
  forall bad, In bad [[97;46;46;98]; [97;58;98]; [255;46;116;120;116]] ->
    wf_fs (one_file_tree bad) /\
    walk (one_file_tree bad) [] (split_on SLASH (trim_end_slashes [47;119;119;119])) = Some [[119;119;119]] /\
    node_at (one_file_tree bad) ([[119;119;119]] ++ [bad]) = Some (File [1]) /\
    serve_dir (one_file_tree bad) [47;119;119;119] [47;42] ([47] ++ join SLASH (map percent_encode [bad])) = R404 /\
    directory_handler (one_file_tree bad) [47;119;119;119] [47;42] ([47] ++ join SLASH (map percent_encode [bad])) = R404 /\
    ~ clean bad.
Proof. exact complete_exclusions_sharp. Qed.

(* ---------------------------------------------------------------------------------------------- *)
(* reading aids: what the vocabulary means                                                          *)
(* ---------------------------------------------------------------------------------------------- *)
(* in a well-formed directory, assoc_name finds exactly the entries *)
Theorem C06_assoc_name_unique :
  forall (n : bytes) (es : list (bytes * node)) (v : node),
    NoDup (map fst es) -> (In (n, v) es <-> assoc_name n es = Some v).
Proof. exact assoc_name_iff. Qed.

(* percent-encoding every name is a spelling; so is sending the names raw when they contain no '%' *)
Theorem C06_spells_encoded :
  forall names : list bytes, Forall clean names ->
    Forall2 (fun s n => pct_decode s = Some n) (map percent_encode names) names.
Proof. exact spells_encoded. Qed.

Theorem C06_raw_iff_no_percent :
  forall n : bytes, pct_decode n = Some n <-> existsb (fun b => b =? 37) n = false.
Proof. exact decode_self_iff. Qed.

(* splitting the joined path gives the names back (a name never contains '/') *)
Theorem C06_split_join :
  forall names : list bytes, names <> [] ->
    Forall (fun n => existsb (fun b => b =? SLASH) n = false) names ->
    split_on SLASH (join SLASH names) = names.
Proof. exact split_join. Qed.

(* Path::extension as modelled: the text after the last '.', none without '.', none for a leading '.' only *)
Theorem C06_extension_some :
  forall stem ext : bytes, stem <> [] -> existsb (fun b => b =? DOT) ext = false ->
    extension (stem ++ DOT :: ext) = Some ext.
Proof. exact extension_some. Qed.

Theorem C06_extension_none :
  forall name : bytes, existsb (fun b => b =? DOT) name = false -> extension name = None.
Proof. exact extension_none. Qed.

Theorem C06_extension_hidden :
  forall r : bytes, existsb (fun b => b =? DOT) r = false -> extension (DOT :: r) = None.
Proof. exact extension_hidden. Qed.

(* the executable well-formedness check used in the examples is sound *)
Theorem C06_wf_fsb_sound : forall fs : node, wf_fsb fs = true -> wf_fs fs.
Proof. exact wf_fsb_sound. Qed.

(* ---------------------------------------------------------------------------------------------- *)
(* Non-vacuity: a tree with nested directories, names with a space, '%', '+', non-ASCII, several    *)
(* dots, no extension, a leading dot, a trailing dot; an index.html that is a DIRECTORY next to an  *)
(* index.htm file.  Every hypothesis of the theorems holds, and the conclusions are the computed    *)
(* values.  (ex_fs, ex_dir = "/www/", ex_root = ["www"] are defined at the end of StaticFsSpec.v.)      *)
(* ---------------------------------------------------------------------------------------------- *)
Example C06_complete_example_hypotheses :
  wf_fs ex_fs /\
  walk ex_fs [] (split_on SLASH (trim_end_slashes ex_dir)) = Some ex_root /\
  walk ex_fs [] (split_on SLASH (match rev ex_dir with 47 :: r => rev r | _ => ex_dir end)) = Some ex_root /\
  Forall clean [[97;32;98]; [112;43;113;46;104;116;109;108]] /\
  Forall clean [[113;37;52;49;46;116;120;116]] /\ Forall clean [[195;169;46;106;115]] /\
  node_at ex_fs (ex_root ++ [[97;32;98]; [112;43;113;46;104;116;109;108]]) = Some (File [9]) /\
  (exists es, node_at ex_fs (ex_root ++ [[97;32;98]]) = Some (Dir es)) /\
  Forall (fun n => pct_decode n = Some n) [[99;46;116;97;114;46;103;122]] /\
  ~ Forall (fun n => pct_decode n = Some n) [[113;37;52;49;46;116;120;116]].
Proof.
  split; [apply wf_fsb_sound; vm_compute; reflexivity|].
  repeat (split; [first [vm_compute; reflexivity
                        | repeat constructor; vm_compute; reflexivity
                        | eexists; vm_compute; reflexivity]|]).
  intro H. inversion H as [|? ? H1 _]. vm_compute in H1. discriminate.
Qed.

Example C06_complete_example_values :
  (* encoded requests: "/static/a%20b/p%2Bq.html", "/static/q%2541.txt", "/static/%C3%A9.js" *)
  serve_dir ex_fs ex_dir [47;115;47;42]
    ([47;115;47] ++ join SLASH (map percent_encode [[97;32;98]; [112;43;113;46;104;116;109;108]])) =
    R200 [9] (Some [116;101;120;116;47;104;116;109;108]) /\
  [47;115;47] ++ join SLASH (map percent_encode [[97;32;98]; [112;43;113;46;104;116;109;108]]) =
    [47;115;47;97;37;50;48;98;47;112;37;50;66;113;46;104;116;109;108] /\
  serve_dir ex_fs ex_dir [47;42] ([47] ++ join SLASH (map percent_encode [[113;37;52;49;46;116;120;116]])) =
    R200 [2] (Some [116;101;120;116;47;112;108;97;105;110]) /\
  directory_handler ex_fs ex_dir [47;42] ([47] ++ join SLASH (map percent_encode [[195;169;46;106;115]])) =
    R200 [3] (Some [116;101;120;116;47;106;97;118;97;115;99;114;105;112;116]) /\
  (* no extension: none for the library handler, the default type for directory routes *)
  serve_dir ex_fs ex_dir [47;42] [47;98] = R200 [5] None /\
  directory_handler ex_fs ex_dir [47;42] [47;98] =
    R200 [5] (Some [97;112;112;108;105;99;97;116;105;111;110;47;111;99;116;101;116;45;115;116;114;101;97;109]) /\
  serve_dir ex_fs ex_dir [47;42] [47;46;104;105;100;100;101;110] = R200 [6] None /\
  (* literal path for serve_as_file_path: "/a b/p+q.html", "/q%41.txt" *)
  serve_as_file_path ex_fs ex_dir (SLASH :: join SLASH [[97;32;98]; [112;43;113;46;104;116;109;108]]) =
    R200 [9] (Some [116;101;120;116;47;104;116;109;108]) /\
  serve_as_file_path ex_fs ex_dir (SLASH :: join SLASH [[113;37;52;49;46;116;120;116]]) =
    R200 [2] (Some [116;101;120;116;47;112;108;97;105;110]) /\
  (* the raw "%41" spelling is another file's name ("qA.txt"): not found, hence the no-'%' condition of the raw variant *)
  serve_dir ex_fs ex_dir [47;42] [47;113;37;52;49;46;116;120;116] = R404 /\
  (* directory: redirect without slash; with it index.html is a directory, so index.htm is served; empty directory: 404 *)
  serve_dir ex_fs ex_dir [47;42] [47;97;37;50;48;98] = R301 [47;97;37;50;48;98;47] /\
  serve_dir ex_fs ex_dir [47;42] [47;97;37;50;48;98;47] = R200 [8] (Some [116;101;120;116;47;104;116;109;108]) /\
  directory_handler ex_fs ex_dir [47;42] [47;97;37;50;48;98;47] = R200 [8] (Some [116;101;120;116;47;104;116;109;108]) /\
  serve_dir ex_fs ex_dir [47;42] [47;101;47] = R404 /\
  serve_dir ex_fs ex_dir [47;42] [47] = R404.
Proof. vm_compute. repeat split. Qed.

Print Assumptions C06_serve_dir_complete.
Print Assumptions C06_serve_dir_complete_raw.
Print Assumptions C06_serve_dir_complete_any_spelling.
Print Assumptions C06_directory_route_complete.
Print Assumptions C06_directory_route_complete_raw.
Print Assumptions C06_directory_route_complete_any_spelling.
Print Assumptions C06_directory_route_strip.
Print Assumptions C06_serve_as_file_path_complete.
Print Assumptions C06_serve_dir_redirect.
Print Assumptions C06_directory_route_redirect.
Print Assumptions C06_serve_dir_redirect_any_spelling.
Print Assumptions C06_directory_route_redirect_any_spelling.
Print Assumptions C06_index_response_spec.
Print Assumptions C06_serve_dir_index.
Print Assumptions C06_directory_route_index.
Print Assumptions C06_serve_dir_index_root.
Print Assumptions C06_directory_route_index_root.
Print Assumptions C06_serve_dir_index_any_spelling.
Print Assumptions C06_directory_route_index_any_spelling.
Print Assumptions C06_try_find_path_complete.
Print Assumptions C06_serve_dir_missing_404.
Print Assumptions C06_complete_without_exclusions_refuted.
Print Assumptions C06_assoc_name_unique.
Print Assumptions C06_spells_encoded.
Print Assumptions C06_raw_iff_no_percent.
Print Assumptions C06_split_join.
Print Assumptions C06_extension_some.
Print Assumptions C06_extension_none.
Print Assumptions C06_extension_hidden.
Print Assumptions C06_wf_fsb_sound.
Print Assumptions C06_complete_example_hypotheses.
Print Assumptions C06_complete_example_values.
