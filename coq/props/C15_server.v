(* The config-driven server as a whole (model Server.v: server.rs main / init_app_routes / request_handler over the
   models of C04, C19, C06 and C15). Property theorems only; proofs in ServerProofs.v. These lift the per-property
   theorems through the wiring of the real server, which the end-to-end parts of the C04 / C19 / C06 checks exercise
   (humphrey_server::server::main started from configuration texts, model = serve_text on the same text). *)
From Hv Require Import Prelude Bytes TablesHttp TablesConfig Http Krauss Routing RoutingProofs Blacklist StaticFs StaticFsProofs
  Config Server ServerProofs.
Open Scope N_scope.

(* C15: the server's answers are a function of the loaded configuration: two texts that load to the same configuration
   (C15_load_layout_independent: any two layouts of the same description) are served identically *)
Theorem C15_server_same_config_same_answers :
  forall ipp fs files file1 conf1 file2 conf2 p req,
    load ipp files file1 conf1 = load ipp files file2 conf2 ->
    serve_text ipp fs files file1 conf1 p req = serve_text ipp fs files file2 conf2 p req.
Proof. exact serve_text_same_config. Qed.

Print Assumptions C15_server_same_config_same_answers.
