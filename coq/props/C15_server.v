(* The config-driven server as a whole (model Server.v: server.rs main / init_app_routes / request_handler over the
   models of C04, C19, C06 and C15). Property theorems only; proofs in ServerProofs.v. These lift the per-property
   theorems through the wiring of the real server, which the end-to-end parts of the C04 / C19 / C06 checks exercise
   (humphrey_server::server::main started from configuration texts, model = serve_text on the same text). *)
From Hv Require Import Prelude Bytes TablesHttp TablesConfig Http Krauss Routing RoutingProofs Blacklist StaticFs StaticFsProofs
  Config Server ServerProofs ServerLoadedProofs.
Open Scope N_scope.

(* C15: the server's answers are a function of the loaded configuration: two texts that load to the same configuration
   (C15_load_layout_independent: any two layouts of the same description) are served identically *)
Theorem C15_server_same_config_same_answers :
  forall ipp fs files file1 conf1 file2 conf2 p req,
    load ipp files file1 conf1 = load ipp files file2 conf2 ->
    serve_text ipp fs files file1 conf1 p req = serve_text ipp fs files file2 conf2 p req.
Proof. exact serve_text_same_config. Qed.

(* what validation buys at run time: a configuration that Config::load accepted gives every route the target its type
   needs (C15_route_needs_target), so request_handler's `unwrap`s of route.path / route.load_balancer /
   route.websocket_proxy and its (host, route) index lookups never fail — for any request whatever, upgrade or not *)
Theorem C15_loaded_config_well_targeted :
  forall ipp files file conf c, load ipp files file conf = ROk c -> config_well_targeted c.
Proof. exact loaded_config_well_targeted. Qed.

Theorem C15_loaded_server_never_hits_missing_target :
  forall ipp fs files file conf p req, serve_text ipp fs files file conf p req <> Some SPanic.
Proof. exact loaded_server_never_spanic. Qed.

Print Assumptions C15_server_same_config_same_answers.
Print Assumptions C15_loaded_config_well_targeted.
Print Assumptions C15_loaded_server_never_hits_missing_target.
