(* C03 (WebSocket message decoder part): Message::from_stream / WebsocketStream::recv and a whole receive session never
   reach a panic site, always terminate, and allocate at most a constant multiple of the bytes supplied — on EVERY
   input (any chunks: any bytes, any split, empty reads included).  Model and proofs are C11's (WsMessage.v,
   WsMessageProofs.v); the frame decoder underneath is C10's (C03_ws.v).  Property theorems only. *)
From Hv Require Import Prelude Stream Frame WsMessage WsMessageProofs.
Open Scope N_scope.

(* One receive call.  No crash; the loop bound of the model (fuel = bytes in the reader + 1; every frame takes at least
   two bytes) is never hit, i.e. the frame-collection loop terminates; the allocation meter (payload buffers of all
   frames read, serialised replies, the frame vector, the concatenated payload) is at most 64 x bytes supplied + 32. *)
Theorem C03_wsmsg_recv_safe :
  forall cs : chunks,
    is_crash (r_res (recv cs)) = false /\ r_res (recv cs) <> Err OutOfFuel /\
    r_alloc (recv cs) <= 64 * total_len cs + 32.
Proof. exact recv_safe. Qed.

(* A whole session (receive until an error, with or without echo, with or without a message limit). *)
Theorem C03_wsmsg_serve_safe :
  forall (echo : bool) (limit : option nat) (cs : chunks),
    is_crash (s_final (serve echo limit cs)) = false /\ s_final (serve echo limit cs) <> Err OutOfFuel /\
    s_alloc (serve echo limit cs) <= 64 * total_len cs + 32.
Proof. intros echo limit cs. exact (serve_safe echo (fuel_of cs) cs limit (fuel_of_ok cs)). Qed.

(* Progress: a receive call that delivers a message has consumed at least two bytes (so a handler looping over recv
   cannot spin on the same input). *)
Theorem C03_wsmsg_recv_progress :
  forall (cs : chunks) (m : message), r_res (recv cs) = Ok m -> total_len (r_rest (recv cs)) + 2 <= total_len cs.
Proof. intros cs m. exact (recv_loop_rest (fuel_of cs) cs [] m). Qed.

Print Assumptions C03_wsmsg_recv_safe.
Print Assumptions C03_wsmsg_serve_safe.
Print Assumptions C03_wsmsg_recv_progress.
