(* C02 - "header fields (names matched case-insensitively; values and the relative order of same-named fields preserved)":
   the laws of the header collection itself (Headers::get / get_all / remove / add), for every collection. The C02 check
   runs the same operations on the implementation (hdr_get probe). Property theorems only (HeadersProofs.v). *)
From Hv Require Import Prelude Bytes TablesHttp Http HeadersProofs.
Open Scope N_scope.

(* get is the first of get_all; get_all keeps arrival order (it is a filter) *)
Theorem C02_get_is_first_of_get_all : forall n hs, hget n hs = hd_error (hget_all n hs).
Proof. exact hget_is_first_of_all. Qed.

(* a header added later never hides or reorders earlier ones of its name, and does not touch other names *)
Theorem C02_add_appends :
  forall n hs n' v, hget_all n (hs ++ [(n', v)]) = hget_all n hs ++ (if hname_eqb n n' then [v] else []).
Proof. exact hget_all_add. Qed.

(* remove takes out every header of that name and nothing else *)
Theorem C02_remove_all_of_that_name :
  forall n hs, hget_all n (hremove n hs) = [] /\ hget n (hremove n hs) = None.
Proof. exact hremove_removes_all. Qed.

Theorem C02_remove_keeps_other_names :
  forall n m hs, hname_eqb m n = false -> hget_all m (hremove n hs) = hget_all m hs.
Proof. exact hremove_keeps_others. Qed.

(* every spelling of a name finds the same headers *)
Theorem C02_lookup_case_insensitive :
  forall name1 name2 hs, ascii_lower name1 = ascii_lower name2 ->
    hget_all (hname_of name1) hs = hget_all (hname_of name2) hs.
Proof. exact hget_all_case_insensitive. Qed.

Example C02_headers_example :
  let hs := [(hname_of [88;45;65], [49]); (hname_of [72;111;115;116], [104]); (hname_of [120;45;97], [50])] in
  hget_all (hname_of [88;45;97]) hs = [[49]; [50]] /\ hget (hname_of [120;45;65]) hs = Some [49] /\
  hget_all (hname_of [120;45;97]) (hremove (hname_of [88;45;65]) hs) = [].
Proof. cbv zeta. repeat split; vm_compute; reflexivity. Qed.

Print Assumptions C02_get_is_first_of_get_all.
Print Assumptions C02_add_appends.
Print Assumptions C02_remove_all_of_that_name.
Print Assumptions C02_remove_keeps_other_names.
Print Assumptions C02_lookup_case_insensitive.
Print Assumptions C02_headers_example.
