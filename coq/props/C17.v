(* C17 — Passwords and session tokens authenticate exactly their owner, only while valid.
   Property theorems only: every statement is written out in full and closed by `exact <lemma>`.

   The model (Auth.v: step / run) mirrors humphrey-auth's AuthProvider<Vec<User>>, Session, User and the closure of
   with_auth_route, AFTER the repairs "refresh_session rejects a token that has already expired" and "session expiry
   saturates". What is outside the code is quantified over, never assumed away:
     H, hash, verify_hash          Argon2, with the single hypothesis that a hash verifies exactly the password and secret
                                   it was made from (secret_of: no pepper = the empty secret, as for the real Argon2);
     the inputs of each operation  every clock reading, every RNG draw (token, uid, salt);
     clock_ok / rng_ok / env_ok    the clock does not go back / the RNG never repeats a token.
   All theorems hold for every configuration and every history (list of operations) of any length. *)
From Hv Require Import Prelude Auth AuthProofs.
Open Scope N_scope.

(* ---------------------------------------------------------------------------------------------------
   1. Refinement: the list-based model against the reference map  uid -> (password, pepper, option (token, expiry)). *)

(* One operation: from related states, the model's result is a result the reference allows, and the states stay
   related (R is the abstraction: same configuration; the same uids exist; same session per uid; the stored hash is a
   hash of the reference's password). No panic site is reachable: the reference has no Crash result. *)
Theorem C17_step_refines :
  forall (H : Type) (hash : pwd -> N -> list N -> H) (verify_hash : H -> pwd -> list N -> bool),
    (forall pw salt pep pw' pep', verify_hash (hash pw salt pep) pw' pep' = true <-> pw' = pw /\ pep' = pep) ->
    forall (s : state H) (r : rstate) (o : op) (s' : state H) (x : out),
      wf H (users s) -> R H hash s r -> tok_unique r ->
      step H hash verify_hash s o = (s', x) ->
      wf H (users s') /\ exists r', rstep r o r' x /\ R H hash s' r'.
Proof. exact step_refines. Qed.

(* Whole histories from the empty database: the outputs of the model are outputs of the reference, step by step. *)
Theorem C17_run_refines :
  forall (H : Type) (hash : pwd -> N -> list N -> H) (verify_hash : H -> pwd -> list N -> bool),
    (forall pw salt pep pw' pep', verify_hash (hash pw salt pep) pw' pep' = true <-> pw' = pw /\ pep' = pep) ->
    forall (c : config) (ops : list op), rng_ok ops ->
      exists r, rrun (rinit c) ops (snd (run H hash verify_hash (init H c) ops)) r /\
                R H hash (fst (run H hash verify_hash (init H c) ops)) r.
Proof. exact run_refines. Qed.

(* The reference leaves no freedom: it determines every result ("every output equals the reference's"). *)
Theorem C17_reference_determines_results :
  forall r o r1 x1 r2 x2, tok_unique r -> rstep r o r1 x1 -> rstep r o r2 x2 -> x1 = x2.
Proof. exact rstep_out_deterministic. Qed.

(* No panic site of the modelled code (unwrap of a session, unwrap of update_user) is reachable in any history. *)
Theorem C17_never_crashes :
  forall (H : Type) (hash : pwd -> N -> list N -> H) (verify_hash : H -> pwd -> list N -> bool),
    (forall pw salt pep pw' pep', verify_hash (hash pw salt pep) pw' pep' = true <-> pw' = pw /\ pep' = pep) ->
    forall (c : config) (ops : list op), rng_ok ops ->
      forall x, In x (snd (run H hash verify_hash (init H c) ops)) -> is_crash x = false.
Proof. exact never_crashes. Qed.

(* ---------------------------------------------------------------------------------------------------
   2. Passwords. cred_status reads off the history alone which (password, pepper) uid u was last created with and
   whether it has been removed since. verify answers true exactly for that password under the pepper now configured
   (an empty pepper and no pepper are the same Argon2 secret). *)
Theorem C17_verify_only_owner :
  forall (H : Type) (hash : pwd -> N -> list N -> H) (verify_hash : H -> pwd -> list N -> bool),
    (forall pw salt pep pw' pep', verify_hash (hash pw salt pep) pw' pep' = true <-> pw' = pw /\ pep' = pep) ->
    forall (c : config) (pre : list op) (u : N) (pw : pwd), rng_ok pre ->
      exists b, snd (step H hash verify_hash (fst (run H hash verify_hash (init H c) pre)) (Verify u pw)) = Ok (VBool b) /\
                (b = true <->
                 cred_status c (history H hash verify_hash c pre) u =
                 Some (pw, secret_of (c_pepper (cfg (fst (run H hash verify_hash (init H c) pre)))))).
Proof. exact verify_verdict. Qed.

(* A password verifies only for a user that was created with it: if verify(u, pw) is true, the history contains the
   successful create_user call with password pw that returned uid u. *)
Theorem C17_verified_password_is_the_users_own :
  forall (H : Type) (hash : pwd -> N -> list N -> H) (verify_hash : H -> pwd -> list N -> bool),
    (forall pw salt pep pw' pep', verify_hash (hash pw salt pep) pw' pep' = true <-> pw' = pw /\ pep' = pep) ->
    forall (c : config) (pre : list op) (u : N) (pw : pwd), rng_ok pre ->
      snd (step H hash verify_hash (fst (run H hash verify_hash (init H c) pre)) (Verify u pw)) = Ok (VBool true) ->
      exists ev, In ev (history H hash verify_hash c pre) /\ creates_user u pw ev.
Proof. exact verified_password_is_the_users_own. Qed.

(* create_user succeeds and returns the uid drawn for it whenever that uid has not been drawn before (v4 UUIDs). *)
Theorem C17_create_user_fresh_uid_succeeds :
  forall (H : Type) (hash : pwd -> N -> list N -> H) (verify_hash : H -> pwd -> list N -> bool),
    (forall pw salt pep pw' pep', verify_hash (hash pw salt pep) pw' pep' = true <-> pw' = pw /\ pep' = pep) ->
    forall (c : config) (pre : list op) (pw : pwd) (fu salt : N),
      rng_ok pre -> ~ In fu (fresh_uids pre) ->
      snd (step H hash verify_hash (fst (run H hash verify_hash (init H c) pre)) (CreateUser pw fu salt)) = Ok (VId fu).
Proof. exact create_user_fresh_uid_succeeds. Qed.

(* exists(uid) is true, and remove_user(uid) succeeds, exactly for uids created and not removed since. *)
Theorem C17_exists_exactly_created_users :
  forall (H : Type) (hash : pwd -> N -> list N -> H) (verify_hash : H -> pwd -> list N -> bool),
    (forall pw salt pep pw' pep', verify_hash (hash pw salt pep) pw' pep' = true <-> pw' = pw /\ pep' = pep) ->
    forall (c : config) (pre : list op) (u : N), rng_ok pre ->
      snd (step H hash verify_hash (fst (run H hash verify_hash (init H c) pre)) (Exists u)) =
      Ok (VBool (match cred_status c (history H hash verify_hash c pre) u with Some _ => true | None => false end)).
Proof. exact exists_verdict. Qed.

Theorem C17_remove_user_exactly_created_users :
  forall (H : Type) (hash : pwd -> N -> list N -> H) (verify_hash : H -> pwd -> list N -> bool),
    (forall pw salt pep pw' pep', verify_hash (hash pw salt pep) pw' pep' = true <-> pw' = pw /\ pep' = pep) ->
    forall (c : config) (pre : list op) (u : N), rng_ok pre ->
      snd (step H hash verify_hash (fst (run H hash verify_hash (init H c) pre)) (RemoveUser u)) =
      match cred_status c (history H hash verify_hash c pre) u with Some _ => Ok VUnit | None => Err EUserNotFound end.
Proof. exact remove_user_verdict. Qed.

(* ---------------------------------------------------------------------------------------------------
   3. Tokens. tok_status reads off the history alone whether token t currently stands for a session, of which user and
   until when: Some (owner, expiry) after it was issued to owner, with the expiry set by the issue or the last
   successful refresh; None once it has been invalidated, its owner's session invalidated, its owner removed or given a
   newer session — or if it was never issued. Every operation that presents a token (get_uid_by_token, the auth route,
   refresh_session) answers exactly by that reading: accepted for the owner iff standing and now < expiry. *)
Theorem C17_token_owner_only_while_valid :
  forall (H : Type) (hash : pwd -> N -> list N -> H) (verify_hash : H -> pwd -> list N -> bool),
    (forall pw salt pep pw' pep', verify_hash (hash pw salt pep) pw' pep' = true <-> pw' = pw /\ pep' = pep) ->
    forall (c : config) (pre : list op) (o : op) (t now : N),
      rng_ok pre -> presents o = Some (t, now) ->
      snd (step H hash verify_hash (fst (run H hash verify_hash (init H c) pre)) o) =
      verdict o (tok_status c (history H hash verify_hash c pre) t) now.
Proof. exact token_verdict. Qed.

(* What tok_status means, clause by clause. (a) Exactly its owner: an accepted token was issued, by a successful
   create_session, to the very user it authenticates. *)
Theorem C17_accepted_token_was_issued_to_that_user :
  forall (H : Type) (hash : pwd -> N -> list N -> H) (verify_hash : H -> pwd -> list N -> bool),
    (forall pw salt pep pw' pep', verify_hash (hash pw salt pep) pw' pep' = true <-> pw' = pw /\ pep' = pep) ->
    forall (c : config) (pre : list op) (o : op) (t now u : N),
      rng_ok pre -> presents o = Some (t, now) ->
      snd (step H hash verify_hash (fst (run H hash verify_hash (init H c) pre)) o) = Ok (VId u) ->
      exists ev, In ev (history H hash verify_hash c pre) /\ issues_to t u ev.
Proof. exact accepted_was_issued_to. Qed.

(* (b) While valid, and only until it expires: after a successful create_session_with_lifetime, whatever other users do
   (operations that do not touch t or u), t authenticates u strictly before now2 + lifetime (saturating at 2^64-1), and is
   rejected from then on. *)
Theorem C17_issued_token_valid_until_expiry :
  forall (H : Type) (hash : pwd -> N -> list N -> H) (verify_hash : H -> pwd -> list N -> bool),
    (forall pw salt pep pw' pep', verify_hash (hash pw salt pep) pw' pep' = true <-> pw' = pw /\ pep' = pep) ->
    forall (c : config) (pre0 : list op) (u life n0 n2 t : N) (mid : list op) (o : op) (now : N),
      rng_ok (pre0 ++ CreateSessionLt u life n0 n2 t :: mid) ->
      snd (step H hash verify_hash (fst (run H hash verify_hash (init H c) pre0)) (CreateSessionLt u life n0 n2 t)) = Ok (VId t) ->
      (forall o', In o' mid -> ~ touches t u o') ->
      presents o = Some (t, now) ->
      snd (step H hash verify_hash
             (fst (run H hash verify_hash (init H c) (pre0 ++ CreateSessionLt u life n0 n2 t :: mid))) o) =
      if now <? sat_add n2 life then accept_out o u else reject_out o.
Proof. exact issued_token_verdict. Qed.

Theorem C17_issued_default_token_valid_until_expiry :
  forall (H : Type) (hash : pwd -> N -> list N -> H) (verify_hash : H -> pwd -> list N -> bool),
    (forall pw salt pep pw' pep', verify_hash (hash pw salt pep) pw' pep' = true <-> pw' = pw /\ pep' = pep) ->
    forall (c : config) (pre0 : list op) (u n0 n2 t : N) (mid : list op) (o : op) (now : N),
      rng_ok (pre0 ++ CreateSession u n0 n2 t :: mid) ->
      snd (step H hash verify_hash (fst (run H hash verify_hash (init H c) pre0)) (CreateSession u n0 n2 t)) = Ok (VId t) ->
      (forall o', In o' mid -> ~ touches t u o') ->
      presents o = Some (t, now) ->
      snd (step H hash verify_hash
             (fst (run H hash verify_hash (init H c) (pre0 ++ CreateSession u n0 n2 t :: mid))) o) =
      if now <? sat_add n2 (c_life (cfg (fst (run H hash verify_hash (init H c) pre0))))
      then accept_out o u else reject_out o.
Proof. exact issued_default_token_verdict. Qed.

(* (c) Until it is invalidated: after invalidate_session t, t is rejected for good (unless the RNG draws it again). *)
Theorem C17_rejected_after_invalidation :
  forall (H : Type) (hash : pwd -> N -> list N -> H) (verify_hash : H -> pwd -> list N -> bool),
    (forall pw salt pep pw' pep', verify_hash (hash pw salt pep) pw' pep' = true <-> pw' = pw /\ pep' = pep) ->
    forall (c : config) (pre0 : list op) (t : N) (mid : list op) (o : op) (now : N),
      rng_ok (pre0 ++ InvalidateSession t :: mid) -> ~ In t (fresh_toks mid) ->
      presents o = Some (t, now) ->
      snd (step H hash verify_hash (fst (run H hash verify_hash (init H c) (pre0 ++ InvalidateSession t :: mid))) o) =
      reject_out o.
Proof. exact rejected_after_invalidation. Qed.

(* (d) Until the user is removed (or their session invalidated by uid): a token standing for u is rejected for good after
   remove_user u / invalidate_user_session u. *)
Theorem C17_rejected_after_owner_removed_or_invalidated :
  forall (H : Type) (hash : pwd -> N -> list N -> H) (verify_hash : H -> pwd -> list N -> bool),
    (forall pw salt pep pw' pep', verify_hash (hash pw salt pep) pw' pep' = true <-> pw' = pw /\ pep' = pep) ->
    forall (c : config) (pre0 : list op) (t u x0 : N) (o1 : op) (mid : list op) (o : op) (now : N),
      o1 = RemoveUser u \/ o1 = InvalidateUser u ->
      rng_ok (pre0 ++ o1 :: mid) -> ~ In t (fresh_toks mid) ->
      tok_status c (history H hash verify_hash c pre0) t = Some (u, x0) ->
      presents o = Some (t, now) ->
      snd (step H hash verify_hash (fst (run H hash verify_hash (init H c) (pre0 ++ o1 :: mid))) o) = reject_out o.
Proof. exact rejected_after_owner_gone. Qed.

(* create_session_with_lifetime: UserNotFound for a uid that does not exist; SessionAlreadyExists while a token standing
   for the user is unexpired at the first clock read; otherwise the RNG's draw is issued. In particular a user whose
   session has expired (or was created with lifetime 0) is never locked out. *)
Theorem C17_create_session_verdict :
  forall (H : Type) (hash : pwd -> N -> list N -> H) (verify_hash : H -> pwd -> list N -> bool),
    (forall pw salt pep pw' pep', verify_hash (hash pw salt pep) pw' pep' = true <-> pw' = pw /\ pep' = pep) ->
    forall (c : config) (pre : list op) (u life n0 n2 tok : N),
      rng_ok (pre ++ [CreateSessionLt u life n0 n2 tok]) ->
      (cred_status c (history H hash verify_hash c pre) u = None ->
       snd (step H hash verify_hash (fst (run H hash verify_hash (init H c) pre)) (CreateSessionLt u life n0 n2 tok)) =
       Err EUserNotFound) /\
      (cred_status c (history H hash verify_hash c pre) u <> None ->
       (exists t x, tok_status c (history H hash verify_hash c pre) t = Some (u, x) /\ n0 < x) ->
       snd (step H hash verify_hash (fst (run H hash verify_hash (init H c) pre)) (CreateSessionLt u life n0 n2 tok)) =
       Err ESessionExists) /\
      (cred_status c (history H hash verify_hash c pre) u <> None ->
       (forall t x, tok_status c (history H hash verify_hash c pre) t = Some (u, x) -> x <= n0) ->
       snd (step H hash verify_hash (fst (run H hash verify_hash (init H c) pre)) (CreateSessionLt u life n0 n2 tok)) =
       Ok (VId tok)).
Proof. exact create_session_verdict. Qed.

(* ---------------------------------------------------------------------------------------------------
   4. An expired or unknown token is rejected by every operation, including refresh, and nothing changes: if t stands for
   nothing, or its expiry is not after now, get_uid_by_token / the auth route / refresh_session return InvalidToken /
   401 / InvalidToken and leave the state as it was. *)
Theorem C17_expired_or_unknown_rejected_everywhere :
  forall (H : Type) (hash : pwd -> N -> list N -> H) (verify_hash : H -> pwd -> list N -> bool),
    (forall pw salt pep pw' pep', verify_hash (hash pw salt pep) pw' pep' = true <-> pw' = pw /\ pep' = pep) ->
    forall (c : config) (pre : list op) (o : op) (t now : N),
      rng_ok pre -> presents o = Some (t, now) ->
      (forall u x, tok_status c (history H hash verify_hash c pre) t = Some (u, x) -> x <= now) ->
      step H hash verify_hash (fst (run H hash verify_hash (init H c) pre)) o =
      (fst (run H hash verify_hash (init H c) pre), reject_out o).
Proof. exact expired_or_unknown_rejected. Qed.

(* ... and it stays rejected: once any operation has rejected t, every later operation rejects it, whatever happens in
   between (refresh included), as long as the clock does not go back and the RNG does not draw t again. This is the
   statement the unrepaired refresh_session violates (C17_refresh_old_refuted). *)
Theorem C17_rejected_tokens_stay_rejected :
  forall (H : Type) (hash : pwd -> N -> list N -> H) (verify_hash : H -> pwd -> list N -> bool),
    (forall pw salt pep pw' pep', verify_hash (hash pw salt pep) pw' pep' = true <-> pw' = pw /\ pep' = pep) ->
    forall (c : config) (ops1 : list op) (o1 : op) (ops2 : list op) (t now1 : N),
      env_ok (ops1 ++ o1 :: ops2) -> presents o1 = Some (t, now1) -> ~ In t (fresh_toks ops2) ->
      snd (step H hash verify_hash (fst (run H hash verify_hash (init H c) ops1)) o1) = reject_out o1 ->
      forall o x now,
        In (o, x) (combine ops2
                     (snd (run H hash verify_hash
                             (fst (step H hash verify_hash (fst (run H hash verify_hash (init H c) ops1)) o1)) ops2))) ->
        presents o = Some (t, now) -> x = reject_out o.
Proof. exact dead_stays_dead. Qed.

(* ---------------------------------------------------------------------------------------------------
   5. A user has at most one live session: in any reachable state two tokens accepted for the same user are the same
   token; equivalently at most one token stands for a user. *)
Theorem C17_at_most_one_live_session :
  forall (H : Type) (hash : pwd -> N -> list N -> H) (verify_hash : H -> pwd -> list N -> bool),
    (forall pw salt pep pw' pep', verify_hash (hash pw salt pep) pw' pep' = true <-> pw' = pw /\ pep' = pep) ->
    forall (c : config) (ops : list op) (t1 t2 now1 now2 u : N), rng_ok ops ->
      get_uid_by_token H (fst (run H hash verify_hash (init H c) ops)) t1 now1 = Ok (VId u) ->
      get_uid_by_token H (fst (run H hash verify_hash (init H c) ops)) t2 now2 = Ok (VId u) -> t1 = t2.
Proof. exact one_session_per_user. Qed.

Theorem C17_at_most_one_standing_token_per_user :
  forall (H : Type) (hash : pwd -> N -> list N -> H) (verify_hash : H -> pwd -> list N -> bool),
    (forall pw salt pep pw' pep', verify_hash (hash pw salt pep) pw' pep' = true <-> pw' = pw /\ pep' = pep) ->
    forall (c : config) (ops : list op) (t1 t2 u x1 x2 : N), rng_ok ops ->
      tok_status c (history H hash verify_hash c ops) t1 = Some (u, x1) ->
      tok_status c (history H hash verify_hash c ops) t2 = Some (u, x2) -> t1 = t2.
Proof. exact one_standing_token_per_user. Qed.

(* ---------------------------------------------------------------------------------------------------
   6. Tokens never repeat: the tokens returned by successful create_session calls along a history are pairwise distinct,
   and each is the RNG draw handed to that call (the 32 random bytes; their hex form is checked on the real code). *)
Theorem C17_tokens_never_repeat :
  forall (H : Type) (hash : pwd -> N -> list N -> H) (verify_hash : H -> pwd -> list N -> bool)
         (c : config) (ops : list op),
    rng_ok ops -> NoDup (issued (history H hash verify_hash c ops)).
Proof. exact issued_tokens_nodup. Qed.

Theorem C17_tokens_come_from_the_rng :
  forall (H : Type) (hash : pwd -> N -> list N -> H) (verify_hash : H -> pwd -> list N -> bool)
         (c : config) (ops : list op) (t : N),
    In t (issued (history H hash verify_hash c ops)) -> In t (fresh_toks ops).
Proof. exact issued_tokens_from_rng. Qed.

(* ---------------------------------------------------------------------------------------------------
   7. The pre-repair refresh_session (F04) violates C17_rejected_tokens_stay_rejected: a token created with lifetime 0 is
   rejected, refreshed, and then accepted. Kept so that a regression is recognisable. *)
Theorem C17_refresh_old_refuted :
  exists c ops1 o1 ops2 t now1,
    env_ok (ops1 ++ o1 :: ops2) /\ presents o1 = Some (t, now1) /\ ~ In t (fresh_toks ops2) /\
    snd (xstep_old (fst (xrun_old (xinit c) ops1)) o1) = reject_out o1 /\
    exists o x now,
      In (o, x) (combine ops2 (snd (xrun_old (fst (xstep_old (fst (xrun_old (xinit c) ops1)) o1)) ops2))) /\
      presents o = Some (t, now) /\ x <> reject_out o.
Proof. exact refresh_old_refuted. Qed.

(* ---------------------------------------------------------------------------------------------------
   Non-vacuity. The Argon2 hypothesis is satisfiable (the extracted instance used by the correspondence check satisfies
   it), and the environment hypotheses hold on a non-trivial history whose results exercise every clause. *)
Example C17_hypothesis_satisfiable :
  forall pw salt pep pw' pep', xverify (xhash pw salt pep) pw' pep' = true <-> pw' = pw /\ pep' = pep.
Proof. exact xverify_ok. Qed.

Definition C17_demo : list op :=
  [ CreateUser [104; 117] 0 0; CreateUser [112; 119] 1 1;
    Verify 0 [104; 117]; Verify 0 [112; 119]; Verify 1 [112; 119]; Verify 9 [104; 117];
    CreateSession 0 100 100 7; CreateSessionLt 1 0 100 100 8; CreateSession 0 101 101 9;
    GetUid 7 102; GetUid 8 102; Route (Some 7) 102; Route (Some 8) 102; Route None 102;
    Refresh 8 103 103; Refresh 7 103 103; GetUid 7 3701; GetUid 7 3703;
    CreateSession 0 3704 3704 10; GetUid 7 3704; GetUid 10 3704;
    RemoveUser 0; GetUid 10 3705; Refresh 10 3705 3705; InvalidateSession 8; CreateSessionLt 1 18446744073709551615 3706 3706 11;
    GetUid 11 4000000000 ].

Example C17_demo_env_ok : env_ok C17_demo.
Proof. split; [cbn; repeat split; discriminate | cbn; repeat constructor; cbn; intuition discriminate]. Qed.

Example C17_demo_results :
  snd (xrun (xinit default_config) C17_demo) =
  [ Ok (VId 0); Ok (VId 1);
    Ok (VBool true); Ok (VBool false); Ok (VBool true); Ok (VBool false);
    Ok (VId 7); Ok (VId 8); Err ESessionExists;
    Ok (VId 0); Err EInvalidToken; Ok (VId 0); Err EUnauthorized; Err EUnauthorized;
    Err EInvalidToken; Ok VUnit; Ok (VId 0); Err EInvalidToken;
    Ok (VId 10); Err EInvalidToken; Ok (VId 0);
    Ok VUnit; Err EInvalidToken; Err EInvalidToken; Ok VUnit; Ok (VId 11);
    Ok (VId 1) ].
Proof. vm_compute. reflexivity. Qed.

Print Assumptions C17_step_refines.
Print Assumptions C17_run_refines.
Print Assumptions C17_reference_determines_results.
Print Assumptions C17_never_crashes.
Print Assumptions C17_verify_only_owner.
Print Assumptions C17_verified_password_is_the_users_own.
Print Assumptions C17_create_user_fresh_uid_succeeds.
Print Assumptions C17_exists_exactly_created_users.
Print Assumptions C17_remove_user_exactly_created_users.
Print Assumptions C17_create_session_verdict.
Print Assumptions C17_token_owner_only_while_valid.
Print Assumptions C17_accepted_token_was_issued_to_that_user.
Print Assumptions C17_issued_token_valid_until_expiry.
Print Assumptions C17_issued_default_token_valid_until_expiry.
Print Assumptions C17_rejected_after_invalidation.
Print Assumptions C17_rejected_after_owner_removed_or_invalidated.
Print Assumptions C17_expired_or_unknown_rejected_everywhere.
Print Assumptions C17_rejected_tokens_stay_rejected.
Print Assumptions C17_at_most_one_live_session.
Print Assumptions C17_at_most_one_standing_token_per_user.
Print Assumptions C17_tokens_never_repeat.
Print Assumptions C17_tokens_come_from_the_rng.
Print Assumptions C17_refresh_old_refuted.
Print Assumptions C17_hypothesis_satisfiable.
Print Assumptions C17_demo_env_ok.
Print Assumptions C17_demo_results.
