(* C19 — a blacklisted address never receives content. Property theorems only. *)
From Hv Require Import Prelude Bytes TablesHttp Http Blacklist BlacklistProofs BlacklistMoreProofs.
Open Scope N_scope.

(* For every header list (whatever X-Forwarded-For the client sends), every address parser and both modes: a client
   connecting from a listed address is never served. *)
Theorem C19_listed_never_served :
  forall (ipp : bytes -> option bytes) (block : bool) (bl : list bytes) (p : peer) (hs : headers),
    mem (p_ip p) bl = true -> serve ipp block bl p hs <> Served.
Proof. exact listed_never_served. Qed.

(* block mode: connection dropped without a response; forbidden mode: 403. *)
Theorem C19_listed_block_dropped_forbidden_403 :
  forall ipp bl p hs, mem (p_ip p) bl = true ->
    serve ipp true bl p hs = Dropped /\ serve ipp false bl p hs = Forbidden.
Proof. exact listed_block_dropped_forbidden_403. Qed.

(* a request forwarded by an unlisted peer on behalf of a listed address is answered 403 *)
Theorem C19_forwarded_listed_403 :
  forall ipp block bl p hs a,
    mem (p_ip p) bl = false -> In a (forwarded ipp hs) -> mem a bl = true ->
    serve ipp block bl p hs = Forbidden.
Proof. exact forwarded_listed_403. Qed.

(* in terms of the header text: any entry of the comma-separated X-Forwarded-For value - first, middle or last, with
   whatever blanks around it - that parses to a listed address gets the request refused *)
Theorem C19_forwarded_entry_listed_403 :
  forall ipp block bl p hs fwd e a,
    mem (p_ip p) bl = false -> hget XFF hs = Some fwd -> In e (split_on 44 fwd) -> ipp (trim e) = Some a ->
    mem a bl = true -> serve ipp block bl p hs = Forbidden.
Proof. exact forwarded_entry_listed_403. Qed.

(* nothing but the peer address, the list, the mode and that header field decides *)
Theorem C19_verdict_depends_on_xff_only :
  forall ipp block bl p hs1 hs2,
    hget XFF hs1 = hget XFF hs2 -> serve ipp block bl p hs1 = serve ipp block bl p hs2.
Proof. exact serve_depends_on_xff_only. Qed.

(* clients whose own and forwarded addresses are all unlisted are served *)
Theorem C19_unlisted_served :
  forall ipp block bl p hs,
    mem (p_ip p) bl = false -> (forall a, In a (forwarded ipp hs) -> mem a bl = false) ->
    serve ipp block bl p hs = Served.
Proof. exact unlisted_served. Qed.

(* the origin-only check of the pinned commit (F30) violates the property *)
Theorem C19_old_check_refuted :
  exists ipp bl p hs, mem (p_ip p) bl = true /\ serve_old ipp false bl p hs = Served.
Proof. exact serve_old_refuted. Qed.

Example C19_example :
  let bl := [[49;50;55;46;48;46;48;46;57]] in
  serve ipv4_parse false bl {| p_ip := [49;50;55;46;48;46;48;46;57]; p_port := 1 |} [(XFF, [57;46;57;46;57;46;57])] = Forbidden /\
  serve ipv4_parse false bl {| p_ip := [49;50;55;46;48;46;48;46;49]; p_port := 1 |} [(XFF, [49;50;55;46;48;46;48;46;57])] = Forbidden /\
  serve ipv4_parse false bl {| p_ip := [49;50;55;46;48;46;48;46;49]; p_port := 1 |} [(XFF, [57;46;57;46;57;46;57])] = Served.
Proof. vm_compute. repeat split. Qed.

Print Assumptions C19_listed_never_served.
Print Assumptions C19_forwarded_entry_listed_403.
Print Assumptions C19_verdict_depends_on_xff_only.
Print Assumptions C19_listed_block_dropped_forbidden_403.
Print Assumptions C19_forwarded_listed_403.
Print Assumptions C19_unlisted_served.
Print Assumptions C19_old_check_refuted.
Print Assumptions C19_example.
