(* C19 — a blacklisted address never receives content. Property theorems only. *)
From Hv Require Import Prelude Bytes TablesHttp Http Blacklist BlacklistProofs.
Open Scope N_scope.

(* For every header list (whatever X-Forwarded-For the client sends), every address parser and both modes: a client
   connecting from a listed address is never served. *)
Theorem C19_listed_never_served :
  forall (ipp : bytes -> option bytes) (block : bool) (bl : list bytes) (p : peer) (hs : headers),
    mem (p_ip p) bl = true -> serve ipp block bl p hs <> Served.
Proof. exact listed_never_served. Qed.

(* block mode: connection dropped without a response; forbidden mode: 403. *)
Theorem C19_listed_block_dropped_forbidden_403 :
  forall ipp bl p hs, mem (p_ip p) bl = true ->
    serve ipp true bl p hs = Dropped /\ serve ipp false bl p hs = Forbidden.
Proof. exact listed_block_dropped_forbidden_403. Qed.

(* a request forwarded by an unlisted peer on behalf of a listed address is answered 403 *)
Theorem C19_forwarded_listed_403 :
  forall ipp block bl p hs a,
    mem (p_ip p) bl = false -> In a (forwarded ipp hs) -> mem a bl = true ->
    serve ipp block bl p hs = Forbidden.
Proof. exact forwarded_listed_403. Qed.

(* clients whose own and forwarded addresses are all unlisted are served *)
Theorem C19_unlisted_served :
  forall ipp block bl p hs,
    mem (p_ip p) bl = false -> (forall a, In a (forwarded ipp hs) -> mem a bl = false) ->
    serve ipp block bl p hs = Served.
Proof. exact unlisted_served. Qed.

(* the origin-only check of the pinned commit (F30) violates the property *)
Theorem C19_old_check_refuted :
  exists ipp bl p hs, mem (p_ip p) bl = true /\ serve_old ipp false bl p hs = Served.
Proof. exact serve_old_refuted. Qed.

Example C19_example :
  let bl := [[49;50;55;46;48;46;48;46;57]] in
  serve ipv4_parse false bl {| p_ip := [49;50;55;46;48;46;48;46;57]; p_port := 1 |} [(XFF, [57;46;57;46;57;46;57])] = Forbidden /\
  serve ipv4_parse false bl {| p_ip := [49;50;55;46;48;46;48;46;49]; p_port := 1 |} [(XFF, [49;50;55;46;48;46;48;46;57])] = Forbidden /\
  serve ipv4_parse false bl {| p_ip := [49;50;55;46;48;46;48;46;49]; p_port := 1 |} [(XFF, [57;46;57;46;57;46;57])] = Served.
Proof. vm_compute. repeat split. Qed.

Print Assumptions C19_listed_never_served.
Print Assumptions C19_listed_block_dropped_forbidden_403.
Print Assumptions C19_forwarded_listed_403.
Print Assumptions C19_unlisted_served.
Print Assumptions C19_old_check_refuted.
Print Assumptions C19_example.
