(* The config-driven server as a whole (model Server.v: server.rs main / init_app_routes / request_handler over the
   models of C04, C19, C06 and C15). Property theorems only; proofs in ServerProofs.v. These lift the per-property
   theorems through the wiring of the real server, which the end-to-end parts of the C04 / C19 / C06 checks exercise
   (humphrey_server::server::main started from configuration texts, model = serve_text on the same text). *)
From Hv Require Import Prelude Bytes TablesHttp TablesConfig Http Krauss Routing RoutingProofs Blacklist StaticFs StaticFsProofs
  Config Server ServerProofs.
Open Scope N_scope.

(* C06: a 200 answer of the server comes from the route the App matched (ch), and when that route is a `directory` route
   the body is the content of a regular file under the configured directory *)
Theorem C06_server_directory_confined :
  forall ipp fs (c : config) p req body ct,
    server_response ipp fs c p req = SStatic (R200 body ct) ->
    exists ch rt,
      get_handler (map subapp_of (cf_hosts c)) (subapp_of (cf_default_host c))
                  (option_map scalars (hget (HKnown H_Host) (r_headers req))) (scalars (r_uri req)) = Some ch /\
      get_route c (fst (handler_ids ch)) (snd (handler_ids ch)) = Some rt /\
      (rt_type rt = RT_Directory ->
       forall d root, rt_path rt = Some d -> walk fs [] (split_on SLASH (trim_end_slashes d)) = Some root ->
       exists loc, under root loc /\ node_at fs loc = Some (File body)).
Proof. exact server_directory_confined. Qed.

Print Assumptions C06_server_directory_confined.
