(* The config-driven server as a whole (model Server.v: server.rs main / init_app_routes / request_handler over the
   models of C04, C19, C06 and C15). Property theorems only; proofs in ServerProofs.v. These lift the per-property
   theorems through the wiring of the real server, which the end-to-end parts of the C04 / C19 / C06 checks exercise
   (humphrey_server::server::main started from configuration texts, model = serve_text on the same text). *)
From Hv Require Import Prelude Bytes TablesHttp TablesConfig Http Krauss Routing RoutingProofs Blacklist StaticFs StaticFsProofs
  Config Server ServerProofs.
Open Scope N_scope.

(* C06: what the server returns with status 200 from a `directory` route is the content of a regular file under the
   configured directory *)
Theorem C06_server_directory_confined :
  forall ipp fs (c : config) p req body ct,
    server_response ipp fs c p req = SStatic (R200 body ct) ->
    exists ch rt, get_route c (fst (handler_ids ch)) (snd (handler_ids ch)) = Some rt /\
      (rt_type rt = RT_Directory ->
       forall d root, rt_path rt = Some d -> walk fs [] (split_on SLASH (trim_end_slashes d)) = Some root ->
       exists loc, under root loc /\ node_at fs loc = Some (File body)).
Proof. exact server_directory_confined. Qed.

Print Assumptions C06_server_directory_confined.
