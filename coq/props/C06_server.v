(* The config-driven server as a whole (model Server.v: server.rs main / init_app_routes / request_handler over the
   models of C04, C19, C06 and C15). Property theorems only; proofs in ServerProofs.v. These lift the per-property
   theorems through the wiring of the real server, which the end-to-end parts of the C04 / C19 / C06 checks exercise
   (humphrey_server::server::main started from configuration texts, model = serve_text on the same text). *)
From Hv Require Import Prelude Bytes TablesHttp TablesConfig Http Krauss Routing RoutingProofs Blacklist StaticFs StaticFsProofs
  Config BytesProofs Server ServerProofs ServerNoPanicProofs.
Open Scope N_scope.

(* C06: a 200 answer of the server comes from the route the App matched (ch), and when that route is a `directory` route
   the body is the content of a regular file under the configured directory *)
Theorem C06_server_directory_confined :
  forall ipp fs (c : config) p req body ct,
    server_response ipp fs c p req = SStatic (R200 body ct) ->
    exists ch rt,
      get_handler (map subapp_of (cf_hosts c)) (subapp_of (cf_default_host c))
                  (option_map scalars (hget (HKnown H_Host) (r_headers req))) (scalars (r_uri req)) = Some ch /\
      get_route c (fst (handler_ids ch)) (snd (handler_ids ch)) = Some rt /\
      (rt_type rt = RT_Directory ->
       forall d root, rt_path rt = Some d -> walk fs [] (split_on SLASH (trim_end_slashes d)) = Some root ->
       exists loc, under root loc /\ node_at fs loc = Some (File body)).
Proof. exact server_directory_confined. Qed.

(* a `directory` route the router chose always answers: directory_handler's prefix strip (String::remove(0) per pattern
   character) cannot panic on a path its pattern matched, so neither the handler nor the missing-path case occurs.
   Paths and patterns are Rust Strings, hence valid UTF-8. *)
Theorem C06_server_directory_always_answers :
  forall ipp fs (c : config) p req,
    utf8 (r_uri req) ->
    (forall rt, In rt (hc_routes (cf_default_host c)) -> utf8 (rt_matches rt)) ->
    (forall hc rt, In hc (cf_hosts c) -> In rt (hc_routes hc) -> utf8 (rt_matches rt)) ->
    forall ch rt,
      get_handler (map subapp_of (cf_hosts c)) (subapp_of (cf_default_host c))
                  (option_map scalars (hget (HKnown H_Host) (r_headers req))) (scalars (r_uri req)) = Some ch ->
      get_route c (fst (handler_ids ch)) (snd (handler_ids ch)) = Some rt ->
      rt_type rt = RT_Directory -> rt_path rt <> None ->
      is_upgrade req = false ->
      server_response ipp fs c p req <> SStatic RPanic /\ server_response ipp fs c p req <> SPanic.
Proof. exact server_directory_never_panics. Qed.

Theorem C06_directory_handler_never_panics :
  forall fs (directory matches uri : bytes),
    utf8 matches -> utf8 uri -> wildcard_match (scalars matches) (scalars uri) = true ->
    directory_handler fs directory matches uri <> RPanic.
Proof. exact directory_handler_never_panics. Qed.

Print Assumptions C06_server_directory_confined.
Print Assumptions C06_server_directory_always_answers.
Print Assumptions C06_directory_handler_never_panics.
