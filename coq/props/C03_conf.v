(* C03 (configuration part) — parse_conf + Config::from_tree terminate on every input with a value or an error: no panic
   site is reachable, the loops never exhaust their fuel, and nesting (sections and include files) is bounded by MAX_DEPTH.
   Property theorems only. *)
From Hv Require Import Prelude Bytes TablesConfig Config ConfigProofs.
Open Scope N_scope.

(* For EVERY configuration text that is valid UTF-8 (the API takes &str), EVERY file system behind `include` and the
   blacklist file (missing files, directories, invalid UTF-8, cycles) and EVERY IP-address parser: the model of
   parse_conf + Config::from_tree (after the repairs F10-F13) returns a configuration or an error; it never reaches a
   panic site (slice, unwrap, arithmetic) and never runs out of loop fuel (fuel = lines remaining + 1: every iteration
   consumes a line, so this is termination). *)
Theorem C03_config_parse_safe :
  forall (ipp : bytes -> option bytes) (files : bytes -> fentry) (file conf : bytes), utf8_valid conf = true ->
    match load ipp files file conf with
    | ROk _ => True
    | RErr e => ce_class e <> E_Fuel
    | RCrash _ => False
    end.
Proof. exact config_parse_safe. Qed.

(* Recursion is bounded: the recursive descent has MAX_DEPTH levels (sections and include files together); a request to
   go deeper is the error E_Depth at the line that asked for it, and a tree that is returned is at most MAX_DEPTH deep
   (so flatten / get_routes / drop recurse at most that far). *)
Theorem C03_config_depth_exhausted :
  forall (files : bytes -> fentry) (fuel : nat) (name file : bytes) (ls : list bytes) (ln : N),
    parse_section files 0 fuel name file ls ln = RErr (mkerr E_Depth file ln).
Proof. intros. reflexivity. Qed.

Theorem C03_config_tree_depth_bounded :
  forall (files : bytes -> fentry) (file conf : bytes), utf8_valid conf = true ->
    match parse_conf files file conf with
    | ROk t => (tree_depth t <= conf_max_depth)%nat
    | RErr e => ce_class e <> E_Fuel
    | RCrash _ => False
    end.
Proof. exact parse_conf_safe. Qed.

(* Every nested parse consumes at least the line that opened it and returns a section. *)
Theorem C03_config_section_progress :
  forall (files : bytes -> fentry) (d fuel : nat) (name file : bytes) (ls : list bytes) (ln : N),
    (length ls < fuel)%nat -> Forall (fun l => async l = true) ls ->
    match parse_section files d fuel name file ls ln with
    | ROk (n, (rest, _)) =>
      (exists p, ls = p ++ rest /\ (length rest < length ls)%nat) /\ (exists nm cs, n = NSec nm cs) /\ (tree_depth n <= d)%nat
    | RErr e => ce_class e <> E_Fuel
    | RCrash _ => False
    end.
Proof. exact parse_section_safe. Qed.

(* Non-vacuity / the repaired panic sites: `size 1é` (F10: slice off a char boundary), `size 99999999999G` (F10: i64
   overflow), `host " {` (F11: raw[1..0]), 70 nested sections (F12) and a file that includes itself (F13) are plain
   results: value errors at line 2, a host named `"`, and E_Depth at line 65 of the main file / line 1 of the included file. *)
Example C03_config_former_panics :
  to_outcome (parse_conf (fun _ => FNone) [109] [115;101;114;118;101;114;32;123;10;32;115;105;122;101;32;49;195;169;10;125;10]) = Err E_Value /\
  to_outcome (parse_conf (fun _ => FNone) [109] [115;101;114;118;101;114;32;123;10;32;115;105;122;101;32;57;57;57;57;57;57;57;57;57;57;57;71;10;125;10]) = Err E_Value /\
  parse_conf (fun _ => FNone) [109] [115;101;114;118;101;114;32;123;10;32;104;111;115;116;32;34;32;123;10;32;125;10;125;10] = ROk (NSec kw_server [NHost [34] []]) /\
  parse_conf (fun _ => FNone) [109] [115;101;114;118;101;114;32;123;10;97;32;123;10;97;32;123;10;97;32;123;10;97;32;123;10;97;32;123;10;97;32;123;10;97;32;123;10;97;32;123;10;97;32;123;10;97;32;123;10;97;32;123;10;97;32;123;10;97;32;123;10;97;32;123;10;97;32;123;10;97;32;123;10;97;32;123;10;97;32;123;10;97;32;123;10;97;32;123;10;97;32;123;10;97;32;123;10;97;32;123;10;97;32;123;10;97;32;123;10;97;32;123;10;97;32;123;10;97;32;123;10;97;32;123;10;97;32;123;10;97;32;123;10;97;32;123;10;97;32;123;10;97;32;123;10;97;32;123;10;97;32;123;10;97;32;123;10;97;32;123;10;97;32;123;10;97;32;123;10;97;32;123;10;97;32;123;10;97;32;123;10;97;32;123;10;97;32;123;10;97;32;123;10;97;32;123;10;97;32;123;10;97;32;123;10;97;32;123;10;97;32;123;10;97;32;123;10;97;32;123;10;97;32;123;10;97;32;123;10;97;32;123;10;97;32;123;10;97;32;123;10;97;32;123;10;97;32;123;10;97;32;123;10;97;32;123;10;97;32;123;10;97;32;123;10;97;32;123;10;97;32;123;10;97;32;123;10;97;32;123;10;97;32;123;10;97;32;123;10;125;10;125;10;125;10;125;10;125;10;125;10;125;10;125;10;125;10;125;10;125;10;125;10;125;10;125;10;125;10;125;10;125;10;125;10;125;10;125;10;125;10;125;10;125;10;125;10;125;10;125;10;125;10;125;10;125;10;125;10;125;10;125;10;125;10;125;10;125;10;125;10;125;10;125;10;125;10;125;10;125;10;125;10;125;10;125;10;125;10;125;10;125;10;125;10;125;10;125;10;125;10;125;10;125;10;125;10;125;10;125;10;125;10;125;10;125;10;125;10;125;10;125;10;125;10;125;10;125;10;125;10;125;10;125;10;125;10;125;10;125;10] = RErr (mkerr E_Depth [109] 65) /\
  parse_conf (fun p => if beq p [115] then FData [105;110;99;108;117;100;101;32;34;115;34;10] else FNone) [109] [115;101;114;118;101;114;32;123;10;32;105;110;99;108;117;100;101;32;34;115;34;10;125;10] = RErr (mkerr E_Depth [115] 1).
Proof. vm_compute. repeat split. Qed.

Print Assumptions C03_config_parse_safe.
Print Assumptions C03_config_depth_exhausted.
Print Assumptions C03_config_tree_depth_bounded.
Print Assumptions C03_config_section_progress.
Print Assumptions C03_config_former_panics.
