(* C11 — WebSocket endpoint: valid handshake, well-formed frames out, ping/close answered.
   Property theorems only: each is closed by `exact <lemma>`; statements are written out in full here so that weakening
   a lemma elsewhere breaks this file.

   Vocabulary (coq/theories).  WsMessage.v is the model of humphrey-ws/src/{message,stream,handler}.rs, of
   Frame::from_stream_nonblocking and of the `Upgrade: websocket` hand-off in humphrey/src/app.rs, after the repairs F20
   (replies and the drop-time Close are serialised frames) and F21 (a partially received header is completed):
     handshake / handshake_bytes / upgrade      the opening handshake (C18's Sha1.v and Base64.v, C07's serialize_response)
     recv : chunks -> recv_out                  WebsocketStream::recv over a socket that delivers the given reads (Stream.v):
                                                result, the write_all calls made meanwhile, the reader afterwards
     serve echo limit : chunks -> serve_out     a handler looping recv() until it fails (or `limit` messages were delivered),
                                                echoing every message with send() if `echo`, then dropping the stream:
                                                the messages, the final error, every write incl. the one made by Drop
     recv_nb avail / poll_loop                  WebsocketStream::recv_nonblocking; `avail off` = bytes that have arrived and
                                                are unread when a non-blocking header read is made after `off` consumed bytes
   WsMessageSpec.v is the RFC side: script_okb (RFC 6455 5.4/5.5: which frame sequences a client may send), client_frame
   (a well-formed masked frame value, any key), messages_of / replies_of / echo_replies_of (what the script means),
   accept_spec (Base64(SHA-1(key ++ GUID)) on the RFC-side definitions of C18).  The frame layer is C10's: encode,
   decode, FrameBytes (RFC 6455 5.2 layout), wf. *)
From Hv Require Import Prelude Bytes Stream StreamProofs Frame FrameSpec FrameProofs TablesHttp TablesWs Http
  WsMessage WsMessageSpec WsMessageProofs.
From Hv Require Sha1Spec Base64Spec.
Open Scope N_scope.

(* ---- opening handshake ---- *)

(* For EVERY key value (any bytes — printable or not, empty, long: below 2^60 bytes, the bound of the SHA-1 length
   arithmetic) found in the first Sec-WebSocket-Key header (name matched case-insensitively: header names are stored
   lower-cased), the handshake writes exactly
     HTTP/1.1 101 Switching Protocols CRLF Connection: Upgrade CRLF Upgrade: websocket CRLF
     sec-websocket-accept: Base64(SHA-1(key ++ "258EAFA5-E914-47DA-95CA-C5AB0DC85B11")) CRLF CRLF
   with SHA-1 and Base64 as defined by RFC 3174 / RFC 4648 (Sha1Spec.v, Base64Spec.v). *)
Theorem C11_handshake_accept :
  forall (req : request) (key : bytes),
    hget (HCustom [115; 101; 99; 45; 119; 101; 98; 115; 111; 99; 107; 101; 116; 45; 107; 101; 121]) (r_headers req) = Some key ->
    Forall byte key -> blen key < 2 ^ 60 ->
    handshake req = Ok (response_101 (Base64Spec.encode_spec (Sha1Spec.sha1_spec (key ++ RFC_GUID)))) /\
    handshake_bytes req =
      Ok (head_101 ++ Base64Spec.encode_spec (Sha1Spec.sha1_spec (key ++ RFC_GUID)) ++ [13; 10; 13; 10]).
Proof. exact handshake_accept. Qed.

(* the status line really is 101 Switching Protocols, and the GUID of the Rust source is the RFC's *)
Theorem C11_handshake_constants :
  status_code (s_status (response_101 [])) = 101 /\
  status_phrase (s_status (response_101 [])) = [83; 119; 105; 116; 99; 104; 105; 110; 103; 32; 80; 114; 111; 116; 111; 99; 111; 108; 115] /\
  MAGIC_STRING = RFC_GUID /\
  hname_of WS_KEY_HEADER = HCustom [115; 101; 99; 45; 119; 101; 98; 115; 111; 99; 107; 101; 116; 45; 107; 101; 121].
Proof. exact (conj (proj1 status_101) (conj (proj2 status_101) (conj magic_is_guid key_name_eq))). Qed.

(* A request without the key header is not upgraded: the handshake fails and nothing is written. *)
Theorem C11_handshake_no_key :
  forall req : request,
    hget (HCustom [115; 101; 99; 45; 119; 101; 98; 115; 111; 99; 107; 101; 116; 45; 107; 101; 121]) (r_headers req) = None ->
    handshake req = Err HandshakeError /\ handshake_bytes req = Err HandshakeError.
Proof. exact handshake_no_key. Qed.

(* app.rs: only a request whose Upgrade header is exactly "websocket" is handed to the WebSocket handler. *)
Theorem C11_upgrade_handoff :
  forall req : request,
    upgrade req =
    match hget (HKnown H_Upgrade) (r_headers req) with
    | Some v => if beq v [119; 101; 98; 115; 111; 99; 107; 101; 116] then Some (handshake_bytes req) else None
    | None => None
    end.
Proof. exact upgrade_spec. Qed.

(* ---- receiving: messages, replies, closing ---- *)

(* For EVERY well-formed client script (any number of frames, any payload sizes below 2^63, any masking keys;
   fragmentation into any number of fragments, control frames anywhere between them), delivered under ANY split into
   reads, and followed by nothing / by the beginning of one more frame (abrupt disconnect) / — when the script contains a
   Close — by anything at all:
     - the handler receives exactly the messages the script sends, in order (fragments concatenated, text or binary from
       the first fragment), nothing after the first Close;
     - the loop ends with ConnectionClosed if the script contains a Close, with ReadError otherwise;
     - the server writes exactly: one Pong per Ping, same payload, in order; the echo of each message at the point where
       it was completed (if the handler echoes); one Close echoing the client's Close payload — or, when the stream ends
       without a Close, the Close written by Drop.  Nothing else. *)
Theorem C11_recv_delivers :
  forall (echo : bool) (fs : list frame) (tail : bytes) (cs : chunks),
    Forall client_frame fs -> script_okb false fs = true -> wf_chunks cs ->
    concat cs = concat (map encode fs) ++ tail ->
    (has_close fs = true \/ tail = [] \/ exists g, wf g /\ strict_prefix tail (encode g)) ->
    s_msgs (serve echo None cs) = messages_of None fs /\
    s_final (serve echo None cs) = Err (if has_close fs then ConnectionClosed else ReadError) /\
    s_writes (serve echo None cs) =
      map encode (if echo then echo_replies_of None fs else replies_of fs) ++
      (if has_close fs then [] else [encode (server_frame Close [])]).
Proof. exact serve_script. Qed.

(* Everything the server wrote in such a session is a sequence of well-formed unmasked frames: it is the concatenation
   of the RFC 6455 5.2 layouts (shortest length form) of the reply frames, each of them unmasked, and any reader — under
   any split — parses it back into exactly those frames with nothing left over (C10's decoder). *)
Theorem C11_writes_are_frames :
  forall (echo : bool) (fs : list frame) (tail : bytes) (cs : chunks),
    Forall client_frame fs -> script_okb false fs = true -> wf_chunks cs ->
    concat cs = concat (map encode fs) ++ tail ->
    (has_close fs = true \/ tail = [] \/ exists g, wf g /\ strict_prefix tail (encode g)) ->
    (echo = true -> blen (concat (map payload fs)) < 2 ^ 63) ->
    let R := (if echo then echo_replies_of None fs else replies_of fs) ++
             (if has_close fs then [] else [server_frame Close []]) in
    s_writes (serve echo None cs) = map encode R /\
    Forall (fun g => wf g /\ mask g = false /\ FrameBytes g (encode g)) R /\
    (forall ws, wf_chunks ws -> concat ws = concat (s_writes (serve echo None cs)) ->
       exists ws', decode_many (length R) ws = Ok (R, ws') /\ concat ws' = [] /\ wf_chunks ws').
Proof. exact script_writes_are_frames. Qed.

(* The first clause for EVERY client, not only well-behaved ones: whatever bytes arrive (any byte string below 2^63
   bytes, any split into reads), whatever the handler does of what is modelled (echo or not, any message limit),
   everything the server writes is the concatenation of the RFC 6455 5.2 layouts (shortest length form) of unmasked
   frames, and parses back into exactly those frames under any split. *)
Theorem C11_writes_always_frames :
  forall (echo : bool) (limit : option nat) (cs : chunks),
    wf_chunks cs -> Forall byte (concat cs) -> total_len cs < 2 ^ 63 ->
    exists R, s_writes (serve echo limit cs) = map encode R /\
      Forall (fun g => wf g /\ mask g = false /\ FrameBytes g (encode g)) R /\
      (forall ws, wf_chunks ws -> concat ws = concat (s_writes (serve echo limit cs)) ->
         exists ws', decode_many (length R) ws = Ok (R, ws') /\ concat ws' = [] /\ wf_chunks ws').
Proof. exact serve_writes_always_frames. Qed.

(* "a Close is answered by a Close ... dropping the stream sends a Close", for every input and every ending: the last
   thing the server writes in a session is a Close frame — the echo of the client's Close payload when the session ended
   with ConnectionClosed, the empty Close written by Drop in every other case (end of input, truncated frame, reserved
   opcode, handler stopped after `limit` messages). *)
Theorem C11_drop_sends_close :
  forall (echo : bool) (limit : option nat) (cs : chunks),
    exists ws p, s_writes (serve echo limit cs) = ws ++ [encode (server_frame Close p)] /\
                 (s_final (serve echo limit cs) <> Err ConnectionClosed -> p = []).
Proof. intros echo limit cs. exact (serve_ends_with_close echo (fuel_of cs) cs limit (fuel_of_ok cs)). Qed.

(* Ending by server drop: a handler that stops after n >= 1 messages and drops the stream has received exactly the
   messages of the shortest script prefix holding n complete messages (cut_after), has answered exactly the control
   frames of that prefix, and the Close written by Drop follows (unless that prefix already ended with the client's
   Close); the rest of the script is never read. *)
Theorem C11_server_drop :
  forall (echo : bool) (n : nat) (fs : list frame) (tail : bytes) (cs : chunks),
    Forall client_frame fs -> script_okb false fs = true -> wf_chunks cs ->
    concat cs = concat (map encode fs) ++ tail ->
    (has_close fs = true \/ tail = [] \/ exists g, wf g /\ strict_prefix tail (encode g)) ->
    let seen := cut_after (S n) fs in
    s_msgs (serve echo (Some (S n)) cs) = messages_of None seen /\
    s_final (serve echo (Some (S n)) cs) =
      (if has_close seen then Err ConnectionClosed
       else if Nat.eqb (length (messages_of None seen)) (S n) then Ok tt else Err ReadError) /\
    s_writes (serve echo (Some (S n)) cs) =
      map encode (if echo then echo_replies_of None seen else replies_of seen) ++
      (if has_close seen then [] else [encode (server_frame Close [])]).
Proof. exact serve_limit_script. Qed.

Theorem C11_server_drop_at_once :
  forall (echo : bool) (cs : chunks), serve echo (Some O) cs = mkServe [] (Ok tt) [encode (server_frame Close [])] 0.
Proof. exact serve_limit0. Qed.

(* All deliveries of the client byte stream: two splits of the same script into reads give the same session. *)
Theorem C11_chunking_independent :
  forall (echo : bool) (limit : option nat) (fs : list frame) (tail : bytes) (cs1 cs2 : chunks),
    Forall client_frame fs -> script_okb false fs = true ->
    (has_close fs = true \/ tail = [] \/ exists g, wf g /\ strict_prefix tail (encode g)) ->
    wf_chunks cs1 -> concat cs1 = concat (map encode fs) ++ tail ->
    wf_chunks cs2 -> concat cs2 = concat (map encode fs) ++ tail ->
    s_msgs (serve echo limit cs1) = s_msgs (serve echo limit cs2) /\
    s_final (serve echo limit cs1) = s_final (serve echo limit cs2) /\
    s_writes (serve echo limit cs1) = s_writes (serve echo limit cs2).
Proof. exact serve_chunking_independent. Qed.

(* The same for EVERY client byte stream, well-formed script or not: two splits of the same bytes into reads give the
   same messages, the same final error and the same bytes written (so the malformed-input behaviour observed all-at-once
   is the behaviour byte-by-byte). *)
Theorem C11_chunking_independent_any_stream :
  forall (echo : bool) (limit : option nat) (cs1 cs2 : chunks),
    wf_chunks cs1 -> wf_chunks cs2 -> concat cs1 = concat cs2 -> Forall byte (concat cs1) ->
    s_msgs (serve echo limit cs1) = s_msgs (serve echo limit cs2) /\
    s_final (serve echo limit cs1) = s_final (serve echo limit cs2) /\
    s_writes (serve echo limit cs1) = s_writes (serve echo limit cs2).
Proof.
  intros echo limit cs1 cs2 W1 W2 Hc HB.
  exact (serve_same_stream echo (fuel_of cs1) cs1 cs2 limit (fuel_of_ok cs1) (conj W1 (conj W2 Hc)) HB).
Qed.

(* ---- blocking and non-blocking receive ---- *)

(* The non-blocking frame read: with at least one byte available (k >= 1; 1, 2 or more) and a peer that has not closed,
   it returns exactly what the blocking frame read returns on the same reader; with nothing available (k = 0), or at
   end of stream, it reports "nothing yet" without touching the reader. *)
Theorem C11_frame_nb_agrees :
  forall (k : N) (cs : chunks),
    wf_chunks cs ->
    (1 <= k -> cs <> [] -> frame_nb k cs = Some (decode_m cs)) /\ frame_nb 0 cs = None /\ frame_nb k [] = None.
Proof. intros k cs W. exact (conj (fun H1 H2 => frame_nb_agrees k cs H1 W H2) (conj (frame_nb_zero cs) (frame_nb_eof k))). Qed.

(* One recv_nonblocking call against one recv call on the same reader, for EVERY arrival pattern `avail` (the number of
   bytes available at each non-blocking header read of the call): either the call returns a result, and then it is the
   blocking call's result, with the same replies written and the same bytes left; or it reports "nothing yet", and then
   (a) it has only consumed whole Ping/Pong frames and written the Pongs, (b) the blocking call on the original reader
   equals those Pongs followed by the blocking call on what is left, and (c) no byte of the next frame had arrived when
   it gave up (k = 0 at that read), or the peer has closed. *)
Theorem C11_nb_agrees :
  forall (avail : N -> N) (cs : chunks),
    wf_chunks cs ->
    match n_res (recv_nb avail cs) with
    | Some r =>
      r_res (recv cs) = r /\ r_writes (recv cs) = n_writes (recv_nb avail cs) /\ r_rest (recv cs) = n_rest (recv_nb avail cs)
    | None =>
      wf_chunks (n_rest (recv_nb avail cs)) /\
      r_res (recv cs) = r_res (recv (n_rest (recv_nb avail cs))) /\
      r_writes (recv cs) = n_writes (recv_nb avail cs) ++ r_writes (recv (n_rest (recv_nb avail cs))) /\
      r_rest (recv cs) = r_rest (recv (n_rest (recv_nb avail cs))) /\
      (n_rest (recv_nb avail cs) = [] \/ avail (total_len cs - total_len (n_rest (recv_nb avail cs))) = 0)
    end.
Proof. exact recv_nb_refines. Qed.

(* k = 0 at the start of the call: nothing yet, no byte consumed, nothing written. *)
Theorem C11_nb_nothing_yet :
  forall (avail : N -> N) (cs : chunks), avail 0 = 0 -> recv_nb avail cs = mkNb None [] cs 0.
Proof. exact recv_nb_nothing. Qed.

(* "Blocking and non-blocking receive agree on the messages": a handler that polls recv_nonblocking, under ANY sequence of
   arrival patterns, until a call fails, has received the messages, the final error and caused the writes of the blocking
   session on the same stream; if it stops polling earlier it has received a prefix, and the blocking loop run on the
   remaining stream delivers exactly the rest. *)
Theorem C11_polling_agrees :
  forall (avs : list (N -> N)) (cs : chunks),
    wf_chunks cs ->
    let p := poll_loop avs cs in
    if p_open p then
      s_msgs (serve false None cs) = poll_msgs (p_results p) ++ s_msgs (serve false None (p_rest p)) /\
      s_final (serve false None cs) = s_final (serve false None (p_rest p)) /\
      s_writes (serve false None cs) = p_writes p ++ s_writes (serve false None (p_rest p)) /\
      poll_final (p_results p) = Ok tt
    else
      s_msgs (serve false None cs) = poll_msgs (p_results p) /\
      s_final (serve false None cs) = poll_final (p_results p) /\
      s_writes (serve false None cs) = p_writes p.
Proof. exact poll_then_serve. Qed.

(* ---- the code as it was at the pinned commit ---- *)
(* F20: Ping "hi", an empty Ping and Close 1000 were answered with the four bytes 68 69 03 e8 — the bare payloads, which
   are not frames (a reader gets a read error) — instead of 8a 02 68 69 | 8a 00 | 88 02 03 e8. *)
Theorem C11_replies_old_refuted :
  exists fs cs, Forall client_frame fs /\ script_okb false fs = true /\ wf_chunks cs /\ concat cs = concat (map encode fs) /\
    concat (s_writes (serve_old false None cs)) = [104; 105; 3; 232] /\
    concat (s_writes (serve_old false None cs)) <> concat (writes_spec false None fs) /\
    decode [concat (s_writes (serve_old false None cs))] = Err ReadError /\
    s_writes (serve false None cs) = writes_spec false None fs /\
    s_writes (serve false None cs) = [[138; 2; 104; 105]; [138; 0]; [136; 2; 3; 232]].
Proof. exact serve_old_refuted. Qed.

(* F20: dropping an open stream wrote no byte; now it writes the Close frame 88 00. *)
Theorem C11_drop_old_refuted : concat (drop_stream_old false) = [] /\ drop_stream false = [[136; 0]].
Proof. exact drop_old_refuted. Qed.

(* F21: with one byte of a frame available, the old non-blocking receive returned an empty text message and left the
   rest of the frame to be misread as a frame with a reserved opcode. *)
Theorem C11_nonblocking_old_refuted :
  exists cs, wf_chunks cs /\ concat cs = encode ex_text /\
    n_res (recv_nb_old (fun _ => 1) cs) = Some (Ok (mkMsg true [])) /\
    r_res (recv cs) = Ok (mkMsg true [104; 101; 108; 108; 111]) /\
    n_res (recv_nb (fun _ => 1) cs) = Some (Ok (mkMsg true [104; 101; 108; 108; 111])) /\
    r_res (recv (n_rest (recv_nb_old (fun _ => 1) cs))) = Err InvalidOpcode.
Proof. exact recv_nb_old_refuted. Qed.

(* ---- non-vacuity ---- *)
Example C11_example_frames : Forall client_frame [ex_ping; ex_ping0; ex_text; ex_close].
Proof. exact ex_client_frames. Qed.

(* a script with a message in two fragments with a Ping between them, an empty Ping, a whole message, a Close, and a
   frame after the Close; its meaning; what a handler that drops after one message sees *)
Example C11_example_script :
  Forall client_frame ex_script /\ script_okb false ex_script = true /\ has_close ex_script = true /\
  messages_of None ex_script = [mkMsg true [104; 101; 108; 108; 111]; mkMsg true [104; 101; 108; 108; 111]] /\
  map encode (replies_of ex_script) = [[138; 2; 104; 105]; [138; 0]; [136; 2; 3; 232]] /\
  cut_after 1 ex_script = [ex_frag1; ex_ping; ex_frag2].
Proof. exact ex_script_ok. Qed.

(* the model run on that script, delivered one byte per read, echoing *)
Example C11_example_run :
  let o := serve true None (bytewise (concat (map encode ex_script))) in
  s_msgs o = messages_of None ex_script /\ s_final o = Err ConnectionClosed /\
  s_writes o = [[138; 2; 104; 105]; [129; 5; 104; 101; 108; 108; 111]; [138; 0]; [129; 5; 104; 101; 108; 108; 111]; [136; 2; 3; 232]].
Proof. exact ex_script_run. Qed.

Print Assumptions C11_handshake_accept.
Print Assumptions C11_handshake_constants.
Print Assumptions C11_handshake_no_key.
Print Assumptions C11_upgrade_handoff.
Print Assumptions C11_recv_delivers.
Print Assumptions C11_writes_are_frames.
Print Assumptions C11_writes_always_frames.
Print Assumptions C11_drop_sends_close.
Print Assumptions C11_server_drop.
Print Assumptions C11_server_drop_at_once.
Print Assumptions C11_chunking_independent.
Print Assumptions C11_chunking_independent_any_stream.
Print Assumptions C11_frame_nb_agrees.
Print Assumptions C11_nb_agrees.
Print Assumptions C11_nb_nothing_yet.
Print Assumptions C11_polling_agrees.
Print Assumptions C11_replies_old_refuted.
Print Assumptions C11_drop_old_refuted.
Print Assumptions C11_nonblocking_old_refuted.
Print Assumptions C11_example_frames.
Print Assumptions C11_example_script.
Print Assumptions C11_example_run.
