(* C11 — WebSocket endpoint: valid handshake, well-formed frames out, ping/close answered.
   Property theorems only: each is closed by `exact <lemma>`; statements are written out in full here so that weakening
   a lemma elsewhere breaks this file.

   Vocabulary (coq/theories).  WsMessage.v is the model of humphrey-ws/src/{message,stream,handler}.rs, of
   Frame::from_stream_nonblocking and of the `Upgrade: websocket` hand-off in humphrey/src/app.rs, after the repairs F20
   (replies and the drop-time Close are serialised frames) and F21 (a partially received header is completed):
     handshake / handshake_bytes / upgrade      the opening handshake (C18's Sha1.v and Base64.v, C07's serialize_response)
     recv : chunks -> recv_out                  WebsocketStream::recv over a socket that delivers the given reads (Stream.v):
                                                result, the write_all calls made meanwhile, the reader afterwards
     serve echo limit : chunks -> serve_out     a handler looping recv() until it fails (or `limit` messages were delivered),
                                                echoing every message with send() if `echo`, then dropping the stream:
                                                the messages, the final error, every write incl. the one made by Drop
     recv_nb avail / poll_loop                  WebsocketStream::recv_nonblocking; `avail off` = bytes that have arrived and
                                                are unread when a non-blocking header read is made after `off` consumed bytes
   WsMessageSpec.v is the RFC side: script_okb (RFC 6455 5.4/5.5: which frame sequences a client may send), client_frame
   (a well-formed masked frame value, any key), messages_of / replies_of / echo_replies_of (what the script means),
   accept_spec (Base64(SHA-1(key ++ GUID)) on the RFC-side definitions of C18).  The frame layer is C10's: encode,
   decode, FrameBytes (RFC 6455 5.2 layout), wf. *)
From Hv Require Import Prelude Bytes Stream StreamProofs Frame FrameSpec FrameProofs TablesHttp TablesWs Http
  WsMessage WsMessageSpec WsMessageProofs.
From Hv Require Sha1Spec Base64Spec.
Open Scope N_scope.

(* ---- opening handshake ---- *)

(* For EVERY key value (any bytes — printable or not, empty, long: below 2^60 bytes, the bound of the SHA-1 length
   arithmetic) found in the first Sec-WebSocket-Key header (name matched case-insensitively: header names are stored
   lower-cased), the handshake writes exactly
     HTTP/1.1 101 Switching Protocols CRLF Connection: Upgrade CRLF Upgrade: websocket CRLF
     sec-websocket-accept: Base64(SHA-1(key ++ "258EAFA5-E914-47DA-95CA-C5AB0DC85B11")) CRLF CRLF
   with SHA-1 and Base64 as defined by RFC 3174 / RFC 4648 (Sha1Spec.v, Base64Spec.v). *)
Theorem C11_handshake_accept :
  forall (req : request) (key : bytes),
    hget (HCustom [115; 101; 99; 45; 119; 101; 98; 115; 111; 99; 107; 101; 116; 45; 107; 101; 121]) (r_headers req) = Some key ->
    Forall byte key -> blen key < 2 ^ 60 ->
    handshake req = Ok (response_101 (Base64Spec.encode_spec (Sha1Spec.sha1_spec (key ++ RFC_GUID)))) /\
    handshake_bytes req =
      Ok (head_101 ++ Base64Spec.encode_spec (Sha1Spec.sha1_spec (key ++ RFC_GUID)) ++ [13; 10; 13; 10]).
Proof. exact handshake_accept. Qed.

(* the status line really is 101 Switching Protocols, and the GUID of the Rust source is the RFC's *)
Theorem C11_handshake_constants :
  status_code (s_status (response_101 [])) = 101 /\
  status_phrase (s_status (response_101 [])) = [83; 119; 105; 116; 99; 104; 105; 110; 103; 32; 80; 114; 111; 116; 111; 99; 111; 108; 115] /\
  MAGIC_STRING = RFC_GUID /\
  hname_of WS_KEY_HEADER = HCustom [115; 101; 99; 45; 119; 101; 98; 115; 111; 99; 107; 101; 116; 45; 107; 101; 121].
Proof. exact (conj (proj1 status_101) (conj (proj2 status_101) (conj magic_is_guid key_name_eq))). Qed.

(* A request without the key header is not upgraded: the handshake fails and nothing is written. *)
Theorem C11_handshake_no_key :
  forall req : request,
    hget (HCustom [115; 101; 99; 45; 119; 101; 98; 115; 111; 99; 107; 101; 116; 45; 107; 101; 121]) (r_headers req) = None ->
    handshake req = Err HandshakeError /\ handshake_bytes req = Err HandshakeError.
Proof. exact handshake_no_key. Qed.

(* app.rs: only a request whose Upgrade header is exactly "websocket" is handed to the WebSocket handler. *)
Theorem C11_upgrade_handoff :
  forall req : request,
    upgrade req =
    match hget (HKnown H_Upgrade) (r_headers req) with
    | Some v => if beq v [119; 101; 98; 115; 111; 99; 107; 101; 116] then Some (handshake_bytes req) else None
    | None => None
    end.
Proof. exact upgrade_spec. Qed.

(* ---- receiving: messages, replies, closing ---- *)

(* For EVERY well-formed client script (any number of frames, any payload sizes below 2^63, any masking keys;
   fragmentation into any number of fragments, control frames anywhere between them), delivered under ANY split into
   reads, and followed by nothing / by the beginning of one more frame (abrupt disconnect) / — when the script contains a
   Close — by anything at all:
     - the handler receives exactly the messages the script sends, in order (fragments concatenated, text or binary from
       the first fragment), nothing after the first Close;
     - the loop ends with ConnectionClosed if the script contains a Close, with ReadError otherwise;
     - the server writes exactly: one Pong per Ping, same payload, in order; the echo of each message at the point where
       it was completed (if the handler echoes); one Close echoing the client's Close payload — or, when the stream ends
       without a Close, the Close written by Drop.  Nothing else. *)
Theorem C11_recv_delivers :
  forall (echo : bool) (fs : list frame) (tail : bytes) (cs : chunks),
    Forall client_frame fs -> script_okb false fs = true -> wf_chunks cs ->
    concat cs = concat (map encode fs) ++ tail ->
    (has_close fs = true \/ tail = [] \/ exists g, wf g /\ strict_prefix tail (encode g)) ->
    s_msgs (serve echo None cs) = messages_of None fs /\
    s_final (serve echo None cs) = Err (if has_close fs then ConnectionClosed else ReadError) /\
    s_writes (serve echo None cs) =
      map encode (if echo then echo_replies_of None fs else replies_of fs) ++
      (if has_close fs then [] else [encode (server_frame Close [])]).
Proof. exact serve_script. Qed.

(* Everything the server wrote in such a session is a sequence of well-formed unmasked frames: it is the concatenation
   of the RFC 6455 5.2 layouts (shortest length form) of the reply frames, each of them unmasked, and any reader — under
   any split — parses it back into exactly those frames with nothing left over (C10's decoder). *)
Theorem C11_writes_are_frames :
  forall (echo : bool) (fs : list frame) (tail : bytes) (cs : chunks),
    Forall client_frame fs -> script_okb false fs = true -> wf_chunks cs ->
    concat cs = concat (map encode fs) ++ tail ->
    (has_close fs = true \/ tail = [] \/ exists g, wf g /\ strict_prefix tail (encode g)) ->
    (echo = true -> blen (concat (map payload fs)) < 2 ^ 63) ->
    let R := (if echo then echo_replies_of None fs else replies_of fs) ++
             (if has_close fs then [] else [server_frame Close []]) in
    s_writes (serve echo None cs) = map encode R /\
    Forall (fun g => wf g /\ mask g = false /\ FrameBytes g (encode g)) R /\
    (forall ws, wf_chunks ws -> concat ws = concat (s_writes (serve echo None cs)) ->
       exists ws', decode_many (length R) ws = Ok (R, ws') /\ concat ws' = [] /\ wf_chunks ws').
Proof. exact script_writes_are_frames. Qed.

(* ---- the code as it was at the pinned commit ---- *)
(* F20: Ping "hi", an empty Ping and Close 1000 were answered with the four bytes 68 69 03 e8 — the bare payloads, which
   are not frames (a reader gets a read error) — instead of 8a 02 68 69 | 8a 00 | 88 02 03 e8. *)
Theorem C11_replies_old_refuted :
  exists fs cs, Forall client_frame fs /\ script_okb false fs = true /\ wf_chunks cs /\ concat cs = concat (map encode fs) /\
    concat (s_writes (serve_old false None cs)) = [104; 105; 3; 232] /\
    concat (s_writes (serve_old false None cs)) <> concat (writes_spec false None fs) /\
    decode [concat (s_writes (serve_old false None cs))] = Err ReadError /\
    s_writes (serve false None cs) = writes_spec false None fs /\
    s_writes (serve false None cs) = [[138; 2; 104; 105]; [138; 0]; [136; 2; 3; 232]].
Proof. exact serve_old_refuted. Qed.

(* F20: dropping an open stream wrote no byte; now it writes the Close frame 88 00. *)
Theorem C11_drop_old_refuted : concat (drop_stream_old false) = [] /\ drop_stream false = [[136; 0]].
Proof. exact drop_old_refuted. Qed.

(* F21: with one byte of a frame available, the old non-blocking receive returned an empty text message and left the
   rest of the frame to be misread as a frame with a reserved opcode. *)
Theorem C11_nonblocking_old_refuted :
  exists cs, wf_chunks cs /\ concat cs = encode ex_text /\
    n_res (recv_nb_old (fun _ => 1) cs) = Some (Ok (mkMsg true [])) /\
    r_res (recv cs) = Ok (mkMsg true [104; 101; 108; 108; 111]) /\
    n_res (recv_nb (fun _ => 1) cs) = Some (Ok (mkMsg true [104; 101; 108; 108; 111])) /\
    r_res (recv (n_rest (recv_nb_old (fun _ => 1) cs))) = Err InvalidOpcode.
Proof. exact recv_nb_old_refuted. Qed.

(* ---- non-vacuity ---- *)
Example C11_example_frames : Forall client_frame [ex_ping; ex_ping0; ex_text; ex_close].
Proof. exact ex_client_frames. Qed.

Print Assumptions C11_handshake_accept.
Print Assumptions C11_handshake_constants.
Print Assumptions C11_handshake_no_key.
Print Assumptions C11_upgrade_handoff.
Print Assumptions C11_recv_delivers.
Print Assumptions C11_writes_are_frames.
Print Assumptions C11_replies_old_refuted.
Print Assumptions C11_drop_old_refuted.
Print Assumptions C11_nonblocking_old_refuted.
Print Assumptions C11_example_frames.
