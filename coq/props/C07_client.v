(* C07, client clause — "With redirect following enabled the client ends at the final non-redirect response."
   Property theorems only (proofs in ClientProofs.v); model in Client.v (ClientRequest::send and the request builders).
   resolves = name resolution, site = what each origin answers for a target, net = any exchange function that answers
   by target alone: all universally quantified. *)
From Hv Require Import Prelude Bytes BytesProofs TablesHttp TablesClient Http HttpRespSpec Client ClientProofs.
Open Scope N_scope.

(* The constants regenerated from client.rs on every run (tools/tables/client.py) are the ones the property names:
   the client follows exactly 301, 302 and 307 (a status is a redirect for the model iff its code is one of them), a
   Location is relative iff it starts with '/', the schemes are http:// (port 80) and https:// (port 443), and the next
   target is read from the Location header. *)
Theorem C07_client_tables :
  map status_code CLIENT_FOLLOWED_STATUS = [301; 302; 307] /\
  (forall s, s < status_count -> is_redirect s = true <-> In (status_code s) [301; 302; 307]) /\
  CLIENT_RELATIVE_FIRST_BYTE = 47 /\
  CLIENT_HTTP_PREFIX = [104;116;116;112;58;47;47] /\ CLIENT_HTTPS_PREFIX = [104;116;116;112;115;58;47;47] /\
  CLIENT_HTTP_PORT = 80 /\ CLIENT_HTTPS_PORT = 443 /\ CLIENT_LOCATION_HEADER_IS_LOCATION = true.
Proof. exact client_tables. Qed.

(* The client request builders (get / post / put / delete) and Client::parse_url: http://host/path?query is decomposed into
   exactly its parts (path and query optional), anything else is refused, and the request built names the host, asks for
   that path and query with the builder's method, and carries the data with its length (POST / PUT) or no body. *)
Theorem C07_client_parse_url :
  forall resolves host path query,
    nob SLASH host = true -> nob QMARK path = true -> resolves false host = true ->
    parse_url resolves (S_http ++ host ++ [SLASH] ++ path ++ [QMARK] ++ query) =
      Some {| u_https := false; u_host := host; u_path := SLASH :: path; u_query := query |} /\
    parse_url resolves (S_http ++ host ++ [SLASH] ++ path) =
      Some {| u_https := false; u_host := host; u_path := SLASH :: path; u_query := [] |} /\
    parse_url resolves (S_http ++ host) =
      Some {| u_https := false; u_host := host; u_path := [SLASH]; u_query := [] |}.
Proof. exact parse_url_http. Qed.

Theorem C07_client_parse_url_rejects :
  forall resolves s, strip_pre S_http s = None -> strip_pre S_https s = None -> parse_url resolves s = None.
Proof. exact parse_url_rejects. Qed.

Theorem C07_client_builders :
  forall resolves s u m data,
    parse_url resolves s = Some u ->
    (exists st, client_nobody resolves m s = Some st /\
       c_https st = u_https u /\ c_host st = u_host u /\ c_follow st = false /\ c_cookies st = [] /\
       r_method (c_req st) = m /\ r_uri (c_req st) = u_path u /\ r_query (c_req st) = u_query u /\
       r_version (c_req st) = V_HTTP11 /\ r_headers (c_req st) = [(HKnown H_Host, u_host u)] /\ r_content (c_req st) = None) /\
    (exists st, client_body resolves m s data = Some st /\
       c_https st = u_https u /\ c_host st = u_host u /\ c_follow st = false /\
       r_method (c_req st) = m /\ r_uri (c_req st) = u_path u /\ r_query (c_req st) = u_query u /\
       r_headers (c_req st) = [(HKnown H_Host, u_host u); (HKnown H_ContentLength, dec_render (N.of_nat (length data)))] /\
       r_content (c_req st) = Some data).
Proof. exact builders_spec. Qed.

(* For chains of EVERY length (ends_at is inductive: no bound), every mix of 301/302/307, every Location that is an
   absolute-path reference (with or without query) or an http:// URI whose host resolves, every cookie list, method and
   body: send returns the final response, and the targets it asked, in order, are exactly the targets of the chain. *)
Theorem C07_client_follows_chain :
  forall (resolves : bool -> bytes -> bool) (site : target -> outcome response)
         (net : bytes -> request -> outcome response),
    (forall h r, net h r = site {| t_https := false; t_host := h; t_path := r_uri r; t_query := r_query r |}) ->
    forall t ts r', ends_at resolves site t ts r' ->
    forall st fuel, matches st t -> c_follow st = true -> (length ts <= fuel)%nat ->
      fst (send resolves net fuel st) = Ok r' /\
      map target_of_exchange (snd (send resolves net fuel st)) = ts.
Proof. exact send_follows_chain. Qed.

(* ... in particular for the public entry point Client::get(url).with_redirects(true).send() *)
Theorem C07_client_get_follows_chain :
  forall resolves site net,
    (forall h r, net h r = site {| t_https := false; t_host := h; t_path := r_uri r; t_query := r_query r |}) ->
    forall s st ts r' fuel,
      client_nobody resolves M_Get s = Some st ->
      (forall u, parse_url resolves s = Some u -> ends_at resolves site (target_of_url u) ts r') ->
      (length ts <= fuel)%nat ->
      fst (send resolves net fuel (with_redirects st true)) = Ok r' /\
      map target_of_exchange (snd (send resolves net fuel (with_redirects st true))) = ts.
Proof. exact get_follows_chain. Qed.

(* without redirect following: one exchange, its answer returned as it is (redirect or not) *)
Theorem C07_client_no_follow :
  forall (resolves : bool -> bytes -> bool) (net : bytes -> request -> outcome response),
    forall st fuel, c_follow st = false -> c_https st = false ->
      exists req, r_uri req = r_uri (c_req st) /\ r_query req = r_query (c_req st) /\
        send resolves net (S fuel) st = (net (c_host st) req, [(false, c_host st, req)]).
Proof. exact send_no_follow. Qed.

(* each exchange returns exactly what a conforming origin sent (the "and therefore the HTTP client" half of the
   parser clause): Content-Length framing and chunked coding *)
Theorem C07_client_exchange_cl :
  forall origin h r hd body,
    origin h (serialize_request r) = render_head hd ++ body -> head_ok hd -> cl_framed hd body ->
    wire_net origin h r =
    Ok {| s_version := sh_version hd; s_status := sh_status hd; s_headers := head_headers hd; s_body := body |}.
Proof. exact wire_net_cl. Qed.

Theorem C07_client_exchange_chunked :
  forall origin h r hd up sizes body,
    origin h (serialize_request r) = render_head hd ++ chunked_encode up sizes body ->
    head_ok hd -> is_chunked (head_headers hd) -> sizes_ok sizes body ->
    wire_net origin h r =
    Ok {| s_version := sh_version hd; s_status := sh_status hd;
          s_headers := dechunked_headers (head_headers hd) body; s_body := body |}.
Proof. exact wire_net_chunked. Qed.

(* Non-vacuity: a three-hop chain (relative with query, absolute to another origin, relative) in a concrete world;
   the initial URL has a query that must not be inherited (the defect repaired by fix F36). *)
Definition ex_h0 : bytes := [104;48].  (* "h0" *)
Definition ex_h1 : bytes := [104;49].  (* "h1" *)
Definition ex_resolves (_ : bool) (h : bytes) : bool := beq h ex_h0 || beq h ex_h1.
Definition ex_resp (code : N) (loc : option bytes) (body : bytes) : outcome response :=
  match status_of_code code with
  | Some s => Ok {| s_version := V_HTTP11; s_status := s;
                    s_headers := match loc with Some l => [(HKnown H_Location, l)] | None => [] end; s_body := body |}
  | None => Err 0
  end.
Definition ex_site (t : target) : outcome response :=
  if t_https t then Err 0 else
  if beq (t_host t) ex_h0 && beq (t_path t) [47;97] && beq (t_query t) [121;61;50] then            (* h0 /a?y=2 *)
    ex_resp 301 (Some [47;98;63;120;61;49]) []                                                      (* -> /b?x=1 *)
  else if beq (t_host t) ex_h0 && beq (t_path t) [47;98] && beq (t_query t) [120;61;49] then       (* h0 /b?x=1 *)
    ex_resp 307 (Some (S_http ++ ex_h1 ++ [47;99])) []                                              (* -> http://h1/c *)
  else if beq (t_host t) ex_h1 && beq (t_path t) [47;99] && beq (t_query t) [] then                (* h1 /c *)
    ex_resp 302 (Some [47;100]) []                                                                  (* -> /d *)
  else if beq (t_host t) ex_h1 && beq (t_path t) [47;100] && beq (t_query t) [] then               (* h1 /d *)
    ex_resp 200 None [102;105;110]                                                                  (* "fin" *)
  else ex_resp 404 None [].
Definition ex_net (h : bytes) (r : request) : outcome response :=
  ex_site {| t_https := false; t_host := h; t_path := r_uri r; t_query := r_query r |}.
Definition ex_url : bytes := S_http ++ ex_h0 ++ [47;97;63;121;61;50].  (* http://h0/a?y=2 *)

Definition ex_final : response := {| s_version := V_HTTP11; s_status := 2; s_headers := []; s_body := [102;105;110] |}.

Example C07_client_example_chain :
  exists st,
    client_nobody ex_resolves M_Get ex_url = Some st /\
    status_code (s_status ex_final) = 200 /\
    ends_at ex_resolves ex_site
      {| t_https := false; t_host := ex_h0; t_path := [47;97]; t_query := [121;61;50] |}
      [ {| t_https := false; t_host := ex_h0; t_path := [47;97]; t_query := [121;61;50] |};
        {| t_https := false; t_host := ex_h0; t_path := [47;98]; t_query := [120;61;49] |};
        {| t_https := false; t_host := ex_h1; t_path := [47;99]; t_query := [] |};
        {| t_https := false; t_host := ex_h1; t_path := [47;100]; t_query := [] |} ] ex_final /\
    fst (send ex_resolves ex_net 10 (with_redirects (with_cookie st ([107], [118])) true)) = Ok ex_final.
Proof.
  eexists. split; [vm_compute; reflexivity|].
  split; [vm_compute; reflexivity|]. split.
  - eapply ends_hop with (l := [47;98;63;120;61;49]);
      [reflexivity|vm_compute; reflexivity|vm_compute; reflexivity|vm_compute; reflexivity|vm_compute; reflexivity|].
    eapply ends_hop with (l := S_http ++ ex_h1 ++ [47;99]);
      [reflexivity|vm_compute; reflexivity|vm_compute; reflexivity|vm_compute; reflexivity|vm_compute; reflexivity|].
    eapply ends_hop with (l := [47;100]);
      [reflexivity|vm_compute; reflexivity|vm_compute; reflexivity|vm_compute; reflexivity|vm_compute; reflexivity|].
    eapply ends_here; [reflexivity|vm_compute; reflexivity|vm_compute; reflexivity].
  - vm_compute; reflexivity.
Qed.

(* Observed, outside the clause (the final response is still the chain's): on a relative redirect the Cookie header is
   pushed again, so the second request carries it twice; on an absolute redirect a POST keeps its body but loses
   Content-Length (the new header list holds Host only). Kept as executable facts about the model, which the
   correspondence check confirms on the implementation. *)
Example C07_client_observed_cookie_twice :
  exists st, client_nobody ex_resolves M_Get ex_url = Some st /\
    map (fun e => length (hget_all (HKnown H_Cookie) (r_headers (snd e))))
        (snd (send ex_resolves ex_net 10 (with_redirects (with_cookie st ([107], [118])) true))) = [1; 2; 1; 2]%nat.
Proof. eexists. split; [vm_compute; reflexivity|]. vm_compute; reflexivity. Qed.

Print Assumptions C07_client_tables.
Print Assumptions C07_client_parse_url.
Print Assumptions C07_client_parse_url_rejects.
Print Assumptions C07_client_builders.
Print Assumptions C07_client_follows_chain.
Print Assumptions C07_client_get_follows_chain.
Print Assumptions C07_client_no_follow.
Print Assumptions C07_client_exchange_cl.
Print Assumptions C07_client_exchange_chunked.
Print Assumptions C07_client_example_chain.
Print Assumptions C07_client_observed_cookie_twice.
