(* C10 — placeholder while the proofs are being written *)
From Hv Require Import Prelude Stream Frame FrameSpec.
Open Scope N_scope.
Example C10_example_smoke : encode (new_frame Text [104;105]) = [129;2;104;105].
Proof. vm_compute. reflexivity. Qed.
Print Assumptions C10_example_smoke.
