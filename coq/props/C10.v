(* C10 — WebSocket frames encode to the RFC 6455 section 5.2 layout and decode back under any split.
   Property theorems only: each is closed by `exact <lemma>`; statements are written out in full here so that
   weakening a lemma elsewhere breaks this file.

   Vocabulary (coq/theories): Frame.v is the model of humphrey-ws/src/frame.rs after the repairs F19 (masking applied
   on serialisation) and F09 (payload buffer not allocated from the claimed length): `encode` = From<Frame> for Vec<u8>,
   `decode : chunks -> outcome (frame * chunks)` = Frame::from_stream over a reader that delivers the given chunks
   (Stream.v), `decode_alloc` = bound on the payload buffer capacity.  FrameSpec.v is the RFC side, arithmetic only:
   `FrameBytes f bs` (layout with the shortest length form), `FrameBytesAny` (any length form), `parse_spec` (flat
   reference parser), `wf f` (length field = payload length < 2^63, payload and key are bytes), `norm f` (the key
   field of an unmasked frame reads back as zero: it is not on the wire). *)
From Hv Require Import Prelude Stream StreamProofs Frame FrameSpec FrameProofs.
Open Scope N_scope.

(* Encoding any frame value (any FIN/RSV bits, any of the six opcodes, masked with any key or unmasked, payload of any
   length < 2^63) produces exactly the section 5.2 layout with the shortest length form, and nothing but bytes. *)
Theorem C10_encode_layout :
  forall f : frame, wf f -> FrameBytes f (encode f) /\ Forall byte (encode f).
Proof. exact encode_layout_bytes. Qed.

(* ... and that layout admits no other byte string: "exactly". *)
Theorem C10_layout_unique :
  forall (f : frame) (bs : bytes), wf f -> FrameBytes f bs -> bs = encode f.
Proof. exact framebytes_unique. Qed.

(* Decoding those bytes, followed by anything (the next frame), under ANY split into reads (any chunking without
   empty reads), returns the same frame with the payload unmasked, and leaves exactly the rest in the reader. *)
Theorem C10_decode_encode :
  forall (f : frame) (rest : bytes) (cs : chunks),
    wf f -> wf_chunks cs -> concat cs = encode f ++ rest ->
    exists cs', decode cs = Ok (norm f, cs') /\ concat cs' = rest /\ wf_chunks cs'.
Proof. exact decode_encode. Qed.

(* The same for every RFC layout of the frame, shortest length form or not (what a peer may send). *)
Theorem C10_decode_any_layout :
  forall (f : frame) (pre rest : bytes) (cs : chunks),
    FrameBytesAny f pre -> flen f = blen (payload f) -> wf_chunks cs -> concat cs = pre ++ rest ->
    exists cs', decode cs = Ok (norm f, cs') /\ concat cs' = rest /\ wf_chunks cs'.
Proof. exact decode_layout. Qed.

(* Conversely, whatever the decoder returns is a frame laid out as in the RFC, and it consumed exactly that layout. *)
Theorem C10_decode_sound :
  forall (cs : chunks) (f : frame) (cs' : chunks),
    wf_chunks cs -> Forall byte (concat cs) -> decode cs = Ok (f, cs') ->
    exists pre, concat cs = pre ++ concat cs' /\ FrameBytesAny f pre /\ flen f = blen (payload f).
Proof. exact decode_sound. Qed.

(* A whole stream of frames: k successive decoder calls on the same reader (decode_many, FrameProofs.v) over any split
   of the concatenated encodings return the frames in order and leave what follows them. *)
Theorem C10_decode_stream :
  forall (fs : list frame) (rest : bytes) (cs : chunks),
    Forall wf fs -> wf_chunks cs -> concat cs = concat (map encode fs) ++ rest ->
    exists cs', decode_many (length fs) cs = Ok (map norm fs, cs') /\ concat cs' = rest /\ wf_chunks cs'.
Proof. exact decode_many_encode. Qed.

(* Truncated input — any strict prefix of an encoding, delivered under any split — yields a read error. *)
Theorem C10_decode_truncated :
  forall (f : frame) (b : bytes) (cs : chunks),
    wf f -> strict_prefix b (encode f) -> wf_chunks cs -> concat cs = b -> decode cs = Err ReadError.
Proof. exact decode_truncated. Qed.

(* Reads that return 0 bytes.  Every list of chunks either has no empty chunk (the theorems above) or is
   cs1 ++ [] :: cs2; the decoder then answers as on cs1 alone — a read of 0 bytes is end of input — and leaves cs2
   untouched.  So the behaviour under EVERY scripted reader is determined; in particular a 0-byte read before the
   frame is complete is a read error. *)
Theorem C10_decode_zero_read :
  forall cs1 cs2 : chunks,
    decode (cs1 ++ [] :: cs2) =
    match decode cs1 with Ok (f, r) => Ok (f, r ++ [] :: cs2) | Err e => Err e | Crash w => Crash w end.
Proof. exact decode_zero_read. Qed.

Theorem C10_decode_zero_read_truncated :
  forall (f : frame) (b : bytes) (cs1 cs2 : chunks),
    wf f -> strict_prefix b (encode f) -> wf_chunks cs1 -> concat cs1 = b -> decode (cs1 ++ [] :: cs2) = Err ReadError.
Proof. exact decode_zero_read_truncated. Qed.

(* Reserved opcodes (all ten: 3-7 and 11-15) are rejected, whatever follows the header and however it is split;
   the six defined opcodes are never rejected as invalid. *)
Theorem C10_reserved_opcode_rejected :
  forall (cs : chunks) (h0 h1 : N) (tl : bytes),
    wf_chunks cs -> concat cs = h0 :: h1 :: tl -> h0 < 256 -> h1 < 256 ->
    In (h0 mod 16) [3; 4; 5; 6; 7; 11; 12; 13; 14; 15] -> decode cs = Err InvalidOpcode.
Proof. exact reserved_opcode_rejected. Qed.

Theorem C10_valid_opcode_not_rejected :
  forall (cs : chunks) (h0 h1 : N) (tl : bytes),
    wf_chunks cs -> concat cs = h0 :: h1 :: tl -> h0 < 256 -> h1 < 256 ->
    ~ In (h0 mod 16) [3; 4; 5; 6; 7; 11; 12; 13; 14; 15] -> decode cs <> Err InvalidOpcode.
Proof. exact valid_opcode_not_rejected. Qed.

(* All 256 x 256 two-byte headers, followed by any remainder (truncated or complete) under any split: the decoder's
   answer is the one of the flat reference parser of FrameSpec.v (division/remainder reading of the header bits,
   length form, key, payload) — same error class, or the same frame and exactly the same bytes left over. *)
Theorem C10_two_byte_headers :
  forall (h0 h1 : N) (rem : bytes) (cs : chunks),
    h0 < 256 -> h1 < 256 -> wf_chunks cs -> concat cs = h0 :: h1 :: rem ->
    match decode cs, parse_spec (h0 :: h1 :: rem) with
    | Ok (f, cs'), Ok (g, r) => f = g /\ concat cs' = r /\ wf_chunks cs'
    | Err e, Err e' => e = e'
    | _, _ => False
    end.
Proof. exact two_byte_headers. Qed.

(* The same classification spelled out without the reference parser: for every header h0 h1 and remainder, either the
   opcode (low four bits of h0) is reserved and the answer is InvalidOpcode; or it is one of the six defined opcodes
   and, with extn = 0/2/8 bytes of extended length (selected by the low seven bits of h1), keyn = 0/4 key bytes
   (selected by the top bit of h1) and n the 7-bit or big-endian extended length: fewer than extn + keyn + n bytes
   after the header give ReadError, otherwise the frame carries exactly the header's bits, length n, the key that was
   on the wire (zero if none) and the next n bytes XORed with key[i mod 4], and exactly the bytes after them remain. *)
Theorem C10_header_classes :
  forall (h0 h1 : N) (rem : bytes) (cs : chunks),
    h0 < 256 -> h1 < 256 -> wf_chunks cs -> concat cs = h0 :: h1 :: rem ->
    let len7 := h1 mod 128 in
    let extn := if len7 =? 126 then 2 else if len7 =? 127 then 8 else 0 in
    let keyn := if 128 <=? h1 then 4 else 0 in
    let n := if extn =? 0 then len7 else unsigned_be (firstn (N.to_nat extn) rem) in
    let key := if 128 <=? h1 then key_of_list (firstn 4 (skipn (N.to_nat extn) rem)) else zero_key in
    (In (h0 mod 16) [3; 4; 5; 6; 7; 11; 12; 13; 14; 15] /\ decode cs = Err InvalidOpcode) \/
    (exists op, rfc_opcode op = h0 mod 16 /\
       ((blen rem < extn + keyn + n /\ decode cs = Err ReadError) \/
        (extn + keyn + n <= blen rem /\
         exists cs', decode cs =
                     Ok (mkFrame (128 <=? h0) (64 <=? h0 mod 128) (32 <=? h0 mod 64) (16 <=? h0 mod 32) op (128 <=? h1) n key
                                 (unmask key (firstn (N.to_nat n) (skipn (N.to_nat (extn + keyn)) rem))), cs')
                     /\ concat cs' = skipn (N.to_nat (extn + keyn + n)) rem /\ wf_chunks cs'))).
Proof. exact header_classes. Qed.

(* the sweep behind it: on all 65 536 headers the shifts and masks of the code read the same fields as the
   division/remainder picture of the RFC *)
Theorem C10_all_headers_fields :
  forall h0 h1 : N, h0 < 256 -> h1 < 256 ->
    (negb (N.land h0 128 =? 0), negb (N.land h0 64 =? 0), negb (N.land h0 32 =? 0), negb (N.land h0 16 =? 0),
     N.land h0 15, negb (N.land h1 128 =? 0), N.land h1 127)
    = (128 <=? h0, 64 <=? h0 mod 128, 32 <=? h0 mod 64, 16 <=? h0 mod 32, h0 mod 16, 128 <=? h1, h1 mod 128).
Proof. exact hdr_code_arith. Qed.

(* fewer than two bytes: read error *)
Theorem C10_decode_short :
  forall cs : chunks, wf_chunks cs -> total_len cs < 2 -> decode cs = Err ReadError.
Proof. exact decode_short. Qed.

(* C03 for this decoder: on EVERY input (any chunks, empty reads and non-byte values included) the decoder neither
   reaches a panic site nor asks for more memory than twice the bytes supplied plus 32 (the function is total:
   termination is structural recursion on the chunks). *)
Theorem C10_decode_safe :
  forall cs : chunks, is_crash (decode cs) = false /\ decode_alloc cs <= 2 * total_len cs + 32.
Proof. exact decode_safe. Qed.

(* Message::to_frame: one unmasked FIN frame, text or binary, payload verbatim. *)
Theorem C10_message_to_frame :
  forall (text : bool) (p : bytes),
    blen p < 2 ^ 63 -> Forall byte p ->
    FrameBytes (new_frame (if text then Text else Binary) p) (message_to_frame text p) /\
    exists len7 ext, message_to_frame text p = [128 + (if text then 1 else 2); len7] ++ ext ++ p /\ len7 < 128.
Proof. exact message_to_frame_layout. Qed.

(* The results of read_exact depend only on the concatenation of what the reads deliver (Stream.v), the two lemmas
   every chunked parser model builds on. *)
Theorem C10_read_exact_concat :
  forall (n : N) (cs : chunks) (b : bytes) (cs' : chunks),
    wf_chunks cs -> read_exact n cs = Some (b, cs') ->
    b = firstn (N.to_nat n) (concat cs) /\ concat cs' = skipn (N.to_nat n) (concat cs) /\
    blen b = n /\ concat cs = b ++ concat cs' /\ wf_chunks cs'.
Proof. exact read_exact_some. Qed.

Theorem C10_read_exact_eof :
  forall (n : N) (cs : chunks), wf_chunks cs -> (read_exact n cs = None <-> total_len cs < n).
Proof. exact read_exact_none. Qed.

(* ---- the code as it was at the pinned commit ---- *)
(* F19: the old serialiser wrote the key but not the XOR: its output is not the RFC layout and does not decode back. *)
Theorem C10_encode_old_refuted :
  exists f, wf f /\ ~ FrameBytes f (encode_old f) /\
            exists f' cs', decode [encode_old f] = Ok (f', cs') /\ payload f' <> payload f.
Proof. exact encode_old_refuted. Qed.

(* F09: ten bytes made the old decoder request 2^40 bytes, or panic on the capacity check. *)
Theorem C10_decode_old_unsafe :
  (exists cs, total_len cs = 10 /\ snd (decode_old_m cs) = 2 ^ 40) /\
  (exists cs, total_len cs = 10 /\ is_crash (fst (decode_old_m cs)) = true).
Proof. exact decode_old_unsafe. Qed.

(* ---- non-vacuity: the hypotheses are satisfiable on non-trivial instances ---- *)
(* ex_frame (FrameProofs.v) = FIN, RSV2, Binary, masked with key 01 02 03 ff, payload "hello" *)
Example C10_example_wf : wf ex_frame /\ encode ex_frame = [162; 133; 1; 2; 3; 255; 105; 103; 111; 147; 110].
Proof. exact ex_wf. Qed.

(* the same frame followed by one more byte, delivered in four reads that cut the header, the key and the payload *)
Example C10_example_split :
  wf_chunks [[162]; [133; 1; 2]; [3; 255; 105; 103]; [111; 147; 110; 77]] /\
  decode [[162]; [133; 1; 2]; [3; 255; 105; 103]; [111; 147; 110; 77]] = Ok (ex_frame, [[77]]) /\
  decode (bytewise [162; 133; 1; 2; 3; 255; 105; 103; 111; 147]) = Err ReadError /\
  decode [[131; 0]] = Err InvalidOpcode /\
  strict_prefix [162; 133; 1] (encode ex_frame).
Proof. exact ex_split. Qed.

(* a 16-bit and a 64-bit length form *)
Example C10_example_lengths :
  firstn 4 (encode (new_frame Text (repeat 97 126))) = [129; 126; 0; 126] /\
  firstn 10 (encode (new_frame Binary (repeat 0 (N.to_nat 65536)))) = [130; 127; 0; 0; 0; 0; 0; 1; 0; 0] /\
  wf (new_frame Binary (repeat 0 (N.to_nat 65536))).
Proof. exact ex_lengths. Qed.

Print Assumptions C10_encode_layout.
Print Assumptions C10_layout_unique.
Print Assumptions C10_decode_encode.
Print Assumptions C10_decode_any_layout.
Print Assumptions C10_decode_sound.
Print Assumptions C10_decode_stream.
Print Assumptions C10_decode_truncated.
Print Assumptions C10_decode_zero_read.
Print Assumptions C10_decode_zero_read_truncated.
Print Assumptions C10_reserved_opcode_rejected.
Print Assumptions C10_valid_opcode_not_rejected.
Print Assumptions C10_two_byte_headers.
Print Assumptions C10_header_classes.
Print Assumptions C10_all_headers_fields.
Print Assumptions C10_decode_short.
Print Assumptions C10_decode_safe.
Print Assumptions C10_message_to_frame.
Print Assumptions C10_read_exact_concat.
Print Assumptions C10_read_exact_eof.
Print Assumptions C10_encode_old_refuted.
Print Assumptions C10_decode_old_unsafe.
Print Assumptions C10_example_wf.
Print Assumptions C10_example_split.
Print Assumptions C10_example_lengths.
