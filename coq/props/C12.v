(* C12 — the asynchronous WebSocket app delivers connect / message / disconnect exactly once and in order; a unicast
   reaches only its addressee, a broadcast every connected client exactly once; a shutdown signal makes `run` return.
   Property theorems only. Model: AsyncApp.v (one call of `poll` = one iteration of AsyncWebsocketApp::run).

   All statements are about the DISPATCH ORDER: `t_disp (run cfg (init t0) hist)` is the sequence of handler invocations
   in the order in which the loop hands them to the thread pool, for an arbitrary history `hist` of per-iteration inputs
   (any number of iterations, clients and messages; any HashMap iteration order; any clock). With one handler thread the
   pool's FIFO queue (C08) makes this the execution order; with several, handler bodies may overlap — that is the pool's
   contract and is not claimed here.

   `wf_histb cfg (init t0) hist = true` states what the environment guarantees at every executed iteration: the key
   order is a permutation of the table's keys and a broadcast visits exactly the streams in the table (HashMap
   iteration). Nothing is assumed about peer addresses: a stream admitted under an address that is still in the table
   (a connection whose end went unnoticed, address reused) first disconnects the stale stream — that is the repaired code
   (c80fbf4); the code before the repair is `run_old` (C12_readmission_refuted, C12_old_code_partial).
   `proj a ds` is the subsequence of dispatches that concern address `a` (EC connect, EM m message, ED disconnect). *)
From Hv Require Import Prelude AsyncApp AsyncAppProofs.

(* The dispatches for every address follow the session discipline (Connect Message* Disconnect)* (Connect Message* )?,
   the address is in the stream table at the end iff its last session is still open, and the loop never hits the
   `unwrap` on a missing stream. *)
Theorem C12_sessions :
  forall (cfg : config) (t0 : N) (hist : list inputs) (a : addr),
    wf_histb cfg (init t0) hist = true ->
    t_status (run cfg (init t0) hist) <> Crashed /\
    sessions false (proj a (t_disp (run cfg (init t0) hist))) =
      Some (mem a (keys (streams (t_state (run cfg (init t0) hist))))).
Proof. exact thm_sessions. Qed.

(* connect: exactly one Connect per admitted stream; every Message / Disconnect for `a` is preceded by a Connect for `a`
   with nothing but Messages of `a` in between; a Connect for `a` is the first event for `a` or directly follows a
   Disconnect for `a`. *)
Theorem C12_connect_once_first :
  forall (cfg : config) (t0 : N) (hist : list inputs) (a : addr),
    wf_histb cfg (init t0) hist = true ->
    count EC (proj a (t_disp (run cfg (init t0) hist))) =
      length (filter (N.eqb a) (flat_map admitted (executed cfg (init t0) hist))) /\
    (forall p e q, proj a (t_disp (run cfg (init t0) hist)) = p ++ e :: q -> e <> EC ->
       exists p1 p2, p = p1 ++ EC :: p2 /\ forallb is_msg p2 = true) /\
    (forall p q, proj a (t_disp (run cfg (init t0) hist)) = p ++ EC :: q -> p = [] \/ exists p', p = p' ++ [ED]).
Proof. exact thm_connect_once_first. Qed.

(* messages: the messages dispatched for `a` are exactly the messages its recv_nonblocking calls delivered, iteration by
   iteration, in order, each once (for a loop that is not stuck inside a receive call). *)
Theorem C12_messages_once_in_order :
  forall (cfg : config) (t0 : N) (hist : list inputs) (a : addr),
    wf_histb cfg (init t0) hist = true ->
    t_status (run cfg (init t0) hist) <> Stuck ->
    msgs_of (proj a (t_disp (run cfg (init t0) hist))) = flat_map (delivered a) (executed cfg (init t0) hist).
Proof. exact thm_messages_once_in_order. Qed.

(* handlers are optional (an event whose handler is not installed is not handed to the pool): whatever the connect and
   disconnect handlers, with a message handler installed the messages handed to the pool for `a` are still exactly the
   messages delivered, in order; and with all three installed nothing is left out. *)
Theorem C12_messages_with_optional_handlers :
  forall (cfg : config) (t0 : N) (hist : list inputs) (a : addr),
    wf_histb cfg (init t0) hist = true ->
    t_status (run cfg (init t0) hist) <> Stuck ->
    has_message cfg = true ->
    msgs_of (proj a (dispatched cfg (t_disp (run cfg (init t0) hist)))) = flat_map (delivered a) (executed cfg (init t0) hist).
Proof. exact thm_messages_any_handlers. Qed.

Theorem C12_all_handlers_all_dispatched :
  forall (cfg : config) (ds : list dispatch),
    has_connect cfg = true -> has_message cfg = true -> has_disconnect cfg = true -> dispatched cfg ds = ds.
Proof. exact dispatched_all. Qed.

(* disconnect: after a Disconnect for `a` the next event for `a`, if any, is a Connect (a new admission); and every
   admitted stream that is no longer in the table was given exactly one Disconnect:
   #Connect = #Disconnect + (1 if still connected). *)
Theorem C12_disconnect_once_last :
  forall (cfg : config) (t0 : N) (hist : list inputs) (a : addr),
    wf_histb cfg (init t0) hist = true ->
    (forall p q, proj a (t_disp (run cfg (init t0) hist)) = p ++ ED :: q -> q = [] \/ exists q', q = EC :: q') /\
    count EC (proj a (t_disp (run cfg (init t0) hist))) =
      (count ED (proj a (t_disp (run cfg (init t0) hist))) +
       (if mem a (keys (streams (t_state (run cfg (init t0) hist)))) then 1 else 0))%nat.
Proof. exact thm_disconnect_once_last. Qed.

(* outgoing messages of one iteration (after any executed prefix `pre`): the frames written are the heartbeat pings
   followed by the writes of the drained messages in order; the set `ks` written to is the stream table after this
   iteration's admissions, i.e. exactly the addresses whose session is open after this iteration's dispatches; a unicast
   is written to its addressee only (and only if connected); a broadcast is written exactly once to every connected
   stream and to nothing else. *)
Theorem C12_unicast_only_addressee_broadcast_each_connected_once :
  forall (cfg : config) (t0 : N) (pre : list inputs) (inp : inputs) (st' : app_state) (ds : list dispatch) (ws : list write),
    wf_histb cfg (init t0) (pre ++ [inp]) = true ->
    t_status (run cfg (init t0) pre) = Running ->
    poll cfg (t_state (run cfg (init t0) pre)) inp = Next st' ds ws ->
    exists pings ks,
      forallb is_ping pings = true /\ ws = pings ++ flat_map (out_writes ks) (i_out inp) /\
      ks = keys (streams st') /\
      (forall a, mem a ks = true <-> sessions false (proj a (t_disp (run cfg (init t0) pre) ++ ds)) = Some true) /\
      (forall a m, out_writes ks (OUnicast a m) = if mem a ks then [WMsg a m] else []) /\
      (forall m order, In (OBroadcast m order) (i_out inp) ->
         (forall a, wcount (WMsg a m) (out_writes ks (OBroadcast m order)) = (if mem a ks then 1 else 0)%nat) /\
         (forall w, In w (out_writes ks (OBroadcast m order)) -> exists a, w = WMsg a m /\ mem a ks = true)).
Proof. exact outgoing_spec. Qed.

(* shutdown: the iteration that sees the flag leaves the loop at once — nothing more is dispatched or written, whatever
   follows; and the loop only ever exits because the flag was seen. *)
Theorem C12_shutdown_returns :
  forall (cfg : config) (st : app_state) (pre : list inputs) (inp : inputs) (post : list inputs),
    t_status (run cfg st pre) = Running -> i_shutdown inp = true ->
    run cfg st (pre ++ inp :: post) =
    {| t_state := t_state (run cfg st pre); t_status := Exited;
       t_disp := t_disp (run cfg st pre); t_writes := t_writes (run cfg st pre) |}.
Proof. exact shutdown_exits. Qed.

Theorem C12_exit_only_on_signal :
  forall (cfg : config) (hist : list inputs) (st : app_state),
    t_status (run cfg st hist) = Exited ->
    exists pre inp post, hist = pre ++ inp :: post /\ i_shutdown inp = true /\ t_status (run cfg st pre) = Running.
Proof. exact exited_saw_flag. Qed.

(* the loop can only fail to reach the shutdown check if a receive call does not return *)
Theorem C12_not_stuck_unless_receive_blocks :
  forall (cfg : config) (hist : list inputs) (st : app_state),
    no_block_hist hist = true -> t_status (run cfg st hist) <> Stuck.
Proof. exact never_stuck. Qed.

(* heartbeat: a stream that yields "nothing yet" is removed with exactly one Disconnect as soon as the clock passes
   last_pong + timeout, and kept (and pinged when a ping is due) before that. *)
Theorem C12_heartbeat_timeout :
  forall (cfg : config) (wp : bool) (per : list (addr * per_addr)) (m : smap) (a : addr) (lp iv to : N),
    lookup a m = Some lp -> hb cfg = Some (iv, to) ->
    snd (drain a (pa_recv (per_of per a))) = SNone ->
    let p := per_of per a in
    let lp' := match pa_pong p with Some t => t | None => lp end in
    let ds := fst (drain a (pa_recv p)) in
    (N.le to (pa_clock p - lp') -> visit cfg wp per m a = VGo (remove a m) (ds ++ [Disconnect a]) []) /\
    (N.lt (pa_clock p - lp') to -> visit cfg wp per m a = VGo (insert a lp' m) ds (if wp then [WPing a] else [])).
Proof. exact heartbeat_visit. Qed.

(* a receive error (the client's Close frame, a reset, a read error) ends the client in the iteration that sees it: the
   messages received before it are dispatched in order, then exactly one Disconnect; the stream leaves the table and
   nothing more is written to it, whatever the heartbeat settings *)
Theorem C12_receive_error_disconnects :
  forall (cfg : config) (wp : bool) (per : list (addr * per_addr)) (m : smap) (a : addr) (lp : N) (ms : list msg),
    lookup a m = Some lp -> msgs_before_err (pa_recv (per_of per a)) = Some ms ->
    visit cfg wp per m a = VGo (remove a m) (map (Message a) ms ++ [Disconnect a]) [].
Proof. exact receive_error_visit. Qed.

(* The code before the repair: a stream whose end went unnoticed (its reads keep saying "nothing yet") stays in the
   table; when its peer address is reused, HashMap::insert replaced it silently — the connect handler ran twice for the
   address and the first connection never got its Disconnect. Same history, repaired code: Disconnect, then Connect. *)
Theorem C12_readmission_refuted :
  exists (cfg : config) (hist : list inputs) (a : addr),
    wf_histb cfg (init 0) hist = true /\
    t_disp (run_old cfg (init 0) hist) = [Connect a; Message a 1%N; Connect a; Message a 2%N] /\
    sessions false (proj a (t_disp (run_old cfg (init 0) hist))) = None /\
    t_disp (run cfg (init 0) hist) = [Connect a; Message a 1%N; Disconnect a; Connect a; Message a 2%N].
Proof. exact thm_readmission_refuted. Qed.

(* ... and it behaved like the repaired code on every history in which the admitted addresses are distinct and not in the
   table, so all theorems above held for it on those histories. *)
Theorem C12_old_code_partial :
  forall (cfg : config) (hist : list inputs) (st : app_state),
    fresh_histb cfg st hist = true -> run_old cfg st hist = run cfg st hist.
Proof. exact run_old_fresh. Qed.

(* A receive call that does not return (first frame of a fragmented message received, the rest never sent) keeps the
   loop inside that iteration: a shutdown flag raised afterwards is not acted upon. *)
Theorem C12_blocked_receive_refuted :
  exists (cfg : config) (pre : list inputs) (inp : inputs),
    wf_histb cfg (init 0) (pre ++ [inp]) = true /\ i_shutdown inp = true /\
    t_status (run cfg (init 0) (pre ++ [inp])) = Stuck.
Proof. exact thm_blocked_receive_refuted. Qed.

(* the hypotheses are satisfiable on a non-trivial history: three clients, a skipped stream, messages, a pong, unicast to
   a connected and to an unknown address, broadcasts, a close, a heartbeat timeout, re-admission of an address after its
   disconnect, shutdown with a further iteration supplied that is never executed *)
Example C12_demo :
  wf_histb cfg_hb (init 0) demo_hist = true /\
  t_status (run cfg_hb (init 0) demo_hist) = Exited /\
  t_disp (run cfg_hb (init 0) demo_hist) =
    [Connect 1; Connect 2; Message 1 11; Message 1 12; Connect 3; Message 1 13; Disconnect 1; Disconnect 2; Connect 1]%N /\
  t_writes (run cfg_hb (init 0) demo_hist) =
    [WMsg 1 90; WMsg 2 90; WPing 2; WPing 1; WMsg 1 91; WMsg 3 93; WMsg 1 93; WMsg 2 93; WMsg 1 94; WMsg 3 94]%N.
Proof. exact demo_run. Qed.

Print Assumptions C12_receive_error_disconnects.
Print Assumptions C12_sessions.
Print Assumptions C12_connect_once_first.
Print Assumptions C12_messages_once_in_order.
Print Assumptions C12_messages_with_optional_handlers.
Print Assumptions C12_all_handlers_all_dispatched.
Print Assumptions C12_disconnect_once_last.
Print Assumptions C12_unicast_only_addressee_broadcast_each_connected_once.
Print Assumptions C12_shutdown_returns.
Print Assumptions C12_exit_only_on_signal.
Print Assumptions C12_not_stuck_unless_receive_blocks.
Print Assumptions C12_heartbeat_timeout.
Print Assumptions C12_readmission_refuted.
Print Assumptions C12_old_code_partial.
Print Assumptions C12_blocked_receive_refuted.
Print Assumptions C12_demo.
