(* C18, Base64 part — humphrey-ws/src/util/base64.rs agrees with RFC 4648 §4 for every input; the decoder inverts
   the encoder and rejects malformed input.
   Property theorems only: statements in full, each closed by `exact <lemma>`.
   Model: theories/Base64.v (code after the repair of F28 + the old decoder); spec: theories/Base64Spec.v
   (RFC 4648 §4 on bit strings: one bit string cut into 6-bit groups, Table 1, '=' padding). *)
From Hv Require Import Prelude BitsBE Base64 Base64Spec Base64Proofs.
Open Scope N_scope.

(* Encoding is the RFC definition for every byte string (any length, incl. the 1- and 2-byte tails with
   padding); the model never reaches its panic site (ALPHABET index out of range). *)
Theorem C18_b64_encode_spec :
  forall b : list N, Forall (fun x => x < 256) b -> encode b = Ok (encode_spec b).
Proof. exact encode_model_spec. Qed.

(* Shape of the output: 4 * ceil(n / 3) symbols, each from Table 1 or '='. *)
Theorem C18_b64_encode_shape :
  forall b : list N, Forall (fun x => x < 256) b ->
    length (encode_spec b) = (4 * ((length b + 2) / 3))%nat /\
    Forall (fun c => in_alphabet c = true \/ c = rfc_pad) (encode_spec b).
Proof. exact encode_shape. Qed.

(* The decoder inverts the encoder on every byte string. *)
Theorem C18_b64_decode_encode :
  forall b : list N, Forall (fun x => x < 256) b -> exists s, encode b = Ok s /\ decode s = Ok b.
Proof. exact decode_encode. Qed.

(* The encoder is injective: two different byte strings never share an encoding. *)
Theorem C18_b64_encode_injective :
  forall a b : list N, Forall (fun x => x < 256) a -> Forall (fun x => x < 256) b -> encode a = encode b -> a = b.
Proof. exact b64_encode_injective. Qed.

(* The decoder accepts exactly the well-formed texts (whole 4-symbol groups, Table 1 symbols, '=' only as the last
   one or two symbols) and returns what they denote; on everything else it returns Err — it never panics.
   Scope note (canonical vs lenient): `denote` drops the 2 or 4 bits left over after the last complete octet
   whatever their value, i.e. the decoder is LENIENT about non-zero trailing bits ("AB==" decodes like "AA==").
   RFC 4648 §3.5 allows either choice ("MAY reject"); CPython's base64 does the same. Theorem
   C18_b64_decode_canonical below says exactly which accepted texts are the encoder's own output. *)
Theorem C18_b64_decode_iff :
  forall (s b : list N), decode s = Ok b <-> WellFormed s /\ b = denote s.
Proof. exact decode_iff_wf. Qed.

Theorem C18_b64_decode_rejects_malformed :
  forall s : list N, ~ WellFormed s -> decode s = Err 0.
Proof. exact decode_rejects. Qed.

Theorem C18_b64_decode_never_panics :
  forall s : list N, decode s = Ok (denote s) \/ decode s = Err 0.
Proof. exact decode_total. Qed.

(* Canonical vs lenient, made exact: among the texts the decoder accepts, those whose left-over bits are zero
   (Canonical, RFC 4648 §3.5) are precisely the encoder's outputs — re-encoding the decoded bytes gives the text back
   iff the text is canonical. So the only slack in "decode inverts encode" is the 2 or 4 ignored trailing bits. *)
Theorem C18_b64_decode_canonical :
  forall (s b : list N), decode s = Ok b -> (encode b = Ok s <-> Canonical s).
Proof. exact decode_canonical. Qed.

(* Table 1 is what the code's ALPHABET constant and the decoder's `match` arms implement. *)
Theorem C18_b64_alphabet_is_table1 :
  (forall v, v < 64 -> alpha v = Ok (rfc_sym v)) /\
  (forall c, classify c = match rfc_val c with
                          | Some v => SVal v
                          | None => if c =? rfc_pad then SPad else SBad
                          end).
Proof. exact alphabet_is_table1. Qed.

(* The decoder as it was before the fix (F28) violates the property in all three ways:
   "+/+/" is well-formed but decoded to other bytes than it denotes; "A" is malformed but accepted;
   "=AAA" panics (slice 1..0). *)
Theorem C18_b64_old_refuted :
  (exists s, WellFormed s /\ decode_old s <> Ok (denote s) /\ decode s = Ok (denote s)) /\
  (exists s b, ~ WellFormed s /\ decode_old s = Ok b) /\
  (exists s, is_crash (decode_old s) = true).
Proof. exact old_decoder_refuted. Qed.

(* Non-vacuity and RFC 4648 §10 test vectors, evaluated on the SPEC and on the model. *)
Example C18_b64_vectors :
  encode_spec [] = [] /\
  encode_spec [102] = [90; 103; 61; 61] /\                                  (* "f"      -> "Zg==" *)
  encode_spec [102; 111] = [90; 109; 56; 61] /\                             (* "fo"     -> "Zm8=" *)
  encode_spec [102; 111; 111] = [90; 109; 57; 118] /\                       (* "foo"    -> "Zm9v" *)
  encode_spec [102; 111; 111; 98] = [90; 109; 57; 118; 89; 103; 61; 61] /\  (* "foob"   -> "Zm9vYg==" *)
  encode_spec [102; 111; 111; 98; 97] = [90; 109; 57; 118; 89; 109; 69; 61] /\       (* "fooba" -> "Zm9vYmE=" *)
  encode_spec [102; 111; 111; 98; 97; 114] = [90; 109; 57; 118; 89; 109; 70; 121] /\ (* "foobar" -> "Zm9vYmFy" *)
  encode [251; 255; 191] = Ok [43; 47; 43; 47] /\                           (* fb ff bf -> "+/+/" *)
  decode [43; 47; 43; 47] = Ok [251; 255; 191] /\
  denote [90; 109; 57; 118; 89; 109; 69; 61] = [102; 111; 111; 98; 97] /\
  decode [65; 66; 61; 61] = Ok [0] /\                                       (* lenient: "AB==" *)
  decode [65] = Err 0 /\ decode [61; 65; 65; 65] = Err 0 /\ decode [65; 65; 61; 65] = Err 0 /\
  decode [65; 65; 61; 61; 65; 65; 65; 65] = Err 0 /\ decode [65; 61; 61; 61] = Err 0 /\
  decode [65; 65; 65; 233] = Err 0.
Proof. vm_compute. repeat split. Qed.

Print Assumptions C18_b64_encode_spec.
Print Assumptions C18_b64_encode_shape.
Print Assumptions C18_b64_decode_encode.
Print Assumptions C18_b64_encode_injective.
Print Assumptions C18_b64_decode_iff.
Print Assumptions C18_b64_decode_rejects_malformed.
Print Assumptions C18_b64_decode_never_panics.
Print Assumptions C18_b64_decode_canonical.
Print Assumptions C18_b64_alphabet_is_table1.
Print Assumptions C18_b64_old_refuted.
Print Assumptions C18_b64_vectors.
