(* The config-driven server as a whole (model Server.v: server.rs main / init_app_routes / request_handler over the
   models of C04, C19, C06 and C15). Property theorems only; proofs in ServerProofs.v. These lift the per-property
   theorems through the wiring of the real server, which the end-to-end parts of the C04 / C19 / C06 checks exercise
   (humphrey_server::server::main started from configuration texts, model = serve_text on the same text). *)
From Hv Require Import Prelude Bytes TablesHttp TablesConfig Http Krauss Routing RoutingProofs Blacklist StaticFs StaticFsProofs
  Config HttpReqSpec HttpReqProofs Server ServerProofs.
Open Scope N_scope.

(* C04: whatever is configured, the route that answers is the one the routing rule names (first matching host, first
   matching route, default host, else 404), and the (host, route) indices wired into the App always find it *)
Theorem C04_server_routes_by_rule :
  forall ipp fs (c : config) p req,
    Blacklist.serve ipp (cf_bl_mode c =? BLOCK_MODE) (cf_bl_list c) p (r_headers req) <> Dropped ->
    is_upgrade req = false ->
    let host := option_map scalars (hget (HKnown H_Host) (r_headers req)) in
    let uri := scalars (r_uri req) in
    exists choice, Routes (map subapp_of (cf_hosts c)) (subapp_of (cf_default_host c)) host uri choice /\
      match choice with
      | None => server_response ipp fs c p req = SNotFound
      | Some ch => exists rt, get_route c (fst (handler_ids ch)) (snd (handler_ids ch)) = Some rt /\
          server_response ipp fs c p req =
          dispatch fs c rt (Blacklist.serve ipp (cf_bl_mode c =? BLOCK_MODE) (cf_bl_list c) p (r_headers req)) req
      end.
Proof. exact server_routes_by_rule. Qed.

Theorem C04_server_wiring_total :
  forall (c : config) host uri ch,
    get_handler (map subapp_of (cf_hosts c)) (subapp_of (cf_default_host c)) host uri = Some ch ->
    exists rt, get_route c (fst (handler_ids ch)) (snd (handler_ids ch)) = Some rt /\
      wildcard_match (scalars (rt_matches rt)) uri = true /\
      match ch with
      | InDefault j => nth_error (hc_routes (cf_default_host c)) j = Some rt
      | InSub i j => exists hc, nth_error (cf_hosts c) i = Some hc /\ nth_error (hc_routes hc) j = Some rt /\
                                 forall h, host = Some h -> wildcard_match (scalars (hc_matches hc)) h = true
      end.
Proof. exact wiring_total. Qed.

(* WebSocket upgrade requests are dispatched by the same rule over the WebSocket routes (the routes that have a
   `websocket` target, under their index among all routes of the host): the registered indices always find a route with a
   target whose pattern matches *)
Theorem C04_server_ws_wiring_total :
  forall (c : config) host uri ch,
    get_handler (map ws_subapp_of (cf_hosts c)) (ws_subapp_of (cf_default_host c)) host uri = Some ch ->
    exists h j rt t, ws_handler_ids c ch = Some (h, j) /\ get_route c h j = Some rt /\ rt_ws rt = Some t /\
      wildcard_match (scalars (rt_matches rt)) uri = true.
Proof. exact ws_wiring_total. Qed.

(* Non-vacuity: a configuration text (forbidden-mode blacklist, one host, directory and file routes) is loaded by the C15
   model and served: an unlisted client gets the file under /www, a traversal attempt 404, the host route its redirect,
   a listed client 403, a request forwarded for a listed address 403. *)
Definition ex_conf : bytes := [115;101;114;118;101;114;32;123;10;32;32;98;108;97;99;107;108;105;115;116;32;123;10;32;32;32;32;102;105;108;101;32;34;98;108;46;116;120;116;34;10;32;32;32;32;109;111;100;101;32;34;102;111;114;98;105;100;100;101;110;34;10;32;32;125;10;32;32;104;111;115;116;32;34;42;46;101;120;97;109;112;108;101;46;99;111;109;34;32;123;10;32;32;32;32;114;111;117;116;101;32;47;97;42;32;123;10;32;32;32;32;32;32;114;101;100;105;114;101;99;116;32;34;47;104;34;10;32;32;32;32;125;10;32;32;125;10;32;32;114;111;117;116;101;32;47;115;47;42;32;123;10;32;32;32;32;100;105;114;101;99;116;111;114;121;32;34;47;119;119;119;34;10;32;32;125;10;32;32;114;111;117;116;101;32;47;42;32;123;10;32;32;32;32;102;105;108;101;32;34;47;119;119;119;47;105;110;100;101;120;46;104;116;109;108;34;10;32;32;125;10;125;10].
Definition ex_files (p : bytes) : fentry :=
  if beq p [98;108;46;116;120;116] then FData [49;50;55;46;48;46;48;46;57;10;49;48;46;48;46;48;46;49;10] else FNone.
Definition ex_fs : StaticFs.node :=
  Dir [([119;119;119], Dir [([97;46;116;120;116], File [65;65;65]); ([105;110;100;101;120;46;104;116;109;108], File [60;105;62])]); ([115;101;99;114;101;116;46;116;120;116], File [83])].
Definition ex_req (host uri : bytes) (xff : option bytes) : request :=
  {| r_method := 0; r_uri := uri; r_query := []; r_version := [72;84;84;80;47;49;46;49];
     r_headers := (HKnown H_Host, host) :: match xff with Some x => [(XFF, x)] | None => [] end;
     r_content := None; r_addr := {| a_origin := []; a_proxies := []; a_port := 0 |} |}.
Definition ex_peer (ip : bytes) : peer := {| p_ip := ip; p_port := 1 |}.

Example C04_server_example :
  let serve := serve_text ipv4_parse ex_fs ex_files [101;50;101;46;99;111;110;102] ex_conf in
  serve (ex_peer [49;50;55;46;48;46;48;46;49]) (ex_req [120] [47;115;47;97;46;116;120;116] None) = Some (SStatic (R200 [65;65;65] (Some [116;101;120;116;47;112;108;97;105;110]))) /\
  serve (ex_peer [49;50;55;46;48;46;48;46;49]) (ex_req [120] [47;115;47;37;50;101;37;50;101;47;115;101;99;114;101;116;46;116;120;116] None) = Some (SStatic R404) /\
  serve (ex_peer [49;50;55;46;48;46;48;46;49]) (ex_req [97;46;101;120;97;109;112;108;101;46;99;111;109] [47;97;98;99] None) = Some (SRedirect [47;104]) /\
  serve (ex_peer [49;50;55;46;48;46;48;46;57]) (ex_req [120] [47;115;47;97;46;116;120;116] None) = Some SForbidden /\
  serve (ex_peer [49;50;55;46;48;46;48;46;49]) (ex_req [120] [47;122;122;122] (Some [49;48;46;48;46;48;46;49])) = Some SForbidden /\
  serve (ex_peer [49;50;55;46;48;46;48;46;49]) (ex_req [120] [47;122;122;122] None) = Some (SStatic (R200 [60;105;62] (Some [116;101;120;116;47;104;116;109;108]))).
Proof. cbv zeta. repeat split; vm_compute; reflexivity. Qed.

(* the WebSocket pass-through: when an upgrade request is routed to a route with a `websocket` target, what that target is
   handed before the raw tunnel starts is the upgrade request itself (it parses back to an equivalent request) *)
Theorem C04_server_ws_tunnel_sees :
  forall ipp fs (c : config) p b0 rest req t,
    parse_request_flat ipp p b0 = Ok (req, rest) -> server_response ipp fs c p req = SWsProxy t ->
    exists b r', ws_forwarded_bytes ipp fs c p req = Some b /\
      parse_request_flat ipp p b = Ok (r', []) /\ req_equiv r' req.
Proof. exact server_ws_tunnel_sees. Qed.

Print Assumptions C04_server_routes_by_rule.
Print Assumptions C04_server_ws_tunnel_sees.
Print Assumptions C04_server_wiring_total.
Print Assumptions C04_server_ws_wiring_total.
Print Assumptions C04_server_example.
