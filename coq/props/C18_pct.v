(* C18, percent-encoding part (RFC 3986 section 2.1 / 2.3) — property theorems only.
   Each is closed by `exact <lemma>`; statements are written out in full so that weakening a lemma elsewhere breaks this
   file.  Model: theories/Percent.v (humphrey/src/percent.rs after the F29 repair); table: theories/TablesPct.v, generated
   from percent.rs on every run.  Strings are byte lists (percent_decode iterates the UTF-8 bytes of its &str). *)
From Hv Require Import Prelude TablesPct Percent PercentProofs.
Open Scope N_scope.

(* The table in the Rust source is exactly RFC 3986's unreserved set ALPHA / DIGIT / "-" / "." / "_" / "~",
   without duplicates (66 characters). *)
Theorem C18_pct_unreserved_table_is_rfc3986 :
  forall c : N, In c UNRESERVED_CHARACTERS <-> rfc_unreserved c = true.
Proof. exact unreserved_table_in_iff. Qed.

Theorem C18_pct_unreserved_table_nodup :
  NoDup UNRESERVED_CHARACTERS /\ length UNRESERVED_CHARACTERS = 66%nat.
Proof. exact unreserved_table_nodup. Qed.

(* pct_encode_spec: every byte is mapped as the RFC says — an unreserved byte to itself, any other byte b to
   "%" HEXDIG HEXDIG with the uppercase digits of b/16 and b mod 16 — and the output is the concatenation of the
   per-byte images (PctEncodes relates a byte string to exactly that concatenation; it is functional). *)
Theorem C18_pct_encode_spec :
  forall bs : list N, Forall is_byte bs -> PctEncodes bs (percent_encode bs).
Proof. exact percent_encode_spec. Qed.

Theorem C18_pct_encode_spec_determines_output :
  forall bs s1 s2, PctEncodes bs s1 -> PctEncodes bs s2 -> s1 = s2.
Proof. exact PctEncodes_functional. Qed.

Theorem C18_pct_encode_byte :
  forall b : N, is_byte b ->
    (rfc_unreserved b = true /\ percent_encode [b] = [b]) \/
    (rfc_unreserved b = false /\
     exists h l, UpperHexDigit h (b / 16) /\ UpperHexDigit l (b mod 16) /\ percent_encode [b] = [pct; h; l]).
Proof. exact percent_encode_singleton_spec. Qed.

Theorem C18_pct_encode_concat :
  forall a b : list N, percent_encode (a ++ b) = percent_encode a ++ percent_encode b.
Proof. exact percent_encode_app. Qed.

(* what an uppercase hex digit is: "0".."9" or "A".."F", with its value *)
Theorem C18_pct_upper_hex_digit_chars :
  forall c v, UpperHexDigit c v -> (48 <= c <= 57 /\ v = c - 48) \/ (65 <= c <= 70 /\ v = c - 55).
Proof. exact UpperHexDigit_chars. Qed.

(* output alphabet = unreserved + "%" + uppercase HEXDIG (in particular ASCII, so the String is valid UTF-8) *)
Theorem C18_pct_encode_alphabet :
  forall bs : list N, Forall is_byte bs ->
    Forall (fun c => rfc_unreserved c = true \/ c = pct \/ exists v, UpperHexDigit c v) (percent_encode bs).
Proof. exact percent_encode_alphabet. Qed.

(* pct_decode_encode: decoding an encoded byte string gives the byte string back, for every byte string *)
Theorem C18_pct_decode_encode :
  forall bs : list N, Forall is_byte bs -> percent_decode (percent_encode bs) = Some bs.
Proof. exact percent_decode_encode. Qed.

(* the encoding is injective: two different byte strings never share an encoding *)
Theorem C18_pct_encode_injective :
  forall a b : list N, Forall is_byte a -> Forall is_byte b -> percent_encode a = percent_encode b -> a = b.
Proof. exact percent_encode_injective. Qed.

(* pct_decode_iff: decode succeeds exactly on the strings in which every "%" is followed by two hexadecimal digits
   (either case), and then returns the denoted bytes; otherwise it returns None. *)
Theorem C18_pct_decode_iff :
  forall s b : list N,
    percent_decode s = Some b <->
    (forall i, nth_error s i = Some pct ->
               exists h1 h2, nth_error s (S i) = Some h1 /\ nth_error s (S (S i)) = Some h2 /\
                             (exists v, HexDigit h1 v) /\ (exists v, HexDigit h2 v))
    /\ b = denote s.
Proof. exact percent_decode_iff. Qed.

Theorem C18_pct_decode_none_iff :
  forall s : list N, percent_decode s = None <-> ~ EveryPctFollowedByTwoHex s.
Proof. exact percent_decode_none_iff. Qed.

(* the same, against the grammar literal / "%" HEXDIG HEXDIG as an inductive relation *)
Theorem C18_pct_decode_iff_grammar :
  forall s b : list N, percent_decode s = Some b <-> PctDenotes s b.
Proof. exact decode_iff_denotes. Qed.

(* the modelled char::to_digit(16) is the HEXDIG table *)
Theorem C18_pct_to_digit_is_hexdig :
  forall c v, to_digit16 c = Some v <-> HexDigit c v.
Proof. exact to_digit16_HexDigit. Qed.

(* The decoder as it was at the pinned commit (F29) violates pct_decode_iff: "%+1" decodes. *)
Theorem C18_pct_old_refuted :
  exists s b, percent_decode_old s = Some b /\ ~ EveryPctFollowedByTwoHex s.
Proof. exact percent_decode_old_refuted. Qed.

(* Non-vacuity / concrete instances (RFC 3986 examples and the repo's own test strings). *)
Example C18_pct_examples :
  percent_encode [116; 104; 105; 115; 32; 105; 115; 33; 0; 255; 126] =
    [116; 104; 105; 115; 37; 50; 48; 105; 115; 37; 50; 49; 37; 48; 48; 37; 70; 70; 126]
  /\ percent_decode [37; 55; 101; 37; 55; 69; 37; 52; 49] = Some [126; 126; 65]     (* %7e%7E%41 *)
  /\ percent_decode [37; 43; 49] = None /\ percent_decode [37] = None /\ percent_decode [37; 52] = None
  /\ percent_decode [37; 195; 169] = None /\ percent_decode [37; 50; 53] = Some [37]
  /\ percent_decode_old [37; 43; 49] = Some [1]
  /\ Forall is_byte [0; 37; 255].
Proof. vm_compute. repeat split; repeat constructor. Qed.

Print Assumptions C18_pct_unreserved_table_is_rfc3986.
Print Assumptions C18_pct_unreserved_table_nodup.
Print Assumptions C18_pct_encode_spec.
Print Assumptions C18_pct_encode_spec_determines_output.
Print Assumptions C18_pct_encode_byte.
Print Assumptions C18_pct_encode_concat.
Print Assumptions C18_pct_upper_hex_digit_chars.
Print Assumptions C18_pct_encode_alphabet.
Print Assumptions C18_pct_decode_encode.
Print Assumptions C18_pct_encode_injective.
Print Assumptions C18_pct_decode_iff.
Print Assumptions C18_pct_decode_none_iff.
Print Assumptions C18_pct_decode_iff_grammar.
Print Assumptions C18_pct_to_digit_is_hexdig.
Print Assumptions C18_pct_old_refuted.
Print Assumptions C18_pct_examples.
