(* C20 — a shutdown signal always ends `run`, promptly, and frees the port. Property theorems only (model: Shutdown.v,
   the accept thread / signalling thread / kernel backlog transition system of App::run). *)
From Hv Require Import Prelude Shutdown ShutdownProofs ShutdownMoreProofs.

(* Once the signal has been received, in every reachable state that has not yet returned some internal step (of the
   accept thread or of the signalling thread) is enabled: no deadlock, whatever connections are queued or were accepted. *)
Theorem C20_progress_after_signal :
  forall (ls : list label) (x : st), run init ls = Some x ->
    s x <> SWait -> s x <> SReturned -> enabled_internal x = true.
Proof. intros ls x E. apply progress_after_signal. exact (inv_reachable ls init x inv_init E). Qed.

(* Every internal step strictly decreases a natural-number measure and a client connect raises it by at most 5: from any
   state a run with k client connects has at most measure + 5k internal steps — `run` returns within bounded work. *)
Theorem C20_bounded_internal_steps :
  forall (ls : list label) (x y : st), run x ls = Some y ->
    (length (filter (fun l => negb (is_env l)) ls) + measure y <= measure x + 5 * length (filter is_env ls))%nat.
Proof. exact bounded_internal_steps. Qed.

(* When nothing internal can happen any more after the signal, run has returned, the accept thread is done and the
   listener is closed (the port is free). *)
Theorem C20_stuck_means_returned_and_port_free :
  forall (ls : list label) (x : st), run init ls = Some x ->
    s x <> SWait -> enabled_internal x = false -> s x = SReturned /\ listening x = false /\ a x = ADone.
Proof. intros ls x E. apply stuck_means_returned. exact (inv_reachable ls init x inv_init E). Qed.

(* Until the signal is received the server keeps accepting and nothing is dropped. *)
Theorem C20_serves_until_signal :
  forall (ls : list label) (y : st), run init ls = Some y -> s y = SWait ->
    dropped y = [] /\ flag y = false /\ listening y = true /\ a y <> AStop /\ a y <> ADone.
Proof. exact serves_until_signal. Qed.

(* At most one accepted connection is dropped unanswered (the one whose accept observed the flag). *)
Theorem C20_at_most_one_dropped :
  forall (ls : list label) (y : st), run init ls = Some y -> (length (dropped y) <= 1)%nat.
Proof. exact at_most_one_dropped. Qed.

(* The accept that returns the wake-up connection — or any accept after the flag was stored — observes the flag. *)
Theorem C20_flag_before_wake :
  forall (ls : list label) (y : st) (c : conn), run init ls = Some y -> a y = ACheck c ->
    (c = Wake \/ s y = SJoin \/ s y = SConnect) -> flag y = true.
Proof. exact flag_before_wake. Qed.

Example C20_trace :
  run init [EnvConnect 1; Accept; CheckGo; Dispatch; Signal; EnvConnect 2; Store; WakeConnect; Accept; CheckBreak; Stop; Join]
  = Some {| a := ADone; s := SReturned; flag := true; backlog := []; served := [Client 1]; dropped := [Client 2];
            listening := false |}.
Proof. exact shutdown_trace. Qed.

(* "responses to requests received before it are not truncated": a connection handed to the pool stays handed — the
   shutdown path never takes one back (the list of served connections only grows at its end) *)
Theorem C20_served_only_grows :
  forall (ls : list label) (x y : st), run x ls = Some y -> exists more, served y = served x ++ more.
Proof. exact served_only_grows. Qed.

(* once the accept loop has observed the flag, nothing more is handed to a handler, whatever still arrives *)
Theorem C20_nothing_served_after_break :
  forall (ls : list label) (x y : st), run x ls = Some y -> (a x = AStop \/ a x = ADone) ->
    served y = served x /\ (a y = AStop \/ a y = ADone).
Proof. exact nothing_served_after_break. Qed.

(* the wake-up connection made by the signalling thread never reaches a handler *)
Theorem C20_wake_never_served :
  forall (ls : list label) (y : st), run init ls = Some y ->
    ~ In Wake (served y) /\ forall c, a y = ADispatch c -> c <> Wake.
Proof. exact wake_never_served. Qed.

(* a connection is dropped unanswered only by the loop iteration that observed the flag *)
Theorem C20_dropped_only_at_break :
  forall (x : st) (l : label) (y : st), step x l = Some y -> dropped y <> dropped x ->
    l = CheckBreak /\ flag x = true /\ exists c, a x = ACheck c /\ dropped y = dropped x ++ [c].
Proof. exact dropped_only_at_break. Qed.

Print Assumptions C20_progress_after_signal.
Print Assumptions C20_served_only_grows.
Print Assumptions C20_nothing_served_after_break.
Print Assumptions C20_wake_never_served.
Print Assumptions C20_dropped_only_at_break.
Print Assumptions C20_bounded_internal_steps.
Print Assumptions C20_stuck_means_returned_and_port_free.
Print Assumptions C20_serves_until_signal.
Print Assumptions C20_at_most_one_dropped.
Print Assumptions C20_flag_before_wake.
Print Assumptions C20_trace.
