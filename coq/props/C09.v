(* C09 — proxy always answers: upstream's response if valid, else 502. Property theorems only.
   (The truncation theorem — no strict prefix of a conforming response parses Ok — is in C09_trunc.v; the statement that
   the parser returns exactly what a conforming upstream sent, for Content-Length and every chunking, is C07_flat.v.) *)
From Hv Require Import Prelude Bytes StreamBuf TablesHttp Http HttpStreamProofs Proxy ProxyProofs.
Open Scope N_scope.

(* proxy_request is total: for every upstream behaviour it yields the upstream's parsed response or the 502 page. *)
Theorem C09_proxy_total :
  forall u : upstream,
    proxy_result u = bad_gateway \/
    exists b r rest, u = USends b /\ parse_response_flat b = Ok (r, rest) /\ proxy_result u = r.
Proof. exact proxy_result_cases. Qed.

Theorem C09_refused_is_502 : proxy_result URefused = bad_gateway.
Proof. exact proxy_refused_502. Qed.

(* whatever does not parse as a response (garbage, header-malformed, cut at any byte: see C09_truncated_never_ok) is a 502 *)
Theorem C09_unparsable_is_502 :
  forall b : bytes, (forall r rest, parse_response_flat b <> Ok (r, rest)) -> proxy_result (USends b) = bad_gateway.
Proof. exact proxy_error_502. Qed.

(* a response the parser accepts is passed through unchanged *)
Theorem C09_passthrough :
  forall (b : bytes) (r : response) (rest : bytes), parse_response_flat b = Ok (r, rest) -> proxy_result (USends b) = r.
Proof. exact proxy_passthrough. Qed.

(* the response parser itself never panics and terminates on every upstream byte string and read segmentation *)
Theorem C09_response_parser_safe :
  forall cs : chunks, wf_chunks cs ->
    parse_response_chunked cs <> Err 99 /\ is_crash (parse_response_chunked cs) = false.
Proof. exact parse_response_chunked_safe. Qed.

(* round robin: from index 0 the n-th selection is target (n mod len) — strict rotation; the Mutex makes concurrent
   callers sequential, so this covers every interleaving of selecting threads *)
Theorem C09_round_robin_rotation :
  forall (n : nat) (len : N), 0 < len -> rr_run n len 0 = map (fun k => N.of_nat k mod len) (seq 0 n).
Proof. exact round_robin_rotation. Qed.

Theorem C09_random_in_set : forall len v : N, 0 < len -> lcg_choose len v < len.
Proof. exact lcg_choose_in_range. Qed.

Example C09_example :
  let ok := [72;84;84;80;47;49;46;49;32;50;48;48;32;79;75;13;10;67;111;110;116;101;110;116;45;76;101;110;103;116;104;58;32;50;13;10;13;10;104;105] in
  s_body (proxy_result (USends ok)) = [104;105] /\
  proxy_result (USends (firstn 39 ok)) = bad_gateway /\
  proxy_result (USends [103;97;114;98;97;103;101]) = bad_gateway /\
  rr_run 5 3 0 = [0;1;2;0;1].
Proof. vm_compute. repeat split. Qed.

Print Assumptions C09_proxy_total.
Print Assumptions C09_refused_is_502.
Print Assumptions C09_unparsable_is_502.
Print Assumptions C09_passthrough.
Print Assumptions C09_response_parser_safe.
Print Assumptions C09_round_robin_rotation.
Print Assumptions C09_random_in_set.
Print Assumptions C09_example.
