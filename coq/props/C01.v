(* C01 — placeholder: theorems follow (ConnProofs). *)
From Hv Require Import Prelude Bytes StreamBuf TablesHttp Http Conn.
Example C01_example_keepalive_then_close :
  let r1 := [71;69;84;32;47;102;105;120;101;100;32;72;84;84;80;47;49;46;49;13;10;67;111;110;110;101;99;116;105;111;110;58;32;107;101;101;112;45;97;108;105;118;101;13;10;13;10] in
  let r2 := [71;69;84;32;47;110;111;112;101;32;72;84;84;80;47;49;46;48;13;10;13;10] in
  let rs := [{| cr_pat := [47;102;105;120;101;100;42]; cr_beh := HFixed [104;105]; cr_cors := cors_none |}] in
  let res := serve_conn ipv4_parse rs [68] {| p_ip := [49]; p_port := 1 |} [Some r1; Some r2] in
  length (fst res) = 2%nat /\ snd res = ENoKeepAlive.
Proof. vm_compute. split; reflexivity. Qed.
Print Assumptions C01_example_keepalive_then_close.
