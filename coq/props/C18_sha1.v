(* C18, SHA-1 part — humphrey-ws/src/util/sha1.rs computes RFC 3174 bit-exactly for every message.
   Property theorems only: statements in full, each closed by `exact <lemma>`.
   Model: theories/Sha1.v (sha1.rs as written: padded length ((len*8+583)/512)*64, zero vector patched in place,
   one 80-word array reused across chunks, u32 wrapping arithmetic). Spec: theories/Sha1Spec.v (RFC 3174 §3-§6.1
   on bit strings: padding by its §4 characterisation, words = 32-bit groups, fresh W(0..79) per block,
   digest = the 160-bit string H0..H4 as octets). *)
From Hv Require Import Prelude BitsBE Sha1 Sha1Spec Sha1Proofs.
Open Scope N_scope.

(* For every byte string whose bit length fits the code's usize arithmetic (len*8 + 583 < 2^64, i.e. every message
   below 2^61 - 73 bytes; RFC 3174 itself requires a length < 2^64 bits), the model returns exactly the RFC 3174
   digest, and none of its panic sites is reached. *)
Theorem C18_sha1_model_eq_spec :
  forall m : list N, Forall (fun x => x < 256) m -> N.of_nat (length m) * 8 + 583 < 2 ^ 64 ->
    sha1 m = Ok (sha1_spec m).
Proof. exact sha1_model_eq_spec. Qed.

(* Beyond that bound the expression `len * 8 + 583` overflows usize (a panic when overflow checks are on). *)
Theorem C18_sha1_overflow_boundary :
  forall m : list N, 2 ^ 64 <= N.of_nat (length m) * 8 + 583 -> sha1 m = Crash 1.
Proof. exact sha1_overflow. Qed.

(* Whatever the input, a returned digest is 20 octets. *)
Theorem C18_sha1_output_20_bytes :
  forall (m d : list N), sha1 m = Ok d -> length d = 20%nat /\ Forall (fun x => x < 256) d.
Proof. exact sha1_output. Qed.

(* The in-place schedule of the code (array reused across chunks, words 16..79 stale when a chunk starts) equals
   the fresh sequence W(0..79) of §6.1 whatever the stale contents are. *)
Theorem C18_sha1_schedule_ignores_stale_words :
  forall block stale : list N, length block = 16%nat -> length stale = 64%nat ->
    extend (block ++ stale) = schedule block.
Proof. exact extend_schedule. Qed.

(* The padded vector the code builds is the §4 padding of the message's bit string. *)
Theorem C18_sha1_padding :
  forall m : list N, N.of_nat (length m) * 8 + 583 < 2 ^ 64 ->
    exists message, pad_message m = Ok message /\
      flat_map (bits_be 8) message = pad_bits (flat_map (bits_be 8) m) /\
      (length message mod 64 = 0)%nat.
Proof. exact sha1_padding. Qed.

(* The §4 padding of the specification is well defined for EVERY bit string (not only whole octets): the number of
   "0"s is the least k with l + 1 + k = 448 (mod 512) — the `None` branch of zero_count is dead — and the padded
   message is a whole number of 512-bit blocks. *)
Theorem C18_sha1_spec_padding_well_defined :
  forall msg : list bool,
    let l := N.of_nat (length msg) in
    let k := zero_count l in
    k < 512 /\ (l + 1 + k) mod 512 = 448 /\ (forall j, j < k -> (l + 1 + j) mod 512 <> 448) /\
    N.of_nat (length (pad_bits msg)) mod 512 = 0.
Proof. exact spec_padding_well_defined. Qed.

(* RFC 3174 §7.3 test vectors (TEST1 "abc", TEST2 the 56-byte message) and the empty message, evaluated on the
   SPECIFICATION (so the spec is not a copy of the model), and the model on the same inputs. *)
Definition test2 : list N :=
  [97;98;99;100;98;99;100;101;99;100;101;102;100;101;102;103;101;102;103;104;102;103;104;105;103;104;105;106;
   104;105;106;107;105;106;107;108;106;107;108;109;107;108;109;110;108;109;110;111;109;110;111;112;110;111;112;113].

Example C18_sha1_rfc_vectors_spec :
  (* A9993E36 4706816A BA3E2571 7850C26C 9CD0D89D *)
  sha1_spec [97; 98; 99] =
    [0xA9;0x99;0x3E;0x36;0x47;0x06;0x81;0x6A;0xBA;0x3E;0x25;0x71;0x78;0x50;0xC2;0x6C;0x9C;0xD0;0xD8;0x9D] /\
  (* 84983E44 1C3BD26E BAAE4AA1 F95129E5 E54670F1 *)
  sha1_spec test2 =
    [0x84;0x98;0x3E;0x44;0x1C;0x3B;0xD2;0x6E;0xBA;0xAE;0x4A;0xA1;0xF9;0x51;0x29;0xE5;0xE5;0x46;0x70;0xF1] /\
  (* DA39A3EE 5E6B4B0D 3255BFEF 95601890 AFD80709 *)
  sha1_spec [] =
    [0xDA;0x39;0xA3;0xEE;0x5E;0x6B;0x4B;0x0D;0x32;0x55;0xBF;0xEF;0x95;0x60;0x18;0x90;0xAF;0xD8;0x07;0x09] /\
  (* TEST3: one million 'a' is out of reach of vm_compute on bit lists; 1000 'a' (16 blocks) instead:
     291E9A6C 66994949 B57BA5E6 50361E98 FC36B1BA (CPython hashlib) *)
  sha1_spec (repeat 97 1000) =
    [0x29;0x1E;0x9A;0x6C;0x66;0x99;0x49;0x49;0xB5;0x7B;0xA5;0xE6;0x50;0x36;0x1E;0x98;0xFC;0x36;0xB1;0xBA].
Proof. vm_compute. repeat split. Qed.

Example C18_sha1_rfc_vectors_model :
  sha1 [97; 98; 99] = Ok (sha1_spec [97; 98; 99]) /\ sha1 test2 = Ok (sha1_spec test2) /\ sha1 [] = Ok (sha1_spec []).
Proof. vm_compute. repeat split. Qed.

Print Assumptions C18_sha1_model_eq_spec.
Print Assumptions C18_sha1_overflow_boundary.
Print Assumptions C18_sha1_output_20_bytes.
Print Assumptions C18_sha1_schedule_ignores_stale_words.
Print Assumptions C18_sha1_padding.
Print Assumptions C18_sha1_spec_padding_well_defined.
Print Assumptions C18_sha1_rfc_vectors_spec.
Print Assumptions C18_sha1_rfc_vectors_model.
