(* C08 — thread pool: tasks run exactly once, panics are isolated, shutdown terminates.
   Property theorems only; every statement is about the labelled transition system of Pool.v (`step`, the code after
   the F16 fix; `step_old`, the code before it), for every thread count, every script of the caller and EVERY
   interleaving: `run init tr = Some s` quantifies over arbitrary label lists the step function accepts. *)
From Hv Require Import Prelude Pool PoolProofs.
From Coq Require Import Permutation.

(* Exactly once. In every reachable state the ids still queued, the ids running on some worker, the ids whose task
   returned and the ids whose task panicked together are exactly the submitted ids, without repetition: no task is
   lost, none is duplicated, a finished task is neither queued nor running nor also recorded as panicked. *)
Theorem C08_exactly_once : forall tr s, run init tr = Some s ->
  NoDup (submitted s) /\
  Permutation (qtasks (queue s) ++ running s ++ done s ++ panicked s) (submitted s) /\
  NoDup (qtasks (queue s) ++ running s ++ done s ++ panicked s) /\
  NoDup (done s) /\
  (forall id, In id (done s) ->
     In id (submitted s) /\ ~ In id (qtasks (queue s)) /\ ~ In id (running s) /\ ~ In id (panicked s)).
Proof. exact exactly_once. Qed.

(* `done` changes only by a Finish step, which adds the id that worker was running; with NoDup (done s) in every
   state this is "a task id enters `done` at most once". *)
Theorem C08_done_only_by_finish : forall s l s', step s l = Some s' ->
  done s' = done s \/ exists w id, l = Finish w /\ ws s w = Running id /\ done s' = id :: done s.
Proof. exact (done_grows false). Qed.

(* The receiver mutex is held only inside recv(): never while a task runs. *)
Theorem C08_lock_free_while_running : forall tr s, run init tr = Some s ->
  (forall w, lock s = Some w -> ws s w = InRecv) /\
  (forall w id, ws s w = Running id -> lock s <> Some w).
Proof. exact lock_free_while_running. Qed.

(* Up to n tasks at the same time: for every n there is an accepted trace after which all n workers are running
   (distinct tasks), and never more than n. *)
Theorem C08_n_concurrent_reachable : forall n, 1 <= n ->
  exists tr s, run init tr = Some s /\ nthreads s = n /\ (forall w, w < n -> ws s w = Running w) /\
               running_count s = n /\ lock s = None.
Proof. exact n_concurrent_reachable. Qed.

Theorem C08_at_most_n_running : forall s, running_count s <= nthreads s.
Proof. exact at_most_n_running. Qed.

(* Panic isolation. *)
Theorem C08_panic_isolated : forall tr s, run init tr = Some s ->
  (forall w s', step s (Panic w) = Some s' ->
     (forall x, x <> w -> ws s' x = ws s x) /\ queue s' = queue s /\ lock s' = lock s /\ done s' = done s /\
     rchan s' = rchan s /\ ws s' w = Unwinding) /\
  (forall w s', step s (Notify w) = Some s' ->
     (forall x, x <> w -> ws s' x = ws s x) /\ queue s' = queue s /\ lock s' = lock s /\ done s' = done s /\
     rchan s' = rchan s ++ [w] /\ ws s' w = Dead) /\
  (forall w s', step s (Recover w) = Some s' ->
     (forall x, x <> w -> ws s' x = ws s x) /\ queue s' = queue s /\ lock s' = lock s /\ done s' = done s /\
     rchan s = w :: rchan s' /\ ws s' w = Idle) /\
  (forall w id, ws s w = Running id ->
     exists s1 s2, step s (Panic w) = Some s1 /\ step s1 (Notify w) = Some s2 /\ rchan s2 = rchan s ++ [w] /\
                   queue s2 = queue s /\ done s2 = done s /\ forall x, x <> w -> ws s2 x = ws s x) /\
  (forall h r, rchan s = h :: r -> exists s', step s (Recover h) = Some s') /\
  (forall l s' w, step s l = Some s' -> In w (rchan s) -> l <> Recover w -> In w (rchan s')) /\
  (handle s = HStarted -> (forall w, ws s w <> Unwinding) ->
     exists s', run s (map Recover (rchan s)) = Some s' /\ rchan s' = [] /\
                count_upto (nthreads s') usable (ws s') = nthreads s /\ queue s' = queue s /\ done s' = done s).
Proof. exact panic_isolated. Qed.

(* Shutdown terminates. Once the pool value is gone (Stop or not, then DropBegin, DropEnd — `handle s = HDropped`;
   no Execute is possible any more), every step is a step of a worker or of the recovery thread and strictly lowers
   measure = 5 * |queue| + sum of weights (Running 5 > Unwinding 4 > Dead 3 > Idle 2 > InRecv 1 > Exited 0); hence
   every continuation has at most `measure s` steps; a state in which nothing can move has every worker Exited,
   nothing queued or running, the mutex free, no recovery pending, and done ++ panicked a permutation of the
   submitted ids (no deadlock, no lost task); and such a state is reached. *)
Theorem C08_shutdown_terminates : forall tr s, run init tr = Some s -> handle s = HDropped ->
  (forall l s', step s l = Some s' -> worker_label l = true /\ handle s' = HDropped /\ measure s' < measure s) /\
  (forall tr' s', run s tr' = Some s' -> length tr' + measure s' <= measure s) /\
  (forall tr' s', run s tr' = Some s' -> (forall l, step s' l = None) ->
     (forall w, ws s' w = Exited) /\ qtasks (queue s') = [] /\ running s' = [] /\ lock s' = None /\ rchan s' = [] /\
     Permutation (done s' ++ panicked s') (submitted s')) /\
  (exists tr' s', run s tr' = Some s' /\
     ((forall w, ws s' w = Exited) /\ qtasks (queue s') = [] /\ running s' = [] /\ lock s' = None /\ rchan s' = [] /\
      Permutation (done s' ++ panicked s') (submitted s')) /\
     forall l, step s' l = None).
Proof. exact shutdown_terminates. Qed.

(* Workers and the recovery thread cannot keep each other busy forever in any state (also before stop/drop):
   a sequence of their steps is bounded by the measure. *)
Theorem C08_workers_cannot_run_forever : forall tr s, run init tr = Some s ->
  forall tr' s', Forall (fun l => worker_label l = true) tr' -> run s tr' = Some s' ->
  length tr' + measure s' <= measure s.
Proof. exact workers_cannot_run_forever. Qed.

(* Work conservation, in every phase of the lifecycle (started, stopped, dropping, dropped): whenever no worker and
   not the recovery thread can take a step — all of them blocked or gone — no task is queued, none is running, no
   recovery is pending, and done ++ panicked is a permutation of the submitted ids. "Already queued tasks finish":
   a pool that still has work can always move. *)
Theorem C08_no_pending_work_when_quiescent : forall tr s, run init tr = Some s ->
  (forall l, worker_label l = true -> step s l = None) ->
  qtasks (queue s) = [] /\ running s = [] /\ rchan s = [] /\ Permutation (done s ++ panicked s) (submitted s).
Proof. exact no_pending_work_when_quiescent. Qed.

(* FIFO: the ids handed to workers (in the order of the Recv steps of the trace) followed by the ids still queued
   are the submitted ids in submission order. *)
Theorem C08_fifo_order : forall tr s, run init tr = Some s ->
  flat_map recv_of tr ++ qtasks (queue s) = submitted s /\ submitted s = flat_map exec_of tr.
Proof. exact fifo_order. Qed.

(* Each submitted id is handed to a worker at most once along any trace, and exactly once (in submission order) as
   soon as nothing is left queued. *)
Theorem C08_each_task_received_once : forall tr s, run init tr = Some s ->
  NoDup (flat_map recv_of tr) /\ (qtasks (queue s) = [] -> flat_map recv_of tr = submitted s).
Proof. exact each_task_received_once. Qed.

(* "Recover w is eventually enabled": a pending request is served right after the requests queued before it, the
   worker is Idle again afterwards, and neither the queue nor `done` is touched on the way. *)
Theorem C08_recover_eventually : forall tr s, run init tr = Some s -> forall l1 w l2, rchan s = l1 ++ w :: l2 ->
  exists s1 s2, run s (map Recover l1) = Some s1 /\ step s1 (Recover w) = Some s2 /\
                ws s2 w = Idle /\ queue s2 = queue s /\ done s2 = done s /\ rchan s2 = l2.
Proof. exact recover_eventually_reachable. Qed.

(* The caller is never blocked, whether or not stop was called first: Stop is a single enabled step; DropBegin is
   enabled in every live handle state and, whatever the other threads do meanwhile, DropEnd stays enabled. *)
Theorem C08_drop_terminates_either_way : forall tr s, run init tr = Some s ->
  (handle s = HStarted \/ handle s = HStopped -> exists s', step s Stop = Some s') /\
  (handle s = HNew \/ handle s = HStarted \/ handle s = HStopped ->
     exists s1, step s DropBegin = Some s1 /\
       forall tr' s2, Forall (fun l => l <> DropEnd) tr' -> run s1 tr' = Some s2 ->
         exists s3, step s2 DropEnd = Some s3 /\ handle s3 = HDropped /\ sender s3 = false).
Proof. exact caller_never_blocked. Qed.

(* F16, the code before the fix: start, one task, drop without stop reaches a state (the caller inside Drop) from
   which DropEnd is never enabled again, whatever happens afterwards. The old model is the same transition system
   except for DropBegin. *)
Theorem C08_drop_without_stop_refuted :
  exists tr s, run_old init tr = Some s /\ handle s = HDropping /\
               forall tr' s', run_old s tr' = Some s' -> step_old s' DropEnd = None.
Proof. exact drop_without_stop_refuted. Qed.

Theorem C08_old_differs_only_in_drop : forall s l, l <> DropBegin -> step_old s l = step s l.
Proof. exact old_differs_only_in_drop. Qed.

(* rx.lock() never fails: no transition panics while the mutex is held. *)
Theorem C08_lock_never_poisoned : forall s w, step s (LockPoisoned w) = None.
Proof. exact lock_never_poisoned. Qed.

(* `accepts` and `first_reject` (used by the conformance check) agree with `run`. *)
Theorem C08_accepts_iff_run : forall tr, (accepts tr = true <-> exists s, run init tr = Some s) /\
                                         (first_reject tr = None <-> accepts tr = true).
Proof. intros tr. split; [exact (accepts_run tr)|exact (first_reject_accepts tr)]. Qed.

(* Non-vacuity. One worker, three tasks, the first two panic (the second on the restarted worker), stop, drop:
   the model accepts the interleaving the harness observes, and ends finished with done = [2], panicked = [1;0]. *)
Example C08_example_restart_panics_again :
  let tr := [Start 1; Execute 0; Execute 1; Execute 2; Acquire 0; Recv 0 (RTask 0); Panic 0; Stop; DropBegin; DropEnd;
             Notify 0; Recover 0; Acquire 0; Recv 0 (RTask 1); Panic 0; Notify 0; Recover 0; Acquire 0;
             Recv 0 (RTask 2); Finish 0; Acquire 0; Recv 0 RShutdown] in
  accepts tr = true /\
  option_map (fun s => (done s, panicked s, ws s 0, handle s)) (run init tr) = Some ([2], [1; 0], Exited, HDropped) /\
  accepts (tr ++ [Acquire 0]) = false.
Proof. vm_compute. repeat split. Qed.

(* After stop() without drop the Sender is still alive: one worker takes the single Shutdown message, the other
   stays blocked in recv (no step) until the pool is dropped. *)
Example C08_example_stop_waits_for_drop :
  let tr := [Start 2; Stop; Acquire 0; Recv 0 RShutdown; Acquire 1] in
  accepts tr = true /\ accepts (tr ++ [Recv 1 RClosed]) = false /\
  accepts (tr ++ [DropBegin; DropEnd; Recv 1 RClosed]) = true.
Proof. vm_compute. repeat split. Qed.

(* The trace of C08_n_concurrent_reachable for n = 3, and the F16 witness on both models. *)
Example C08_example_concurrent :
  option_map running_count (run init (conc_trace 3)) = Some 3 /\
  accepts [Start 2; Execute 0; DropBegin; DropEnd] = true /\
  run_old init [Start 2; Execute 0; DropBegin; DropEnd] = None /\
  (exists s, run_old init [Start 2; Execute 0; Stop; DropBegin; DropEnd] = Some s).
Proof. vm_compute. repeat split. eexists; reflexivity. Qed.

Print Assumptions C08_exactly_once.
Print Assumptions C08_done_only_by_finish.
Print Assumptions C08_lock_free_while_running.
Print Assumptions C08_n_concurrent_reachable.
Print Assumptions C08_at_most_n_running.
Print Assumptions C08_panic_isolated.
Print Assumptions C08_shutdown_terminates.
Print Assumptions C08_workers_cannot_run_forever.
Print Assumptions C08_no_pending_work_when_quiescent.
Print Assumptions C08_fifo_order.
Print Assumptions C08_each_task_received_once.
Print Assumptions C08_recover_eventually.
Print Assumptions C08_drop_terminates_either_way.
Print Assumptions C08_drop_without_stop_refuted.
Print Assumptions C08_old_differs_only_in_drop.
Print Assumptions C08_lock_never_poisoned.
Print Assumptions C08_accepts_iff_run.
Print Assumptions C08_example_restart_panics_again.
Print Assumptions C08_example_stop_waits_for_drop.
Print Assumptions C08_example_concurrent.
