(* C13 — JSON parser accepts exactly RFC 8259, serialiser emits it, and they round-trip.
   Property theorems only: each is closed by `exact <lemma>`; statements are written out in full here so that weakening a
   lemma elsewhere breaks this file.

   Reading guide.
   * `parse fparse s` is the model of Value::parse (parser.rs after fixes F22/F23/F25, limit = MAX_DEPTH read from the source),
     `serialize`/`serialize_pretty` the model of serialize.rs; strings are lists of code points; `value F` mirrors `Value`.
   * f64 is abstract: F is any type, `fparse : str -> option F` stands for f64::from_str, `fdisplay : F -> str` for Display,
     `ffinite : F -> Prop` for is_finite. The two hypotheses about them are spelled out in the serialiser theorems.
   * `JText fparse s v` (JsonSpec.v): s is an RFC 8259 JSON-text all of whose \uXXXX escapes are non-surrogates or proper
     high+low pairs, and v is the value it denotes (members in document order, duplicates kept; a number literal denotes
     `fparse` of its text). `JSyntax` is the full RFC syntax, which additionally admits unpaired surrogate escapes; the
     property allows rejecting those, and the parser does (C13_lone_surrogate_rejected).
   * `depth v`: scalars 0, containers 1 + deepest child.  `serialisable ffinite v`: every number finite, every string/key made
     of code points <= 0x10FFFF (always true of a Rust String). *)
From Hv Require Import Prelude TablesJson Json JsonSpec JsonProofs.
Open Scope N_scope.

(* --- parser: accepts only JSON texts within the depth limit, and returns the denoted value --- *)
Theorem C13_parse_sound :
  forall (F : Type) (fparse : str -> option F) (s : str) (v : value F),
    parse fparse s = Ok v -> JText fparse s v /\ depth v <= MAX_DEPTH.
Proof. exact parse_sound. Qed.

(* --- parser: accepts every JSON text (paired surrogate escapes) nested no deeper than the limit --- *)
Theorem C13_parse_complete :
  forall (F : Type) (fparse : str -> option F) (s : str) (v : value F),
    JText fparse s v -> depth v <= MAX_DEPTH -> parse fparse s = Ok v.
Proof. exact parse_complete. Qed.

(* --- the two together, as the "if and only if" of the property; the proved parser is the decision procedure for
       "is a JSON text within the limit" --- *)
Theorem C13_parse_accepts_iff :
  forall (F : Type) (fparse : str -> option F) (s : str),
    (exists v, parse fparse s = Ok v) <-> (exists v, JText fparse s v /\ depth v <= MAX_DEPTH).
Proof. exact parse_accepts_iff. Qed.

(* --- the same "if and only if" against the FULL RFC 8259 syntax (JTextG ... true: unpaired surrogate escapes admitted):
       accepted  <->  RFC 8259 JSON-text nested no deeper than MAX_DEPTH  and  no unpaired surrogate escape in the text
       (no_lone_surrogate_escape is a syntactic scan of the text, JsonSpec.v) --- *)
Theorem C13_parse_accepts_iff_rfc :
  forall (F : Type) (fparse : str -> option F) (s : str),
    (exists v, parse fparse s = Ok v) <->
    ((exists v, JTextG F fparse true s v /\ depth v <= MAX_DEPTH) /\ no_lone_surrogate_escape s = true).
Proof. exact parse_accepts_iff_rfc. Qed.

(* --- and with the number oracle removed from the right-hand side: F := unit / fp_unit = fun _ => Some tt makes JTextG the PURE
       RFC 8259 syntax (a number is any literal of the number grammar). Hypothesis: f64::from_str accepts every literal of
       the RFC number grammar (checked by the exhaustive number stream of the correspondence). --- *)
Theorem C13_parse_accepts_iff_pure_syntax :
  forall (F : Type) (fparse : str -> option F),
    (forall l, JNumber l -> exists x, fparse l = Some x) ->
    forall s : str,
      (exists v, parse fparse s = Ok v) <->
      ((exists u, JTextG unit fp_unit true s u /\ depth u <= MAX_DEPTH) /\ no_lone_surrogate_escape s = true).
Proof. exact parse_accepts_iff_pure_syntax. Qed.

(* the sub-language JText is exactly: full syntax + no unpaired surrogate escape (same nesting depth) *)
Theorem C13_text_iff_syntax_without_lone_surrogates :
  forall (F : Type) (fparse : str -> option F) (s : str),
    (exists v, JText fparse s v) <-> (JSyntax fparse s /\ no_lone_surrogate_escape s = true).
Proof.
  intros F fparse s. split.
  - intros (v & H). split; [exact (JText_is_JSyntax F fparse s v H)|exact (JText_no_lone F fparse s v H)].
  - intros [(v & H) Hs]. destruct (JSyntax_no_lone_JText F fparse s v H Hs) as (v' & H' & _). exists v'. exact H'.
Qed.

(* --- same statements for Value::parse_max_depth with an arbitrary limit --- *)
Theorem C13_parse_max_depth_sound :
  forall (F : Type) (fparse : str -> option F) (maxd : N) (s : str) (v : value F),
    parse_max_depth F fparse false maxd s = Ok v -> JText fparse s v /\ depth v <= maxd.
Proof. intros F fparse maxd s v. exact (parse_with_fuel_sound F fparse maxd (fuel_for s) s v). Qed.

Theorem C13_parse_max_depth_complete :
  forall (F : Type) (fparse : str -> option F) (maxd : N) (s : str) (v : value F),
    JText fparse s v -> depth v <= maxd -> parse_max_depth F fparse false maxd s = Ok v.
Proof.
  intros F fparse maxd s v H Hd. exact (parse_with_fuel_complete F fparse maxd (fuel_for s) s v H Hd (le_n _)).
Qed.

(* --- a text denotes at most one value (so "the value the text denotes" is well defined) --- *)
Theorem C13_denotation_unique :
  forall (F : Type) (fparse : str -> option F) (s : str) (v v' : value F),
    JText fparse s v -> JText fparse s v' -> v = v'.
Proof. exact JText_functional. Qed.

(* --- every string and key of a parsed value consists of Unicode scalar values when the input does (&str): what the model
       pushes for \uXXXX escapes and surrogate pairs is always a valid `char` --- *)
Theorem C13_parse_strings_scalar :
  forall (F : Type) (fparse : str -> option F) (s : str) (v : value F),
    parse fparse s = Ok v -> Forall scalar s -> strings_all F scalar v.
Proof. exact parse_strings_scalar. Qed.

(* --- JText is a sub-language of the full RFC 8259 syntax --- *)
Theorem C13_text_is_rfc_syntax :
  forall (F : Type) (fparse : str -> option F) (s : str) (v : value F), JText fparse s v -> JSyntax fparse s.
Proof. exact JText_is_JSyntax. Qed.

(* --- the number check added by fix F22 decides exactly the RFC 8259 number grammar --- *)
Theorem C13_number_grammar :
  forall s : str, is_json_number s = true <-> JNumber s.
Proof. exact is_json_number_spec. Qed.

(* --- serialiser: valid RFC 8259 text denoting the value, for serialize and for serialize_pretty with ANY indent --- *)
Theorem C13_serialize_valid :
  forall (F : Type) (fparse : str -> option F) (fdisplay : F -> str) (ffinite : F -> Prop),
    (forall x, ffinite x -> JNumber (fdisplay x)) ->
    (forall x, ffinite x -> fparse (fdisplay x) = Some x) ->
    forall v : value F, serialisable F ffinite v -> JText fparse (serialize F fdisplay v) v.
Proof. exact serialize_valid. Qed.

Theorem C13_serialize_pretty_valid :
  forall (F : Type) (fparse : str -> option F) (fdisplay : F -> str) (ffinite : F -> Prop),
    (forall x, ffinite x -> JNumber (fdisplay x)) ->
    (forall x, ffinite x -> fparse (fdisplay x) = Some x) ->
    forall (n : N) (v : value F), serialisable F ffinite v -> JText fparse (serialize_pretty F fdisplay n v) v.
Proof. exact serialize_pretty_valid. Qed.

(* --- round trip: parsing the serialised text returns the value (for Value::parse: depth v <= MAX_DEPTH) --- *)
Theorem C13_roundtrip :
  forall (F : Type) (fparse : str -> option F) (fdisplay : F -> str) (ffinite : F -> Prop),
    (forall x, ffinite x -> JNumber (fdisplay x)) ->
    (forall x, ffinite x -> fparse (fdisplay x) = Some x) ->
    forall v : value F, serialisable F ffinite v -> depth v <= MAX_DEPTH ->
      parse fparse (serialize F fdisplay v) = Ok v.
Proof. intros F fparse fdisplay ffinite H1 H2 v. exact (roundtrip F fparse fdisplay ffinite H1 H2 MAX_DEPTH v). Qed.

Theorem C13_roundtrip_pretty :
  forall (F : Type) (fparse : str -> option F) (fdisplay : F -> str) (ffinite : F -> Prop),
    (forall x, ffinite x -> JNumber (fdisplay x)) ->
    (forall x, ffinite x -> fparse (fdisplay x) = Some x) ->
    forall (n : N) (v : value F), serialisable F ffinite v -> depth v <= MAX_DEPTH ->
      parse fparse (serialize_pretty F fdisplay n v) = Ok v.
Proof. intros F fparse fdisplay ffinite H1 H2 n v. exact (roundtrip_pretty F fparse fdisplay ffinite H1 H2 MAX_DEPTH n v). Qed.

(* --- C03, JSON clause: for EVERY input the parser returns a value or one of the five ParseError kinds: no panic site is
       reached (dec_depth underflow; ghost assertion "parse_value entered with depth > max_depth", i.e. the recursion depth
       never exceeds the limit) and the loop fuel 2*len+2 is never exhausted (termination) --- *)
Theorem C13_json_parse_safe :
  forall (F : Type) (fparse : str -> option F) (s : str),
    match parse fparse s with
    | Ok _ => True
    | Err e => e <> E_FUEL
    | Crash _ => False
    end.
Proof. exact parse_safe. Qed.

Theorem C13_json_parse_max_depth_safe :
  forall (F : Type) (fparse : str -> option F) (maxd : N) (s : str),
    match parse_max_depth F fparse false maxd s with
    | Ok _ => True
    | Err e => e <> E_FUEL
    | Crash _ => False
    end.
Proof. exact parse_max_depth_safe. Qed.

(* allocation (C03): `parse_cost` (Json.v) follows the control flow of the parser and charges an upper bound at every
   allocation site of parser.rs (with_capacity(256/16/16), amortised growth of the strings and vectors, the temporary hex
   string, the key copy); for EVERY input it is at most 1024 bytes per character supplied (a character is >= 1 byte).
   The check compares the meter with the bytes really requested from the allocator (counting GlobalAlloc in the harness). *)
Theorem C13_json_parse_alloc_linear :
  forall (F : Type) (fparse : str -> option F) (maxd : N) (s : str),
    parse_cost F fparse false maxd s <= 1024 * slen s.
Proof. exact parse_cost_linear. Qed.

(* --- the tree before the fixes violated soundness three ways (models of the old code; witnesses reproduced on the real
       code): F23 {"a":1 "b":2}, F22 +1 / NaN / 01 / .5 / 1. , F25 "\u+123" --- *)
Theorem C13_legacy_missing_comma_refuted :
  exists s v, parse_legacy fp_any s = Ok v /\ ~ JText fp_any s v.
Proof. exact legacy_refuted_missing_comma. Qed.

Theorem C13_legacy_number_grammar_refuted :
  (exists s v, parse_legacy fp_any s = Ok v /\ ~ JText fp_any s v) /\
  parse_legacy fp_any [0x2b; 0x31] = Ok (VNum [0x2b; 0x31]) /\ ~ JNumber [0x2b; 0x31] /\
  parse_legacy fp_any [0x4e; 0x61; 0x4e] = Ok (VNum [0x4e; 0x61; 0x4e]) /\ ~ JNumber [0x4e; 0x61; 0x4e] /\
  parse_legacy fp_any [0x30; 0x31] = Ok (VNum [0x30; 0x31]) /\ ~ JNumber [0x30; 0x31] /\
  parse_legacy fp_any [0x2e; 0x35] = Ok (VNum [0x2e; 0x35]) /\ ~ JNumber [0x2e; 0x35] /\
  parse_legacy fp_any [0x31; 0x2e] = Ok (VNum [0x31; 0x2e]) /\ ~ JNumber [0x31; 0x2e].
Proof. exact legacy_refuted_number_grammar. Qed.

Theorem C13_legacy_hex_sign_refuted :
  exists s v, parse_legacy fp_any s = Ok v /\ ~ JText fp_any s v.
Proof. exact legacy_refuted_hex_sign. Qed.

(* --- non-vacuity and examples --- *)
(* the three witnesses are rejected by the repaired parser *)
Example C13_fixed_rejects :
  parse fp_any [0x7b; 0x22; 0x61; 0x22; 0x3a; 0x31; 0x20; 0x22; 0x62; 0x22; 0x3a; 0x32; 0x7d] = Err E_TOK /\
  parse fp_any [0x2b; 0x31] = Err E_TOK /\
  parse fp_any [0x22; 0x5c; 0x75; 0x2b; 0x31; 0x32; 0x33; 0x22] = Err E_ESC.
Proof. exact fixed_rejects. Qed.

(* { "k" : [1, "𝄞\n", true, null] }  parses to the denoted value (surrogate pair -> U+1D11E, member order) *)
Example C13_example_document :
  parse fp_any [0x7b; 0x20; 0x22; 0x6b; 0x22; 0x20; 0x3a; 0x20; 0x5b; 0x31; 0x2c; 0x20; 0x22; 0x5c; 0x75; 0x44; 0x38; 0x33; 0x34;
                0x5c; 0x75; 0x44; 0x44; 0x31; 0x45; 0x5c; 0x6e; 0x22; 0x2c; 0x20; 0x74; 0x72; 0x75; 0x65; 0x2c; 0x20; 0x6e; 0x75;
                0x6c; 0x6c; 0x5d; 0x20; 0x7d]
  = Ok (VObj [([0x6b], VArr [VNum [0x31]; VStr [0x1D11E; 0x0a]; VBool true; VNull])]).
Proof. vm_compute. reflexivity. Qed.

(* an unpaired surrogate escape "\uD834" is rejected (allowed by the property); a trailing comma is TrailingComma *)
Example C13_lone_surrogate_rejected :
  parse fp_any [0x22; 0x5c; 0x75; 0x44; 0x38; 0x33; 0x34; 0x22] = Err E_ESC /\
  parse fp_any [0x5b; 0x31; 0x2c; 0x5d] = Err E_COMMA.
Proof. split; vm_compute; reflexivity. Qed.

(* the scan: "\uD834\uDD1E" passes, "\uD834" and "\uDD1E\uD834" do not; text without escapes passes *)
Example C13_scan_examples :
  no_lone_surrogate_escape [0x22; 0x5c; 0x75; 0x44; 0x38; 0x33; 0x34; 0x5c; 0x75; 0x44; 0x44; 0x31; 0x45; 0x22] = true /\
  no_lone_surrogate_escape [0x22; 0x5c; 0x75; 0x44; 0x38; 0x33; 0x34; 0x22] = false /\
  no_lone_surrogate_escape [0x22; 0x5c; 0x75; 0x44; 0x44; 0x31; 0x45; 0x5c; 0x75; 0x44; 0x38; 0x33; 0x34; 0x22] = false /\
  no_lone_surrogate_escape [0x5b; 0x31; 0x2c; 0x22; 0x5c; 0x5c; 0x75; 0x44; 0x38; 0x33; 0x34; 0x22; 0x5d] = true.
Proof. repeat split; vm_compute; reflexivity. Qed.

(* serialiser hypotheses are satisfiable: F := literal text, fdisplay := id, finite := "is a JSON number"; and a round trip
   through serialize_pretty 2 computed inside Coq *)
Example C13_roundtrip_instance :
  let v := VObj [([0x61], VArr [VNum [0x2d; 0x30]; VStr [0x22; 0x00; 0x2f; 0x10FFFF]]); ([0x61], VObj [])] in
  serialisable str JNumber v /\
  (forall x : str, JNumber x -> JNumber ((fun l => l) x)) /\
  (forall x : str, JNumber x -> fp_any ((fun l => l) x) = Some x) /\
  parse fp_any (serialize_pretty str (fun l => l) 2 v) = Ok v /\
  parse fp_any (serialize str (fun l => l) v) = Ok v.
Proof.
  cbv zeta. split.
  - cbn. repeat split; try (apply is_json_number_spec; reflexivity); repeat constructor; discriminate.
  - split; [auto|]. split; [reflexivity|]. split; vm_compute; reflexivity.
Qed.

(* depth limit is exactly MAX_DEPTH: 256 nested arrays parse, 257 are refused with RecursionDepthExceeded *)
Example C13_depth_limit_exact :
  (exists v, parse fp_any (repeat 0x5b 256 ++ repeat 0x5d 256) = Ok v) /\
  parse fp_any (repeat 0x5b 257 ++ repeat 0x5d 257) = Err E_DEPTH.
Proof.
  split.
  - destruct (parse fp_any (repeat 0x5b 256 ++ repeat 0x5d 256)) as [v| |] eqn:E.
    + exists v. reflexivity.
    + vm_compute in E. discriminate E.
    + vm_compute in E. discriminate E.
  - vm_compute. reflexivity.
Qed.

Print Assumptions C13_parse_sound.
Print Assumptions C13_parse_complete.
Print Assumptions C13_parse_accepts_iff.
Print Assumptions C13_parse_accepts_iff_rfc.
Print Assumptions C13_parse_accepts_iff_pure_syntax.
Print Assumptions C13_text_iff_syntax_without_lone_surrogates.
Print Assumptions C13_parse_max_depth_sound.
Print Assumptions C13_parse_max_depth_complete.
Print Assumptions C13_denotation_unique.
Print Assumptions C13_parse_strings_scalar.
Print Assumptions C13_text_is_rfc_syntax.
Print Assumptions C13_number_grammar.
Print Assumptions C13_serialize_valid.
Print Assumptions C13_serialize_pretty_valid.
Print Assumptions C13_roundtrip.
Print Assumptions C13_roundtrip_pretty.
Print Assumptions C13_json_parse_safe.
Print Assumptions C13_json_parse_max_depth_safe.
Print Assumptions C13_json_parse_alloc_linear.
Print Assumptions C13_legacy_missing_comma_refuted.
Print Assumptions C13_legacy_number_grammar_refuted.
Print Assumptions C13_legacy_hex_sign_refuted.
Print Assumptions C13_fixed_rejects.
Print Assumptions C13_example_document.
Print Assumptions C13_lone_surrogate_rejected.
Print Assumptions C13_scan_examples.
Print Assumptions C13_roundtrip_instance.
Print Assumptions C13_depth_limit_exact.
