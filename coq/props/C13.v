(* C13 (placeholder while the proofs are being built) *)
From Hv Require Import Prelude TablesJson Json.
Open Scope N_scope.

Example C13_model_runs : xparse 256 [0x5b; 0x31; 0x5d] = Ok (VArr [VNum [0x31]]).
Proof. vm_compute. reflexivity. Qed.

Print Assumptions C13_model_runs.
