(* C18, HTTP-date part (RFC 7231 section 7.1.1.1 IMF-fixdate) — property theorems only.
   Each is closed by `exact <lemma>`; statements are written out in full.  Model: theories/Date.v
   (humphrey/src/http/date.rs: From<i64> for DateTime, ToString); tables/constants: theories/TablesDate.v, generated from
   date.rs on every run.  Reference calendar: `civil` counts days one at a time from 1970-01-01 with `next_day`
   (Gregorian leap rule); it shares nothing with the closed-form algorithm of the code. *)
From Hv Require Import Prelude TablesDate Date DateProofs.
Open Scope Z_scope.

(* The reference calendar, spelled out: day-by-day counting. *)
Theorem C18_date_civil_is_day_counting :
  civil 0 = mkC 1970 1 1 /\
  (forall n, 0 <= n -> civil (n + 1) = next_day (civil n)) /\
  (forall c, next_day c =
             if c_day c <? days_in_month (c_year c) (c_month c) then mkC (c_year c) (c_month c) (c_day c + 1)
             else if c_month c <? 12 then mkC (c_year c) (c_month c + 1) 1
             else mkC (c_year c + 1) 1 1) /\
  (forall y m, days_in_month y m =
               match m with
               | 1 => 31 | 2 => if is_leap y then 29 else 28 | 3 => 31 | 4 => 30 | 5 => 31 | 6 => 30
               | 7 => 31 | 8 => 31 | 9 => 30 | 10 => 31 | 11 => 30 | _ => 31
               end) /\
  (forall y, is_leap y = true <-> (y mod 4 = 0 /\ (y mod 100 <> 0 \/ y mod 400 = 0))) /\
  weekday_count 0 = 4 /\
  (forall n, 0 <= n -> weekday_count (n + 1) = if weekday_count n =? 6 then 0 else weekday_count n + 1).
Proof.
  exact (conj civil_0 (conj civil_succ (conj (fun c => eq_refl) (conj (fun y m => eq_refl)
        (conj is_leap_spec (conj weekday_count_0 weekday_count_succ)))))).
Qed.

(* every counted date is a valid Gregorian date (the reference is not degenerate) *)
Theorem C18_date_civil_valid :
  forall n, 1 <= c_month (civil n) <= 12 /\
            1 <= c_day (civil n) <= days_in_month (c_year (civil n)) (c_month (civil n)).
Proof. exact civil_valid. Qed.

(* date_correct: for every timestamp from 1970-01-01 00:00:00 through 9999-12-31 23:59:59, DateTime::from(t) does not
   panic and its fields are: the civil date of day t/86400 obtained by day-by-day counting (month field 0-based), the
   weekday (Sunday = 0) both as (t/86400 + 4) mod 7 and by counting from Thursday 1970-01-01, and the unique
   hour/minute/second decomposition of t mod 86400. *)
Theorem C18_date_correct :
  forall t, 0 <= t < 253402300800 ->
  exists d, from_timestamp t = Ok d /\
    dt_timestamp d = t /\
    mkC (dt_year d) (dt_month d + 1) (dt_day d) = civil (t / 86400) /\
    1970 <= dt_year d <= 9999 /\ 0 <= dt_month d <= 11 /\ 1 <= dt_day d <= 31 /\
    dt_weekday d = (t / 86400 + 4) mod 7 /\ dt_weekday d = weekday_count (t / 86400) /\
    (dt_hour d * 3600 + dt_minute d * 60 + dt_second d = t mod 86400 /\
     0 <= dt_hour d < 24 /\ 0 <= dt_minute d < 60 /\ 0 <= dt_second d < 60 /\
     dt_hour d = (t mod 86400) / 3600 /\ dt_minute d = (t mod 86400) / 60 mod 60 /\ dt_second d = t mod 60).
Proof. exact date_correct_9999. Qed.

(* the same up to the last second of year 65535 (where `year as u16` would start to wrap) *)
Theorem C18_date_correct_to_u16_limit :
  forall t, 0 <= t < 2005949145600 ->
  exists d, from_timestamp t = Ok d /\
    dt_timestamp d = t /\
    mkC (dt_year d) (dt_month d + 1) (dt_day d) = civil (t / 86400) /\
    1970 <= dt_year d <= 65535 /\ 0 <= dt_month d <= 11 /\ 1 <= dt_day d <= 31 /\
    dt_weekday d = (t / 86400 + 4) mod 7 /\ dt_weekday d = weekday_count (t / 86400) /\
    (dt_hour d * 3600 + dt_minute d * 60 + dt_second d = t mod 86400 /\
     0 <= dt_hour d < 24 /\ 0 <= dt_minute d < 60 /\ 0 <= dt_second d < 60 /\
     dt_hour d = (t mod 86400) / 3600 /\ dt_minute d = (t mod 86400) / 60 mod 60 /\ dt_second d = t mod 60).
Proof. exact date_correct_u16. Qed.

(* the closed-form algorithm (400/100/4/1-year decomposition + month loop, before the integer casts) equals day-by-day
   counting for EVERY day from 1970-01-01 on — no upper bound; 11017 = days from 1970-01-01 to 2000-03-01 *)
Theorem C18_date_algorithm_counts_days :
  forall n, 0 <= n ->
  exists y m0 d, date_part (n - 11017) = Ok (y, m0, d) /\ civil n = mkC y (m0 + 1) d.
Proof. exact date_part_counts_days. Qed.

(* stronger than the property needs: for EVERY integer day count D relative to 2000-03-01 (negative = earlier, proleptic
   Gregorian calendar; no upper bound), the algorithm's date for D+1 is next_day of its date for D; anchored at
   D = -11017 (1970-01-01).  Together these determine date_part on all of Z. *)
Theorem C18_date_algorithm_steps_by_next_day :
  (forall D : Z, exists r r', date_part D = Ok r /\ date_part (D + 1) = Ok r' /\
                              (let '(y, m0, d) := r' in mkC y (m0 + 1) d) =
                              next_day (let '(y, m0, d) := r in mkC y (m0 + 1) d))
  /\ date_part (-11017) = Ok (1970, 0, 1).
Proof. exact (conj date_part_step (proj1 date_part_anchor)). Qed.

(* panic-freedom on the whole i64 domain: the only panic site that can fire is the debug-build overflow of
   `timestamp - MARCH_01_2000` (t < i64::MIN + 951868800); the month-loop index and the DAYS/MONTHS indexing in
   to_string are always in range. *)
Theorem C18_date_no_panic_except_subtraction_overflow :
  forall t, i64_min <= t <= i64_max ->
  (t < i64_min + MARCH_01_2000 /\ from_timestamp t = Crash 1) \/
  (i64_min + MARCH_01_2000 <= t /\ exists d s, from_timestamp t = Ok d /\ to_string d = Ok s /\
     0 <= dt_month d <= 11 /\ 0 <= dt_weekday d <= 6).
Proof. exact from_timestamp_total. Qed.

(* format_imf_shape: in the same range to_string yields exactly the RFC 7231 IMF-fixdate of those values —
   day-name "," SP 2DIGIT SP month SP 4DIGIT SP 2DIGIT ":" 2DIGIT ":" 2DIGIT SP "GMT", 29 bytes *)
Theorem C18_date_format_imf_shape :
  forall t, 0 <= t < 253402300800 ->
  exists d, from_timestamp t = Ok d /\
    http_date t = Ok (imf_fixdate (civil (t / 86400)) ((t / 86400 + 4) mod 7)
                                  ((t mod 86400) / 3600) ((t mod 86400) / 60 mod 60) (t mod 60)) /\
    (exists s, http_date t = Ok s /\ length s = 29%nat).
Proof. exact http_date_correct. Qed.

(* what imf_fixdate is, written out (fixed-width, zero-padded decimal fields; RFC day and month names) *)
Theorem C18_date_imf_fixdate_layout :
  forall c w h m s,
    imf_fixdate c w h m s =
      rfc_day_name w ++ [44; 32]%N ++ d2 (c_day c) ++ [32%N] ++ rfc_month_name (c_month c) ++ [32%N]
        ++ d4 (c_year c) ++ [32%N] ++ d2 h ++ [58%N] ++ d2 m ++ [58%N] ++ d2 s ++ [32; 71; 77; 84]%N
    /\ length (imf_fixdate c w h m s) = 29%nat
    /\ length (rfc_day_name w) = 3%nat /\ length (rfc_month_name (c_month c)) = 3%nat.
Proof.
  exact (fun c w h m s => conj eq_refl (conj (imf_fixdate_length c w h m s)
                                             (conj (rfc_day_name_len w) (rfc_month_name_len (c_month c))))).
Qed.

(* each numeric field of the emitted date consists of ASCII digits and reads back (as a decimal number) to the value *)
Theorem C18_date_format_fields_decimal :
  forall t, 0 <= t < 253402300800 ->
  let c := civil (t / 86400) in
  1000 <= c_year c <= 9999 /\ 1 <= c_month c <= 12 /\ 1 <= c_day c <= 31 /\
  Forall is_ascii_digit (d2 (c_day c)) /\ dec_value (d2 (c_day c)) = c_day c /\
  Forall is_ascii_digit (d4 (c_year c)) /\ dec_value (d4 (c_year c)) = c_year c /\
  Forall is_ascii_digit (d2 (t mod 86400 / 3600)) /\ dec_value (d2 (t mod 86400 / 3600)) = t mod 86400 / 3600 /\
  Forall is_ascii_digit (d2 (t mod 86400 / 60 mod 60)) /\ dec_value (d2 (t mod 86400 / 60 mod 60)) = t mod 86400 / 60 mod 60 /\
  Forall is_ascii_digit (d2 (t mod 60)) /\ dec_value (d2 (t mod 60)) = t mod 60.
Proof. exact http_date_fields. Qed.

(* the tables in date.rs are the RFC 7231 names, in weekday (Sunday = 0) and month order *)
Theorem C18_date_tables_are_rfc7231 :
  (forall w, 0 <= w <= 6 -> nth_error DAYS (Z.to_nat w) = Some (rfc_day_name w)) /\
  (forall m0, 0 <= m0 <= 11 -> nth_error MONTHS (Z.to_nat m0) = Some (rfc_month_name (m0 + 1))) /\
  DAYS_IN_MONTHS = [31; 30; 31; 30; 31; 31; 30; 31; 30; 31; 31; 29] /\
  DAY = 86400 /\ DAYS_4_YEARS = 1461 /\ DAYS_100_YEARS = 36524 /\ DAYS_400_YEARS = 146097 /\
  MARCH_01_2000 = 11017 * 86400.
Proof.
  exact (conj days_table_rfc (conj months_table_rfc (conj eq_refl (conj eq_refl (conj eq_refl (conj eq_refl
        (conj eq_refl eq_refl))))))).
Qed.

(* Non-vacuity and guards for the reference calendar: known dates (from CPython's datetime), incl. leap days, the
   non-leap century 2100, the leap century 2400; the repo's own test vector; out-of-range behaviour of the model. *)
Example C18_date_examples :
  civil 59 = mkC 1970 3 1 /\ civil 789 = mkC 1972 2 29 /\ civil 790 = mkC 1972 3 1 /\
  civil 10956 = mkC 1999 12 31 /\ civil 11016 = mkC 2000 2 29 /\ civil 11017 = mkC 2000 3 1 /\
  next_day (mkC 2100 2 28) = mkC 2100 3 1 /\ next_day (mkC 2400 2 28) = mkC 2400 2 29 /\
  next_day (mkC 2096 2 28) = mkC 2096 2 29 /\ next_day (mkC 9999 12 30) = mkC 9999 12 31 /\
  next_day (mkC 1999 12 31) = mkC 2000 1 1 /\ next_day (mkC 2021 4 30) = mkC 2021 5 1 /\
  weekday_count 18847 = 0 /\ civil 18847 = mkC 2021 8 8 /\
  http_date 1628437415 =   (* "Sun, 08 Aug 2021 15:43:35 GMT" *)
    Ok [83; 117; 110; 44; 32; 48; 56; 32; 65; 117; 103; 32; 50; 48; 50; 49; 32; 49; 53; 58; 52; 51; 58; 51; 53; 32;
        71; 77; 84]%N /\
  from_timestamp 253402300799 = Ok (mkDT 253402300799 9999 11 31 5 23 59 59) /\
  from_timestamp (-9223372035902907009) = Crash 1.
Proof. vm_compute. repeat split. Qed.

Print Assumptions C18_date_civil_is_day_counting.
Print Assumptions C18_date_civil_valid.
Print Assumptions C18_date_correct.
Print Assumptions C18_date_correct_to_u16_limit.
Print Assumptions C18_date_algorithm_counts_days.
Print Assumptions C18_date_algorithm_steps_by_next_day.
Print Assumptions C18_date_no_panic_except_subtraction_overflow.
Print Assumptions C18_date_format_imf_shape.
Print Assumptions C18_date_imf_fixdate_layout.
Print Assumptions C18_date_format_fields_decimal.
Print Assumptions C18_date_tables_are_rfc7231.
Print Assumptions C18_date_examples.
