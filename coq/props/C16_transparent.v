(* C16, composed with the static handlers: the cache never changes an answer. When what the handlers compute for a request
   is a function F of the cache key (request path, host index) - the case of a file tree that does not change, routing
   being a function of host and path (C04) and the handlers a function of the path (C06) - every request served through
   cache_check / inner_file_handler gets exactly F of its own key: on a hit, on a miss, after evictions and expiries, for
   every history, every clock and every cache size. Property theorems only (proofs: CacheTransparencyProofs.v). *)
From Hv Require Import Prelude Bytes TablesHttp TablesConfig Http Krauss Routing RoutingProofs Blacklist StaticFs Config
  Server ServerProofs ServerCacheKeyProofs Cache CacheProofs CacheTransparencyProofs.
Open Scope N_scope.

Theorem C16_cache_transparent :
  forall (F : list N -> N -> bytes * N) (qs : list req) (c : cache) (ps : list resp) (c' : cache),
    inv c -> faithful F c -> Forall (honest F) qs -> hrun c qs = (ps, Ok c') ->
    Forall2 (fun q p => (p_body p, p_mime p) = F (q_route q) (q_host q)) qs ps /\ inv c' /\ faithful F c'.
Proof. exact hrun_transparent. Qed.

Theorem C16_cache_transparent_from_start :
  forall (F : list N -> N -> bytes * N) (lim tl : N) (qs : list req) (ps : list resp) (c' : cache),
    Forall (honest F) qs -> hrun (empty lim tl) qs = (ps, Ok c') ->
    Forall2 (fun q p => (p_body p, p_mime p) = F (q_route q) (q_host q)) qs ps.
Proof. exact hrun_transparent_from_empty. Qed.

(* Non-vacuity: two keys, a cache that holds one item at a time (so every second request evicts), an expiry in between:
   hits and misses alternate and every answer is F of its key. *)
Definition exF (r : list N) (h : N) : bytes * N := (r ++ [h], h + 1).
Definition exq (r : list N) (h now : N) : req := mkReq r h (fst (exF r h)) (snd (exF r h)) now.
Example C16_transparent_example :
  let qs := [exq [1] 0 10; exq [1] 0 11; exq [2] 1 12; exq [1] 0 13; exq [1] 0 14; exq [1] 0 99] in
  Forall (honest exF) qs /\
  exists ps c', hrun (empty 2 5) qs = (ps, Ok c') /\
    map p_cached ps = [false; true; false; false; true; false] /\
    map p_body ps = [[1;0]; [1;0]; [2;1]; [1;0]; [1;0]; [1;0]].
Proof.
  cbv zeta. split.
  - repeat constructor.
  - eexists. eexists. split; [vm_compute; reflexivity|]. split; reflexivity.
Qed.

(* The hypothesis of the two theorems above ("what the handlers compute is a function of the cache key") is a theorem about
   the server model: the key is (request path, host index) - the index server.rs bakes into each route's closure - and two
   routed, admitted requests with the same key get the same answer, whatever their Host values, peers, queries and other
   header fields; in particular the route index is a function of the key. (A wiring that hands the handlers another number
   than the host index breaks the end-to-end part of the C16 check: several hosts, cache on, same paths.) *)
Theorem C16_server_answer_function_of_cache_key :
  forall ipp fs (c : config) p1 p2 req1 req2 ch1 ch2,
    is_upgrade req1 = false -> is_upgrade req2 = false ->
    Blacklist.serve ipp (cf_bl_mode c =? BLOCK_MODE) (cf_bl_list c) p1 (r_headers req1) = Served ->
    Blacklist.serve ipp (cf_bl_mode c =? BLOCK_MODE) (cf_bl_list c) p2 (r_headers req2) = Served ->
    get_handler (map subapp_of (cf_hosts c)) (subapp_of (cf_default_host c))
                (option_map scalars (hget (HKnown H_Host) (r_headers req1))) (scalars (r_uri req1)) = Some ch1 ->
    get_handler (map subapp_of (cf_hosts c)) (subapp_of (cf_default_host c))
                (option_map scalars (hget (HKnown H_Host) (r_headers req2))) (scalars (r_uri req2)) = Some ch2 ->
    r_uri req1 = r_uri req2 -> fst (handler_ids ch1) = fst (handler_ids ch2) ->
    server_response ipp fs c p1 req1 = server_response ipp fs c p2 req2.
Proof. exact server_answer_function_of_cache_key. Qed.

Theorem C16_route_index_function_of_key :
  forall subapps default host1 host2 uri ch1 ch2,
    get_handler subapps default host1 uri = Some ch1 -> get_handler subapps default host2 uri = Some ch2 ->
    fst (handler_ids ch1) = fst (handler_ids ch2) -> ch1 = ch2.
Proof. exact route_index_function_of_key. Qed.

Print Assumptions C16_cache_transparent.
Print Assumptions C16_server_answer_function_of_cache_key.
Print Assumptions C16_route_index_function_of_key.
Print Assumptions C16_cache_transparent_from_start.
Print Assumptions C16_transparent_example.
