(* C16, composed with the static handlers: the cache never changes an answer. When what the handlers compute for a request
   is a function F of the cache key (request path, host index) - the case of a file tree that does not change, routing
   being a function of host and path (C04) and the handlers a function of the path (C06) - every request served through
   cache_check / inner_file_handler gets exactly F of its own key: on a hit, on a miss, after evictions and expiries, for
   every history, every clock and every cache size. Property theorems only (proofs: CacheTransparencyProofs.v). *)
From Hv Require Import Prelude Bytes TablesHttp TablesConfig Http Krauss Routing RoutingProofs Blacklist StaticFs Config
  Server ServerProofs ServerCacheKeyProofs Cache CacheProofs CacheTransparencyProofs ServerCachedProofs.
From HvProps Require Import C04_server.
Open Scope N_scope.

Theorem C16_cache_transparent :
  forall (F : list N -> N -> bytes * N) (qs : list req) (c : cache) (ps : list resp) (c' : cache),
    inv c -> faithful F c -> Forall (honest F) qs -> hrun c qs = (ps, Ok c') ->
    Forall2 (fun q p => (p_body p, p_mime p) = F (q_route q) (q_host q)) qs ps /\ inv c' /\ faithful F c'.
Proof. exact hrun_transparent. Qed.

Theorem C16_cache_transparent_from_start :
  forall (F : list N -> N -> bytes * N) (lim tl : N) (qs : list req) (ps : list resp) (c' : cache),
    Forall (honest F) qs -> hrun (empty lim tl) qs = (ps, Ok c') ->
    Forall2 (fun q p => (p_body p, p_mime p) = F (q_route q) (q_host q)) qs ps.
Proof. exact hrun_transparent_from_empty. Qed.

(* Non-vacuity: two keys, a cache that holds one item at a time (so every second request evicts), an expiry in between:
   hits and misses alternate and every answer is F of its key. *)
Definition exF (r : list N) (h : N) : bytes * N := (r ++ [h], h + 1).
Definition exq (r : list N) (h now : N) : req := mkReq r h (fst (exF r h)) (snd (exF r h)) now.
Example C16_transparent_example :
  let qs := [exq [1] 0 10; exq [1] 0 11; exq [2] 1 12; exq [1] 0 13; exq [1] 0 14; exq [1] 0 99] in
  Forall (honest exF) qs /\
  exists ps c', hrun (empty 2 5) qs = (ps, Ok c') /\
    map p_cached ps = [false; true; false; false; true; false] /\
    map p_body ps = [[1;0]; [1;0]; [2;1]; [1;0]; [1;0]; [1;0]].
Proof.
  cbv zeta. split.
  - repeat constructor.
  - eexists. eexists. split; [vm_compute; reflexivity|]. split; reflexivity.
Qed.

(* The hypothesis of the two theorems above ("what the handlers compute is a function of the cache key") is a theorem about
   the server model: the key is (request path, host index) - the index server.rs bakes into each route's closure - and two
   routed, admitted requests with the same key get the same answer, whatever their Host values, peers, queries and other
   header fields; in particular the route index is a function of the key. (A wiring that hands the handlers another number
   than the host index breaks the end-to-end part of the C16 check: several hosts, cache on, same paths.) *)
Theorem C16_server_answer_function_of_cache_key :
  forall ipp fs (c : config) p1 p2 req1 req2 ch1 ch2,
    is_upgrade req1 = false -> is_upgrade req2 = false ->
    Blacklist.serve ipp (cf_bl_mode c =? BLOCK_MODE) (cf_bl_list c) p1 (r_headers req1) = Served ->
    Blacklist.serve ipp (cf_bl_mode c =? BLOCK_MODE) (cf_bl_list c) p2 (r_headers req2) = Served ->
    get_handler (map subapp_of (cf_hosts c)) (subapp_of (cf_default_host c))
                (option_map scalars (hget (HKnown H_Host) (r_headers req1))) (scalars (r_uri req1)) = Some ch1 ->
    get_handler (map subapp_of (cf_hosts c)) (subapp_of (cf_default_host c))
                (option_map scalars (hget (HKnown H_Host) (r_headers req2))) (scalars (r_uri req2)) = Some ch2 ->
    r_uri req1 = r_uri req2 -> fst (handler_ids ch1) = fst (handler_ids ch2) ->
    server_response ipp fs c p1 req1 = server_response ipp fs c p2 req2.
Proof. exact server_answer_function_of_cache_key. Qed.

Theorem C16_route_index_function_of_key :
  forall subapps default host1 host2 uri ch1 ch2,
    get_handler subapps default host1 uri = Some ch1 -> get_handler subapps default host2 uri = Some ch2 ->
    fst (handler_ids ch1) = fst (handler_ids ch2) -> ch1 = ch2.
Proof. exact route_index_function_of_key. Qed.

(* The composition: any sequence of requests that the cache-free server model answers 200 from its static routes, pushed
   through the handlers' cache (key = path and host index, store on a miss, any size / time limit / clock): every response,
   hit or miss, carries exactly the body and content type the cache-free server gives to that very request. *)
Theorem C16_server_cache_transparent :
  forall ipp fs (c : config) (enc : option bytes -> N) (es : list (entry)) lim tl ps c',
    Forall (entry_ok ipp fs c) es ->
    hrun (empty lim tl) (map (entry_q enc) es) = (ps, Ok c') ->
    Forall2 (fun (e : entry) (p : Cache.resp) =>
               let '(s, _, _, _) := e in
               exists ct, server_response ipp fs c (sq_peer s) (sq_req s) = SStatic (R200 (p_body p) ct) /\ p_mime p = enc ct)
            es ps.
Proof. exact server_cache_transparent. Qed.

(* Non-vacuity of the composition: the configuration text of C04_server_example loaded by Config.load, four requests to
   its directory and file routes through a cache that holds one 3-byte entry at a time (miss, hit, miss with eviction, miss) *)
Definition C16_ex_enc (ct : option bytes) : N := match ct with Some l => N.of_nat (length l) | None => 0 end.
Definition C16_ex_sq (uri : bytes) (now : N) : sreq :=
  {| sq_peer := ex_peer [49;50;55;46;48;46;48;46;49]; sq_req := ex_req [120] uri None; sq_now := now |}.
Example C16_server_cache_example : exists c, load ipv4_parse ex_files [101;50;101;46;99;111;110;102] ex_conf = ROk c /\
  let es : list entry :=
    [ (C16_ex_sq [47;115;47;97;46;116;120;116] 10, InDefault 0, [65;65;65], Some [116;101;120;116;47;112;108;97;105;110]);
      (C16_ex_sq [47;115;47;97;46;116;120;116] 11, InDefault 0, [65;65;65], Some [116;101;120;116;47;112;108;97;105;110]);
      (C16_ex_sq [47;122;122;122] 12, InDefault 1, [60;105;62], Some [116;101;120;116;47;104;116;109;108]);
      (C16_ex_sq [47;115;47;97;46;116;120;116] 13, InDefault 0, [65;65;65], Some [116;101;120;116;47;112;108;97;105;110]) ] in
  Forall (entry_ok ipv4_parse ex_fs c) es /\
  exists ps c', hrun (empty 3 60) (map (entry_q C16_ex_enc) es) = (ps, Ok c') /\
    map p_cached ps = [false; true; false; false] /\ map p_body ps = [[65;65;65]; [65;65;65]; [60;105;62]; [65;65;65]].
Proof.
  eexists. split; [vm_compute; reflexivity|]. cbv zeta. split.
  - repeat constructor; vm_compute; reflexivity.
  - eexists. eexists. split; [vm_compute; reflexivity|]. split; reflexivity.
Qed.

Print Assumptions C16_cache_transparent.
Print Assumptions C16_server_cache_transparent.
Print Assumptions C16_server_cache_example.
Print Assumptions C16_server_answer_function_of_cache_key.
Print Assumptions C16_route_index_function_of_key.
Print Assumptions C16_cache_transparent_from_start.
Print Assumptions C16_transparent_example.
