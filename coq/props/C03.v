(* C03 — index file: the per-parser safety theorems live in C03_http.v (request/response), C03_ws.v (frames),
   C03_json.v (JSON), C03_conf.v (configuration). This file only pins the shared outcome vocabulary. *)
From Hv Require Import Prelude.
Theorem C03_crash_is_distinguished : forall (A : Type) (x : outcome A), is_crash x = true <-> exists w, x = Crash w.
Proof. intros A x. destruct x; cbn; split; try discriminate; try (intros [w H]; discriminate); eauto. Qed.
Print Assumptions C03_crash_is_distinguished.
