(* C04 — routing: first matching host, then first matching route, else default, else 404. Property theorems only. *)
From Hv Require Import Prelude Krauss KraussProofs Routing RoutingProofs RoutingCorollaries.
Open Scope N_scope.

(* The selection made by get_handler (and, over websocket_routes, by call_websocket_handler, which has the same shape)
   satisfies the declarative rule `Routes`, stated with the Glob relation of C05:
   - InSub i j: sub-app i is the FIRST whose host pattern matches the Host value, and j is the FIRST of its routes
     matching the path;
   - InDefault j: the Host header is absent, or no host pattern matches, or the first matching sub-app has no matching
     route; and j is the first matching route of the default sub-app;
   - None (404 / no upgrade): as above and no default route matches. *)
Theorem C04_get_handler_follows_rule :
  forall (subapps : list subapp) (default : subapp) (host : option (list N)) (uri : list N),
    Routes subapps default host uri (get_handler subapps default host uri).
Proof. exact get_handler_spec. Qed.

(* WebSocket upgrade requests are dispatched by the same rule over the WebSocket routes (call_websocket_handler; `None` =
   the connection is closed without an upgrade), and which HTTP routes are registered has no influence on it *)
Theorem C04_ws_dispatch_follows_rule :
  forall (subapps : list subapp2) (default : subapp2) (upgrade : bool) (host : option (list N)) (uri : list N),
    if upgrade
    then Routes (map ws_view subapps) (ws_view default) host uri (dispatch_request subapps default true host uri)
    else Routes (map http_view subapps) (http_view default) host uri (dispatch_request subapps default false host uri).
Proof. exact dispatch_request_spec. Qed.

Theorem C04_ws_dispatch_ignores_http_routes :
  forall subapps subapps' default default' host uri,
    map ws_view subapps = map ws_view subapps' -> ws_view default = ws_view default' ->
    dispatch_request subapps default true host uri = dispatch_request subapps' default' true host uri.
Proof. exact dispatch_request_tables_independent. Qed.

(* The rule leaves no freedom: the outcome is a function of the Host value, the path and registration order. *)
Theorem C04_rule_is_deterministic :
  forall subapps default host uri c1 c2,
    Routes subapps default host uri c1 -> Routes subapps default host uri c2 -> c1 = c2.
Proof. exact routes_deterministic. Qed.

(* What someone registering routes relies on (corollaries of the rule). Without a Host header only the default
   application is consulted; a route or host registered later never takes a request away from one registered earlier; a
   matching host none of whose routes match falls through to the default application, never to another host. *)
Theorem C04_no_host_header_uses_default :
  forall subapps default uri,
    get_handler subapps default None uri =
    match find_index (fun r => wildcard_match r uri) (sa_routes default) 0 with
    | Some (j, _) => Some (InDefault j) | None => None end.
Proof. exact no_host_header_uses_default. Qed.

Theorem C04_later_default_route_does_not_shadow :
  forall subapps h routes more uri j,
    get_handler subapps {| sa_host := h; sa_routes := routes |} None uri = Some (InDefault j) ->
    get_handler subapps {| sa_host := h; sa_routes := routes ++ more |} None uri = Some (InDefault j).
Proof. exact later_default_route_does_not_shadow. Qed.

Theorem C04_later_host_does_not_shadow :
  forall subapps more default h uri i j,
    get_handler subapps default (Some h) uri = Some (InSub i j) ->
    get_handler (subapps ++ more) default (Some h) uri = Some (InSub i j).
Proof. exact later_host_does_not_shadow. Qed.

Theorem C04_host_without_route_falls_to_default :
  forall subapps default h uri i s,
    find_index (fun s => wildcard_match (sa_host s) h) subapps 0 = Some (i, s) ->
    find_index (fun r => wildcard_match r uri) (sa_routes s) 0 = None ->
    get_handler subapps default (Some h) uri = get_handler subapps default None uri.
Proof. exact host_without_route_falls_to_default. Qed.

(* Non-vacuity: shadowing, fall-through to default and 404. *)
Example C04_examples :
  let a := {| sa_host := [42;46;120]; sa_routes := [[47;97;42]; [47;42]] |} in   (* host *.x : /a*, /* *)
  let b := {| sa_host := [42]; sa_routes := [[47;98]] |} in                        (* host *   : /b *)
  let d := {| sa_host := [42]; sa_routes := [[47;122]] |} in                       (* default  : /z *)
  get_handler [a; b] d (Some [119;46;120]) [47;97;98] = Some (InSub 0 0) /\
  get_handler [a; b] d (Some [119;46;120]) [47;98] = Some (InSub 0 1) /\
  get_handler [a; b] d (Some [121]) [47;122] = Some (InDefault 0) /\
  get_handler [a; b] d (Some [121]) [47;113] = None /\
  get_handler [a; b] d None [47;98] = None.
Proof. vm_compute. repeat split. Qed.

Print Assumptions C04_get_handler_follows_rule.
Print Assumptions C04_no_host_header_uses_default.
Print Assumptions C04_later_default_route_does_not_shadow.
Print Assumptions C04_later_host_does_not_shadow.
Print Assumptions C04_host_without_route_falls_to_default.
Print Assumptions C04_ws_dispatch_follows_rule.
Print Assumptions C04_ws_dispatch_ignores_http_routes.
Print Assumptions C04_rule_is_deterministic.
Print Assumptions C04_examples.
