(* C04 — routing: first matching host, then first matching route, else default, else 404. Property theorems only. *)
From Hv Require Import Prelude Krauss KraussProofs Routing RoutingProofs.
Open Scope N_scope.

(* The selection made by get_handler (and, over websocket_routes, by call_websocket_handler, which has the same shape)
   satisfies the declarative rule `Routes`, stated with the Glob relation of C05:
   - InSub i j: sub-app i is the FIRST whose host pattern matches the Host value, and j is the FIRST of its routes
     matching the path;
   - InDefault j: the Host header is absent, or no host pattern matches, or the first matching sub-app has no matching
     route; and j is the first matching route of the default sub-app;
   - None (404 / no upgrade): as above and no default route matches. *)
Theorem C04_get_handler_follows_rule :
  forall (subapps : list subapp) (default : subapp) (host : option (list N)) (uri : list N),
    Routes subapps default host uri (get_handler subapps default host uri).
Proof. exact get_handler_spec. Qed.

(* WebSocket upgrade requests are dispatched by the same rule over the WebSocket routes (call_websocket_handler; `None` =
   the connection is closed without an upgrade), and which HTTP routes are registered has no influence on it *)
Theorem C04_ws_dispatch_follows_rule :
  forall (subapps : list subapp2) (default : subapp2) (upgrade : bool) (host : option (list N)) (uri : list N),
    if upgrade
    then Routes (map ws_view subapps) (ws_view default) host uri (dispatch_request subapps default true host uri)
    else Routes (map http_view subapps) (http_view default) host uri (dispatch_request subapps default false host uri).
Proof. exact dispatch_request_spec. Qed.

Theorem C04_ws_dispatch_ignores_http_routes :
  forall subapps subapps' default default' host uri,
    map ws_view subapps = map ws_view subapps' -> ws_view default = ws_view default' ->
    dispatch_request subapps default true host uri = dispatch_request subapps' default' true host uri.
Proof. exact dispatch_request_tables_independent. Qed.

(* The rule leaves no freedom: the outcome is a function of the Host value, the path and registration order. *)
Theorem C04_rule_is_deterministic :
  forall subapps default host uri c1 c2,
    Routes subapps default host uri c1 -> Routes subapps default host uri c2 -> c1 = c2.
Proof. exact routes_deterministic. Qed.

(* Non-vacuity: shadowing, fall-through to default and 404. *)
Example C04_examples :
  let a := {| sa_host := [42;46;120]; sa_routes := [[47;97;42]; [47;42]] |} in   (* host *.x : /a*, /* *)
  let b := {| sa_host := [42]; sa_routes := [[47;98]] |} in                        (* host *   : /b *)
  let d := {| sa_host := [42]; sa_routes := [[47;122]] |} in                       (* default  : /z *)
  get_handler [a; b] d (Some [119;46;120]) [47;97;98] = Some (InSub 0 0) /\
  get_handler [a; b] d (Some [119;46;120]) [47;98] = Some (InSub 0 1) /\
  get_handler [a; b] d (Some [121]) [47;122] = Some (InDefault 0) /\
  get_handler [a; b] d (Some [121]) [47;113] = None /\
  get_handler [a; b] d None [47;98] = None.
Proof. vm_compute. repeat split. Qed.

Print Assumptions C04_get_handler_follows_rule.
Print Assumptions C04_ws_dispatch_follows_rule.
Print Assumptions C04_ws_dispatch_ignores_http_routes.
Print Assumptions C04_rule_is_deterministic.
Print Assumptions C04_examples.
