(* driver: percent-encoding (C18, percent part) *)
open Conv
let opt_bytes = function None -> "none" | Some b -> "some:h" ^ hex_of_bytes b
let () =
  register "pct_enc" (function [b] -> "h" ^ hex_of_bytes (Percent.percent_encode (bytes_of_hex b)) | _ -> "BADARGS");
  register "pct_dec" (function [s] -> opt_bytes (Percent.percent_decode (bytes_of_hex s)) | _ -> "BADARGS");
  register "pct_dec_old" (function [s] -> opt_bytes (Percent.percent_decode_old (bytes_of_hex s)) | _ -> "BADARGS");
  register "pct_rt" (function [b] ->
    opt_bytes (Percent.percent_decode (Percent.percent_encode (bytes_of_hex b))) | _ -> "BADARGS");
  (* spec side: executable denotation and the RFC predicate *)
  register "pct_denote" (function [s] -> "h" ^ hex_of_bytes (Percent.denote (bytes_of_hex s)) | _ -> "BADARGS");
  register "pct_unreserved" (function [c] ->
    string_of_bool (Percent.rfc_unreserved (n_of_int (int_of_string c))) | _ -> "BADARGS")
