(* Conversions between OCaml values and the extracted Coq datatypes (BinNums), and argument decoding.
   Shared by all driver modules. Stdlib modules are referenced as Stdlib.X because the extraction
   produces modules named List, Nat, String ... *)
open BinNums

let rec pos_of_int n =
  if n <= 1 then Coq_xH
  else if n land 1 = 0 then Coq_xO (pos_of_int (n lsr 1))
  else Coq_xI (pos_of_int (n lsr 1))
let n_of_int n = if n = 0 then N0 else Npos (pos_of_int n)
let rec int_of_pos = function
  | Coq_xH -> 1
  | Coq_xO p -> 2 * int_of_pos p
  | Coq_xI p -> 2 * int_of_pos p + 1
let int_of_n = function N0 -> 0 | Npos p -> int_of_pos p
let z_of_int n = if n = 0 then Z0 else if n > 0 then Zpos (pos_of_int n) else Zneg (pos_of_int (- n))
let int_of_z = function Z0 -> 0 | Zpos p -> int_of_pos p | Zneg p -> - (int_of_pos p)

let rec nat_of_int n = if n <= 0 then Datatypes.O else Datatypes.S (nat_of_int (n - 1))
let int_of_nat n = let rec go acc = function Datatypes.O -> acc | Datatypes.S m -> go (acc + 1) m in go 0 n

(* decimal strings for values that may exceed 62 bits: schoolbook on int lists *)
let n_of_decimal (s : string) : coq_N =
  (* repeated division by 2 of a decimal digit array *)
  let digits = Stdlib.Array.init (Stdlib.String.length s) (fun i -> Stdlib.Char.code s.[i] - 48) in
  let len = Stdlib.Array.length digits in
  let is_zero () = Stdlib.Array.for_all (fun d -> d = 0) digits in
  let div2 () =
    let carry = ref 0 in
    for i = 0 to len - 1 do
      let cur = !carry * 10 + digits.(i) in
      digits.(i) <- cur / 2; carry := cur mod 2
    done; !carry in
  let bits = ref [] in
  while not (is_zero ()) do bits := div2 () :: !bits done;
  (* bits: most significant first *)
  match !bits with
  | [] -> N0
  | _ :: rest -> Npos (Stdlib.List.fold_left (fun p b -> if b = 1 then Coq_xI p else Coq_xO p) Coq_xH rest)

let decimal_of_n (n : coq_N) : string =
  (* double-and-add on a decimal digit list (least significant first) *)
  let add_bit digs b =
    let carry = ref b in
    let out = Stdlib.List.map (fun d -> let v = d * 2 + !carry in carry := v / 10; v mod 10) digs in
    if !carry > 0 then out @ [!carry] else out in
  let rec bits_of_pos acc = function
    | Coq_xH -> 1 :: acc
    | Coq_xO p -> bits_of_pos (0 :: acc) p
    | Coq_xI p -> bits_of_pos (1 :: acc) p in
  match n with
  | N0 -> "0"
  | Npos p ->
    let bits = bits_of_pos [] p in
    let digs = Stdlib.List.fold_left add_bit [0] bits in
    let digs = Stdlib.List.rev digs in
    let rec strip = function 0 :: (_ :: _ as r) -> strip r | l -> l in
    Stdlib.String.concat "" (Stdlib.List.map string_of_int (strip digs))

let hexval c =
  match c with
  | '0'..'9' -> Stdlib.Char.code c - 48
  | 'a'..'f' -> Stdlib.Char.code c - 87
  | 'A'..'F' -> Stdlib.Char.code c - 55
  | _ -> failwith "hex"

(* hex string -> OCaml int list of bytes *)
let ints_of_hex (s : string) : int list =
  let s = if Stdlib.String.length s > 0 && s.[0] = 'h' then Stdlib.String.sub s 1 (Stdlib.String.length s - 1) else s in
  let n = Stdlib.String.length s / 2 in
  Stdlib.List.init n (fun i -> hexval s.[2*i] * 16 + hexval s.[2*i+1])
let bytes_of_hex s = Stdlib.List.map n_of_int (ints_of_hex s)
let hex_of_ints (l : int list) : string =
  let b = Stdlib.Buffer.create (2 * Stdlib.List.length l) in
  Stdlib.List.iter (fun x -> Stdlib.Buffer.add_string b (Printf.sprintf "%02x" x)) l;
  Stdlib.Buffer.contents b
let hex_of_bytes (l : coq_N list) = hex_of_ints (Stdlib.List.map int_of_n l)

(* UTF-8 (assumed valid) -> scalar values *)
let scalars_of_utf8 (l : int list) : int list =
  let rec go acc = function
    | [] -> Stdlib.List.rev acc
    | b :: r when b < 0x80 -> go (b :: acc) r
    | b :: c1 :: r when b < 0xE0 -> go ((((b land 0x1F) lsl 6) lor (c1 land 0x3F)) :: acc) r
    | b :: c1 :: c2 :: r when b < 0xF0 ->
      go ((((b land 0x0F) lsl 12) lor ((c1 land 0x3F) lsl 6) lor (c2 land 0x3F)) :: acc) r
    | b :: c1 :: c2 :: c3 :: r ->
      go ((((b land 0x07) lsl 18) lor ((c1 land 0x3F) lsl 12) lor ((c2 land 0x3F) lsl 6) lor (c3 land 0x3F)) :: acc) r
    | _ -> failwith "utf8" in
  go [] l
let utf8_of_scalars (l : int list) : int list =
  Stdlib.List.concat_map (fun c ->
    if c < 0x80 then [c]
    else if c < 0x800 then [0xC0 lor (c lsr 6); 0x80 lor (c land 0x3F)]
    else if c < 0x10000 then [0xE0 lor (c lsr 12); 0x80 lor ((c lsr 6) land 0x3F); 0x80 lor (c land 0x3F)]
    else [0xF0 lor (c lsr 18); 0x80 lor ((c lsr 12) land 0x3F); 0x80 lor ((c lsr 6) land 0x3F); 0x80 lor (c land 0x3F)]) l
let str_of_hex s = Stdlib.List.map n_of_int (scalars_of_utf8 (ints_of_hex s))
let hex_of_str (l : coq_N list) = hex_of_ints (utf8_of_scalars (Stdlib.List.map int_of_n l))

let string_of_bool b = if b then "true" else "false"
let string_of_opt f = function None -> "none" | Some x -> "some:" ^ f x

(* handler registry *)
let handlers : (string, string list -> string) Stdlib.Hashtbl.t = Stdlib.Hashtbl.create 64
let register name f = Stdlib.Hashtbl.replace handlers name f
