(* driver: blacklist (C19) *)
open Conv
let () =
  register "bl" (function
    | [mode; lst; _route; _cache; peer; xff] ->
      let bl = if lst = "-" then [] else Stdlib.List.map bytes_of_hex (Stdlib.String.split_on_char ',' lst) in
      let hs = if xff = "-" then [] else [ (Http.hname_of (bytes_of_hex "582d466f727761726465642d466f72"), bytes_of_hex xff) ] in
      let p = { Http.p_ip = bytes_of_hex peer; Http.p_port = n_of_int 1 } in
      (match Blacklist.serve Http.ipv4_parse (mode = "block") bl p hs with
       | Blacklist.Dropped -> "dropped"
       | Blacklist.Forbidden -> "forbidden"
       | Blacklist.Served -> "served")
    | _ -> "BADARGS")
