(* driver: blacklist (C19) *)
open Conv
let () =
  register "bl" (function
    | mode :: lst :: _route :: _cache :: peer :: xff :: rest ->
      let bl = if lst = "-" then [] else Stdlib.List.map bytes_of_hex (Stdlib.String.split_on_char ',' lst) in
      let hs = if xff = "-" then [] else [ (Http.hname_of (bytes_of_hex "582d466f727761726465642d466f72"), bytes_of_hex xff) ] in
      let p = { Http.p_ip = bytes_of_hex peer; Http.p_port = n_of_int 1 } in
      (* the address parser: the IPv4 model parser, extended by the table of IPv6 literals the driver computed *)
      let tbl = match rest with
        | [t] when t <> "-" -> Stdlib.List.map (fun kv -> match Stdlib.String.split_on_char '=' kv with
            | [k; v] -> (bytes_of_hex k, bytes_of_hex v) | _ -> failwith "ipmap") (Stdlib.String.split_on_char ',' t)
        | _ -> [] in
      let ipp s = match Http.ipv4_parse s with Some r -> Some r | None -> Stdlib.List.assoc_opt s tbl in
      (match Blacklist.serve ipp (mode = "block") bl p hs with
       | Blacklist.Dropped -> "dropped"
       | Blacklist.Forbidden -> "forbidden"
       | Blacklist.Served -> "served")
    | _ -> "BADARGS")
