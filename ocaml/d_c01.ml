(* driver: connection loop (C01) *)
open Conv

let b s = Stdlib.List.map n_of_int (Stdlib.List.init (Stdlib.String.length s) (fun i -> Stdlib.Char.code s.[i]))

let routes =
  let r pat beh cors = { Conn.cr_pat = b pat; Conn.cr_beh = beh; Conn.cr_cors = cors } in
  [ r "/fixed*" (Conn.HFixed (b "hello")) Conn.cors_none;
    r "/echo*" Conn.HEcho Conn.cors_none;
    r "/empty*" Conn.HEmpty Conn.cors_none;
    r "/panic*" Conn.HPanic Conn.cors_none;
    r "/own*" Conn.HOwn Conn.cors_none;
    r "/wild*" (Conn.HFixed (b "w")) { Conn.c_origin = Some (b "*"); Conn.c_methods = None; Conn.c_headers = Some (b "*") };
    r "/cors*" (Conn.HFixed (b "c"))
      { Conn.c_origin = Some (b "https://a.example, https://b.example"); Conn.c_methods = Some (b "GET, POST"); Conn.c_headers = Some (b "x-h, x-i") } ]

let ending_name = function
  | Conn.EClosedByClient -> "client" | Conn.EStreamError -> "stream" | Conn.EBadRequest -> "400" | Conn.ETimeout -> "408"
  | Conn.ENoKeepAlive -> "nokeepalive" | Conn.EPanic -> "panic" | Conn.EUpgrade -> "upgrade" | Conn.EFuel -> "FUEL"

let () =
  register "conn" (function
    | [plan] ->
      let items = Stdlib.String.split_on_char ',' plan in
      let inp = Stdlib.List.filter_map (fun it ->
          if it = "i" then Some None
          else if it = "p" || it = "w" || it = "" || it = "-" then None
          else Some (Some (bytes_of_hex it))) items in
      let peer = { Http.p_ip = b "127.0.0.1"; Http.p_port = n_of_int 1 } in
      let (out, e) = Conn.serve_conn Http.ipv4_parse routes (b "DATE") peer inp in
      "out=" ^ hex_of_bytes (Stdlib.List.concat out) ^ " end=" ^ ending_name e
    | _ -> "BADARGS")
