(* driver: WebSocket endpoint (C11) and message decoder (C03).  Same line protocol and canonical output as
   harness/src/c11.rs (without the figures only the implementation can measure). *)
open Conv
open BinNums

let c11_split_commas s = if s = "-" || s = "" then [] else Stdlib.String.split_on_char ',' s

(* the byte strings the client writes, in order; pauses and polls are ignored here *)
let c11_writes (plan : string) : int list list =
  Stdlib.List.filter_map (fun it ->
      if it = "" then None
      else match it.[0] with
        | 'h' | 'w' -> Some (ints_of_hex (Stdlib.String.sub it 1 (Stdlib.String.length it - 1)))
        | _ -> None) (c11_split_commas plan)

(* one client write = one or more reads of at most 1024 bytes (the results do not depend on the chunking: theorem
   C11_chunking_independent; small chunks keep the extracted list functions fast) *)
let c11_chunks_of (segs : int list list) : coq_N list list =
  Stdlib.List.concat_map (fun seg ->
      let a = Stdlib.Array.of_list seg in
      let n = Stdlib.Array.length a in
      let rec go pos acc =
        if pos >= n then Stdlib.List.rev acc
        else
          let k = min 1024 (n - pos) in
          go (pos + k) (Stdlib.List.init k (fun i -> n_of_int a.(pos + i)) :: acc) in
      go 0 []) segs

let c11_total (cs : coq_N list list) = Stdlib.List.fold_left (fun a c -> a + Stdlib.List.length c) 0 cs

let c11_show_msg (m : WsMessage.message) : string =
  let kind =
    if m.WsMessage.m_text then (match WsMessage.msg_text m with Some _ -> "T" | None -> "t") else "B" in
  kind ^ ":" ^ D_c10.c10_digest_n m.WsMessage.m_payload

let c11_show_err (e : coq_N) : string =
  match int_of_n e with
  | 1 -> "E:read" | 2 -> "E:opcode" | 3 -> "E:handshake" | 4 -> "E:closed" | 5 -> "E:write"
  | 99 -> "E:fuel" | k -> "E:" ^ string_of_int k

let c11_show_res (r : WsMessage.message Prelude.outcome) : string =
  match r with
  | Prelude.Ok m -> c11_show_msg m
  | Prelude.Err e -> c11_show_err e
  | Prelude.Crash w -> "PANIC"

let c11_hex_writes (ws : coq_N list list) : string =
  Stdlib.String.concat "" (Stdlib.List.map hex_of_bytes ws)

let c11_show_serve (o : WsMessage.serve_out) : string =
  let msgs = Stdlib.List.map c11_show_msg o.WsMessage.s_msgs in
  let fin = match o.WsMessage.s_final with
    | Prelude.Ok _ -> [] | Prelude.Err e -> [c11_show_err e] | Prelude.Crash _ -> ["PANIC"] in
  Printf.sprintf "res=%s out=%s alloc=%s" (Stdlib.String.concat ";" (msgs @ fin))
    (c11_hex_writes o.WsMessage.s_writes) (decimal_of_n o.WsMessage.s_alloc)

let c11_limit s = if s = "-" then None else Some (nat_of_int (int_of_string s))

(* choreographed non-blocking receive: see harness/src/c11.rs run_nb *)
let c11_nb (old : bool) (steps : string) : string =
  let items = c11_split_commas steps in
  let stream = Stdlib.Array.of_list (Stdlib.List.concat (c11_writes steps)) in
  let total = Stdlib.Array.length stream in
  (* cumulative arrival after each step *)
  let n = Stdlib.List.length items in
  let arr = Stdlib.Array.make (n + 1) 0 in
  Stdlib.List.iteri (fun i it ->
      let add = if it <> "" && (it.[0] = 'w' || it.[0] = 'h') then (Stdlib.String.length it - 1) / 2 else 0 in
      arr.(i + 1) <- arr.(i) + add) items;
  let pos = ref 0 and dead = ref false and ready = ref 0 in
  let polls = ref [] and out = Stdlib.Buffer.create 64 in
  Stdlib.List.iteri (fun i it ->
      if (it = "p" || (it <> "" && it.[0] = 'q')) && not !dead then begin
        (* the poll starts when step i is reached and the previous poll has returned *)
        let start = max i !ready in
        let marks =
          let rec go j acc = if j > n then Stdlib.List.rev acc else go (j + 1) (n_of_int (max 0 (arr.(j) - !pos)) :: acc) in
          go start [] in
        let rest = Stdlib.List.init (total - !pos) (fun k -> stream.(!pos + k)) in
        let cs = c11_chunks_of [rest] in
        let f = if old then WsMessage.recv_nb_old else WsMessage.recv_nb in
        let o = f (WsMessage.avail_at marks) cs in
        Stdlib.Buffer.add_string out (c11_hex_writes o.WsMessage.n_writes);
        (match o.WsMessage.n_res with
         | None -> polls := "N" :: !polls
         | Some r ->
           polls := c11_show_res r :: !polls;
           (match r with Prelude.Ok _ -> () | _ -> dead := true));
        let consumed_to = match o.WsMessage.n_res with
          | Some (Prelude.Err e) when int_of_n e <> 4 -> total
          | _ -> total - c11_total o.WsMessage.n_rest in
        (* the step whose write made the last consumed byte available *)
        let rec first_ge j = if j >= n then n else if arr.(j) >= consumed_to then j else first_ge (j + 1) in
        ready := first_ge start;
        pos := consumed_to
      end) items;
  let closed = (match !polls with "E:closed" :: _ -> true | _ -> false) in
  Stdlib.Buffer.add_string out (c11_hex_writes (WsMessage.drop_stream closed));
  Printf.sprintf "polls=%s out=%s" (Stdlib.String.concat ";" (Stdlib.List.rev !polls)) (Stdlib.Buffer.contents out)

let c11_peer = { Http.p_ip = bytes_of_hex "h3132372e302e302e31"; Http.p_port = n_of_int 1 }

let () =
  register "c11_run" (function
    | echo :: limit :: _end :: rest ->
      let plan = (match rest with p :: _ -> p | [] -> "-") in
      let cs = c11_chunks_of (c11_writes plan) in
      c11_show_serve (WsMessage.serve (echo = "1") (c11_limit limit) cs)
    | _ -> "BADARGS");
  register "c11_run_old" (function
    | echo :: limit :: _end :: rest ->
      let plan = (match rest with p :: _ -> p | [] -> "-") in
      let cs = c11_chunks_of (c11_writes plan) in
      c11_show_serve (WsMessage.serve_old (echo = "1") (c11_limit limit) cs)
    | _ -> "BADARGS");
  register "c11_nb" (function
    | [steps] -> c11_nb false steps
    | [] -> c11_nb false "-"
    | _ -> "BADARGS");
  register "c11_nb_old" (function
    | [steps] -> c11_nb true steps
    | _ -> "BADARGS");
  register "c11_nbfree" (function
    | _sleep :: rest ->
      let plan = (match rest with p :: _ -> p | [] -> "-") in
      let cs = c11_chunks_of (c11_writes plan) in
      let total = c11_total cs in
      (* everything has arrived whenever a poll is made: k >= 1 until the stream is exhausted *)
      let big = n_of_decimal "4611686018427387904" in
      let av = WsMessage.avail_at [big] in
      let o = WsMessage.poll_loop (Stdlib.List.init (total / 2 + 3) (fun _ -> av)) cs in
      let res = Stdlib.List.filter_map (function None -> None | Some r -> Some (c11_show_res r)) o.WsMessage.p_results in
      (* a poller that gave up while the stream was open drops it: Close *)
      let tailw = if o.WsMessage.p_open then WsMessage.drop_stream false else [] in
      Printf.sprintf "res=%s out=%s" (Stdlib.String.concat ";" res) (c11_hex_writes (o.WsMessage.p_writes @ tailw))
    | _ -> "BADARGS");
  register "c11_hs" (function
    | request :: rest ->
      let post = (match rest with p :: _ -> p | [] -> "h") in
      (match Http.parse_request_flat Http.ipv4_parse c11_peer (bytes_of_hex request) with
       | Prelude.Ok (req, _) ->
         (match WsMessage.upgrade req with
          | None -> "plain"
          | Some (Prelude.Ok resp) ->
            let o = WsMessage.serve true None (c11_chunks_of [ints_of_hex post]) in
            Printf.sprintf "resp=%s frames=%s" (hex_of_bytes resp) (c11_hex_writes o.WsMessage.s_writes)
          | Some (Prelude.Err _) -> "resp= frames="
          | Some (Prelude.Crash _) -> "PANIC")
       | Prelude.Err e -> "badrequest:" ^ string_of_int (int_of_n e)
       | Prelude.Crash _ -> "PANIC")
    | _ -> "BADARGS");
  (* the accept value alone: Base64(SHA-1(key ++ GUID)) *)
  register "c11_accept" (function
    | [key] ->
      (match WsMessage.accept_value (bytes_of_hex key) with
       | Prelude.Ok v -> "h" ^ hex_of_bytes v | Prelude.Err _ -> "err" | Prelude.Crash _ -> "PANIC")
    | _ -> "BADARGS")
