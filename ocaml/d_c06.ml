(* driver: static handlers (C06) *)
open Conv

(* build the abstract tree from "f:<hexpath>:<hexcontent>,d:<hexpath>,..." (paths relative to the base, '/'-separated) *)
let split_path (p : int list) : int list list =
  let rec go cur acc = function
    | [] -> Stdlib.List.rev (Stdlib.List.rev cur :: acc)
    | 47 :: r -> go [] (Stdlib.List.rev cur :: acc) r
    | c :: r -> go (c :: cur) acc r in
  Stdlib.List.filter (fun c -> c <> []) (go [] [] p)

type t = F of int list | D of (int list * t) list ref

let build desc =
  let root = ref [] in
  let rec insert (dir : (int list * t) list ref) comps leaf =
    match comps with
    | [] -> ()
    | [c] ->
      (match leaf with
       | Some content -> dir := !dir @ [ (c, F content) ]
       | None -> if not (Stdlib.List.mem_assoc c !dir) then dir := !dir @ [ (c, D (ref [])) ])
    | c :: rest ->
      let sub =
        match Stdlib.List.assoc_opt c !dir with
        | Some (D r) -> r
        | _ -> let r = ref [] in dir := !dir @ [ (c, D r) ]; r in
      insert sub rest leaf in
  if desc <> "-" then
    Stdlib.List.iter (fun e ->
        match Stdlib.String.split_on_char ':' e with
        | ["d"; p] -> insert root (split_path (ints_of_hex p)) None
        | ["f"; p; c] -> insert root (split_path (ints_of_hex p)) (Some (ints_of_hex c))
        | _ -> failwith "tree") (Stdlib.String.split_on_char ',' desc);
  let rec conv = function
    | F c -> StaticFs.File (Stdlib.List.map n_of_int c)
    | D r -> StaticFs.Dir (Stdlib.List.map (fun (n, t) -> (Stdlib.List.map n_of_int n, conv t)) !r) in
  conv (D root)

let show = function
  | StaticFs.R200 (body, ct) ->
    "200 ct=" ^ (match ct with None -> "none" | Some c -> hex_of_bytes c) ^ " body=" ^ hex_of_bytes body
  | StaticFs.R301 loc -> "301 loc=" ^ hex_of_bytes loc
  | StaticFs.R404 -> "404"
  | StaticFs.R500 -> "500"
  | StaticFs.RPanic -> "PANIC"

let www = Stdlib.List.map n_of_int [47; 119; 119; 119]

let () =
  register "static" (function
    | [h; tree; route; uri] ->
      let fs = build tree in
      (* @BASE@ (absolute path of the real base directory) is the model's root: it vanishes *)
      let strip_base (l : int list) : int list =
        let tok = [64;66;65;83;69;64] in
        let rec pre a b = match a, b with [], _ -> true | x :: a', y :: b' -> x = y && pre a' b' | _, [] -> false in
        let rec go = function
          | [] -> []
          | (c :: r) as l -> if pre tok l then go (Stdlib.List.filteri (fun i _ -> i >= 6) l) else c :: go r in
        go l in
      let route = bytes_of_hex route and uri = Stdlib.List.map n_of_int (strip_base (ints_of_hex uri)) in
      (match h with
       | "serve_dir" -> show (StaticFs.serve_dir fs www route uri)
       | "serve_as_file_path" -> show (StaticFs.serve_as_file_path fs www uri)
       (* library serve_file: the configured file (path below the base, in the "route" argument) whatever is asked; same
          answer shape as serve_as_file_path asked for that very file from the root *)
       | "serve_file" -> show (StaticFs.serve_as_file_path fs [] (n_of_int 47 :: route))
       | "serve_as_file_path_old" -> show (StaticFs.serve_as_file_path_old fs www uri)
       | "directory" -> show (StaticFs.directory_handler fs www route uri)
       | _ -> "BADARGS")
    | _ -> "BADARGS")
