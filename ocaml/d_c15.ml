(* driver: configuration loader (C15, C03 conf part). Same line protocol and canonical output as harness/src/c15.rs:
   c15_load / c15_tree / c15_safe <filename> <main> [<path> <content>]*   (content: h<hex> bytes, or d = a directory) *)
open Conv
open BinNums

let files_of (args : string list) =
  let rec go = function
    | p :: c :: r -> (bytes_of_hex p, (if c = "d" then Config.FDir else Config.FData (bytes_of_hex c))) :: go r
    | _ -> [] in
  let tbl = Stdlib.List.rev (go args) in
  fun (path : coq_N list) -> match Stdlib.List.assoc_opt path tbl with Some e -> e | None -> Config.FNone

let hs (l : coq_N list) = "h" ^ hex_of_bytes l
let hopt = function Some l -> hs l | None -> "none"

let syntax_class n =
  match int_of_n n with
  | 1 -> "noserver" | 2 -> "syntax" | 3 -> "value" | 4 -> "incvalue" | 5 -> "eof" | 6 -> "incread" | 7 -> "incopen"
  | 9 -> "depth" | 10 -> "trailing" | 11 -> "unmatched" | 99 -> "FUEL" | k -> "class" ^ string_of_int k
let validation_class n =
  match int_of_n n with
  | 20 -> "port" | 21 -> "threads" | 22 -> "timeout" | 23 -> "nothreads" | 24 -> "blopen" | 25 -> "blread" | 26 -> "blip"
  | 27 -> "blmode" | 28 -> "loglevel" | 29 -> "logconsole" | 30 -> "cachesize" | 31 -> "cachetime" | 32 -> "lbmode"
  | 33 -> "route" | k -> "class" ^ string_of_int k

let show_err (e : Config.cerr) =
  if int_of_n e.Config.ce_class >= 20 && int_of_n e.Config.ce_class < 99 then "verr:" ^ validation_class e.Config.ce_class
  else Printf.sprintf "err:%s:%s:%s" (syntax_class e.Config.ce_class) (decimal_of_n e.Config.ce_line) (hs e.Config.ce_file)

let show_route (r : Config.route_cfg) =
  let ty = match int_of_n r.Config.rt_type with
    | 0 -> "file" | 1 -> "dir" | 2 -> "proxy" | 3 -> "redirect" | 4 -> "ws" | k -> "type" ^ string_of_int k in
  let targets, mode = match r.Config.rt_lb with
    | Some (ts, m) -> Stdlib.String.concat "," (Stdlib.List.map hs ts), (match int_of_n m with 0 -> "rr" | 1 -> "random" | k -> string_of_int k)
    | None -> "none", "none" in
  Printf.sprintf "%s:%s:%s:%s:%s:%s" ty (hs r.Config.rt_matches) (hopt r.Config.rt_path) targets mode (hopt r.Config.rt_ws)
let show_routes rs = "[" ^ Stdlib.String.concat ";" (Stdlib.List.map show_route rs) ^ "]"

let show_config (c : Config.config) =
  let level = match int_of_n c.Config.cf_log_level with 0 -> "error" | 1 -> "warn" | 2 -> "info" | 3 -> "debug" | k -> string_of_int k in
  let blmode = match int_of_n c.Config.cf_bl_mode with 0 -> "block" | 1 -> "forbidden" | k -> string_of_int k in
  let hosts = Stdlib.List.map (fun (h : Config.host_cfg) -> hs h.Config.hc_matches ^ show_routes h.Config.hc_routes) c.Config.cf_hosts in
  Printf.sprintf "ok addr=%s port=%s threads=%s timeout=%s ws=%s bl=%s:%s log=%s:%s:%s cache=%s:%s default=%s%s hosts=%s"
    (hs c.Config.cf_address) (decimal_of_n c.Config.cf_port) (decimal_of_n c.Config.cf_threads)
    (match c.Config.cf_timeout with Some t -> decimal_of_n t | None -> "none")
    (hopt c.Config.cf_websocket) blmode (Stdlib.String.concat "," (Stdlib.List.map hs c.Config.cf_bl_list))
    level (string_of_bool c.Config.cf_log_console) (hopt c.Config.cf_log_file)
    (decimal_of_n c.Config.cf_cache_size) (decimal_of_n c.Config.cf_cache_time)
    (hs c.Config.cf_default_host.Config.hc_matches) (show_routes c.Config.cf_default_host.Config.hc_routes)
    (Stdlib.String.concat "|" hosts)

let rec show_node b (n : Config.node) =
  let leaf tag k v = Stdlib.Buffer.add_string b (Printf.sprintf "%s(%s=%s)" tag (hs k) (hs v)) in
  let sec tag k cs =
    Stdlib.Buffer.add_string b (Printf.sprintf "%s(%s" tag (hs k));
    Stdlib.List.iter (fun c -> Stdlib.Buffer.add_char b ','; show_node b c) cs;
    Stdlib.Buffer.add_char b ')' in
  match n with
  | Config.NNum (k, v) -> leaf "N" k v
  | Config.NBool (k, v) -> leaf "B" k v
  | Config.NStr (k, v) -> leaf "T" k v
  | Config.NSec (k, cs) -> sec "S" k cs
  | Config.NHost (k, cs) -> sec "H" k cs
  | Config.NRoute (k, cs) -> sec "R" k cs

let run kind = function
  | filename :: main :: rest ->
    let main = bytes_of_hex main in
    if not (Bytes.utf8_valid main) then "NOTUTF8"
    else begin
      let files = files_of rest in
      let file = bytes_of_hex filename in
      match kind with
      | `Tree ->
        (match Config.parse_conf files file main with
         | Config.ROk t -> let b = Stdlib.Buffer.create 256 in Stdlib.Buffer.add_string b "ok "; show_node b t; Stdlib.Buffer.contents b
         | Config.RErr e -> show_err e
         | Config.RCrash w -> "CRASH:" ^ decimal_of_n w)
      | `Load ->
        (match Config.load Http.ipv4_parse files file main with
         | Config.ROk c -> show_config c
         | Config.RErr e -> show_err e
         | Config.RCrash w -> "CRASH:" ^ decimal_of_n w)
      | `Safe ->
        (match Config.parse_conf files file main with
         | Config.RErr e -> if int_of_n e.Config.ce_class = 99 then "FUEL" else "err"
         | Config.RCrash w -> "CRASH:" ^ decimal_of_n w
         | Config.ROk t ->
           (match Config.from_tree Http.ipv4_parse files t with
            | Config.ROk _ -> "ok"
            | Config.RErr _ -> "verr"
            | Config.RCrash w -> "CRASH:" ^ decimal_of_n w))
    end
  | _ -> "BADARGS"

let () =
  register "c15_load" (run `Load);
  register "c15_tree" (run `Tree);
  register "c15_safe" (run `Safe)
