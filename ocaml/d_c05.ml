(* driver: wildcard matcher (C05) *)
open Conv
let () =
  register "wm" (function [w; t] -> string_of_bool (Krauss.wildcard_match (str_of_hex w) (str_of_hex t)) | _ -> "BADARGS");
  register "globb" (function [w; t] -> string_of_bool (Krauss.globb (str_of_hex w) (str_of_hex t)) | _ -> "BADARGS");
  register "wm_old" (function [w; t] ->
    string_of_opt string_of_bool (Krauss.wildcard_match_old (str_of_hex w) (str_of_hex t)) | _ -> "BADARGS")
