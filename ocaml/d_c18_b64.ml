(* driver: Base64 (C18) — the model of base64.rs (repaired and pre-fix decoder) and the RFC 4648 specification *)
open Conv
let text_of_syms (l : BinNums.coq_N list) : string =
  let b = Stdlib.Buffer.create 16 in
  Stdlib.List.iter (fun c -> Stdlib.Buffer.add_char b (Stdlib.Char.chr ((int_of_n c) land 255))) l;
  Stdlib.Buffer.contents b
let out_text = function
  | Prelude.Ok s -> "ok:" ^ text_of_syms s
  | Prelude.Err _ -> "err"
  | Prelude.Crash _ -> "PANIC"
let out_bytes = function
  | Prelude.Ok b -> "ok:h" ^ hex_of_bytes b
  | Prelude.Err _ -> "err"
  | Prelude.Crash _ -> "PANIC"
let () =
  register "b64enc" (function [b] -> out_text (Base64.encode (bytes_of_hex b)) | _ -> "BADARGS");
  register "b64dec" (function [s] -> out_bytes (Base64.decode (bytes_of_hex s)) | _ -> "BADARGS");
  register "b64dec_old" (function [s] -> out_bytes (Base64.decode_old (bytes_of_hex s)) | _ -> "BADARGS");
  (* the specification side: RFC 4648 on bit strings *)
  register "b64enc_spec" (function [b] -> "ok:" ^ text_of_syms (Base64Spec.encode_spec (bytes_of_hex b)) | _ -> "BADARGS");
  register "b64dec_spec" (function [s] ->
    let l = bytes_of_hex s in
    if Base64Spec.wfb l then "ok:h" ^ hex_of_bytes (Base64Spec.denote l) else "err" | _ -> "BADARGS")
