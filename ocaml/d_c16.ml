(* driver: file cache (C16).
   c16run <limit> <time_limit> <ops>    ops = op;op;...  (or "-")
       op = s,<routehex>,<host>,<mime>,<now>,<len>,<seed>   Cache::set with the generated value
          | g,<routehex>,<host>,<now>                       Cache::get
     prints one token per operation (S<size>/<entries> | M | H<entry> | CRASH) joined by ';', then " | F<size>:[entries]"
   c16req <limit> <time_limit> <reqs>   req = <routehex>,<host>,<mime>,<now>,<len>,<seed>[,<kind>]
     prints R<mime>,<len>,<hash> per request, then the final cache, then " # " and the hit/miss flags (model only) *)
open Conv

let split c s = Stdlib.String.split_on_char c s
let byte_n = Stdlib.Array.init 256 n_of_int
let gen_value seed len =
  Stdlib.List.init len (fun i -> byte_n.((seed + i * 13 + (i lsr 8)) land 255))
(* CRC-32 (IEEE, as zlib.crc32) of the bytes *)
let crc_table = Stdlib.Array.init 256 (fun n ->
  let c = ref n in
  for _ = 0 to 7 do c := if !c land 1 = 1 then 0xEDB88320 lxor (!c lsr 1) else !c lsr 1 done; !c)
let crc32 (l : BinNums.coq_N list) =
  (Stdlib.List.fold_left (fun c b -> crc_table.((c lxor (int_of_n b)) land 255) lxor (c lsr 8)) 0xFFFFFFFF l)
  lxor 0xFFFFFFFF
let ios = int_of_string

let item_str (it : Cache.item) =
  Printf.sprintf "%s,%s,%d,%s,%d,%08x" (hex_of_bytes (it.Cache.i_route)) (decimal_of_n (it.Cache.i_host))
    (int_of_n (it.Cache.i_mime)) (decimal_of_n (it.Cache.i_time)) (Stdlib.List.length (it.Cache.i_data))
    (crc32 (it.Cache.i_data))

let final_str (c : Cache.cache) =
  Printf.sprintf "F%s:[%s]" (decimal_of_n (c.Cache.c_size))
    (Stdlib.String.concat ";" (Stdlib.List.map item_str (c.Cache.c_data)))

let parse_op s =
  match split ',' s with
  | ["s"; r; h; m; now; len; seed] ->
    Cache.OSet (bytes_of_hex r, n_of_decimal h, gen_value (ios seed) (ios len), n_of_int (ios m), n_of_decimal now)
  | ["g"; r; h; now] -> Cache.OGet (bytes_of_hex r, n_of_decimal h, n_of_decimal now)
  | _ -> failwith "op"

let parse_list f s = if s = "-" || s = "" then [] else Stdlib.List.map f (split ';' s)

let get_str = function None -> "M" | Some it -> "H" ^ item_str it

let run_case lim tl ops =
  let c0 = Cache.empty lim tl in
  let toks = ref [] in
  let rec go c = function
    | [] -> Some c
    | o :: rest ->
      (match Cache.step c o with
       | Prelude.Ok (c', out) ->
         (match out with
          | None -> toks := Printf.sprintf "S%s/%d" (decimal_of_n c'.Cache.c_size) (Stdlib.List.length c'.Cache.c_data) :: !toks
          | Some x -> toks := get_str x :: !toks);
         go c' rest
       | _ -> toks := "CRASH" :: !toks; None) in
  let fin = go c0 ops in
  (* the function the theorems are about must agree with the fold of its step function *)
  let (outs, fin') = Cache.run c0 ops in
  let folded_outs = Stdlib.List.filter (fun t -> t = "M" || t.[0] = 'H') (Stdlib.List.rev !toks) in
  let agree =
    Stdlib.List.map get_str outs = folded_outs &&
    (match fin, fin' with
     | Some c, Prelude.Ok c' -> c = c'
     | None, Prelude.Crash _ -> true
     | _ -> false) in
  let body = Stdlib.String.concat ";" (Stdlib.List.rev !toks) in
  let tail = match fin with Some c -> " | " ^ final_str c | None -> "" in
  (if agree then "" else "RUNMISMATCH ") ^ body ^ tail

let parse_req s =
  match split ',' s with
  | r :: h :: m :: now :: len :: seed :: _ ->
    { Cache.q_route = bytes_of_hex r; q_host = n_of_decimal h; q_fs = gen_value (ios seed) (ios len);
      q_mime = n_of_int (ios m); q_now = n_of_decimal now }
  | _ -> failwith "req"

let req_case lim tl qs =
  let (ps, fin) = Cache.hrun (Cache.empty lim tl) qs in
  let body = Stdlib.String.concat ";" (Stdlib.List.map (fun p ->
    Printf.sprintf "R%d,%d,%08x" (int_of_n (p.Cache.p_mime)) (Stdlib.List.length (p.Cache.p_body)) (crc32 (p.Cache.p_body))) ps) in
  let flags = Stdlib.String.concat "" (Stdlib.List.map (fun p -> if p.Cache.p_cached then "1" else "0") ps) in
  (match fin with
   | Prelude.Ok c -> body ^ " | " ^ final_str c
   | _ -> body ^ (if body = "" then "" else ";") ^ "CRASH") ^ " # " ^ flags

(* ---- bounded-exhaustive enumeration inside the runner (the same enumeration is implemented in harness/src/c16.rs):
   c16exh <limit> <time_limit> <num> <den> <s0,s1,s2> <L> <prefix>
   alphabet of 24 operations over 3 routes x 2 hosts: a<6 get(route a mod 3, host a/3); a>=6, b=a-6:
   set(route b mod 3, host (b/3) mod 2, size s_(b/6)); the operation at depth d runs at clock 100 + d*num/den, a set
   there stores the value gen_value (d*31+a) size with MIME (a+d) mod 22. All sequences of length L extending the
   prefix are run (a crash ends a sequence); the digest chains a hash of every result and of every final cache. *)
let mask62 = (1 lsl 62) - 1
let mix h x = (h * 1000003 + x) land mask62
let exh_routes = [| "2f61"; "2f6162"; "2f612f" |]
let item_hash (it : Cache.item) =
  let h = mix 11 (crc32 it.Cache.i_route) in
  let h = mix h (int_of_n it.Cache.i_host) in
  let h = mix h (int_of_n it.Cache.i_mime) in
  let h = mix h (int_of_n it.Cache.i_time) in
  let h = mix h (Stdlib.List.length it.Cache.i_data) in
  mix h (crc32 it.Cache.i_data)
let fin_hash (c : Cache.cache) =
  Stdlib.List.fold_left (fun h it -> mix h (item_hash it)) (mix (mix 7 5) (int_of_n c.Cache.c_size)) c.Cache.c_data

let exh lim tl num den sizes l prefix =
  let op_at d a =
    let now = n_of_int (100 + d * num / den) in
    if a < 6 then Cache.OGet (bytes_of_hex exh_routes.(a mod 3), n_of_int (a / 3), now)
    else
      let b = a - 6 in
      Cache.OSet (bytes_of_hex exh_routes.(b mod 3), n_of_int ((b / 3) mod 2),
                  gen_value (d * 31 + a) sizes.(b / 6), n_of_int ((a + d) mod 22), now) in
  let ops = Stdlib.Array.init (l + 1) (fun d -> Stdlib.Array.init 24 (fun a -> op_at d a)) in
  let acc = ref 7 and nodes = ref 0 and leaves = ref 0 and hits = ref 0 and misses = ref 0 and crashes = ref 0 in
  (* one operation: Some c' or None on a crash; updates the digest *)
  let apply c d a =
    incr nodes;
    match Cache.step c ops.(d).(a) with
    | Prelude.Ok (c', out) ->
      (match out with
       | None -> acc := mix !acc (mix (mix (mix 7 1) (int_of_n c'.Cache.c_size)) (Stdlib.List.length c'.Cache.c_data))
       | Some None -> incr misses; acc := mix !acc (mix 7 2)
       | Some (Some it) -> incr hits; acc := mix !acc (mix (mix 7 3) (item_hash it)));
      Some c'
    | _ -> incr crashes; acc := mix !acc (mix 7 4); None in
  let rec dfs c d =
    for a = 0 to 23 do
      match apply c d a with
      | None -> incr leaves
      | Some c' ->
        if d + 1 >= l then (acc := mix !acc (fin_hash c'); incr leaves) else dfs c' (d + 1)
    done in
  let rec run_prefix c d = function
    | [] -> if d >= l then (acc := mix !acc (fin_hash c); incr leaves) else dfs c d
    | a :: rest -> (match apply c d a with None -> incr leaves | Some c' -> run_prefix c' (d + 1) rest) in
  run_prefix (Cache.empty lim tl) 0 prefix;
  Printf.sprintf "D%d nodes=%d leaves=%d hit=%d miss=%d crash=%d" !acc !nodes !leaves !hits !misses !crashes

let () =
  register "c16exh" (function [lim; tl; num; den; sizes; l; prefix] ->
    exh (n_of_decimal lim) (n_of_decimal tl) (ios num) (ios den)
      (Stdlib.Array.of_list (Stdlib.List.map ios (split ',' sizes))) (ios l)
      (if prefix = "-" then [] else Stdlib.List.map ios (split ',' prefix)) | _ -> "BADARGS");
  register "c16nums" (function [lim; tl; ops] ->
    Stdlib.String.concat "," (Stdlib.List.map decimal_of_n
      (Cache.render_run (n_of_decimal lim) (n_of_decimal tl) (parse_list parse_op ops))) | _ -> "BADARGS");
  register "c16run" (function [lim; tl; ops] ->
    run_case (n_of_decimal lim) (n_of_decimal tl) (parse_list parse_op ops) | _ -> "BADARGS");
  register "c16req" (function [lim; tl; qs] ->
    req_case (n_of_decimal lim) (n_of_decimal tl) (parse_list parse_req qs) | _ -> "BADARGS")
