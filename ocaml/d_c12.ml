(* driver: asynchronous WebSocket app (C12) — replays the hook-H4 log of the poll loop through the extracted `poll`.
   Each iteration's inputs (key order, receive results per address, clock values, admissions, drained outgoing messages,
   shutdown flag) are read off the log; the model's dispatches and writes must equal the logged ones, in order. *)
open Conv
open BinNums

let c12_split c s = if s = "" || s = "-" then [] else Stdlib.String.split_on_char c s

let () =
  register "c12_replay" (function
    | [hbspec; handlers; log] ->
      let ms_to_ns s = n_of_int (int_of_string s * 1000000) in
      let hb = if hbspec = "off" then None else
          (match Stdlib.String.split_on_char ':' hbspec with
           | [i; t] -> Some (ms_to_ns i, ms_to_ns t)
           | _ -> None) in
      let has c = Stdlib.String.contains handlers c in
      let cfg = { AsyncApp.hb = hb; AsyncApp.has_connect = has 'c'; AsyncApp.has_message = has 'm';
                  AsyncApp.has_disconnect = has 'x' } in
      (* interning of addresses and message digests *)
      let tbl : (string, int) Stdlib.Hashtbl.t = Stdlib.Hashtbl.create 64 in
      let names : (int, string) Stdlib.Hashtbl.t = Stdlib.Hashtbl.create 64 in
      let intern s =
        match Stdlib.Hashtbl.find_opt tbl s with
        | Some k -> n_of_int k
        | None -> let k = Stdlib.Hashtbl.length tbl + 1 in
          Stdlib.Hashtbl.add tbl s k; Stdlib.Hashtbl.add names k s; n_of_int k in
      let name n = match Stdlib.Hashtbl.find_opt names (int_of_n n) with Some s -> s | None -> "?" in
      let num s = n_of_int (int_of_string s) in
      let events = Stdlib.Array.of_list (Stdlib.List.map (c12_split ',') (c12_split ';' log)) in
      let n_ev = Stdlib.Array.length events in
      let st = ref (AsyncApp.init N0) in
      let all_disp = ref [] in       (* reversed *)
      let addrs_seen = ref [] in
      let iters = ref 0 and idle = ref 0 and ndisp = ref 0 and nwrites = ref 0 in
      let exited = ref false and stuck = ref false and readmit = ref 0 in
      let err = ref "" in
      let fail i why = if !err = "" then err := Printf.sprintf "rejected:it%d:%s" i why in
      let show_d = function
        | AsyncApp.Connect a -> "c " ^ name a
        | AsyncApp.Message (a, m) -> "m " ^ name a ^ " " ^ name m
        | AsyncApp.Disconnect a -> "x " ^ name a in
      let show_w = function
        | AsyncApp.WMsg (a, m) -> "w " ^ name a ^ " " ^ name m
        | AsyncApp.WPing a -> "ping " ^ name a in
      let pos = ref 0 in
      let partial = ref false in
      while !pos < n_ev && !err = "" && not !exited && not !stuck do
        (match events.(!pos) with
         | ["start"; lp] -> st := AsyncApp.init (num lp); incr pos
         | "idle" :: k :: _ -> idle := !idle + int_of_string k; incr pos
         | ["partial"] -> partial := true; incr pos
         | ["exit"] -> incr pos
         | "it" :: k :: _ ->
           let itn = int_of_string k in
           incr pos; incr iters;
           (* collect this iteration's events *)
           let evs = ref [] in
           let closed = ref false in
           while !pos < n_ev && not !closed do
             (match events.(!pos) with
              | ["end"] -> closed := true; incr pos
              | "it" :: _ | "idle" :: _ | ["partial"] | ["exit"] -> closed := true
              | e -> evs := e :: !evs; incr pos)
           done;
           let evs = Stdlib.List.rev !evs in
           let shutdown = Stdlib.List.mem ["shutdown"] evs in
           let order = ref [] and ping_clock = ref N0 and ping_set = ref N0 in
           let per : (string, (AsyncApp.rres list ref * coq_N option ref * coq_N ref * bool ref)) Stdlib.Hashtbl.t =
             Stdlib.Hashtbl.create 8 in
           let per_get a =
             match Stdlib.Hashtbl.find_opt per a with
             | Some x -> x
             | None -> let x = (ref [], ref None, ref N0, ref false) in Stdlib.Hashtbl.add per a x; x in
           let news = ref [] and outs = ref [] in
           let exp_d = ref [] and exp_w = ref [] in
           let hbno = ref [] in
           let cur_b : (coq_N * coq_N list ref) option ref = ref None in
           let close_b () =
             (match !cur_b with
              | Some (m, l) -> outs := AsyncApp.OBroadcast (m, Stdlib.List.rev !l) :: !outs
              | None -> ());
             cur_b := None in
           Stdlib.List.iter (fun e ->
               match e with
               | ["shutdown"] -> ()
               | "keys" :: ks -> order := Stdlib.List.map intern ks
               | ["wp"; before; after; dec; lpa] ->
                 ping_clock := num (if dec = "1" then after else before); ping_set := num lpa
               | ["r"; a; "m"; d] -> let (r, _, _, _) = per_get a in ignore (intern a); r := AsyncApp.RMsg (intern d) :: !r
               | ["r"; a; "none"] -> let (r, _, _, t) = per_get a in r := AsyncApp.RNone :: !r; t := true
               | ["r"; a; "err"; _] -> let (r, _, _, t) = per_get a in r := AsyncApp.RErr N0 :: !r; t := true
               | ["pong"; a; lp] -> let (_, p, _, _) = per_get a in p := Some (num lp)
               | ["hb"; a; _; t] -> let (_, _, c, _) = per_get a in c := num t
               | ["hbno"; a; lp; t] -> let (_, _, c, _) = per_get a in c := num t; hbno := (a, num lp) :: !hbno
               | ["rm"; _] -> ()
               | ["adm"; a; lp] -> news := (Some (intern a), num lp) :: !news
               | ["d"; "c"; a] -> exp_d := AsyncApp.Connect (intern a) :: !exp_d
               | ["d"; "x"; a] -> exp_d := AsyncApp.Disconnect (intern a) :: !exp_d
               | ["d"; "m"; a; d] -> exp_d := AsyncApp.Message (intern a, intern d) :: !exp_d
               | ["o"; "u"; a; d] -> close_b (); outs := AsyncApp.OUnicast (intern a, intern d) :: !outs
               | ["o"; "b"; d] -> close_b (); cur_b := Some (intern d, ref [])
               | ["w"; a; "ping"] -> exp_w := AsyncApp.WPing (intern a) :: !exp_w
               | ["w"; a; d] ->
                 exp_w := AsyncApp.WMsg (intern a, intern d) :: !exp_w;
                 (match !cur_b with Some (_, l) -> l := intern a :: !l | None -> ())
               | _ -> fail itn ("unknown-event:" ^ Stdlib.String.concat "," e)) evs;
           close_b ();
           let order_l = !order in
           (* an iteration cut short inside a receive call: the first address of the order whose drain did not terminate *)
           let in_partial = !partial && not shutdown in
           let blocked_done = ref false in
           let per_l = Stdlib.List.map (fun a ->
               let (r, p, c, t) = per_get (name a) in
               let rs = Stdlib.List.rev !r in
               let rs = if in_partial && not !t && not !blocked_done
                 then (blocked_done := true; rs @ [AsyncApp.RBlock]) else rs in
               (a, { AsyncApp.pa_recv = rs; AsyncApp.pa_pong = !p; AsyncApp.pa_clock = !c })) order_l in
           let inp = { AsyncApp.i_shutdown = shutdown; AsyncApp.i_order = order_l; AsyncApp.i_ping_clock = !ping_clock;
                       AsyncApp.i_ping_set = !ping_set; AsyncApp.i_per = per_l; AsyncApp.i_new = Stdlib.List.rev !news;
                       AsyncApp.i_out = Stdlib.List.rev !outs } in
           let exp_d = Stdlib.List.rev !exp_d and exp_w = Stdlib.List.rev !exp_w in
           if not shutdown && not (AsyncApp.wf_inputsb cfg !st inp) then begin
             (* why? *)
             let ks = Stdlib.List.sort compare (Stdlib.List.map int_of_n (AsyncApp.keys !st.AsyncApp.streams)) in
             let os = Stdlib.List.sort compare (Stdlib.List.map int_of_n order_l) in
             if ks <> os then fail itn (Printf.sprintf "key-order-is-not-the-models-table:model=%s:logged=%s"
                                          (Stdlib.String.concat "+" (Stdlib.List.map (fun k -> name (n_of_int k)) ks))
                                          (Stdlib.String.concat "+" (Stdlib.List.map (fun k -> name (n_of_int k)) os)))
             else incr readmit      (* a broadcast that did not visit exactly the table: the comparison of the writes
                                       below decides whether model and code agree *)
           end;
           if !err = "" then begin
             match AsyncApp.poll cfg !st inp with
             | AsyncApp.Exit ->
               if shutdown then exited := true else fail itn "model-exits-without-signal"
             | AsyncApp.Crash -> fail itn "model-crash(unwrap-on-missing-stream)"
             | AsyncApp.Blocked (st', ds) ->
               let ds = AsyncApp.dispatched cfg ds in
               if not in_partial then fail itn "model-blocked"
               else if ds <> exp_d then fail itn "dispatches-differ(blocked)"
               else begin
                 st := st'; stuck := true; ndisp := !ndisp + Stdlib.List.length ds;
                 all_disp := Stdlib.List.rev_append ds !all_disp
               end
             | AsyncApp.Next (st', ds, ws) ->
               let ds = AsyncApp.dispatched cfg ds in
               if shutdown then fail itn "signal-seen-but-model-continues"
               else if in_partial && !blocked_done then fail itn "loop-stuck-but-model-continues"
               else if ds <> exp_d then
                 fail itn (Printf.sprintf "dispatches-differ:model=[%s]:logged=[%s]"
                             (Stdlib.String.concat "|" (Stdlib.List.map show_d ds))
                             (Stdlib.String.concat "|" (Stdlib.List.map show_d exp_d)))
               else if ws <> exp_w then
                 fail itn (Printf.sprintf "writes-differ:model=[%s]:logged=[%s]"
                             (Stdlib.String.concat "|" (Stdlib.List.map show_w ws))
                             (Stdlib.String.concat "|" (Stdlib.List.map show_w exp_w)))
               else begin
                 (* last_pong of the streams that were kept must be what the code holds *)
                 Stdlib.List.iter (fun (a, lp) ->
                     match AsyncApp.lookup (intern a) st'.AsyncApp.streams with
                     | Some v -> if v <> lp && not (Stdlib.List.exists (fun (x, _) -> x = Some (intern a)) inp.AsyncApp.i_new)
                       then fail itn ("last-pong-differs:" ^ a)
                     | None -> fail itn ("kept-stream-missing:" ^ a)) !hbno;
                 st := st'; ndisp := !ndisp + Stdlib.List.length ds; nwrites := !nwrites + Stdlib.List.length ws;
                 all_disp := Stdlib.List.rev_append ds !all_disp;
                 Stdlib.List.iter (fun a -> if not (Stdlib.List.mem a !addrs_seen) then addrs_seen := a :: !addrs_seen)
                   (AsyncApp.keys st'.AsyncApp.streams)
               end
           end
         | e -> fail 0 ("unknown-toplevel:" ^ Stdlib.String.concat "," e))
      done;
      if !err <> "" then !err
      else begin
        (* the session discipline per address over the whole dispatch sequence (all handlers installed) *)
        let disp = Stdlib.List.rev !all_disp in
        let bad = if has 'c' && has 'm' && has 'x' then
            Stdlib.List.filter (fun a -> AsyncApp.sessions false (AsyncApp.proj a disp) = None) !addrs_seen else [] in
        Printf.sprintf "accepted iters=%d idle=%d disp=%d writes=%d exited=%b stuck=%b offwf=%d sessions=%s final=%d"
          !iters !idle !ndisp !nwrites !exited !stuck !readmit
          (if bad = [] then "ok" else "bad:" ^ Stdlib.String.concat "+" (Stdlib.List.map name bad))
          (Stdlib.List.length (AsyncApp.keys !st.AsyncApp.streams))
      end
    | _ -> "BADARGS")

(* the closed examples of props/C12.v evaluated by the extracted code (spot check of extraction) *)
let () =
  register "c12_examples" (function
    | _ ->
      let sd = function
        | AsyncApp.Connect a -> Printf.sprintf "C%d" (int_of_n a)
        | AsyncApp.Message (a, m) -> Printf.sprintf "M%d.%d" (int_of_n a) (int_of_n m)
        | AsyncApp.Disconnect a -> Printf.sprintf "D%d" (int_of_n a) in
      let sw = function
        | AsyncApp.WMsg (a, m) -> Printf.sprintf "w%d.%d" (int_of_n a) (int_of_n m)
        | AsyncApp.WPing a -> Printf.sprintf "p%d" (int_of_n a) in
      let ss = function AsyncApp.Running -> "running" | AsyncApp.Exited -> "exited" | AsyncApp.Stuck -> "stuck"
                        | AsyncApp.Crashed -> "crashed" in
      let show t = Printf.sprintf "%s[%s][%s]" (ss t.AsyncApp.t_status)
          (Stdlib.String.concat "," (Stdlib.List.map sd t.AsyncApp.t_disp))
          (Stdlib.String.concat "," (Stdlib.List.map sw t.AsyncApp.t_writes)) in
      let i0 = AsyncApp.init N0 in
      Stdlib.String.concat " "
        [ "demo=" ^ show (AsyncApp.run AsyncAppProofs.cfg_hb i0 AsyncAppProofs.demo_hist);
          "stale_old=" ^ show (AsyncApp.run_old AsyncAppProofs.cfg_all i0 AsyncAppProofs.stale_hist);
          "stale_new=" ^ show (AsyncApp.run AsyncAppProofs.cfg_all i0 AsyncAppProofs.stale_hist);
          "blocked=" ^ show (AsyncApp.run AsyncAppProofs.cfg_all i0 AsyncAppProofs.blocked_hist) ])
