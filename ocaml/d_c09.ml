(* driver: proxy (C09) *)
open Conv

let show_headers hs =
  "[" ^ Stdlib.String.concat "," (Stdlib.List.map (fun (n, v) -> hex_of_bytes (Http.hname_str n) ^ ":" ^ hex_of_bytes v) hs) ^ "]"
let show_response (r : Http.response) =
  Printf.sprintf "v=%s code=%d h=%s b=%s" (hex_of_bytes r.Http.s_version) (int_of_n (Http.status_code r.Http.s_status))
    (show_headers r.Http.s_headers) (hex_of_bytes r.Http.s_body)

let peer = { Http.p_ip = Stdlib.List.map n_of_int [49;48;46;49;46;50;46;51]; Http.p_port = n_of_int 5555 }

let upstream_of behaviour =
  match Stdlib.String.split_on_char ':' behaviour with
  | ["refused"] -> Proxy.URefused
  | ["closeatonce"] -> Proxy.USends []
  | _ :: data :: _ -> Proxy.USends (bytes_of_hex data)
  | _ -> failwith "behaviour"

let () =
  register "proxy" (function
    | [_timeout; behaviour; req] ->
      (match Http.parse_request_flat Http.ipv4_parse peer (bytes_of_hex req) with
       | Prelude.Ok (r, _) ->
         let resp = Proxy.proxy_result (upstream_of behaviour) in
         let up = if behaviour = "refused" then [] else if behaviour = "closeatonce" then [] else Proxy.upstream_bytes r r.Http.r_uri in
         "resp " ^ show_response resp ^ " upstream=" ^ hex_of_bytes up
       | _ -> "badrequest")
    | _ -> "BADARGS");
  register "proxy_handler" (function
    | [pat; behaviour; req] ->
      (match Http.parse_request_flat Http.ipv4_parse peer (bytes_of_hex req) with
       | Prelude.Ok (r, _) ->
         (match Proxy.rewrite_uri (bytes_of_hex pat) r.Http.r_uri with
          | None -> "PANIC"
          | Some uri' ->
            let resp = Proxy.proxy_result (upstream_of behaviour) in
            let up = if behaviour = "refused" || behaviour = "closeatonce" then [] else Proxy.upstream_bytes r uri' in
            "resp " ^ show_response resp ^ " upstream=" ^ hex_of_bytes up)
       | _ -> "badrequest")
    | _ -> "BADARGS");
  register "select" (function
    | ["rr"; n; threads; calls] ->
      let total = int_of_string threads * int_of_string calls in
      let l = Proxy.rr_run (nat_of_int total) (n_of_int (int_of_string n)) (n_of_int 0) in
      Stdlib.String.concat "," (Stdlib.List.map (fun t -> "t" ^ string_of_int (int_of_n t)) l)
    | ["random"; _; _; _] -> "anyof"
    | _ -> "BADARGS")
