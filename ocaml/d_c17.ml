(* driver: humphrey-auth provider model (C17).
   auth_seq <pepper|none> <default_lifetime> <refresh_lifetime> <op> <op> ...   (one whole history per line)
   result: one `<result>|<state>` item per op, separated by spaces (same canonical form as harness/src/c17.rs,
   without the clock annotation). auth_seq_old runs the pre-repair refresh_session. *)
open Conv

let n = n_of_decimal
let d = decimal_of_n
let split c s = Stdlib.String.split_on_char c s

let pepper_of s = if s = "none" then None else Some (bytes_of_hex s)

let cfg_of p l r = { Auth.c_life = n l; Auth.c_refresh = n r; Auth.c_pepper = pepper_of p }

type kind = KUser | KTok | KRoute | KPlain

let parse_op (s : string) : (Auth.op * kind) option =
  match split ':' s with
  | ["cu"; pw; fu; salt] -> Some (Auth.CreateUser (bytes_of_hex pw, n fu, n salt), KUser)
  | ["ex"; u] -> Some (Auth.Exists (n u), KPlain)
  | ["ve"; u; pw] -> Some (Auth.Verify (n u, bytes_of_hex pw), KPlain)
  | ["ru"; u] -> Some (Auth.RemoveUser (n u), KPlain)
  | ["cs"; u; now; now2; tok] -> Some (Auth.CreateSession (n u, n now, n now2, n tok), KTok)
  | ["cl"; u; life; now; now2; tok] -> Some (Auth.CreateSessionLt (n u, n life, n now, n now2, n tok), KTok)
  | ["rf"; t; now; now2] -> Some (Auth.Refresh (n t, n now, n now2), KPlain)
  | ["is"; t] -> Some (Auth.InvalidateSession (n t), KPlain)
  | ["iu"; u] -> Some (Auth.InvalidateUser (n u), KPlain)
  | ["gu"; t; now] -> Some (Auth.GetUid (n t, n now), KUser)
  | ["rt"; "none"; now] -> Some (Auth.Route (None, n now), KRoute)
  | ["rt"; t; now] -> Some (Auth.Route (Some (n t), n now), KRoute)
  | ["cfg"; p; l; r] -> Some (Auth.SetConfig (cfg_of p l r), KPlain)
  | _ -> None

let show_out (k : kind) (o : Auth.out) : string =
  match o, k with
  | Prelude.Crash _, _ -> "PANIC"
  | Prelude.Err e, KRoute -> d e
  | Prelude.Err e, _ -> "err:" ^ d e
  | Prelude.Ok Auth.VUnit, _ -> "ok"
  | Prelude.Ok (Auth.VBool b), _ -> string_of_bool b
  | Prelude.Ok (Auth.VId x), KUser -> "ok:u" ^ d x
  | Prelude.Ok (Auth.VId x), KTok -> "ok:t" ^ d x
  | Prelude.Ok (Auth.VId x), KRoute -> "run:u" ^ d x
  | Prelude.Ok (Auth.VId x), KPlain -> "ok:" ^ d x

let dump (s : Auth.xstate) : string =
  match s.Auth.users with
  | [] -> "empty"
  | us ->
    Stdlib.String.concat ";" (Stdlib.List.map (fun u ->
      "u" ^ d u.Auth.uid ^ ":" ^
      (match u.Auth.session with
       | None -> "-"
       | Some (t, x) -> "t" ^ d t ^ "/" ^ d x)) us)

let run_seq stepf = function
  | p :: l :: r :: ops ->
    let s = ref (Auth.xinit (cfg_of p l r)) in
    let step_one o =
      if o = "sl" then "mark|" ^ dump !s
      else match parse_op o with
        | None -> "BADOP"
        | Some (op, k) ->
          let (s', x) = stepf !s op in
          s := s';
          show_out k x ^ "|" ^ dump s' in
    (* explicit left-to-right evaluation *)
    let outs = Stdlib.List.rev (Stdlib.List.fold_left (fun acc o -> step_one o :: acc) [] ops) in
    Stdlib.String.concat " " outs
  | _ -> "BADARGS"

let () =
  register "auth_seq" (run_seq Auth.xstep);
  register "auth_seq_old" (run_seq Auth.xstep_old)
