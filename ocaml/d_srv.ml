(* driver: the config-driven server as a whole (Server.serve_text): same `srv` case lines as harness/src/c04_server.rs.
   The fixture directory @FIX@ is the model's root: the token vanishes from the configuration text and the targets. *)
open Conv

let strip_token (tok : string) (s : string) : string =
  let b = Stdlib.Buffer.create (Stdlib.String.length s) in
  let lt = Stdlib.String.length tok and n = Stdlib.String.length s in
  let i = ref 0 in
  while !i < n do
    if !i + lt <= n && Stdlib.String.sub s !i lt = tok then i := !i + lt
    else (Stdlib.Buffer.add_char b s.[!i]; incr i)
  done;
  Stdlib.Buffer.contents b

let str_of_ints l = Stdlib.String.init (Stdlib.List.length l) (fun i -> Stdlib.Char.chr (Stdlib.List.nth l i))
let bytes_of_string (s : string) = Stdlib.List.init (Stdlib.String.length s) (fun i -> n_of_int (Stdlib.Char.code s.[i]))
let string_of_bytes l = D_c07_client.str_of_bytes l

let () =
  register "srv" (function
    | conf :: fixtures :: reqs :: rest ->
      let conf = strip_token "@FIX@" (str_of_ints (ints_of_hex conf)) in
      let fx = if fixtures = "-" then [] else Stdlib.List.map (fun f ->
          match Stdlib.String.split_on_char ':' f with
          | [n; c] -> (str_of_ints (ints_of_hex n), if c = "d" then None else Some (ints_of_hex c))
          | _ -> failwith "fixture") (Stdlib.String.split_on_char ',' fixtures) in
      let desc = Stdlib.String.concat "," (Stdlib.List.map (fun (n, c) ->
          let hn = hex_of_ints (Stdlib.List.init (Stdlib.String.length n) (fun i -> Stdlib.Char.code n.[i])) in
          match c with None -> "d:" ^ hn | Some c -> "f:" ^ hn ^ ":" ^ hex_of_ints c) fx) in
      let fs = D_c06.build (if desc = "" then "-" else desc) in
      let files (p : BinNums.coq_N list) : Config.fentry =
        let p = string_of_bytes p in
        let p = if Stdlib.String.length p > 0 && p.[0] = '/' then Stdlib.String.sub p 1 (Stdlib.String.length p - 1) else p in
        match Stdlib.List.assoc_opt p fx with
        | Some (Some c) -> Config.FData (Stdlib.List.map n_of_int c)
        | Some None -> Config.FDir
        | None -> Config.FNone in
      (* address parser: the IPv4 model parser extended by the table of IPv6 literals computed by the driver *)
      let tbl = match rest with
        | [t] when t <> "-" -> Stdlib.List.map (fun kv -> match Stdlib.String.split_on_char '=' kv with
            | [k; v] -> (bytes_of_hex k, bytes_of_hex v) | _ -> failwith "ipmap") (Stdlib.String.split_on_char ',' t)
        | _ -> [] in
      let ipp s = match Http.ipv4_parse s with Some r -> Some r | None -> Stdlib.List.assoc_opt s tbl in
      let one r =
        let f = Stdlib.Array.of_list (Stdlib.String.split_on_char ':' r) in
        let get i = if i < Stdlib.Array.length f && f.(i) <> "-" then Some (str_of_ints (ints_of_hex f.(i))) else None in
        let target = strip_token "@FIX@" (match get 1 with Some t -> t | None -> "/") in
        let uri = match Stdlib.String.index_opt target '?' with Some i -> Stdlib.String.sub target 0 i | None -> target in
        let with_ct = Stdlib.Array.length f > 4 && f.(4) = "ct" in
        let ws = Stdlib.Array.length f > 5 && f.(5) = "ws" in
        (* the header fields the harness client sends, in its order *)
        let hs = (match get 0 with Some h -> [ (Http.HKnown TablesHttp.coq_H_Host, bytes_of_string h) ] | None -> [])
                 @ (match get 3 with Some x -> [ (Http.coq_XFF, bytes_of_string x) ] | None -> [])
                 @ (if ws then [ (Http.HKnown TablesHttp.coq_H_Upgrade, bytes_of_string "websocket");
                                 (Http.HKnown TablesHttp.coq_H_Connection, bytes_of_string "Upgrade");
                                 (Http.hname_of (bytes_of_string "Sec-WebSocket-Key"), bytes_of_string "dGhlIHNhbXBsZSBub25jZQ==");
                                 (Http.hname_of (bytes_of_string "Sec-WebSocket-Version"), bytes_of_string "13") ]
                    else [ (Http.HKnown TablesHttp.coq_H_Connection, bytes_of_string "close") ]) in
        let query = match Stdlib.String.index_opt target '?' with
          | Some i -> Stdlib.String.sub target (i + 1) (Stdlib.String.length target - i - 1) | None -> "" in
        let req = { Http.r_method = n_of_int 0; Http.r_uri = bytes_of_string uri; Http.r_query = bytes_of_string query; Http.r_version = bytes_of_string "HTTP/1.1";
                    Http.r_headers = hs; Http.r_content = None;
                    Http.r_addr = { Http.a_origin = []; Http.a_proxies = []; Http.a_port = n_of_int 0 } } in
        let peer0 = { Http.p_ip = bytes_of_string (match get 2 with Some ip -> ip | None -> "127.0.0.1"); Http.p_port = n_of_int 1 } in
        let peer = peer0 in
        let req = { req with Http.r_addr = Http.address_of ipp hs peer } in
        match Server.serve_text ipp fs files (bytes_of_string "e2e.conf") (bytes_of_string conf) peer req with
        | None -> "conf-error"
        | Some Server.SDropped -> "noresp"
        | Some Server.SForbidden -> "403"
        | Some Server.SNotFound -> "404"
        | Some Server.SWsOnly -> "404"
        | Some Server.SPanic -> "panic"
        | Some (Server.SRedirect l) -> "301:loc:" ^ hex_of_bytes l
        | Some (Server.SProxy (targets, _, _)) ->
          (* to the echoing mock origin (@UPE@) the answer is the forwarded request itself: prefix stripped, one more
             X-Forwarded-For naming the origin address (Proxy.upstream_bytes, C09) *)
          if targets = [ bytes_of_string "@UPE@" ] then begin
            match Server.forwarded_text ipp fs files (bytes_of_string "e2e.conf") (bytes_of_string conf) peer req with
            | Some b -> "200:body:" ^ hex_of_bytes b
            | None -> "panic"
          end else "proxy"
        | Some (Server.SWsProxy t) ->
          (* the echoing mock target answers with what it was handed: the upgrade request re-serialised *)
          if t = bytes_of_string "@UPE@" then begin
            match Server.ws_forwarded_text ipp fs files (bytes_of_string "e2e.conf") (bytes_of_string conf) peer req with
            | Some b -> "200:body:" ^ hex_of_bytes b
            | None -> "panic"
          end else "ws:" ^ hex_of_bytes t
        | Some Server.SClosed -> "noresp"
        | Some (Server.SStatic (StaticFs.R200 (b, ct))) ->
          "200:body:" ^ hex_of_bytes b ^ (if with_ct then ":ct:" ^ (match ct with Some c -> hex_of_bytes c | None -> "none") else "")
        | Some (Server.SStatic (StaticFs.R301 l)) -> "301:loc:" ^ hex_of_bytes l
        | Some (Server.SStatic StaticFs.R404) -> "404"
        | Some (Server.SStatic StaticFs.R500) -> "500"
        | Some (Server.SStatic StaticFs.RPanic) -> "panic" in
      Stdlib.String.concat "," (Stdlib.List.map one (Stdlib.String.split_on_char ',' reqs))
    | _ -> "BADARGS")
