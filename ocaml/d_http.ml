(* driver: HTTP request/response codec models (C02, C07, C03, C09) *)
open Conv

let split_commas s = if s = "-" || s = "" then [] else Stdlib.String.split_on_char ',' s
let chunks_of arg = Stdlib.List.map bytes_of_hex (split_commas arg)
let total_len cs = Stdlib.List.fold_left (fun a c -> a + Stdlib.List.length c) 0 cs

let show_headers hs =
  "[" ^ Stdlib.String.concat "," (Stdlib.List.map (fun (n, v) -> hex_of_bytes (Http.hname_str n) ^ ":" ^ hex_of_bytes v) hs) ^ "]"

let show_opt_bytes = function None -> "none" | Some b -> "h" ^ hex_of_bytes b

let show_request (r : Http.request) =
  Printf.sprintf "m=%d uri=%s q=%s v=%s h=%s c=%s origin=%s proxies=[%s] port=%d"
    (int_of_n r.Http.r_method) (hex_of_bytes r.Http.r_uri) (hex_of_bytes r.Http.r_query) (hex_of_bytes r.Http.r_version)
    (show_headers r.Http.r_headers) (show_opt_bytes r.Http.r_content)
    (hex_of_bytes r.Http.r_addr.Http.a_origin)
    (Stdlib.String.concat "," (Stdlib.List.map hex_of_bytes r.Http.r_addr.Http.a_proxies))
    (int_of_n r.Http.r_addr.Http.a_port)

let show_response (r : Http.response) =
  Printf.sprintf "v=%s code=%d h=%s b=%s" (hex_of_bytes r.Http.s_version) (int_of_n (Http.status_code r.Http.s_status))
    (show_headers r.Http.s_headers) (hex_of_bytes r.Http.s_body)

let consumed cs (br : StreamBuf.bufreader) = total_len cs - total_len br.StreamBuf.inner

let headers_of arg =
  Stdlib.List.map (fun kv ->
      match Stdlib.String.split_on_char ':' kv with
      | [k; v] -> (Http.hname_of (bytes_of_hex k), bytes_of_hex v)
      | _ -> failwith "header arg") (split_commas arg)

let peer ip port = { Http.p_ip = bytes_of_hex ip; Http.p_port = n_of_int (int_of_string port) }

let () =
  register "req_parse" (function
    | [ip; port; cs] ->
      let cs = chunks_of cs in
      (match Http.parse_request_chunked Http.ipv4_parse (peer ip port) cs with
       | Prelude.Ok (r, br) -> "ok " ^ show_request r ^ " consumed=" ^ string_of_int (consumed cs br)
       | Prelude.Err e -> "err:" ^ string_of_int (int_of_n e)
       | Prelude.Crash w -> "PANIC")
    | _ -> "BADARGS");
  register "safe_req" (function
    | [cs] ->
      (match Http.parse_request_chunked Http.ipv4_parse (peer "h312e322e332e34" "80") (chunks_of cs) with
       | Prelude.Ok _ -> "ok" | Prelude.Err e -> "err:" ^ string_of_int (int_of_n e) | Prelude.Crash _ -> "PANIC")
    | _ -> "BADARGS");
  register "safe_resp" (function
    | [cs] ->
      (match Http.parse_response_chunked (chunks_of cs) with
       | Prelude.Ok _ -> "ok" | Prelude.Err e -> "err:" ^ string_of_int (int_of_n e) | Prelude.Crash _ -> "PANIC")
    | _ -> "BADARGS");
  register "req_parse_flat" (function
    | [ip; port; b] ->
      (match Http.parse_request_flat Http.ipv4_parse (peer ip port) (bytes_of_hex b) with
       | Prelude.Ok (r, rest) -> "ok " ^ show_request r
       | Prelude.Err e -> "err:" ^ string_of_int (int_of_n e)
       | Prelude.Crash w -> "PANIC")
    | _ -> "BADARGS");
  (* parse, serialise, parse again: prints the serialisation and the second parse *)
  register "req_roundtrip" (function
    | [ip; port; b] ->
      (match Http.parse_request_flat Http.ipv4_parse (peer ip port) (bytes_of_hex b) with
       | Prelude.Ok (r, _) ->
         let ser = Http.serialize_request r in
         (match Http.parse_request_flat Http.ipv4_parse (peer ip port) ser with
          | Prelude.Ok (r2, _) -> "ser=" ^ hex_of_bytes ser ^ " ok " ^ show_request r2
          | Prelude.Err e -> "ser=" ^ hex_of_bytes ser ^ " err:" ^ string_of_int (int_of_n e)
          | Prelude.Crash _ -> "PANIC")
       | Prelude.Err e -> "err:" ^ string_of_int (int_of_n e)
       | Prelude.Crash _ -> "PANIC")
    | _ -> "BADARGS");
  register "hdr_get" (function
    | [hs; name] ->
      let hs = headers_of hs in
      let n = Http.hname_of (bytes_of_hex name) in
      (* get_mut: the first header of that name, edited in place *)
      let rec edit = function
        | [] -> []
        | (k, v) :: r -> if Http.hname_eqb k n then (k, v @ [n_of_int 33]) :: r else (k, v) :: edit r in
      Printf.sprintf "first=%s all=[%s] rest=%s len=%d empty=%d mut=%s"
        (match Http.hget n hs with Some v -> hex_of_bytes v | None -> "none")
        (Stdlib.String.concat "," (Stdlib.List.map hex_of_bytes (Http.hget_all n hs)))
        (show_headers (Http.hremove n hs))
        (Stdlib.List.length hs) (if hs = [] then 1 else 0) (show_headers (edit hs))
    | _ -> "BADARGS");
  register "cookies" (function
    | [v] ->
      let cs = Http.cookies_of (if v = "-" then [] else [ (Http.hname_of (bytes_of_hex "636f6f6b6965"), bytes_of_hex v) ]) in
      "[" ^ Stdlib.String.concat "," (Stdlib.List.map (fun (k, x) -> hex_of_bytes k ^ "=" ^ hex_of_bytes x) cs) ^ "]"
    | _ -> "BADARGS");
  register "resp_parse" (function
    | [cs] ->
      let cs = chunks_of cs in
      (match Http.parse_response_chunked cs with
       | Prelude.Ok (r, br) -> "ok " ^ show_response r
       | Prelude.Err e -> "err:" ^ string_of_int (int_of_n e)
       | Prelude.Crash _ -> "PANIC")
    | _ -> "BADARGS");
  register "resp_ser" (function
    | [v; code; hs; body] ->
      (match Http.status_of_code (n_of_int (int_of_string code)) with
       | None -> "nocode"
       | Some st ->
         let r = { Http.s_version = bytes_of_hex v; Http.s_status = st; Http.s_headers = headers_of hs;
                   Http.s_body = bytes_of_hex body } in
         hex_of_bytes (Http.serialize_response r))
    | _ -> "BADARGS");
  register "resp_ser_ck" (function
    | [code; items; body] ->
      (match Http.status_of_code (n_of_int (int_of_string code)) with
       | None -> "nocode"
       | Some st ->
         let hs = if items = "-" then [] else Stdlib.List.map (fun it ->
             match Stdlib.String.split_on_char ':' it with
             | ["h"; k; v] -> (Http.hname_of (bytes_of_hex k), bytes_of_hex v)
             | ["c"; n; v; sec] ->
               Http.set_cookie_header { Http.sc_name = bytes_of_hex n; Http.sc_value = bytes_of_hex v; Http.sc_expires = None;
                                        Http.sc_max_age = None; Http.sc_domain = None; Http.sc_path = None;
                                        Http.sc_secure = (sec = "1"); Http.sc_http_only = false; Http.sc_same_site = None }
             | _ -> failwith "item") (Stdlib.String.split_on_char ',' items) in
         let r = { Http.s_version = bytes_of_hex "485454502f312e31"; Http.s_status = st; Http.s_headers = hs;
                   Http.s_body = bytes_of_hex body } in
         hex_of_bytes (Http.serialize_response r))
    | _ -> "BADARGS");
  register "setcookie" (function
    | [name; value; expires; maxage; domain; path; secure; httponly; samesite] ->
      let ob s = if s = "none" then None else Some (bytes_of_hex s) in
      let c = { Http.sc_name = bytes_of_hex name; Http.sc_value = bytes_of_hex value; Http.sc_expires = ob expires;
                Http.sc_max_age = (if maxage = "none" then None else Some (n_of_decimal maxage));
                Http.sc_domain = ob domain; Http.sc_path = ob path; Http.sc_secure = (secure = "1");
                Http.sc_http_only = (httponly = "1");
                Http.sc_same_site = (if samesite = "none" then None else Some (n_of_int (int_of_string samesite))) } in
      let (n, v) = Http.set_cookie_header c in
      hex_of_bytes (Http.hname_str n) ^ ":" ^ hex_of_bytes v
    | _ -> "BADARGS")
