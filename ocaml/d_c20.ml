(* driver: shutdown protocol (C20) — replays the hook-H2b event trace through the LTS *)
open Conv
let () =
  register "shutdown_trace" (function
    | [trace] ->
      let evs = if trace = "-" || trace = "" then [] else Stdlib.String.split_on_char ',' trace in
      let st = ref Shutdown.init in
      let ok = ref true in
      let why = ref "" in
      let early_store = ref false in
      let n = ref 0 in
      let step l name =
        if !ok then
          match Shutdown.step !st l with
          | Some y -> st := y
          | None -> ok := false; why := name in
      let arr = Stdlib.Array.of_list evs in
      let len = Stdlib.Array.length arr in
      (* the accept thread's next own event after position i *)
      let next_accept_thread_event i =
        let r = ref "" in
        let j = ref (i + 1) in
        while !r = "" && !j < len do
          (match arr.(!j) with "dispatch" | "break" | "stop" | "accept" -> r := arr.(!j) | _ -> ());
          incr j
        done; !r in
      Stdlib.Array.iteri (fun i e ->
          incr n;
          match e with
          | "accept" ->
            if !st.Shutdown.backlog = [] then step (Shutdown.EnvConnect (nat_of_int !n)) "envconnect";
            step Shutdown.Accept "accept";
            (* the flag is loaded right after this event is logged; if the connection is later dispatched the load saw
               `false`, i.e. it happened before the store (which is logged after it happens) *)
            (match next_accept_thread_event i with
             | "dispatch" -> step Shutdown.CheckGo "go"
             | "break" -> ()
             | _ ->
               (* no dispatch and no break before the next accept: accept() failed or the client was refused. This is only
                  legitimate when the flag had not been stored yet: an accept logged after the store must break *)
               step Shutdown.Skip "skip-after-flag-set")
          | "break" ->
            (* the flag may be observed before the storing thread has logged its store *)
            if (not !st.Shutdown.flag) && !st.Shutdown.s = Shutdown.SStore then (step Shutdown.Store "store"; early_store := true);
            step Shutdown.CheckBreak "break"
          | "dispatch" -> step Shutdown.Dispatch "dispatch"
          | "stop" -> step Shutdown.Stop "stop"
          | "signal" -> step Shutdown.Signal "signal"
          | "store" -> if !early_store then early_store := false else step Shutdown.Store "store"
          | "wake" -> step Shutdown.WakeConnect "wake"
          | "join" -> step Shutdown.Join "join"
          | other -> ok := false; why := "unknown:" ^ other) arr;
      if not !ok then "rejected:" ^ !why
      else
        let x = !st in
        Printf.sprintf "accepted served=%d dropped=%d returned=%b listening=%b"
          (Stdlib.List.length x.Shutdown.served) (Stdlib.List.length x.Shutdown.dropped)
          (x.Shutdown.s = Shutdown.SReturned) x.Shutdown.listening
    | _ -> "BADARGS")
