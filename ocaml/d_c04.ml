(* driver: routing (C04) *)
open Conv
let list_of arg = if arg = "-" then [] else Stdlib.List.map str_of_hex (Stdlib.String.split_on_char ',' arg)
let () =
  let decide = function
    | [host; uri; dflt; subs] ->
      let h = if host = "-" then None else Some (str_of_hex host) in
      let default = { Routing.sa_host = [n_of_int 42]; Routing.sa_routes = list_of dflt } in
      let subapps =
        if subs = "-" then []
        else Stdlib.List.map (fun s ->
            match Stdlib.String.split_on_char ':' s with
            | [hh; rs] -> { Routing.sa_host = str_of_hex hh; Routing.sa_routes = list_of rs }
            | _ -> failwith "subapp") (Stdlib.String.split_on_char '|' subs) in
      (match Routing.get_handler subapps default h (str_of_hex uri) with
       | Some (Routing.InSub (i, j)) -> Printf.sprintf "sub:%d:%d" (int_of_nat i) (int_of_nat j)
       | Some (Routing.InDefault j) -> Printf.sprintf "def:%d" (int_of_nat j)
       | None -> "none")
    | _ -> "BADARGS" in
  (* call_websocket_handler applies the same rule over websocket_routes *)
  register "wsroute" decide;
  register "route" (function
    | [host; uri; dflt; subs] ->
      let h = if host = "-" then None else Some (str_of_hex host) in
      let default = { Routing.sa_host = [n_of_int 42]; Routing.sa_routes = list_of dflt } in
      let subapps =
        if subs = "-" then []
        else Stdlib.List.map (fun s ->
            match Stdlib.String.split_on_char ':' s with
            | [hh; rs] -> { Routing.sa_host = str_of_hex hh; Routing.sa_routes = list_of rs }
            | _ -> failwith "subapp") (Stdlib.String.split_on_char '|' subs) in
      (match Routing.get_handler subapps default h (str_of_hex uri) with
       | Some (Routing.InSub (i, j)) -> Printf.sprintf "sub:%d:%d" (int_of_nat i) (int_of_nat j)
       | Some (Routing.InDefault j) -> Printf.sprintf "def:%d" (int_of_nat j)
       | None -> "none")
    | _ -> "BADARGS")
