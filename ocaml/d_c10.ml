(* driver: WebSocket frame codec (C10).  Same line protocol and canonical output as harness/src/c10.rs. *)
open Conv
open BinNums

(* digest of a byte string: full hex up to 48 bytes, else <len>:<value mod 2^32-5>:<first 16 bytes>:<last 8 bytes> *)
let c10_digest (l : int list) : string =
  let n = Stdlib.List.length l in
  if n <= 48 then "h" ^ hex_of_ints l
  else begin
    let h = ref 0 in
    Stdlib.List.iter (fun x -> h := (!h * 256 + x) mod 4294967291) l;
    let a = Stdlib.Array.of_list l in
    let sub i k = Stdlib.Array.to_list (Stdlib.Array.sub a i k) in
    Printf.sprintf "%d:%08x:%s:%s" n !h (hex_of_ints (sub 0 16)) (hex_of_ints (sub (n - 8) 8))
  end
let ints_of_bytes (l : coq_N list) = Stdlib.List.rev (Stdlib.List.rev_map int_of_n l)
let c10_digest_n l = c10_digest (ints_of_bytes l)

(* plan grammar: see harness/src/c10.rs chunk_sizes *)
let c10_chunk_sizes (plan : string) (total : int) : int list =
  let out = ref [] and left = ref total in
  Stdlib.List.iter (fun tok ->
    if tok = "-" || tok = "" then ()
    else if tok.[0] = '*' then begin
      let k = int_of_string (Stdlib.String.sub tok 1 (Stdlib.String.length tok - 1)) in
      while !left > 0 do
        let n = min k !left in out := n :: !out; left := !left - n
      done end
    else begin
      let n = int_of_string tok in
      if n = 0 then out := 0 :: !out
      else if !left > 0 then begin let n = min n !left in out := n :: !out; left := !left - n end
    end) (Stdlib.String.split_on_char ',' plan);
  if !left > 0 then out := !left :: !out;
  Stdlib.List.rev !out

let c10_chunks (data : int list) (plan : string) : coq_N list list =
  let a = Stdlib.Array.of_list data in
  let sizes = c10_chunk_sizes plan (Stdlib.Array.length a) in
  let pos = ref 0 in
  Stdlib.List.rev (Stdlib.List.rev_map (fun n ->
    let c = Stdlib.List.init n (fun i -> n_of_int a.(!pos + i)) in
    pos := !pos + n; c) sizes)

let c10_opcode (v : int) : Frame.opcode option =
  match v with
  | 0 -> Some Frame.Continuation | 1 -> Some Frame.Text | 2 -> Some Frame.Binary
  | 8 -> Some Frame.Close | 9 -> Some Frame.Ping | 10 -> Some Frame.Pong | _ -> None
let c10_opcode_int (o : Frame.opcode) : int =
  match o with
  | Frame.Continuation -> 0 | Frame.Text -> 1 | Frame.Binary -> 2 | Frame.Close -> 8 | Frame.Ping -> 9 | Frame.Pong -> 10

let bi b = if b then 1 else 0
let c10_total (cs : coq_N list list) = Stdlib.List.fold_left (fun a c -> a + Stdlib.List.length c) 0 cs

let c10_show_frame (f : Frame.frame) =
  Printf.sprintf "fin=%d rsv=%d%d%d op=%d mask=%d len=%s key=%s payload=%s"
    (bi f.Frame.fin) (bi f.Frame.rsv1) (bi f.Frame.rsv2) (bi f.Frame.rsv3) (c10_opcode_int f.Frame.fopcode)
    (bi f.Frame.mask) (decimal_of_n f.Frame.flen)
    (hex_of_ints (Stdlib.List.map int_of_n (Frame.key_bytes f.Frame.mkey)))
    (c10_digest_n f.Frame.payload)

let c10_frame_of_args flags opcode length key payload : Frame.frame option =
  let flags = int_of_string flags in
  match c10_opcode (int_of_string opcode) with
  | None -> None
  | Some op ->
    let k = Stdlib.Array.of_list (ints_of_hex key) in
    Some { Frame.fin = flags land 16 <> 0; rsv1 = flags land 8 <> 0; rsv2 = flags land 4 <> 0;
           rsv3 = flags land 2 <> 0; fopcode = op; mask = flags land 1 <> 0; flen = n_of_decimal length;
           mkey = { Frame.k0 = n_of_int k.(0); k1 = n_of_int k.(1); k2 = n_of_int k.(2); k3 = n_of_int k.(3) };
           payload = bytes_of_hex payload }

let c10_show_result total (r : (Frame.frame * coq_N list list) Prelude.outcome) : string =
  match r with
  | Prelude.Ok (f, rest) -> Printf.sprintf "ok %s consumed=%d" (c10_show_frame f) (total - c10_total rest)
  | Prelude.Err e ->
    (match int_of_n e with 1 -> "err:read" | 2 -> "err:opcode" | k -> "err:" ^ string_of_int k)
  | Prelude.Crash w -> "crash:" ^ string_of_int (int_of_n w)

let () =
  register "c10_enc" (function
    | [flags; opcode; length; key; payload] ->
      (match c10_frame_of_args flags opcode length key payload with
       | None -> "none"
       | Some f -> "some:" ^ c10_digest_n (Frame.encode f))
    | _ -> "BADARGS");
  register "c10_enc_old" (function
    | [flags; opcode; length; key; payload] ->
      (match c10_frame_of_args flags opcode length key payload with
       | None -> "none"
       | Some f -> "some:" ^ c10_digest_n (Frame.encode_old f))
    | _ -> "BADARGS");
  register "c10_dec" (function
    | [data; plan] ->
      let cs = c10_chunks (ints_of_hex data) plan in
      let (r, alloc) = Frame.decode_m cs in
      c10_show_result (c10_total cs) r ^ " alloc=" ^ decimal_of_n alloc
    | _ -> "BADARGS");
  register "c10_dec_old" (function
    | [data; plan] ->
      let cs = c10_chunks (ints_of_hex data) plan in
      let (r, alloc) = Frame.decode_old_m cs in
      c10_show_result (c10_total cs) r ^ " alloc=" ^ decimal_of_n alloc
    | _ -> "BADARGS");
  (* flat reference parser of FrameSpec.v on the concatenation (property oracle) *)
  register "c10_spec" (function
    | [data] ->
      let l = bytes_of_hex data in
      let total = Stdlib.List.length l in
      (match FrameSpec.parse_spec l with
       | Prelude.Ok (f, rest) ->
         Printf.sprintf "ok %s consumed=%d" (c10_show_frame f) (total - Stdlib.List.length rest)
       | Prelude.Err e -> (match int_of_n e with 1 -> "err:read" | 2 -> "err:opcode" | k -> "err:" ^ string_of_int k)
       | Prelude.Crash w -> "crash:" ^ string_of_int (int_of_n w))
    | _ -> "BADARGS");
  register "c10_new" (function
    | [opcode; payload] ->
      (match c10_opcode (int_of_string opcode) with
       | None -> "none"
       | Some op -> "some:" ^ c10_digest_n (Frame.encode (Frame.new_frame op (bytes_of_hex payload))))
    | _ -> "BADARGS");
  register "c10_msg" (function
    | [text; payload] -> c10_digest_n (Frame.message_to_frame (text = "1") (bytes_of_hex payload))
    | _ -> "BADARGS")
