(* driver: HTTP dates (C18, date part) *)
open Conv
open BinNums

(* fast path for values that fit an OCaml int; schoolbook conversion (Conv) only near the i64 limits *)
let z_of_decimal (s : string) : coq_Z =
  if Stdlib.String.length s <= 18 then z_of_int (int_of_string s) else
  let neg = Stdlib.String.length s > 0 && s.[0] = '-' in
  let body = if neg then Stdlib.String.sub s 1 (Stdlib.String.length s - 1) else s in
  match n_of_decimal body with
  | N0 -> Z0
  | Npos p -> if neg then Zneg p else Zpos p

let rec pos_bits = function Coq_xH -> 1 | Coq_xO p | Coq_xI p -> 1 + pos_bits p
let decimal_of_z = function
  | Z0 -> "0"
  | Zpos p -> if pos_bits p <= 60 then string_of_int (int_of_pos p) else decimal_of_n (Npos p)
  | Zneg p -> if pos_bits p <= 60 then "-" ^ string_of_int (int_of_pos p) else "-" ^ decimal_of_n (Npos p)

let outcome_str f = function
  | Prelude.Ok a -> f a
  | Prelude.Err _ -> "ERR"
  | Prelude.Crash _ -> "PANIC"

(* day-by-day reference: cached walk with the extracted next_day (queries are sent in increasing order) *)
let walk_n = ref 0
let walk_c = ref (Date.civil Z0)
let civil_walk (n : int) =
  if n < !walk_n then begin walk_n := 0; walk_c := Date.civil Z0 end;
  while !walk_n < n do walk_c := Date.next_day !walk_c; incr walk_n done;
  !walk_c

let () =
  (* DateTime::from(t): "ts year month day weekday hour minute second h<to_string>" *)
  register "date" (function [t] ->
    let t = z_of_decimal t in
    outcome_str (fun d ->
      let s = outcome_str (fun b -> "h" ^ hex_of_bytes b) (Date.to_string d) in
      Printf.sprintf "%s %d %d %d %d %d %d %d %s" (decimal_of_z d.Date.dt_timestamp)
        (int_of_z d.Date.dt_year) (int_of_z d.Date.dt_month) (int_of_z d.Date.dt_day) (int_of_z d.Date.dt_weekday)
        (int_of_z d.Date.dt_hour) (int_of_z d.Date.dt_minute) (int_of_z d.Date.dt_second) s)
      (Date.from_timestamp t)
    | _ -> "BADARGS");
  (* spec side: day counting + RFC layout for a timestamp in range: "year month(1-12) day weekday h<imf-fixdate>" *)
  register "date_spec" (function [t] ->
    let ti = int_of_string t in
    let n = ti / 86400 and rs = ti mod 86400 in
    let c = civil_walk n in
    let w = Date.weekday_count (z_of_int (n mod 7)) in   (* weekday_count is 7-periodic; keeps the unary walk short *)
    let s = Date.imf_fixdate c w (z_of_int (rs / 3600)) (z_of_int (rs / 60 mod 60)) (z_of_int (rs mod 60)) in
    Printf.sprintf "%d %d %d %d h%s" (int_of_z c.Date.c_year) (int_of_z c.Date.c_month) (int_of_z c.Date.c_day)
      (int_of_z w) (hex_of_bytes s)
    | _ -> "BADARGS")
