(* driver: JSON parser / serialiser (C13). The model is run with F := the number literal text; this driver (not the
   Coq model) turns literals into IEEE doubles for the canonical dump. Value encoding: see harness/src/c13.rs. *)
open Conv

let ascii_of_str (l : BinNums.coq_N list) : string =
  let b = Stdlib.Buffer.create 16 in
  Stdlib.List.iter (fun c -> Stdlib.Buffer.add_char b (Stdlib.Char.chr (int_of_n c land 255))) l;
  Stdlib.Buffer.contents b

let rec dump (b : Stdlib.Buffer.t) (v : BinNums.coq_N list Json.value) : unit =
  match v with
  | Json.VNull -> Stdlib.Buffer.add_char b 'N'
  | Json.VBool true -> Stdlib.Buffer.add_char b 'T'
  | Json.VBool false -> Stdlib.Buffer.add_char b 'F'
  | Json.VNum lit ->
    let x = float_of_string (ascii_of_str lit) in
    Stdlib.Buffer.add_string b (Printf.sprintf "B%016Lx;" (Stdlib.Int64.bits_of_float x))
  | Json.VStr s -> Stdlib.Buffer.add_char b 'S'; Stdlib.Buffer.add_string b (hex_of_str s); Stdlib.Buffer.add_char b ';'
  | Json.VArr l ->
    Stdlib.Buffer.add_string b (Printf.sprintf "A%d;" (Stdlib.List.length l));
    Stdlib.List.iter (dump b) l
  | Json.VObj m ->
    Stdlib.Buffer.add_string b (Printf.sprintf "O%d;" (Stdlib.List.length m));
    Stdlib.List.iter (fun (k, x) ->
      Stdlib.Buffer.add_char b 'K'; Stdlib.Buffer.add_string b (hex_of_str k); Stdlib.Buffer.add_char b ';';
      dump b x) m

let take_until (s : string) (pos : int ref) : string =
  let e = Stdlib.String.index_from s !pos ';' in
  let r = Stdlib.String.sub s !pos (e - !pos) in
  pos := e + 1; r

let rec undump (s : string) (pos : int ref) : BinNums.coq_N list Json.value =
  let tag = s.[!pos] in
  incr pos;
  match tag with
  | 'N' -> Json.VNull
  | 'T' -> Json.VBool true
  | 'F' -> Json.VBool false
  | 'D' ->
    let t = take_until s pos in
    let part = match Stdlib.String.index_opt t ':' with
      | Some i -> Stdlib.String.sub t (i + 1) (Stdlib.String.length t - i - 1)   (* the display text *)
      | None -> t in
    Json.VNum (str_of_hex part)
  | 'S' -> Json.VStr (str_of_hex (take_until s pos))
  | 'A' ->
    let n = int_of_string (take_until s pos) in
    let rec go k acc = if k = 0 then Stdlib.List.rev acc else go (k - 1) (undump s pos :: acc) in
    Json.VArr (go n [])
  | 'O' ->
    let n = int_of_string (take_until s pos) in
    let rec go k acc =
      if k = 0 then Stdlib.List.rev acc
      else begin
        incr pos;  (* K *)
        let key = str_of_hex (take_until s pos) in
        let v = undump s pos in
        go (k - 1) ((key, v) :: acc)
      end in
    Json.VObj (go n [])
  | _ -> failwith "bad tag"

let errclass n = match int_of_n n with
  | 1 -> "tok" | 2 -> "eof" | 3 -> "esc" | 4 -> "comma" | 5 -> "depth" | 99 -> "FUEL" | k -> "E" ^ string_of_int k

let show (r : BinNums.coq_N list Json.value Prelude.outcome) : string =
  match r with
  | Prelude.Ok v -> let b = Stdlib.Buffer.create 64 in Stdlib.Buffer.add_string b "ok "; dump b v; Stdlib.Buffer.contents b
  | Prelude.Err e -> "err " ^ errclass e
  | Prelude.Crash w -> "CRASH" ^ string_of_int (int_of_n w)

(* the grammar accepted by Rust's <f64 as FromStr>::from_str (used only by the model of the tree BEFORE fix F22) *)
let rust_float_ok (s : string) : bool =
  let n = Stdlib.String.length s in
  let is_digit c = c >= '0' && c <= '9' in
  let i = ref 0 in
  if !i < n && (s.[!i] = '+' || s.[!i] = '-') then incr i;
  let rest = Stdlib.String.lowercase_ascii (Stdlib.String.sub s !i (n - !i)) in
  if rest = "inf" || rest = "infinity" || rest = "nan" then true
  else begin
    let d1 = ref 0 in
    while !i < n && is_digit s.[!i] do incr i; incr d1 done;
    let d2 = ref 0 in
    if !i < n && s.[!i] = '.' then begin
      incr i;
      while !i < n && is_digit s.[!i] do incr i; incr d2 done
    end;
    if !d1 + !d2 = 0 then false
    else begin
      if !i < n && (s.[!i] = 'e' || s.[!i] = 'E') then begin
        incr i;
        if !i < n && (s.[!i] = '+' || s.[!i] = '-') then incr i;
        let d3 = ref 0 in
        while !i < n && is_digit s.[!i] do incr i; incr d3 done;
        if !d3 = 0 then i := n + 1
      end;
      !i = n
    end
  end

let fparse_legacy (l : BinNums.coq_N list) : BinNums.coq_N list option =
  if Stdlib.List.for_all (fun c -> int_of_n c < 128) l && rust_float_ok (ascii_of_str l) then Some l else None

let () =
  (* jeq: two documents denote equal values iff their canonical dumps agree (members in order, numbers by bits) *)
  register "jeq" (function [a; b] ->
    (match Json.xparse Json.xmax_depth (str_of_hex a), Json.xparse Json.xmax_depth (str_of_hex b) with
     | Prelude.Ok x, Prelude.Ok y -> let e = (show (Prelude.Ok x) = show (Prelude.Ok y)) in Printf.sprintf "eq=%d ne=%d" (if e then 1 else 0) (if e then 0 else 1)
     | _ -> "err")
    | _ -> "BADARGS");
  register "jparse" (function [t] -> show (Json.xparse Json.xmax_depth (str_of_hex t)) | _ -> "BADARGS");
  register "jparsed" (function [d; t] -> show (Json.xparse (n_of_int (int_of_string d)) (str_of_hex t)) | _ -> "BADARGS");
  register "jparse_old" (function [t] -> show (Json.parse_max_depth fparse_legacy true Json.xmax_depth (str_of_hex t)) | _ -> "BADARGS");
  register "jser" (function [ind; v] ->
    let pos = ref 0 in
    let v = undump v pos in
    let text = if ind = "-" then Json.xserialize v else Json.xserialize_pretty (n_of_int (int_of_string ind)) v in
    "h" ^ hex_of_str text
    | _ -> "BADARGS");
  register "jscan" (function [t] -> string_of_bool (JsonSpec.no_lone_surrogate_escape (str_of_hex t)) | _ -> "BADARGS");
  register "jcost" (function [t] -> decimal_of_n (Json.xparse_cost Json.xmax_depth (str_of_hex t)) | _ -> "BADARGS");
  register "jsizes" (function [] -> decimal_of_n Json.coq_VALUE_SIZE ^ " " ^ decimal_of_n Json.coq_MEMBER_SIZE | _ -> "BADARGS");
  (* jps: parse then serialise, all inside the model (used for the in-Coq vm_compute cross-check of the extraction) *)
  register "jps" (function [t] ->
    (match Json.xparse Json.xmax_depth (str_of_hex t) with
     | Prelude.Ok v -> "ok " ^ Stdlib.String.concat ";" (Stdlib.List.map (fun c -> string_of_int (int_of_n c)) (Json.xserialize_pretty (n_of_int 1) v))
     | Prelude.Err e -> "err " ^ string_of_int (int_of_n e)
     | Prelude.Crash w -> "crash " ^ string_of_int (int_of_n w))
    | _ -> "BADARGS");
  register "jisnum" (function [t] -> string_of_bool (Json.is_json_number (str_of_hex t)) | _ -> "BADARGS")
