(* driver: SHA-1 (C18) — the model of sha1.rs and the RFC 3174 bit-string specification *)
open Conv
let () =
  register "sha1" (function [m] ->
    (match Sha1.sha1 (bytes_of_hex m) with
     | Prelude.Ok d -> hex_of_bytes d
     | Prelude.Err _ -> "err"
     | Prelude.Crash _ -> "PANIC") | _ -> "BADARGS");
  register "sha1_spec" (function [m] -> hex_of_bytes (Sha1Spec.sha1_spec (bytes_of_hex m)) | _ -> "BADARGS")
