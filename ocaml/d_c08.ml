(* driver: thread pool LTS (C08).
   pool_accepts <labels>   labels = comma separated tokens
     S<n> E<id> Xe T Tp A<w> R<w>t<id> R<w>s R<w>c F<w> P<w> N<w> V<w> Db De L<w>
   -> "ok sub=<n> done=<n> pan=<n> live=<n> maxrun=<n>"   (accepted: counts of the final model state)
    | "reject@<k>"                                       (k = index of the first label the model refuses)
    | "BADLABEL:<token>" *)
open Conv

let num s i = nat_of_int (int_of_string (Stdlib.String.sub s i (Stdlib.String.length s - i)))

let label_of_token (t : string) : Pool.label =
  let len = Stdlib.String.length t in
  if len = 0 then failwith t else
  match t with
  | "Xe" -> Pool.ExecuteRejected
  | "T" -> Pool.Stop
  | "Tp" -> Pool.StopRejected
  | "Db" -> Pool.DropBegin
  | "De" -> Pool.DropEnd
  | _ ->
    (match t.[0] with
     | 'S' -> Pool.Start (num t 1)
     | 'E' -> Pool.Execute (num t 1)
     | 'A' -> Pool.Acquire (num t 1)
     | 'F' -> Pool.Finish (num t 1)
     | 'P' -> Pool.Panic (num t 1)
     | 'N' -> Pool.Notify (num t 1)
     | 'V' -> Pool.Recover (num t 1)
     | 'L' -> Pool.LockPoisoned (num t 1)
     | 'R' ->
       (* R<w>t<id> | R<w>s | R<w>c *)
       let k = ref 1 in
       while !k < len && t.[!k] >= '0' && t.[!k] <= '9' do incr k done;
       if !k = 1 || !k >= len then failwith t;
       let w = nat_of_int (int_of_string (Stdlib.String.sub t 1 (!k - 1))) in
       (match t.[!k] with
        | 't' -> Pool.Recv (w, Pool.RTask (num t (!k + 1)))
        | 's' when !k = len - 1 -> Pool.Recv (w, Pool.RShutdown)
        | 'c' when !k = len - 1 -> Pool.Recv (w, Pool.RClosed)
        | _ -> failwith t)
     | _ -> failwith t)

let labels_of (arg : string) : Pool.label list =
  if arg = "-" || arg = "" then []
  else Stdlib.List.map label_of_token (Stdlib.String.split_on_char ',' arg)

let () =
  register "pool_accepts" (function
    | [arg] ->
      (match (try Stdlib.Ok (labels_of arg) with Failure t -> Stdlib.Error t | Invalid_argument _ -> Stdlib.Error arg) with
       | Stdlib.Error t -> "BADLABEL:" ^ t
       | Stdlib.Ok tr ->
         if Pool.accepts tr then
           (match Pool.final_summary tr with
            | Some (sub, (dn, (pan, live))) ->
              Printf.sprintf "ok sub=%d done=%d pan=%d live=%d maxrun=%d" (int_of_nat sub) (int_of_nat dn)
                (int_of_nat pan) (int_of_nat live) (int_of_nat (Pool.max_running tr))
            | None -> "INCONSISTENT")
         else
           (match Pool.first_reject tr with
            | Some k -> "reject@" ^ string_of_int (int_of_nat k)
            | None -> "INCONSISTENT"))
    | _ -> "BADARGS");
  (* the same trace on the model of the code before the F16 fix *)
  register "pool_accepts_old" (function
    | [arg] ->
      (match (try Stdlib.Ok (labels_of arg) with Failure t -> Stdlib.Error t | Invalid_argument _ -> Stdlib.Error arg) with
       | Stdlib.Error t -> "BADLABEL:" ^ t
       | Stdlib.Ok tr ->
         let rec go s k = function
           | [] -> "ok"
           | l :: r -> (match Pool.step_old s l with Some s' -> go s' (k + 1) r | None -> "reject@" ^ string_of_int k) in
         go Pool.init 0 tr)
    | _ -> "BADARGS")
