(* driver: HTTP client redirect loop (C07, client clause). The network handed to the extracted Client.send is the mock
   origin of harness/src/c07_client.rs re-stated here: it looks at the serialised request bytes and answers from the
   case's table, its reply bytes going through the extracted response parser. *)
open Conv

let str_of_bytes (l : BinNums.coq_N list) : string =
  let b = Stdlib.Buffer.create 64 in
  Stdlib.List.iter (fun x -> Stdlib.Buffer.add_char b (Stdlib.Char.chr (int_of_n x))) l; Stdlib.Buffer.contents b
let bytes_of_str (s : string) : BinNums.coq_N list =
  Stdlib.List.init (Stdlib.String.length s) (fun i -> n_of_int (Stdlib.Char.code s.[i]))
let hexs (s : string) = hex_of_ints (Stdlib.List.init (Stdlib.String.length s) (fun i -> Stdlib.Char.code s.[i]))

let host_index (h : string) : int option =
  if Stdlib.String.length h = 4 && h.[0] = '@' && h.[1] = 'H' && h.[3] = '@' && h.[2] >= '0' && h.[2] <= '5'
  then Some (Stdlib.Char.code h.[2] - 48) else None

let phrase = function
  | 200 -> "OK" | 201 -> "Created" | 204 -> "No Content" | 301 -> "Moved Permanently" | 302 -> "Found" | 303 -> "See Other"
  | 304 -> "Not Modified" | 307 -> "Temporary Redirect" | 308 -> "Permanent Redirect" | 400 -> "Bad Request"
  | 403 -> "Forbidden" | 404 -> "Not Found" | 500 -> "Internal Server Error" | _ -> "X"

let find_sub (h : string) (n : string) : int option =
  let lh = Stdlib.String.length h and ln = Stdlib.String.length n in
  let rec go i = if i + ln > lh then None else if Stdlib.String.sub h i ln = n then Some i else go (i + 1) in go 0

let split_str (s : string) (sep : string) : string list =
  let ls = Stdlib.String.length sep in
  let rec go acc s = match find_sub s sep with
    | None -> Stdlib.List.rev (s :: acc)
    | Some i -> go (Stdlib.String.sub s 0 i :: acc) (Stdlib.String.sub s (i + ls) (Stdlib.String.length s - i - ls)) in
  go [] s

let trim = Stdlib.String.trim

type entry = { host : int; target : string; code : int; location : string option; body : string; chunked : bool }

(* what the mock origin logs for one request, and the bytes it replies with *)
let mock (table : entry list) (k : int) (wire : string) : string * string =
  let head_end = match find_sub wire "\r\n\r\n" with Some p -> p | None -> failwith "no blank line" in
  let head = Stdlib.String.sub wire 0 head_end in
  let body = Stdlib.String.sub wire (head_end + 4) (Stdlib.String.length wire - head_end - 4) in
  let lines = split_str head "\r\n" in
  let start = Stdlib.List.hd lines in
  let host_hdr = ref "" and cookies = ref [] and cl = ref None and n = ref 0 in
  Stdlib.List.iter (fun l ->
      incr n;
      match Stdlib.String.index_opt l ':' with
      | Some i ->
        let name = Stdlib.String.lowercase_ascii (Stdlib.String.sub l 0 i) in
        let v = trim (Stdlib.String.sub l (i + 1) (Stdlib.String.length l - i - 1)) in
        if name = "host" then host_hdr := v
        else if name = "cookie" then cookies := !cookies @ [v]
        else if name = "content-length" then cl := int_of_string_opt v
      | None -> ()) (Stdlib.List.tl lines);
  let parts = Stdlib.String.split_on_char ' ' start in
  let nth i = match Stdlib.List.nth_opt parts i with Some x -> x | None -> "" in
  let meth = nth 0 and target = nth 1 and version = nth 2 in
  let log = Printf.sprintf "%d|%s|%s|%s|%s|%s|cl=%s|n=%d|%s" k meth (hexs target) (hexs version) (hexs !host_hdr)
      (Stdlib.String.concat "+" (Stdlib.List.map hexs !cookies))
      (match !cl with Some c -> string_of_int c | None -> "-") !n (hexs body) in
  let e = match Stdlib.List.find_opt (fun e -> e.host = k && e.target = target) table with
    | Some e -> e
    | None -> { host = k; target = ""; code = 404; location = None; body = "nf"; chunked = false } in
  let loc = match e.location with Some l -> "Location: " ^ l ^ "\r\n" | None -> "" in
  let reply =
    if e.chunked then begin
      let n = Stdlib.String.length e.body in
      let cut = n / 2 in
      let part s = if s = "" then "" else Printf.sprintf "%x\r\n%s\r\n" (Stdlib.String.length s) s in
      Printf.sprintf "HTTP/1.1 %d %s\r\nTransfer-Encoding: chunked\r\n%s\r\n%s%s0\r\n\r\n" e.code (phrase e.code) loc
        (part (Stdlib.String.sub e.body 0 cut)) (part (Stdlib.String.sub e.body cut (n - cut)))
    end else
      Printf.sprintf "HTTP/1.1 %d %s\r\nContent-Length: %d\r\n%s\r\n%s" e.code (phrase e.code) (Stdlib.String.length e.body) loc e.body in
  (log, reply)

let () =
  register "redirect" (function
    | [meth; url; body; follow; cookies; table] ->
      let table = if table = "-" then [] else Stdlib.List.map (fun e ->
          match Stdlib.String.split_on_char ':' e with
          | h :: t :: c :: l :: b :: rest ->
            { host = int_of_string h; target = str_of_bytes (bytes_of_hex t); code = int_of_string c;
              location = (if l = "-" then None else Some (str_of_bytes (bytes_of_hex l))); body = str_of_bytes (bytes_of_hex b);
              chunked = (rest = ["c"]) }
          | _ -> failwith "entry") (Stdlib.String.split_on_char ',' table) in
      let resolves _https h = host_index (str_of_bytes h) <> None in
      let net h req =
        match host_index (str_of_bytes h) with
        | None -> Prelude.Err (n_of_int 999)
        | Some k ->
          let (_, reply) = mock table k (str_of_bytes (Http.serialize_request req)) in
          (match Http.parse_response_flat (bytes_of_str reply) with
           | Prelude.Ok (r, _) -> Prelude.Ok r
           | Prelude.Err e -> Prelude.Err e
           | Prelude.Crash w -> Prelude.Crash w) in
      let data = if body = "-" then [] else bytes_of_hex body in
      let u = bytes_of_hex url in
      let st = match meth with
        | "GET" -> Client.client_nobody resolves Client.coq_M_Get u
        | "DELETE" -> Client.client_nobody resolves Client.coq_M_Delete u
        | "POST" -> Client.client_body resolves Client.coq_M_Post u data
        | "PUT" -> Client.client_body resolves Client.coq_M_Put u data
        | _ -> failwith "method" in
      (match st with
       | None -> "err=InvalidURL log="
       | Some st ->
         let st = if cookies = "-" then st else
             Stdlib.List.fold_left (fun st c ->
                 match Stdlib.String.split_on_char '=' c with
                 | [n; v] -> Client.with_cookie st (bytes_of_hex n, bytes_of_hex v)
                 | _ -> failwith "cookie") st (Stdlib.String.split_on_char '+' cookies) in
         let st = if follow = "d" then st else Client.with_redirects st (follow = "1") in
         let (res, tr) = Client.send resolves net (nat_of_int 64) st in
         let log = Stdlib.List.filter_map (fun ((https, h), req) ->
             if https then None else
               match host_index (str_of_bytes h) with
               | None -> None
               | Some k -> Some (fst (mock table k (str_of_bytes (Http.serialize_request req))))) tr in
         let r = match res with
           | Prelude.Ok r ->
             Printf.sprintf "res=%d:%s:%s:%s" (int_of_n (Http.status_code r.Http.s_status)) (hex_of_bytes r.Http.s_version)
               (hex_of_bytes r.Http.s_body)
               (match Http.hget (Http.HKnown TablesHttp.coq_H_Location) r.Http.s_headers with Some l -> hex_of_bytes l | None -> "-")
           | Prelude.Err e ->
             (match int_of_n e with 100 -> "err=InvalidURL" | 101 -> "err=NoLocation" | 102 -> "err=TLS" | k -> "err=resp:" ^ string_of_int k)
           | Prelude.Crash _ -> "err=crash" in
         r ^ " log=" ^ Stdlib.String.concat ";" log)
    | _ -> "BADARGS")
