(* Model runner: one request per line "fn arg arg ...", one result per line. *)
let () =
  try
    while true do
      let line = input_line stdin in
      let toks = Stdlib.String.split_on_char ' ' line in
      (match toks with
       | [] | [""] -> print_string "\n"
       | name :: args ->
         let out =
           match Stdlib.Hashtbl.find_opt Conv.handlers name with
           | None -> "NOHANDLER:" ^ name
           | Some f -> (try f args with e -> "EXN:" ^ Printexc.to_string e) in
         print_string out; print_char '\n')
    done
  with End_of_file -> ()
