(* driver: typed JSON mapping and json! macro (C14).
   The model is polymorphic in the float types; this driver instantiates F and F32 with OCaml floats (IEEE doubles; a single
   is a double that is exactly representable in binary32) and supplies the casts:
     of_int  n as f64      decimal text of the integer -> strtod (correctly rounded, any magnitude)
     f2z     integer part  trunc, printed exactly with %.0f; NaN -> 0, infinities -> +-2^200 (beyond every integer type)
     widen   identity      narrow  Int32.bits_of_float / float_of_bits (round to nearest even, overflow to infinity)
   Encodings (one token each, prefix notation):
     type   b | i<bits>; | u<bits>; | d | e | s | o<ty> | v<ty> | R<n>;(h<ident hex>;(-|h<rename hex>);<ty>)* | U<n>;<ty>* |
            E<n>;(h<ident hex>;(-|h<rename hex>);)*
     value  b0 | b1 | i<decimal>; | d<16 hex bits>; | e<8 hex bits>; | s<hex utf8>; | n | S<value> | V<n>;<value>* | R<n>;<value>* |
            U<n>;<value>* | E<index>;
     json   as in d_c13.ml / harness c13.rs: N | T | F | B<16 hex bits>; | S<hex>; | A<n>;.. | O<n>;(K<hex>;<json>)..
     tokens n | , | : | x<json> | k<hex>;<json> | t<ty><value> | [<n>;<token>* | {<n>;<token>*       (t = expression of a typed value) *)
open Conv
open BinNums

let z_of_decimal (s : string) : coq_Z =
  if Stdlib.String.length s > 0 && s.[0] = '-' then
    (match n_of_decimal (Stdlib.String.sub s 1 (Stdlib.String.length s - 1)) with N0 -> Z0 | Npos p -> Zneg p)
  else (match n_of_decimal s with N0 -> Z0 | Npos p -> Zpos p)

let decimal_of_z (z : coq_Z) : string =
  match z with
  | Z0 -> "0"
  | Zpos p -> decimal_of_n (Npos p)
  | Zneg p -> "-" ^ decimal_of_n (Npos p)

let of_int (z : coq_Z) : float = float_of_string (decimal_of_z z)

let two200 = z_of_decimal "1606938044258990275541962092341162602522202993782792835301376"
let mtwo200 = z_of_decimal "-1606938044258990275541962092341162602522202993782792835301376"

let f2z (x : float) : coq_Z =
  if x <> x then Z0
  else if x = Stdlib.infinity then two200
  else if x = Stdlib.neg_infinity then mtwo200
  else
    let t = Stdlib.Float.trunc x in
    let s = Printf.sprintf "%.0f" t in
    if s = "-0" then Z0 else z_of_decimal s

let widen (x : float) : float = x
let narrow (x : float) : float = Stdlib.Int32.float_of_bits (Stdlib.Int32.bits_of_float x)

(* ---- decoding ---- *)
let take_until (s : string) (pos : int ref) : string =
  let e = Stdlib.String.index_from s !pos ';' in
  let r = Stdlib.String.sub s !pos (e - !pos) in
  pos := e + 1; r

let take_rename (s : string) (pos : int ref) : coq_N list option =
  let t = take_until s pos in
  if t = "-" then None else Some (str_of_hex t)

let rec parse_ty (s : string) (pos : int ref) : JsonTyped.ty =
  let tag = s.[!pos] in
  incr pos;
  match tag with
  | 'b' -> JsonTyped.TBool
  | 'i' -> JsonTyped.TInt (n_of_int (int_of_string (take_until s pos)), true)
  | 'u' -> JsonTyped.TInt (n_of_int (int_of_string (take_until s pos)), false)
  | 'd' -> JsonTyped.TF64
  | 'e' -> JsonTyped.TF32
  | 's' -> JsonTyped.TString
  | 'o' -> JsonTyped.TOption (parse_ty s pos)
  | 'v' -> JsonTyped.TVec (parse_ty s pos)
  | 'R' ->
    let n = int_of_string (take_until s pos) in
    let rec go k acc =
      if k = 0 then Stdlib.List.rev acc
      else begin
        let id = str_of_hex (take_until s pos) in
        let rn = take_rename s pos in
        let t = parse_ty s pos in
        go (k - 1) (((id, rn), t) :: acc)
      end in
    JsonTyped.TStruct (go n [])
  | 'U' ->
    let n = int_of_string (take_until s pos) in
    let rec go k acc = if k = 0 then Stdlib.List.rev acc else go (k - 1) (parse_ty s pos :: acc) in
    JsonTyped.TTuple (go n [])
  | 'E' ->
    let n = int_of_string (take_until s pos) in
    let rec go k acc =
      if k = 0 then Stdlib.List.rev acc
      else begin
        let id = str_of_hex (take_until s pos) in
        let rn = take_rename s pos in
        go (k - 1) ((id, rn) :: acc)
      end in
    JsonTyped.TEnum (go n [])
  | _ -> failwith "bad type tag"

let rec parse_rval (s : string) (pos : int ref) : (float, float) JsonTyped.rval =
  let tag = s.[!pos] in
  incr pos;
  let items () =
    let n = int_of_string (take_until s pos) in
    let rec go k acc = if k = 0 then Stdlib.List.rev acc else go (k - 1) (parse_rval s pos :: acc) in
    go n [] in
  match tag with
  | 'b' -> let c = s.[!pos] in incr pos; JsonTyped.RBool (c = '1')
  | 'i' -> JsonTyped.RInt (z_of_decimal (take_until s pos))
  | 'd' -> JsonTyped.RF64 (Stdlib.Int64.float_of_bits (Stdlib.Int64.of_string ("0x" ^ take_until s pos)))
  | 'e' -> JsonTyped.RF32 (Stdlib.Int32.float_of_bits (Stdlib.Int32.of_string ("0x" ^ take_until s pos)))
  | 's' -> JsonTyped.RStr (str_of_hex (take_until s pos))
  | 'n' -> JsonTyped.RNone
  | 'S' -> JsonTyped.RSome (parse_rval s pos)
  | 'V' -> JsonTyped.RVec (items ())
  | 'R' -> JsonTyped.RStruct (items ())
  | 'U' -> JsonTyped.RTuple (items ())
  | 'E' -> JsonTyped.REnum (nat_of_int (int_of_string (take_until s pos)))
  | _ -> failwith "bad value tag"

let rec parse_json (s : string) (pos : int ref) : float Json.value =
  let tag = s.[!pos] in
  incr pos;
  match tag with
  | 'N' -> Json.VNull
  | 'T' -> Json.VBool true
  | 'F' -> Json.VBool false
  | 'B' -> Json.VNum (Stdlib.Int64.float_of_bits (Stdlib.Int64.of_string ("0x" ^ take_until s pos)))
  | 'S' -> Json.VStr (str_of_hex (take_until s pos))
  | 'A' ->
    let n = int_of_string (take_until s pos) in
    let rec go k acc = if k = 0 then Stdlib.List.rev acc else go (k - 1) (parse_json s pos :: acc) in
    Json.VArr (go n [])
  | 'O' ->
    let n = int_of_string (take_until s pos) in
    let rec go k acc =
      if k = 0 then Stdlib.List.rev acc
      else begin
        incr pos;  (* K *)
        let key = str_of_hex (take_until s pos) in
        let v = parse_json s pos in
        go (k - 1) ((key, v) :: acc)
      end in
    Json.VObj (go n [])
  | _ -> failwith "bad json tag"

let rec parse_tt (s : string) (pos : int ref) : float JsonMacro.tt =
  let tag = s.[!pos] in
  incr pos;
  let items () =
    let n = int_of_string (take_until s pos) in
    let rec go k acc = if k = 0 then Stdlib.List.rev acc else go (k - 1) (parse_tt s pos :: acc) in
    go n [] in
  match tag with
  | 'n' -> JsonMacro.TNull
  | ',' -> JsonMacro.TComma
  | ':' -> JsonMacro.TColon
  | 'x' -> JsonMacro.TExpr (parse_json s pos, None)
  | 'k' -> let k = str_of_hex (take_until s pos) in JsonMacro.TExpr (parse_json s pos, Some k)
  | 't' ->
    let t = parse_ty s pos in
    let v = parse_rval s pos in
    JsonMacro.TExpr (JsonTyped.to_json of_int widen t v, None)
  | '[' -> JsonMacro.TBracket (items ())
  | '{' -> JsonMacro.TBrace (items ())
  | _ -> failwith "bad token tag"

(* ---- dumps ---- *)
let rec dump_json (b : Stdlib.Buffer.t) (v : float Json.value) : unit =
  match v with
  | Json.VNull -> Stdlib.Buffer.add_char b 'N'
  | Json.VBool true -> Stdlib.Buffer.add_char b 'T'
  | Json.VBool false -> Stdlib.Buffer.add_char b 'F'
  | Json.VNum x -> Stdlib.Buffer.add_string b (Printf.sprintf "B%016Lx;" (Stdlib.Int64.bits_of_float x))
  | Json.VStr s -> Stdlib.Buffer.add_char b 'S'; Stdlib.Buffer.add_string b (hex_of_str s); Stdlib.Buffer.add_char b ';'
  | Json.VArr l ->
    Stdlib.Buffer.add_string b (Printf.sprintf "A%d;" (Stdlib.List.length l));
    Stdlib.List.iter (dump_json b) l
  | Json.VObj m ->
    Stdlib.Buffer.add_string b (Printf.sprintf "O%d;" (Stdlib.List.length m));
    Stdlib.List.iter (fun (k, x) ->
      Stdlib.Buffer.add_char b 'K'; Stdlib.Buffer.add_string b (hex_of_str k); Stdlib.Buffer.add_char b ';';
      dump_json b x) m

let rec dump_rval (b : Stdlib.Buffer.t) (v : (float, float) JsonTyped.rval) : unit =
  let items tag l =
    Stdlib.Buffer.add_string b (Printf.sprintf "%c%d;" tag (Stdlib.List.length l));
    Stdlib.List.iter (dump_rval b) l in
  match v with
  | JsonTyped.RBool x -> Stdlib.Buffer.add_string b (if x then "b1" else "b0")
  | JsonTyped.RInt z -> Stdlib.Buffer.add_char b 'i'; Stdlib.Buffer.add_string b (decimal_of_z z); Stdlib.Buffer.add_char b ';'
  | JsonTyped.RF64 x -> Stdlib.Buffer.add_string b (Printf.sprintf "d%016Lx;" (Stdlib.Int64.bits_of_float x))
  | JsonTyped.RF32 x -> Stdlib.Buffer.add_string b (Printf.sprintf "e%08lx;" (Stdlib.Int32.bits_of_float x))
  | JsonTyped.RStr s -> Stdlib.Buffer.add_char b 's'; Stdlib.Buffer.add_string b (hex_of_str s); Stdlib.Buffer.add_char b ';'
  | JsonTyped.RNone -> Stdlib.Buffer.add_char b 'n'
  | JsonTyped.RSome x -> Stdlib.Buffer.add_char b 'S'; dump_rval b x
  | JsonTyped.RVec l -> items 'V' l
  | JsonTyped.RStruct l -> items 'R' l
  | JsonTyped.RTuple l -> items 'U' l
  | JsonTyped.REnum i -> Stdlib.Buffer.add_string b (Printf.sprintf "E%d;" (int_of_nat i))

let show_json (v : float Json.value) : string =
  let b = Stdlib.Buffer.create 64 in dump_json b v; Stdlib.Buffer.contents b

let show_rval_outcome (r : (float, float) JsonTyped.rval Prelude.outcome) : string =
  match r with
  | Prelude.Ok v -> let b = Stdlib.Buffer.create 64 in Stdlib.Buffer.add_string b "ok "; dump_rval b v; Stdlib.Buffer.contents b
  | Prelude.Err e -> if int_of_n e = 10 then "err" else "ERR" ^ string_of_int (int_of_n e)
  | Prelude.Crash w -> "CRASH" ^ string_of_int (int_of_n w)

let show_macro (r : float Json.value Prelude.outcome) : string =
  match r with
  | Prelude.Ok v -> "ok " ^ show_json v
  | Prelude.Err e -> (match int_of_n e with 20 -> "err noarm" | 21 -> "err key" | 99 -> "FUEL" | k -> "ERR" ^ string_of_int k)
  | Prelude.Crash w -> "CRASH" ^ string_of_int (int_of_n w)

let ty_val (t : string) (v : string) =
  let ty = parse_ty t (ref 0) in
  let rv = parse_rval v (ref 0) in
  (ty, rv)

let () =
  (* to_json *)
  register "t14_tj" (function [t; v] -> let (ty, rv) = ty_val t v in show_json (JsonTyped.to_json of_int widen ty rv) | _ -> "BADARGS");
  (* from_json (to_json v) *)
  register "t14_rt" (function [t; v] ->
    let (ty, rv) = ty_val t v in show_rval_outcome (JsonTyped.roundtrip of_int f2z widen narrow ty rv) | _ -> "BADARGS");
  (* from_json of an arbitrary JSON value *)
  register "t14_fj" (function [t; j] ->
    let ty = parse_ty t (ref 0) in
    show_rval_outcome (JsonTyped.from_json f2z narrow ty (parse_json j (ref 0))) | _ -> "BADARGS");
  (* input validation: well-formed type, well-typed value *)
  register "t14_chk" (function [t; v] ->
    let (ty, rv) = ty_val t v in
    Printf.sprintf "wf=%b typed=%b" (JsonTyped.wf_tyb ty) (JsonTyped.has_typeb rv ty) | _ -> "BADARGS");
  (* json!(tokens): the repaired macro, the macro before F03, the denotation of the literal *)
  register "t14_mac" (function [t] -> show_macro (JsonMacro.json_macro false [parse_tt t (ref 0)]) | _ -> "BADARGS");
  register "t14_mac_old" (function [t] -> show_macro (JsonMacro.json_macro true [parse_tt t (ref 0)]) | _ -> "BADARGS");
  register "t14_den" (function [t] ->
    (match JsonMacro.denote (parse_tt t (ref 0)) with Some v -> "some " ^ show_json v | None -> "none") | _ -> "BADARGS")
