//! C06 on the tokio runtime: humphrey::tokio::handlers::{serve_dir, serve_as_file_path} against the same real directory
//! trees and case lines as /verif/harness/src/c06.rs (the server's `directory` routes exist in the threaded build only).
use crate::util::*;
use humphrey::handler_traits::{PathAwareRequestHandler, RequestHandler};
use humphrey::http::headers::Headers;
use humphrey::http::{Request, Response};
use std::collections::hash_map::DefaultHasher;
use std::hash::{Hash, Hasher};
use std::sync::Arc;

/// materialise the tree (once per distinct description) and return its base directory
fn build_tree(desc: &str) -> String {
    let root = std::env::var("HV_ROOT").unwrap_or_else(|_| "/verif".to_string());
    let mut h = DefaultHasher::new();
    desc.hash(&mut h);
    let base = format!("{}/work/c06/t{:016x}", root, h.finish());
    let marker = format!("{}/.ready", base);
    if std::path::Path::new(&marker).exists() {
        return base;
    }
    let tmp = format!("{}.{}.tmp", base, std::process::id());
    let _ = std::fs::remove_dir_all(&tmp);
    std::fs::create_dir_all(&tmp).unwrap();
    if desc != "-" {
        for e in desc.split(',') {
            let mut it = e.split(':');
            let kind = it.next().unwrap();
            let path = unhex_str(it.next().unwrap());
            let full = format!("{}/{}", tmp, path);
            if kind == "d" {
                std::fs::create_dir_all(&full).unwrap();
            } else {
                if let Some(p) = std::path::Path::new(&full).parent() {
                    std::fs::create_dir_all(p).unwrap();
                }
                std::fs::write(&full, unhex(it.next().unwrap())).unwrap();
            }
        }
    }
    std::fs::write(format!("{}/.ready", tmp), b"").unwrap();
    if std::fs::rename(&tmp, &base).is_err() {
        // another runner built it first
        let _ = std::fs::remove_dir_all(&tmp);
    }
    base
}

fn request(uri: String) -> Request {
    Request {
        method: humphrey::http::method::Method::Get,
        uri,
        query: String::new(),
        version: "HTTP/1.1".into(),
        headers: Headers::new(),
        content: None,
        address: humphrey::http::address::Address::new("127.0.0.1:1").unwrap(),
    }
}

fn show(r: Response) -> String {
    let code: u16 = r.status_code.into();
    match code {
        200 => format!(
            "200 ct={} body={}",
            r.headers.get("Content-Type").map(|s| hex(s.as_bytes())).unwrap_or_else(|| "none".into()),
            hex(&r.body)
        ),
        301 => format!("301 loc={}", r.headers.get("Location").map(|s| hex(s.as_bytes())).unwrap_or_default()),
        c => format!("{}", c),
    }
}

pub fn dispatch(rt: &tokio::runtime::Runtime, name: &str, args: &[&str]) -> Option<String> {
    match name {
        // static <handler> <tree> <route pattern> <uri>
        "static" => {
            let base = build_tree(args[1]);
            let dir: &'static str = Box::leak(format!("{}/www", base).into_boxed_str());
            let route: &'static str = Box::leak(unhex_str(args[2]).into_boxed_str());
            let uri = unhex_str(args[3]).replace("@BASE@", &base);
            let req = request(uri);
            Some(match args[0] {
                "serve_dir" => {
                    let h = humphrey::handlers::serve_dir::<()>(dir);
                    show(rt.block_on(PathAwareRequestHandler::serve(&h, req, Arc::new(()), route)))
                }
                "serve_file" => {
                    let path: &'static str = Box::leak(format!("{}/{}", base, route).into_boxed_str());
                    let h = humphrey::handlers::serve_file::<()>(path);
                    show(rt.block_on(RequestHandler::serve(&h, req, Arc::new(()))))
                }
                "serve_as_file_path" => {
                    let h = humphrey::handlers::serve_as_file_path::<()>(dir);
                    show(rt.block_on(RequestHandler::serve(&h, req, Arc::new(()))))
                }
                _ => return None,
            })
        }
        _ => None,
    }
}
