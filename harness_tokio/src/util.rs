//! Argument decoding shared by all harness modules.

pub fn unhex(s: &str) -> Vec<u8> {
    let s = s.strip_prefix('h').unwrap_or(s);
    (0..s.len() / 2)
        .map(|i| u8::from_str_radix(&s[2 * i..2 * i + 2], 16).unwrap())
        .collect()
}

pub fn unhex_str(s: &str) -> String {
    String::from_utf8(unhex(s)).expect("harness: argument is not UTF-8")
}

pub fn hex(b: &[u8]) -> String {
    let mut out = String::with_capacity(b.len() * 2);
    for x in b {
        out.push_str(&format!("{:02x}", x));
    }
    out
}
