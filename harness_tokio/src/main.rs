//! Implementation runner for the tokio runtime of Humphrey: same line protocol as /verif/harness.
use std::io::{BufRead, Write};
use std::panic::{catch_unwind, AssertUnwindSafe};

mod c06;
mod conn;
mod parse;
mod util;
mod wsroute;

fn dispatch(rt: &tokio::runtime::Runtime, name: &str, args: &[&str]) -> String {
    if let Some(r) = parse::dispatch(rt, name, args) {
        return r;
    }
    if let Some(r) = conn::dispatch(rt, name, args) {
        return r;
    }
    if let Some(r) = c06::dispatch(rt, name, args) {
        return r;
    }
    if let Some(r) = wsroute::dispatch(rt, name, args) {
        return r;
    }
    format!("NOHANDLER:{}", name)
}

fn main() {
    std::panic::set_hook(Box::new(|_| {}));
    let rt = tokio::runtime::Builder::new_multi_thread().worker_threads(4).enable_all().build().unwrap();
    let stdin = std::io::stdin();
    let stdout = std::io::stdout();
    let mut out = std::io::BufWriter::new(stdout.lock());
    for line in stdin.lock().lines() {
        let line = line.unwrap();
        let toks: Vec<&str> = line.split(' ').collect();
        if toks.is_empty() || toks[0].is_empty() {
            writeln!(out).unwrap();
            continue;
        }
        let r = catch_unwind(AssertUnwindSafe(|| dispatch(&rt, toks[0], &toks[1..])));
        match r {
            Ok(s) => writeln!(out, "{}", s).unwrap(),
            Err(_) => writeln!(out, "PANIC").unwrap(),
        }
        out.flush().unwrap();
    }
}
