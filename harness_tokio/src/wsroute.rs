//! C04 on the tokio runtime: WebSocket upgrade requests are dispatched by the routing rule over the WebSocket routes
//! (tokio/app.rs call_websocket_handler). Every route's handler writes its own identity on the stream.
use crate::util::*;
use humphrey::http::Request;
use humphrey::{App, SubApp};
use std::io::{Read, Write};
use std::net::TcpStream;
use std::time::{Duration, Instant};
use tokio_util::sync::CancellationToken;

fn list(arg: &str) -> Vec<String> {
    if arg == "-" || arg.is_empty() {
        Vec::new()
    } else {
        arg.split(',').map(unhex_str).collect()
    }
}

pub fn dispatch(rt: &tokio::runtime::Runtime, name: &str, args: &[&str]) -> Option<String> {
    match name {
        // wsroute <host|-> <uri> <default routes> <sub-apps host:routes|...>
        "wsroute" => {
            let mut app: App<()> = App::new_with_config(());
            for (j, r) in list(args[2]).iter().enumerate() {
                let tag = format!("def:{}\n", j);
                app = app.with_websocket_route(r, move |_req: Request, mut stream: humphrey::stream::Stream, _s: std::sync::Arc<()>| {
                    let tag = tag.clone();
                    async move {
                        use tokio::io::AsyncWriteExt;
                        let _ = stream.write_all(tag.as_bytes()).await;
                    }
                });
            }
            if args[3] != "-" {
                for (i, s) in args[3].split('|').enumerate() {
                    let (h, rs) = s.split_once(':').unwrap();
                    let mut sub: SubApp<()> = SubApp::new();
                    for (j, r) in list(rs).iter().enumerate() {
                        let tag = format!("sub:{}:{}\n", i, j);
                        sub = sub.with_websocket_route(r, move |_req: Request, mut stream: humphrey::stream::Stream, _s: std::sync::Arc<()>| {
                            let tag = tag.clone();
                            async move {
                                use tokio::io::AsyncWriteExt;
                                let _ = stream.write_all(tag.as_bytes()).await;
                            }
                        });
                    }
                    app = app.with_host(&unhex_str(h), sub);
                }
            }
            let port = crate::conn::free_port();
            let token = CancellationToken::new();
            let (done_tx, done_rx) = std::sync::mpsc::channel::<bool>();
            let app = app.with_shutdown(token.clone());
            rt.spawn(async move {
                let r = app.run(format!("127.0.0.1:{}", port)).await;
                let _ = done_tx.send(r.is_ok());
            });
            let t0 = Instant::now();
            let mut up = false;
            while t0.elapsed() < Duration::from_secs(3) {
                if done_rx.try_recv().is_ok() {
                    break;
                }
                if TcpStream::connect(("127.0.0.1", port)).is_ok() {
                    up = true;
                    break;
                }
                std::thread::sleep(Duration::from_millis(3));
            }
            if !up {
                return Some("noserver".to_string());
            }
            let mut c = TcpStream::connect(("127.0.0.1", port)).unwrap();
            let mut req = format!("GET {} HTTP/1.1\r\n", unhex_str(args[1]));
            if args[0] != "-" {
                req.push_str(&format!("Host: {}\r\n", unhex_str(args[0])));
            }
            req.push_str("Upgrade: websocket\r\nConnection: Upgrade\r\n\r\n");
            c.write_all(req.as_bytes()).unwrap();
            c.set_read_timeout(Some(Duration::from_millis(1500))).unwrap();
            let mut got = Vec::new();
            let mut buf = [0u8; 256];
            loop {
                match c.read(&mut buf) {
                    Ok(0) | Err(_) => break,
                    Ok(n) => got.extend_from_slice(&buf[..n]),
                }
            }
            token.cancel();
            let _ = done_rx.recv_timeout(Duration::from_secs(3));
            let text = String::from_utf8_lossy(&got).trim().to_string();
            Some(if text.is_empty() { "none".to_string() } else { text })
        }
        _ => None,
    }
}
