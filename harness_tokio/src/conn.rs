//! tokio twins of the live-server scenarios (C01 connection loop, C20 shutdown).
use crate::util::*;
use humphrey::http::cors::Cors;
use humphrey::http::headers::HeaderType;
use humphrey::http::method::Method;
use humphrey::http::{Request, Response, StatusCode};
use humphrey::App;
use std::io::{Read, Write};
use std::net::{Shutdown, TcpListener, TcpStream};
use std::sync::OnceLock;
use std::time::{Duration, Instant};
use tokio_util::sync::CancellationToken;

pub fn free_port() -> u16 {
    use std::sync::atomic::{AtomicU32, Ordering};
    static NEXT: AtomicU32 = AtomicU32::new(0);
    let pid = std::process::id();
    for _ in 0..2000 {
        let k = NEXT.fetch_add(1, Ordering::Relaxed);
        let port = 20000 + ((pid.wrapping_mul(7919).wrapping_add(k.wrapping_mul(104729)).wrapping_add(15013)) % 30000) as u16;
        if let Ok(l) = TcpListener::bind(("0.0.0.0", port)) {
            drop(l);
            return port;
        }
    }
    TcpListener::bind("127.0.0.1:0").unwrap().local_addr().unwrap().port()
}

fn app() -> App<()> {
    App::new_with_config(())
        .with_stateless_route("/fixed*", |_r: Request| async { Response::new(StatusCode::OK, "hello") })
        .with_stateless_route("/echo*", |r: Request| async move { Response::new(StatusCode::OK, r.content.unwrap_or_default()) })
        .with_stateless_route("/empty*", |_r: Request| async { Response::empty(StatusCode::OK) })
        .with_stateless_route("/panic*", |_r: Request| async {
            if true {
                panic!("handler panic (expected)");
            }
            Response::empty(StatusCode::OK)
        })
        .with_stateless_route("/own*", |_r: Request| async {
            Response::new(StatusCode::OK, "own").with_header(HeaderType::Server, "mine").with_header(HeaderType::Connection, "Close")
        })
        .with_stateless_route("/cors*", |_r: Request| async { Response::new(StatusCode::OK, "c") })
        .with_stateless_route("/wild*", |_r: Request| async { Response::new(StatusCode::OK, "w") })
        .with_cors_config("/wild*", Cors::wildcard())
        .with_stateless_route("/slow*", |r: Request| async move {
            let ms: u64 = r.query.strip_prefix("ms=").and_then(|s| s.parse().ok()).unwrap_or(400);
            tokio::time::sleep(Duration::from_millis(ms)).await;
            Response::new(StatusCode::OK, "slow-done")
        })
        .with_stateless_route("/big*", |_r: Request| async { Response::new(StatusCode::OK, vec![b'x'; 6 * 1024 * 1024]) })
        // an open WebSocket: the handler owns the connection until the client goes away
        .with_websocket_route("/ws*", |_r: Request, mut stream: humphrey::stream::Stream, _s: std::sync::Arc<()>| async move {
            use tokio::io::{AsyncReadExt, AsyncWriteExt};
            let _ = stream.write_all(b"HTTP/1.1 101 Switching Protocols\r\nUpgrade: websocket\r\nConnection: Upgrade\r\n\r\n").await;
            let mut buf = [0u8; 256];
            while let Ok(n) = stream.read(&mut buf).await {
                if n == 0 {
                    break;
                }
            }
        })
        .with_cors_config(
            "/cors*",
            Cors::new().with_origin("https://a.example").with_origin("https://b.example").with_method(Method::Get).with_method(Method::Post).with_header("X-H").with_header("X-I"),
        )
}

/// start an app on a fresh port; returns (port, token, receiver signalled when run returns)
fn start(rt: &tokio::runtime::Runtime, bind_ip: &str) -> Option<(u16, CancellationToken, std::sync::mpsc::Receiver<bool>, String)> {
    for _ in 0..10 {
        let port = free_port();
        let token = CancellationToken::new();
        let t2 = token.clone();
        let (done_tx, done_rx) = std::sync::mpsc::channel::<bool>();
        let addr = format!("{}:{}", bind_ip, port);
        let a2 = addr.clone();
        rt.spawn(async move {
            let r = app().with_shutdown(t2).run(a2).await;
            let _ = done_tx.send(r.is_ok());
        });
        let t0 = Instant::now();
        let mut up = false;
        while t0.elapsed() < Duration::from_secs(3) {
            if done_rx.try_recv().is_ok() {
                break;
            }
            if let Ok(s) = TcpStream::connect(("127.0.0.1", port)) {
                drop(s);
                std::thread::sleep(Duration::from_millis(10));
                up = done_rx.try_recv().is_err();
                break;
            }
            std::thread::sleep(Duration::from_millis(3));
        }
        if up {
            return Some((port, token, done_rx, addr));
        }
    }
    None
}

fn server(rt: &tokio::runtime::Runtime) -> u16 {
    static PORT: OnceLock<u16> = OnceLock::new();
    *PORT.get_or_init(|| {
        let (port, token, rx, _) = start(rt, "127.0.0.1").expect("server");
        std::mem::forget(token);
        std::mem::forget(rx);
        port
    })
}

pub fn read_available(s: &mut TcpStream, first_ms: u64, quiet_ms: u64) -> (Vec<u8>, bool) {
    let mut out = Vec::new();
    let mut buf = [0u8; 65536];
    let mut wait = first_ms;
    loop {
        s.set_read_timeout(Some(Duration::from_millis(wait.max(1)))).unwrap();
        match s.read(&mut buf) {
            Ok(0) => return (out, true),
            Ok(n) => {
                out.extend_from_slice(&buf[..n]);
                wait = quiet_ms;
            }
            Err(ref e) if e.kind() == std::io::ErrorKind::WouldBlock || e.kind() == std::io::ErrorKind::TimedOut => {
                return (out, false)
            }
            Err(_) => return (out, true),
        }
    }
}

fn play(port: u16, plan: &str) -> (Vec<u8>, bool) {
    let mut s = TcpStream::connect(("127.0.0.1", port)).unwrap();
    s.set_nodelay(true).unwrap();
    let mut got = Vec::new();
    let mut closed = false;
    for item in plan.split(',') {
        match item {
            "" | "-" => {}
            "p" => std::thread::sleep(Duration::from_millis(4)),
            "w" => {
                let (b, eof) = read_available(&mut s, 1500, 40);
                got.extend(b);
                closed |= eof;
            }
            "i" => {}
            seg => {
                if s.write_all(&unhex(seg)).is_err() {
                    closed = true;
                }
            }
        }
    }
    let (b, eof) = read_available(&mut s, 120, 40);
    got.extend(b);
    closed |= eof;
    let closed_by_server = closed;
    let _ = s.shutdown(Shutdown::Write);
    let (b, _) = read_available(&mut s, 1500, 60);
    got.extend(b);
    (got, closed_by_server)
}

fn complete_response(data: &[u8]) -> bool {
    let s = String::from_utf8_lossy(data);
    if let Some(p) = s.find("\r\n\r\n") {
        for line in s[..p].split("\r\n") {
            if let Some(v) = line.strip_prefix("Content-Length: ") {
                if let Ok(n) = v.trim().parse::<usize>() {
                    return data.len() >= p + 4 + n;
                }
            }
        }
    }
    false
}

pub fn dispatch(rt: &tokio::runtime::Runtime, name: &str, args: &[&str]) -> Option<String> {
    match name {
        "conn" => {
            let port = server(rt);
            let (got, closed) = play(port, args[0]);
            Some(format!("out={} closed={}", hex(&got), closed as u8))
        }
        // shutdown <threads (ignored)> <bind> <states> <when> [fits]
        "shutdown" => {
            let bind_ip = match args[1] {
                "any" => "0.0.0.0",
                "any6" => "[::]",
                _ => "127.0.0.1",
            };
            let states = if args[2] == "-" { "" } else { args[2] };
            let when = args[3];
            let (port, token, done_rx, addr) = match start(rt, bind_ip) {
                Some(x) => x,
                None => return Some("noserver".to_string()),
            };
            if when == "before" {
                token.cancel();
            }
            let mut conns: Vec<(char, TcpStream, Vec<u8>)> = Vec::new();
            let mut probe_ok = true;
            for st in states.chars() {
                let mut s = match TcpStream::connect(("127.0.0.1", port)) {
                    Ok(s) => s,
                    Err(_) => {
                        conns.clear();
                        break;
                    }
                };
                s.set_nodelay(true).unwrap();
                let mut got = Vec::new();
                match st {
                    'I' => {
                        let _ = s.write_all(b"GET /fixed HTTP/1.1\r\nConnection: keep-alive\r\n\r\n");
                        let (b, _) = read_available(&mut s, 1500, 30);
                        if when != "before" && !complete_response(&b) {
                            probe_ok = false;
                        }
                        got = b;
                    }
                    'H' => {
                        let _ = s.write_all(b"GET /fix");
                    }
                    'S' | 'L' | 'W' => {
                        // first make sure the connection has been accepted and is being served (a keep-alive request that is
                        // answered), so that the request that follows is received by the application before the signal and
                        // not still waiting in the listen backlog when the accept loop stops
                        if when != "before" {
                            let _ = s.write_all(b"GET /fixed HTTP/1.1\r\nConnection: keep-alive\r\n\r\n");
                            let (b, _) = read_available(&mut s, 1500, 30);
                            if !complete_response(&b) {
                                probe_ok = false;
                            }
                        }
                        let _ = s.write_all(match st {
                            'S' => &b"GET /slow?ms=120 HTTP/1.1\r\n\r\n"[..],
                            'L' => &b"GET /slow?ms=700 HTTP/1.1\r\n\r\n"[..],
                            _ => &b"GET /big HTTP/1.1\r\n\r\n"[..],
                        });
                    }
                    'O' => {
                        let _ = s.write_all(b"GET /ws HTTP/1.1\r\nHost: x\r\nUpgrade: websocket\r\nConnection: Upgrade\r\nSec-WebSocket-Key: dGhlIHNhbXBsZSBub25jZQ==\r\n\r\n");
                    }
                    _ => {}
                }
                conns.push((st, s, got));
            }
            std::thread::sleep(Duration::from_millis(40));
            let t_sig = Instant::now();
            let mut extra: Vec<TcpStream> = Vec::new();
            if when == "concurrent" {
                let h = std::thread::spawn(move || {
                    let mut v = Vec::new();
                    for _ in 0..6 {
                        if let Ok(s) = TcpStream::connect(("127.0.0.1", port)) {
                            v.push(s);
                        }
                    }
                    v
                });
                token.cancel();
                extra = h.join().unwrap();
            } else if when == "after" {
                token.cancel();
            }
            let returned = match done_rx.recv_timeout(Duration::from_secs(5)) {
                Ok(_) => Some(t_sig.elapsed().as_millis()),
                Err(_) => None,
            };
            let mut rebind = false;
            if returned.is_some() {
                // a few attempts: another runner process may hold the port for an instant while probing for a free one
                for _ in 0..5 {
                    if TcpListener::bind(&addr).is_ok() {
                        rebind = true;
                        break;
                    }
                    std::thread::sleep(Duration::from_millis(40));
                }
            }
            let mut inflight = 0;
            let mut inflight_ok = 0;
            for (st, s, got) in conns.iter_mut() {
                if "SLW".contains(*st) && when != "before" {
                    inflight += 1;
                    let (b, _) = read_available(s, 3000, 200);
                    got.extend(b);
                    if complete_response(got) {
                        inflight_ok += 1;
                    }
                }
            }
            drop(extra);
            Some(format!(
                "returned={} rebind={} probe={} inflight={}/{} trace=",
                returned.map(|m| m.to_string()).unwrap_or_else(|| "never".into()),
                rebind as u8,
                probe_ok as u8,
                inflight_ok,
                inflight
            ))
        }
        _ => None,
    }
}
