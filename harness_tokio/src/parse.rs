//! tokio twins of the parser / routing correspondences (C02, C03, C04).
use crate::util::*;
use humphrey::http::headers::Headers;
use humphrey::http::request::RequestError;
use humphrey::http::{Request, Response, StatusCode};
use humphrey::SubApp;
use std::net::SocketAddr;
use std::pin::Pin;
use std::task::{Context, Poll};
use tokio::io::{AsyncRead, ReadBuf};

/// An AsyncRead that delivers a fixed plan of chunks: one poll_read returns at most the rest of the current chunk.
pub struct Scripted {
    pub chunks: Vec<Vec<u8>>,
    pub idx: usize,
    pub off: usize,
    pub handed_out: usize,
}

impl Scripted {
    pub fn new(chunks: Vec<Vec<u8>>) -> Self {
        Self { chunks, idx: 0, off: 0, handed_out: 0 }
    }
}

impl AsyncRead for Scripted {
    fn poll_read(mut self: Pin<&mut Self>, _cx: &mut Context<'_>, buf: &mut ReadBuf<'_>) -> Poll<std::io::Result<()>> {
        if self.idx >= self.chunks.len() || buf.remaining() == 0 {
            return Poll::Ready(Ok(()));
        }
        let (idx, off) = (self.idx, self.off);
        let n = std::cmp::min(buf.remaining(), self.chunks[idx].len() - off);
        buf.put_slice(&self.chunks[idx][off..off + n]);
        self.off += n;
        self.handed_out += n;
        if self.off >= self.chunks[idx].len() {
            self.idx += 1;
            self.off = 0;
        }
        Poll::Ready(Ok(()))
    }
}

pub fn chunks_of(arg: &str) -> Vec<Vec<u8>> {
    if arg == "-" || arg.is_empty() {
        return Vec::new();
    }
    arg.split(',').map(unhex).collect()
}

pub fn show_headers(hs: &Headers) -> String {
    let out: Vec<String> = hs
        .verif_in_order()
        .iter()
        .map(|h| format!("{}:{}", hex(h.name.to_string().as_bytes()), hex(h.value.as_bytes())))
        .collect();
    format!("[{}]", out.join(","))
}

fn show_request(r: &Request) -> String {
    let m = match r.method {
        humphrey::http::method::Method::Get => 0,
        humphrey::http::method::Method::Post => 1,
        humphrey::http::method::Method::Put => 2,
        humphrey::http::method::Method::Delete => 3,
        humphrey::http::method::Method::Options => 4,
    };
    format!(
        "m={} uri={} q={} v={} h={} c={} origin={} proxies=[{}] port={}",
        m,
        hex(r.uri.as_bytes()),
        hex(r.query.as_bytes()),
        hex(r.version.as_bytes()),
        show_headers(&r.headers),
        match &r.content {
            None => "none".to_string(),
            Some(c) => format!("h{}", hex(c)),
        },
        hex(r.address.origin_addr.to_string().as_bytes()),
        r.address.proxies.iter().map(|p| hex(p.to_string().as_bytes())).collect::<Vec<_>>().join(","),
        r.address.port
    )
}

fn req_err(e: RequestError) -> String {
    format!(
        "err:{}",
        match e {
            RequestError::Request => 0,
            RequestError::Stream => 1,
            RequestError::Disconnected => 2,
            RequestError::Timeout => 3,
        }
    )
}

fn peer(ip: &str, port: &str) -> SocketAddr {
    format!("{}:{}", unhex_str(ip), port).parse().expect("peer")
}

fn list(arg: &str) -> Vec<String> {
    if arg == "-" {
        Vec::new()
    } else {
        arg.split(',').map(unhex_str).collect()
    }
}

fn subapp(host: Option<&str>, routes: &[String]) -> SubApp<()> {
    let mut s: SubApp<()> = SubApp::new();
    if let Some(h) = host {
        s.host = h.to_string();
    }
    for r in routes {
        s = s.with_stateless_route(r, |_r: Request| async { Response::empty(StatusCode::OK) });
    }
    s
}

pub fn dispatch(rt: &tokio::runtime::Runtime, name: &str, args: &[&str]) -> Option<String> {
    match name {
        "req_parse" => {
            let mut rd = Scripted::new(chunks_of(args[2]));
            let r = rt.block_on(Request::from_stream(&mut rd, peer(args[0], args[1])));
            Some(match r {
                Ok(r) => format!("ok {} consumed={}", show_request(&r), rd.handed_out),
                Err(e) => req_err(e),
            })
        }
        "req_parse_flat" => {
            let mut rd = Scripted::new(vec![unhex(args[2])]);
            let r = rt.block_on(Request::from_stream(&mut rd, peer(args[0], args[1])));
            Some(match r {
                Ok(r) => format!("ok {}", show_request(&r)),
                Err(e) => req_err(e),
            })
        }
        "safe_req" => {
            let mut rd = Scripted::new(chunks_of(args[0]));
            let r = rt.block_on(Request::from_stream(&mut rd, "1.2.3.4:80".parse().unwrap()));
            Some(match r {
                Ok(_) => "ok".to_string(),
                Err(e) => req_err(e),
            })
        }
        "route" => {
            let mut hs = Headers::new();
            if args[0] != "-" {
                hs.add("Host", unhex_str(args[0]));
            }
            let req = Request {
                method: humphrey::http::method::Method::Get,
                uri: unhex_str(args[1]),
                query: String::new(),
                version: "HTTP/1.1".into(),
                headers: hs,
                content: None,
                address: humphrey::http::address::Address::new("127.0.0.1:1").unwrap(),
            };
            let default = subapp(None, &list(args[2]));
            let mut subs: Vec<SubApp<()>> = Vec::new();
            if args[3] != "-" {
                for s in args[3].split('|') {
                    let (h, rs) = s.split_once(':').unwrap();
                    subs.push(subapp(Some(&unhex_str(h)), &list(rs)));
                }
            }
            Some(match humphrey::app::verif_route_index(&req, &subs, &default) {
                Some((Some(i), j)) => format!("sub:{}:{}", i, j),
                Some((None, j)) => format!("def:{}", j),
                None => "none".to_string(),
            })
        }
        _ => None,
    }
}
