From Coq Require Import NArith List Lia Bool Arith.
Import ListNotations.

(* A scripted byte source: each element is what one read() call can see at most. [] = EOF. *)
Definition chunks := list (list N).
Definition wf_chunks (cs : chunks) := Forall (fun c => c <> []) cs.

(* Read::read(buf of size n), n > 0 *)
Definition read (n : nat) (cs : chunks) : list N * chunks :=
  match cs with
  | [] => ([], [])
  | c :: cs' => if length c <=? n then (c, cs') else (firstn n c, skipn n c :: cs')
  end.

Lemma read_concat n cs d cs' : read n cs = (d, cs') -> concat cs = d ++ concat cs'.
Proof.
  destruct cs as [|c cs0]; cbn.
  - intros [= <- <-]. reflexivity.
  - destruct (length c <=? n); intros [= <- <-]; cbn; [reflexivity|].
    now rewrite app_assoc, firstn_skipn.
Qed.

Lemma read_wf n cs d cs' : (0 < n) -> wf_chunks cs -> read n cs = (d, cs') -> wf_chunks cs' /\ (d = [] -> cs = []).
Proof.
  intros Hn W. destruct cs as [|c cs0]; cbn.
  - intros [= <- <-]. split; [constructor|reflexivity].
  - inversion W as [|? ? Hc W0]; subst. destruct (length c <=? n) eqn:E; intros [= <- <-].
    + split; [assumption|]. intros ->. congruence.
    + apply Nat.leb_gt in E. split.
      * constructor; [|assumption]. intro Hs. apply (f_equal (@length N)) in Hs. rewrite skipn_length in Hs. cbn in Hs. lia.
      * intro Hf. apply (f_equal (@length N)) in Hf. rewrite firstn_length in Hf. cbn in Hf. lia.
Qed.

(* BufReader with capacity cap *)
Record bufreader := { buf : list N; inner : chunks }.
Definition contents (br : bufreader) : list N := buf br ++ concat (inner br).
Definition cap : nat := N.to_nat 8192.
Lemma cap_pos : 0 < cap. Proof. unfold cap. lia. Qed.
Opaque cap.

Definition fill_buf (br : bufreader) : bufreader :=
  match buf br with
  | [] => let '(d, cs') := read cap (inner br) in {| buf := d; inner := cs' |}
  | _ => br
  end.

Lemma fill_buf_contents br : contents (fill_buf br) = contents br.
Proof.
  unfold fill_buf, contents. destruct (buf br) eqn:E; [|now rewrite E].
  destruct (read cap (inner br)) as [d cs'] eqn:R. cbn. symmetry. eapply read_concat; eassumption.
Qed.

(* split l at the first occurrence of d (inclusive) *)
Fixpoint split_at (d : N) (l : list N) : option (list N * list N) :=
  match l with
  | [] => None
  | x :: l' => if N.eqb x d then Some ([x], l')
               else match split_at d l' with Some (a, b) => Some (x :: a, b) | None => None end
  end.

Lemma split_at_app d l a b : split_at d l = Some (a, b) -> l = a ++ b.
Proof.
  revert a b. induction l as [|x l IH]; cbn; intros a b H; [discriminate|].
  destruct (N.eqb x d). - now injection H as <- <-.
  - destruct (split_at d l) as [[a' b']|]; [|discriminate]. injection H as <- <-. cbn. f_equal. now apply IH.
Qed.

Lemma split_at_app_l d l r a b : split_at d l = Some (a, b) -> split_at d (l ++ r) = Some (a, b ++ r).
Proof.
  revert a b. induction l as [|x l IH]; cbn; intros a b H; [discriminate|].
  destruct (N.eqb x d). - now injection H as <- <-.
  - destruct (split_at d l) as [[a' b']|]; [|discriminate]. injection H as <- <-. now rewrite (IH a' b').
Qed.

Lemma split_at_app_none d l r : split_at d l = None ->
  split_at d (l ++ r) = match split_at d r with Some (a, b) => Some (l ++ a, b) | None => None end.
Proof.
  induction l as [|x l IH]; cbn; intro H.
  - now destruct (split_at d r) as [[? ?]|].
  - destruct (N.eqb x d); [discriminate|]. destruct (split_at d l) as [[? ?]|]; [discriminate|].
    rewrite IH by reflexivity. now destruct (split_at d r) as [[? ?]|].
Qed.

(* BufRead::read_until(d): returns bytes through the delimiter, or everything until EOF *)
Fixpoint read_until (fuel : nat) (d : N) (br : bufreader) (acc : list N) : option (list N * bufreader) :=
  match fuel with
  | O => None
  | S f =>
    let br1 := fill_buf br in
    match buf br1 with
    | [] => Some (acc, br1)                                   (* EOF *)
    | b => match split_at d b with
           | Some (a, rest) => Some (acc ++ a, {| buf := rest; inner := inner br1 |})
           | None => read_until f d {| buf := []; inner := inner br1 |} (acc ++ b)
           end
    end
  end.

(* flat specification *)
Definition read_until_flat (d : N) (l : list N) : list N * list N :=
  match split_at d l with Some (a, b) => (a, b) | None => (l, []) end.

Lemma read_until_refines d : forall fuel br acc line br',
  wf_chunks (inner br) ->
  read_until fuel d br acc = Some (line, br') ->
  line = acc ++ fst (read_until_flat d (contents br)) /\
  contents br' = snd (read_until_flat d (contents br)) /\ wf_chunks (inner br').
Proof.
  induction fuel as [|f IH]; intros br acc line br' W H; [discriminate|].
  cbn [read_until] in H.
  pose proof (fill_buf_contents br) as FC.
  assert (W1 : wf_chunks (inner (fill_buf br)) /\ (buf (fill_buf br) = [] -> contents br = [])).
  { unfold fill_buf, contents. destruct (buf br) eqn:E.
    - destruct (read cap (inner br)) as [dd cs'] eqn:R. cbn.
      destruct (read_wf cap _ _ _ cap_pos W R) as [W' Hd]. split; [assumption|].
      intros ->. now rewrite (Hd eq_refl).
    - rewrite E. split; [assumption|discriminate]. }
  destruct W1 as [W1 Hempty].
  set (br1 := fill_buf br) in *.
  assert (EC : contents br = buf br1 ++ concat (inner br1)) by (now rewrite <- FC).
  destruct (buf br1) as [|x b0] eqn:Eb.
  - injection H as <- <-. rewrite (Hempty eq_refl). cbn.
    repeat split; [now rewrite app_nil_r | | assumption].
    unfold contents. rewrite Eb. rewrite (Hempty eq_refl) in EC. cbn in *. now rewrite <- EC.
  - rewrite EC. unfold read_until_flat.
    destruct (split_at d (x :: b0)) as [[a rest]|] eqn:Es.
    + injection H as <- <-. rewrite (split_at_app_l _ _ _ _ _ Es). cbn. repeat split; assumption.
    + apply IH in H; [|assumption]. unfold contents in H. cbn [buf inner app] in H.
      destruct H as (-> & Hc & Hw). unfold read_until_flat in *.
      rewrite (split_at_app_none _ _ _ Es).
      destruct (split_at d (concat (inner br1))) as [[a b]|]; cbn [fst snd] in *;
        repeat split; try assumption; now rewrite <- app_assoc.
Qed.
Print Assumptions read_until_refines.
