#!/bin/bash
# Creates an isolated builder workspace: /work/<name>/verif (clone of /verif) and /work/<name>/repo (worktree of /repo HEAD).
# The clone's harness points at the workspace repo; HV_ROOT/HV_REPO select them for tools/hv.py.
set -euo pipefail
n=$1
mkdir -p /work/$n
git clone -q /verif /work/$n/verif
git -C /repo worktree add -q --detach /work/$n/repo HEAD
cd /work/$n/verif
sed -i "s#/repo/#/work/$n/repo/#" harness/Cargo.toml
git update-index --assume-unchanged harness/Cargo.toml
cat > env.sh <<E2
export HV_ROOT=/work/$n/verif
export HV_REPO=/work/$n/repo
E2
echo "workspace ready: source /work/$n/verif/env.sh; cd /work/$n/verif; ./vp setup"
