#!/bin/bash
# Re-checks every compiled property file (and everything it depends on) with Coq's independent checker and prints the
# axioms the whole development relies on. Takes several minutes; run after `./vp setup` (needs the .vo files).
# usage: tools/coqchk.sh            -> writes evidence/coqchk.txt, exit 0 iff coqchk accepts everything and lists no axiom
set -u
V=${HV_ROOT:-$(cd "$(dirname "$0")/.." && pwd)}
cd $V/coq
[ -f Makefile ] || { echo "run ./vp setup first"; exit 2; }
timeout 3000 make -j16 > /dev/null 2>&1 || { echo "make failed"; exit 2; }
mods=$(ls props/*.v | sed 's#props/\(.*\)\.v#HvProps.\1#')
( time timeout 3000 coqchk -o -silent -Q theories Hv -Q props HvProps $mods ) > $V/work/coqchk.log 2>&1
rc=$?
{ echo "coqchk -o -silent over $(echo $mods | wc -w) property modules ($(date -u +%FT%TZ)), exit $rc"; grep -v '^$' $V/work/coqchk.log | sed -n '1,40p'; } > $V/evidence/coqchk.txt
cat $V/evidence/coqchk.txt
grep -q 'Axioms: <none>' $V/work/coqchk.log && [ $rc = 0 ]
