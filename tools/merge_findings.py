#!/usr/bin/env python3
"""Resolves append-append conflicts in known_findings.jsonl (keeps both sides, drops duplicates)."""
import sys
p = '/verif/known_findings.jsonl'
out = []
for l in open(p).read().split('\n'):
    if l.startswith('<<<<<<<') or l.startswith('=======') or l.startswith('>>>>>>>'):
        continue
    if l.strip() and l in out:
        continue
    out.append(l)
txt = '\n'.join(out).rstrip('\n') + '\n'
for a, b in [x.split('=') for x in sys.argv[1:]]:
    txt = txt.replace(a, b)
open(p, 'w').write(txt)
