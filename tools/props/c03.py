"""C03 — no input can crash, wedge or exhaust a parser: aggregates the per-parser parts (HTTP request/response, WebSocket
frame/message, JSON, config). Each part runs its parser on the implementation in an isolated runner process
(catch_unwind -> PANIC, process death -> DIED, time limit -> TIMEOUT), compares the outcome class with the Coq model and
checks the measured peak allocation against a bound linear in the bytes supplied."""
import importlib

PARTS = ['c03_http', 'c03_ws', 'c03_wsmsg', 'c03_json', 'c03_conf']
RULE = 'see coverage.part_rules'
ASSUMPTIONS = []
NEEDS_TOKIO = True


def _mods():
    out = []
    for p in PARTS:
        try:
            out.append(importlib.import_module('props.' + p))
        except ModuleNotFoundError as e:
            if ('props.' + p) not in str(e):
                raise
    return out


def run(ctx):
    rules = {}
    for m in _mods():
        m.run(ctx)
        rules[m.__name__.split('.')[-1]] = getattr(m, 'RULE', '')
        for a in getattr(m, 'ASSUMPTIONS', []):
            if a not in ASSUMPTIONS:
                ASSUMPTIONS.append(a)
    ctx.extra['part_rules'] = rules
    ctx.extra['parts_present'] = list(rules.keys())
    ctx.rule = ' | '.join('%s: %s' % kv for kv in rules.items())
