"""C18 / Base64 — model of base64.rs (proved: encode = RFC 4648 §4 on bit strings, decode accepts exactly the well-formed
texts and inverts encode) vs humphrey_ws::verif::{base64_encode, base64_decode}, with CPython base64/binascii
(strict mode) and a bit-string reference as independent oracles."""
import base64
import binascii
import itertools
import os
import re
from tables import read_src as _read_src
from hv import hx, V, REPO
from props import c18_ws_common as common

PART = 'b64'
RULE = ('Base64: corpus (RFC 4648 §10 vectors, the F28 witnesses) first; encode of EVERY 1- and 2-byte input, random 3-byte '
        'groups singly (quick 20 000) and all lengths 0..64 with random contents, model vs implementation vs CPython; all '
        '2^24 three-byte groups implementation vs CPython in batches of 4096 groups per call in thorough (quick: 24 random '
        'batches), each batch also decoded back (= every all-alphabet 4-symbol group) and a sample through the model; decode '
        'of EVERY 4-symbol group over a reduced alphabet {A,B,Z,a,z,0,9,+,/,=} + invalid neighbours of the ranges {@,[,`,{,:,.,-,_,'
        'space,LF,NUL,DEL} (quick 22^4 groups, alone and followed by a valid group; thorough also preceded by one), malformed '
        'strings (every length mod 4, padding in the middle, non-alphabet, non-ASCII UTF-8, mutated valid texts), round trip; '
        'the extracted RFC 4648 spec vs CPython on a sample; ALPHABET re-read from base64.rs. '
        'non-trivial = distinct inputs that are neither empty nor a plain all-alphabet unpadded text')
ASSUMPTIONS = ['Base64: a Rust &str reaches the decoder as its UTF-8 bytes (as_bytes()); the model works on those bytes',
               'Base64 decode is lenient about non-zero trailing bits ("AB==" decodes like "AA=="), which RFC 4648 §3.5 '
               'permits (MAY reject); CPython binascii strict_mode makes the same choice']

ALPH = b'ABCDEFGHIJKLMNOPQRSTUVWXYZabcdefghijklmnopqrstuvwxyz0123456789+/'


def ref_decode(s):
    """RFC 4648 §4 read on bit strings, independent of both the model and CPython."""
    if len(s) % 4:
        return None
    pad = 2 if s.endswith(b'==') else 1 if s.endswith(b'=') else 0
    data = s[:len(s) - pad]
    bits = ''
    for c in data:
        i = ALPH.find(bytes([c]))
        if i < 0:
            return None
        bits += format(i, '06b')
    return bytes(int(bits[i:i + 8], 2) for i in range(0, len(bits) - len(bits) % 8, 8))


def py_decode(s):
    try:
        return binascii.a2b_base64(s, strict_mode=True)
    except (binascii.Error, ValueError):
        return None


def fmt_dec(r):
    return 'err' if r is None else 'ok:h' + r.hex()


def alphabet_check(ctx):
    src = _read_src(os.path.join(REPO, 'humphrey-ws/src/util/base64.rs'))
    m = re.search(r'const ALPHABET: \[u8; 64\] = \*b"([^"]*)";', src)
    got = m.group(1).encode() if m else None
    model_src = open(os.path.join(V, 'coq/theories/Base64.v'), encoding='utf-8').read()
    mm = re.search(r'Definition ALPHABET : list N :=\s*\[([0-9;\s]*)\]', model_src)
    model = bytes(int(x) for x in mm.group(1).replace('\n', ' ').split(';')) if mm else None
    ctx.count('b64:alphabet-checked')
    if got != ALPH or model != ALPH:
        ctx.report({'part': PART, 'alphabet_in_source': got.decode('latin1') if got else None}, 'source/model alphabet differs',
                   'RFC 4648 Table 1', cls='b64-alphabet', failing_input=False,
                   what='ALPHABET in base64.rs (or its copy in Base64.v) is not RFC 4648 Table 1')


def corpus(ctx, name):
    out = []
    p = os.path.join(V, 'corpus/C18', name)
    if os.path.exists(p):
        for line in open(p, encoding='utf-8'):
            line = line.rstrip('\n')
            if line.startswith('#'):
                continue
            out.append(bytes.fromhex(line))
    return out


def rep_enc(ctx, b, got, line):
    want = 'ok:' + base64.b64encode(b).decode()
    ctx.report({'part': PART, 'line': line if len(line) < 4000 else None, 'bytes_hex': b.hex() if len(b) < 2000 else b[:48].hex() + '...'},
               'impl=' + got[:200], 'rfc4648=' + want[:200], cls='b64-encode-mismatch', failing_input=True,
               what='base64 encode of %d byte(s) %s: implementation returns %s, RFC 4648 says %s' % (
                   len(b), b[:12].hex(), got[:60], want[:60]))


def rep_dec(ctx, s, got, line):
    want = fmt_dec(ref_decode(s))
    ctx.report({'part': PART, 'line': line if len(line) < 4000 else None, 'text': s[:200].decode('utf-8', 'replace')},
               'impl=' + got[:200], 'rfc4648=' + want[:200], cls='b64-decode-mismatch', failing_input=True,
               what='base64 decode of %r: implementation returns %s, RFC 4648 (well-formed <-> accepted, bytes denoted) says %s' % (
                   s[:40].decode('utf-8', 'replace'), got[:60], want[:60]))


def rep_model(ctx, line, got, want):
    ctx.report({'part': PART, 'line': line if len(line) < 4000 else None}, 'model=' + got[:200], 'oracle=' + want[:200],
               cls='model-vs-oracle', failing_input=False, what='Coq model of base64.rs disagrees with the independent oracle')


def check_enc(ctx, items, with_model=True):
    """items: list of (bytes, tag)"""
    lines = ['b64enc ' + hx(b) for b, _ in items]
    if with_model:
        mo, io = ctx.both(lines)
    else:
        io = ctx.impl(lines)
        ctx.evaluations += len(lines)
        mo = [None] * len(lines)
    for (b, tag), a, r, line in zip(items, mo, io, lines):
        want = 'ok:' + base64.b64encode(b).decode()
        ctx.count('b64:enc:' + tag)
        if len(b) % 3:
            ctx.mark_nontrivial(('enc', b if len(b) < 64 else hash(b)))
        if r != want:
            rep_enc(ctx, b, r, line)
        if a is not None and a != want:
            rep_model(ctx, line, a, want)
    return io


def check_dec(ctx, items, with_model=True):
    """items: list of (text bytes — valid UTF-8, tag)"""
    lines = ['b64dec ' + hx(s) for s, _ in items]
    if with_model:
        mo, io = ctx.both(lines)
    else:
        io = ctx.impl(lines)
        ctx.evaluations += len(lines)
        mo = [None] * len(lines)
    for (s, tag), a, r, line in zip(items, mo, io, lines):
        ref = ref_decode(s)
        want = fmt_dec(ref)
        ctx.count('b64:dec:' + tag)
        ctx.count('b64:dec-outcome:' + ('ok' if ref is not None else 'err'))
        if ref is None or b'=' in s:
            ctx.mark_nontrivial(('dec', s if len(s) < 64 else hash(s)))
        py = py_decode(s)
        if fmt_dec(py) != want:
            # CPython's strict mode tolerates surplus '=' after the last quad ("rY4p==" -> 3 bytes); RFC 4648 does not.
            s2 = s.rstrip(b'=')
            s2 += b'=' * (-len(s2) % 4)
            if ref is None and py is not None and ref_decode(s2) == py:
                ctx.count('b64:cpython-tolerates-surplus-padding')
            else:
                ctx.report({'part': PART, 'text_hex': s.hex()}, 'ref=' + want, 'cpython=' + fmt_dec(py),
                           cls='oracle-vs-oracle', failing_input=False,
                           what='the bit-string reference decoder and CPython strict mode disagree (check driver problem)')
        if r != want:
            rep_dec(ctx, s, r, line)
        if a is not None and a != want:
            rep_model(ctx, line, a, want)
    return io


def mutate(rng, s):
    s = bytearray(s)
    k = rng.randrange(8)
    pos = rng.randrange(len(s) + 1)
    junk = b'=-_ \n@[`{*.,:%\x00\x7f'
    if k == 0 and s:
        del s[min(pos, len(s) - 1)]
    elif k == 1:
        s[pos:pos] = b'='
    elif k == 2:
        s[pos:pos] = bytes([rng.choice(junk)])
    elif k == 3 and s:
        s[min(pos, len(s) - 1)] = rng.choice(junk)
    elif k == 4:
        s[pos:pos] = rng.choice(['é', '€', '\U0001F600', 'ß']).encode()
    elif k == 5 and s:
        s = s[:rng.randrange(len(s))]
    elif k == 6 and s:
        s[min(pos, len(s) - 1)] = rng.choice(ALPH)
    else:
        s += b'=' * rng.randint(1, 3)
    return bytes(s)


def run(ctx):
    if ctx.replay:
        c = ctx.replay.get('case', {})
        if c.get('part') != PART:
            return
        line = c.get('line')
        if not line:
            ctx.notes.append('b64 replay: input too long to be stored; rerun the check with the recorded seed')
            return
        fn, arg = line.split(' ')
        data = bytes.fromhex(arg[1:])
        if fn == 'b64enc':
            check_enc(ctx, [(data, 'replay')])
        else:
            check_dec(ctx, [(data, 'replay')])
        return

    thorough = common.effective_tier(ctx, 'humphrey-ws/src/util/base64.rs') == 'thorough'
    rng = ctx.rng
    alphabet_check(ctx)

    # 0. corpus
    check_enc(ctx, [(b, 'corpus') for b in corpus(ctx, 'b64_encode.txt')])
    check_dec(ctx, [(s, 'corpus') for s in corpus(ctx, 'b64_decode.txt')])

    # 1. encode: every 1- and 2-byte input (exhaustive), random 3-byte groups, all lengths 0..64
    items = [(bytes([a]), 'all-1-byte') for a in range(256)]
    items += [(bytes([a, b]), 'all-2-byte') for a in range(256) for b in range(256)]
    items += [(rng.randbytes(3), 'random-3-byte') for _ in range(200000 if thorough else 20000)]
    per_len = 200 if thorough else 20
    for n in range(0, 65):
        items += [(rng.randbytes(n), 'len0-64') for _ in range(per_len)]
    enc_out = check_enc(ctx, items)
    ctx.exhaustive = True   # every 1- and 2-byte input

    # round trip on the implementation: decode(encode(b)) == b
    rt = [(b, o[3:].encode()) for (b, _), o in zip(items[256 + 65536:], enc_out[256 + 65536:]) if o.startswith('ok:')]
    rt = rt[::(1 if thorough else 4)]
    ro = ctx.impl(['b64dec ' + hx(s) for _, s in rt])
    ctx.evaluations += len(rt)
    for (b, s), r in zip(rt, ro):
        ctx.count('b64:roundtrip')
        if r != 'ok:h' + b.hex():
            ctx.report({'part': PART, 'line': 'b64dec ' + hx(s), 'bytes_hex': b.hex(), 'encoded': s.decode('latin1')},
                       'decode(encode(b))=' + r, 'ok:h' + b.hex(), cls='b64-roundtrip', failing_input=True,
                       what='decode does not invert encode: %s encodes to %r which decodes to %s' % (b.hex(), s.decode('latin1'), r))

    # 2. all 2^24 three-byte groups, 4096 groups per call (batch k = all groups whose first 12 bits are k)
    batches = list(range(4096)) if thorough else rng.sample(range(4096), 24)
    bitems = []
    for k in batches:
        hi = k >> 4
        mid_hi = (k & 15) << 4
        buf = bytearray()
        for low in range(4096):
            buf += bytes([hi, mid_hi | (low >> 8), low & 255])
        bitems.append((bytes(buf), 'groups-batch-4096'))
    model_batches = set(rng.sample(range(len(bitems)), 48 if thorough else 6))
    eo = check_enc(ctx, [bitems[i] for i in sorted(model_batches)], with_model=True)
    rest = [bitems[i] for i in range(len(bitems)) if i not in model_batches]
    eo2 = check_enc(ctx, rest, with_model=False)
    ctx.count('b64:enc:3-byte-groups-covered', 4096 * len(bitems))
    # decode the batches back: every all-alphabet 4-symbol group whose first two symbols are fixed by the batch
    texts = [(base64.b64encode(b), 'alphabet-groups-batch-4096') for b, _ in bitems]
    tm = [texts[i] for i in sorted(model_batches)][:(12 if thorough else 3)]
    check_dec(ctx, tm, with_model=True)
    check_dec(ctx, [t for t in texts if t not in tm], with_model=False)
    ctx.count('b64:dec:4-symbol-alphabet-groups-covered', 4096 * len(bitems))

    # 3. decode: every 4-symbol group over a reduced alphabet incl. padding and invalid symbols
    red = [b'A', b'B', b'Z', b'a', b'z', b'0', b'9', b'+', b'/', b'=',
           b'@', b'[', b'`', b'{', b':', b'.', b'-', b'_', b' ', b'\n', b'\x00', b'\x7f']
    if thorough:
        red += [b'Q', b'f', b'5', b'*', b',', b'%', b'~', b'\r', b'!', 'é'.encode()]
    groups = [b''.join(g) for g in itertools.product(red, repeat=4)]
    ditems = [(g, 'reduced-group-alone') for g in groups]
    ditems += [(g + b'Zm9v', 'reduced-group-then-valid') for g in groups]
    if thorough:
        ditems += [(b'Zm9v' + g, 'valid-then-reduced-group') for g in groups]
    else:
        ditems += [(b'Zm9v' + g, 'valid-then-reduced-group') for g in groups[::7]]
    check_dec(ctx, ditems)
    # ... and 4-symbol groups over the FULL alphabet plus padding (65^4 groups: sampled; the theorems cover all of them):
    # padded final groups with every symbol in front, padding in non-final positions
    full = ALPH + b'='
    fitems = []
    for _ in range(400000 if thorough else 20000 * ctx.scale):
        g = bytes(rng.choice(full) for _ in range(4))
        fitems.append((g, 'full-alphabet-group'))
    for a in ALPH:                                           # every xx== and xxx= final group
        for b2 in ALPH:
            fitems.append((bytes([a, b2]) + b'==', 'padded-2'))
            if thorough or (a + b2) % 5 == 0:
                fitems.append((bytes([a, b2, rng.choice(ALPH)]) + b'=', 'padded-1'))
    check_dec(ctx, fitems)

    # 4. malformed and near-valid strings
    mitems = []
    for n in range(0, 13):                                     # every length, all-alphabet
        for _ in range(40):
            mitems.append((bytes(rng.choice(ALPH) for _ in range(n)), 'length-%d-mod-4' % (n % 4)))
    for _ in range(60000 if thorough else 6000):
        b = rng.randbytes(rng.randint(0, 24))
        s = base64.b64encode(b)
        for _ in range(rng.randint(1, 2)):
            s = mutate(rng, s)
        try:
            s.decode('utf-8')
        except UnicodeDecodeError:
            continue
        mitems.append((s, 'mutated-valid'))
    for _ in range(20000 if thorough else 2000):               # non-zero trailing bits (lenient) and pure padding runs
        b = rng.randbytes(rng.choice([1, 2, 4, 5, 7, 8]))
        s = bytearray(base64.b64encode(b))
        i = len(s) - (2 if s.endswith(b'==') else 1) - 1
        s[i] = rng.choice(ALPH)
        mitems.append((bytes(s), 'trailing-bits'))
    for s in [b'=', b'==', b'===', b'====', b'=====', b'A=', b'A==', b'A===', b'AA=', b'AAA==', b'AA======',
              'Zm9é'.encode(), 'éé'.encode(), '\U0001F600'.encode(), b'Zm9v\n', b'Zm9v ', b' Zm9v', b'Zm 9v',
              b'Zm9vZg', b'Zm9vZg=', b'Zm9vZg===', b'Zm9vZ===', b'Zm=9', b'Z=m9', b'Zg==Zg==', b'Zm8=Zm8=']:
        mitems.append((s, 'handwritten-malformed'))
    check_dec(ctx, mitems)

    # 5. the extracted RFC 4648 specification itself vs CPython (guards the spec)
    sp = [rng.randbytes(rng.randint(0, 40)) for _ in range(400)]
    so = ctx.model(['b64enc_spec ' + hx(b) for b in sp])
    for b, a in zip(sp, so):
        ctx.count('b64:spec-encode-vs-cpython')
        if a != 'ok:' + base64.b64encode(b).decode():
            ctx.report({'part': PART, 'line': 'b64enc_spec ' + hx(b)}, 'spec=' + a, 'cpython=' + base64.b64encode(b).decode(),
                       cls='spec-vs-oracle', failing_input=False,
                       what='the extracted RFC 4648 specification (Base64Spec.encode_spec) disagrees with CPython')
    sd = [s for s, _ in mitems[::5]] + groups[::97]
    so = ctx.model(['b64dec_spec ' + hx(s) for s in sd])
    for s, a in zip(sd, so):
        ctx.count('b64:spec-decode-vs-reference')
        if a != fmt_dec(ref_decode(s)):
            ctx.report({'part': PART, 'line': 'b64dec_spec ' + hx(s)}, 'spec=' + a, 'reference=' + fmt_dec(ref_decode(s)),
                       cls='spec-vs-oracle', failing_input=False,
                       what='the extracted RFC 4648 specification (wfb/denote) disagrees with the reference decoder')

    # 6. extraction spot check: Coq's own vm_compute of the model vs the extracted OCaml model
    xe = [rng.randbytes(n) for n in (0, 1, 2, 3, 4, 5, 17)]
    xd = [b'', b'Zm9v', b'Zm8=', b'Zg==', b'+/+/', b'AB==', b'A', b'=AAA', b'AA=A', b'AA==AAAA', 'Zm9é'.encode(), rng.choice(mitems)[0]]
    exprs = ['Base64.encode ' + common.coq_list(b) for b in xe] + ['Base64.decode ' + common.coq_list(t) for t in xd]
    got, err = common.coq_cases(ctx, PART, ['Prelude', 'Base64'], exprs)
    ext = ctx.model(['b64enc ' + hx(b) for b in xe] + ['b64dec ' + hx(t) for t in xd])
    ext = [('ok:' + e[3:].encode('latin1').hex()) if (i < len(xe) and e.startswith('ok:')) else e.replace('ok:h', 'ok:')
           for i, e in enumerate(ext)]
    if got is None or len(got) != len(exprs):
        ctx.report({'part': PART, 'coqc': err}, 'coqc failed on the generated cases file', 'vm_compute results', cls='coq-cases',
                   failing_input=False, what='in-Coq evaluation of the Base64 model failed (extraction spot check could not run)')
    else:
        for e, a, b in zip(exprs, got, ext):
            ctx.count('b64:extraction-spot-check')
            if a != b:
                ctx.report({'part': PART, 'expr': e[:200]}, 'extracted=' + b, 'vm_compute=' + a, cls='extraction',
                           failing_input=False, what='the extracted OCaml Base64 model and Coq vm_compute disagree')

    ctx.sample({'part': PART, 'encode': items[300][0].hex(), 'gives': base64.b64encode(items[300][0]).decode()})
    ctx.sample({'part': PART, 'decode': ditems[12345][0].decode('latin1'), 'gives': fmt_dec(ref_decode(ditems[12345][0]))})
    ctx.sample({'part': PART, 'decode': mitems[700][0].decode('utf-8', 'replace'), 'gives': fmt_dec(ref_decode(mitems[700][0]))})
