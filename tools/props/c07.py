"""C07 — responses serialise to valid HTTP and parse back; the response parser returns what a conforming server sent
(Content-Length and chunked, every chunking, every read segmentation); Set-Cookie rendering; client redirects."""
import itertools
import re
from hv import hx
from props import httpgen as G

RULE = ('responses over every modelled status code x 0..40 headers (repeated names, Set-Cookie with every attribute '
        'combination) x bodies 0..64 KiB: serialise (impl vs model vs strict reference grammar), parse(serialise) round trip, '
        'server responses framed by Content-Length or chunked coding (all compositions of bodies <= 6 bytes, random above) '
        'under read plans (all-at-once, byte-wise, split points, random); non-trivial = has a body and >= 1 header')
ASSUMPTIONS = ['conforming servers send no chunk extensions or trailers (outside the property quantifier)',
               ]

TOKEN = re.compile(rb"^[!#$%&'*+\-.^_`|~0-9A-Za-z]+$")


def strict_parse_response(b):
    """Independent strict reference parser of one HTTP/1.x response head: returns (version, code, phrase, headers, rest)
    or raises ValueError when the bytes are not a syntactically valid message head."""
    head, sep, rest = b.partition(b'\r\n\r\n')
    if not sep:
        raise ValueError('no blank line')
    lines = head.split(b'\r\n')
    m = re.match(rb'^(HTTP/1\.[01]) ([0-9]{3}) ([^\r\n]*)$', lines[0])
    if not m:
        raise ValueError('bad status line %r' % lines[0])
    hs = []
    for ln in lines[1:]:
        n, c, v = ln.partition(b':')
        if not c or not TOKEN.match(n):
            raise ValueError('bad header line %r' % ln)
        if b'\r' in v or b'\n' in v:
            raise ValueError('bare CR/LF in value')
        hs.append((n, v.strip(b' \t')))
    return m.group(1), int(m.group(2)), m.group(3), hs, rest


def gen_setcookies(rng, thorough):
    names = ['id', 'a']
    vals = ['1', 'x y', 'é']
    for name in names:
        for value in vals:
            for exp, ma, dom, path, sec, ho, ss in itertools.product(
                    [None, 'Wed, 21 Oct 2015 07:28:00 GMT'], [None, 0, 3600, 2**40], [None, 'example.com'], [None, '/', '/a b'],
                    [False, True], [False, True], [None, 0, 1, 2]):
                if not thorough and rng.random() > 0.12:
                    continue
                yield (name, value, exp, ma, dom, path, sec, ho, ss)


def expected_setcookie(c):
    name, value, exp, ma, dom, path, sec, ho, ss = c
    v = '%s=%s' % (name, value)
    if exp is not None:
        v += '; Expires=' + exp
    if ma is not None:
        v += '; Max-Age=%d' % ma
    if dom is not None:
        v += '; Domain=' + dom
    if path is not None:
        v += '; Path=' + path
    if ss is not None:
        v += '; SameSite=' + ['Strict', 'Lax', 'None'][ss]
    if sec:
        v += '; Secure'
    if ho:
        v += '; HttpOnly'
    return v


def run(ctx):
    from props import c07_client
    global RULE
    if 'client:' not in RULE:
        RULE = RULE + ' | client: ' + c07_client.RULE
        ASSUMPTIONS.extend(a for a in c07_client.ASSUMPTIONS if a not in ASSUMPTIONS)
    c07_client.run(ctx)
    if ctx.replay and ctx.replay['case'].get('line', '').startswith('redirect '):
        return
    rng = ctx.rng
    thorough = ctx.tier == 'thorough'
    lines, meta = [], []
    if ctx.replay:
        lines = [ctx.replay['case']['line']]
        meta = [('replay', None)]
    n = 0 if ctx.replay else (20000 if thorough else 1200 * ctx.scale)
    # --- serialisation + round trip ---
    for i in range(n):
        code = G.STATUS[i % len(G.STATUS)]
        hs = G.rand_resp_headers(rng, 40 if rng.random() < 0.1 else 10)
        big = thorough and rng.random() < 0.02
        body = bytes(rng.getrandbits(8) for _ in range(rng.choice([0, 0, 1, 5, rng.randint(0, 65536 if big else 300)])))
        version = rng.choice(['HTTP/1.1', 'HTTP/1.1', 'HTTP/1.0'])
        with_cl = rng.random() < 0.7
        hs2 = list(hs)
        if with_cl:
            hs2.insert(rng.randint(0, len(hs2)), ('Content-Length', str(len(body))))
        harg = ','.join('%s:%s' % (hx(k), hx(v)) for k, v in hs2) or '-'
        lines.append('resp_ser %s %d %s %s' % (hx(version), code, harg, hx(body)))
        meta.append(('ser', (version, code, hs2, body, with_cl)))
    # --- parsing what a conforming server sends ---
    def server_cases():
        for i in range(n):
            code = G.STATUS[(i * 7) % len(G.STATUS)]
            hs = G.rand_resp_headers(rng, 40 if rng.random() < 0.1 else 10)
            big = thorough and rng.random() < 0.02
            body = bytes(rng.getrandbits(8) for _ in range(rng.choice([0, 1, 3, 6, rng.randint(0, 70000 if big else 300)])))
            yield code, hs, body, None
        # exhaustive chunkings of short bodies
        for blen in range(0, 7 if thorough else 6):
            body = bytes(rng.getrandbits(8) for _ in range(blen))
            for comp in G.compositions(blen):
                yield 200, [('Content-Type', 'text/plain')], body, comp
    for code, hs, body, comp in (server_cases() if not ctx.replay else []):
        version = rng.choice(['HTTP/1.1', 'HTTP/1.0'])
        framing = 'chunked' if comp is not None else rng.choice(['cl', 'chunked', 'none'])
        head = ('%s %d %s\r\n' % (version, code, G.PHRASES[code])).encode()
        hlist = list(hs)
        if framing == 'cl':
            hlist.insert(rng.randint(0, len(hlist)), (G.rand_case(rng, 'Content-Length'), str(len(body))))
            payload = body
            exp_h = [(k.lower().encode(), v.encode()) for k, v in hlist]
            exp_body = body
        elif framing == 'chunked':
            hlist.insert(rng.randint(0, len(hlist)), (G.rand_case(rng, 'Transfer-Encoding'), 'chunked'))
            payload, sizes = G.chunked_encode(rng, body, comp)
            exp_h = [(k.lower().encode(), v.encode()) for k, v in hlist if k.lower() != 'transfer-encoding'] + \
                [(b'content-length', str(len(body)).encode())]
            exp_body = body
        else:
            payload = b''
            exp_h = [(k.lower().encode(), v.encode()) for k, v in hlist]
            exp_body = b''
        for k, v in hlist:
            head += ('%s: %s\r\n' % (k, v)).encode()
        data = head + b'\r\n' + payload
        den = {'v': version.encode(), 'code': code, 'h': exp_h, 'b': exp_body}
        every = comp is not None and len(data) < 90 and rng.random() < 0.15
        for plan in G.chunk_plans(rng, data, every_split=every, nrandom=2):
            lines.append('resp_parse %s' % G.plan_arg(plan))
            meta.append(('parse', (den, framing, data)))
    # --- Set-Cookie ---
    for c in ([] if ctx.replay else gen_setcookies(rng, thorough)):
        name, value, exp, ma, dom, path, sec, ho, ss = c
        o = lambda s: 'none' if s is None else hx(s)
        lines.append('setcookie %s %s %s %s %s %s %d %d %s' % (hx(name), hx(value), o(exp), 'none' if ma is None else ma,
                                                               o(dom), o(path), int(sec), int(ho), 'none' if ss is None else ss))
        meta.append(('setcookie', c))
    # --- Response::with_cookie: each cookie is its own Set-Cookie line, in the order added, among the other headers ---
    for i in range(0 if ctx.replay else (3000 if thorough else 200 * ctx.scale)):
        items, want = [], []
        for k in range(rng.randint(1, 6)):
            if rng.random() < 0.6:
                n_, v_, sec = rng.choice(['id', 'a', 'sid']), rng.choice(['1', 'x y', 'v%d' % k]), rng.random() < 0.3
                items.append('c:%s:%s:%d' % (hx(n_), hx(v_), int(sec)))
                want.append((b'set-cookie', ('%s=%s%s' % (n_, v_, '; Secure' if sec else '')).encode()))
            else:
                hn, hv = rng.choice(['X-A', 'Vary', 'Content-Type']), 'h%d' % k
                items.append('h:%s:%s' % (hx(hn), hx(hv)))
                want.append((hn.lower().encode(), hv.encode()))
        body = b'body' if rng.random() < 0.5 else b''
        lines.append('resp_ser_ck 200 %s %s' % (','.join(items), hx(body)))
        meta.append(('serck', (want, body)))
    m, im = ctx.both(lines)
    rt_lines, rt_meta = [], []
    for line, (kind, info), a, b in zip(lines, meta, m, im):
        ctx.count('kind:' + kind)
        if a != b:
            failing, what = False, 'implementation and model differ'
            if kind == 'parse':
                den, framing, data = info
                got = G.parse_show_resp(b)
                if got != den and not _same_resp(den, got):
                    failing, what = True, 'parsed response differs from what the server sent (%s framing)' % framing
            if kind == 'ser':
                try:
                    _check_ser(info, bytes.fromhex(b))
                except ValueError as e:
                    failing, what = True, 'serialised response is not the valid message for its fields: %s' % e
            if kind == 'setcookie':
                failing = bytes.fromhex(b.split(':')[1]).decode('utf-8', 'replace') != expected_setcookie(info)
                what = 'Set-Cookie header differs from the attribute list'
            ctx.report({'line': line, 'kind': kind}, b[:600], a[:600], cls='resp-mismatch', failing_input=failing, what=what)
            continue
        if kind == 'serck':
            want, body = info
            try:
                v, c, phrase, hs, rest = strict_parse_response(bytes.fromhex(b))
            except ValueError as e:
                ctx.report({'line': line, 'kind': kind}, b[:600], 'valid HTTP/1.1 message', cls='resp-invalid', failing_input=True,
                           what='response built with with_cookie does not serialise to a valid message: %s' % e)
                continue
            got = [(k.lower(), val) for k, val in hs]
            if sorted(got) != sorted(want) or not _same_header_groups(want, got) or rest not in (body, body + b'\r\n'):
                ctx.report({'line': line, 'kind': kind}, repr(got)[:400], repr(want)[:400], cls='resp-cookie-lines', failing_input=True,
                           what='one Set-Cookie line per cookie, in the order added, is expected')
            elif sum(1 for k, _ in want if k == b'set-cookie') >= 2:
                ctx.mark_nontrivial(line)
            continue
        if kind == 'ser':
            version, code, hs2, body, with_cl = info
            try:
                _check_ser(info, bytes.fromhex(b))
            except ValueError as e:
                ctx.report({'line': line, 'kind': kind}, b[:600], 'valid HTTP/1.1 message', cls='resp-invalid', failing_input=True,
                           what='serialised response is not the valid message for its fields: %s' % e)
                continue
            if body and hs2:
                ctx.mark_nontrivial(line)
            if with_cl or not body:
                rt_lines.append('resp_parse %s' % hx(bytes.fromhex(b)))
                rt_meta.append(info)
        elif kind == 'parse':
            den, framing, data = info
            got = G.parse_show_resp(b)
            if not _same_resp(den, got):
                ctx.report({'line': line, 'kind': kind, 'framing': framing}, b[:600], repr(den)[:600], cls='resp-unfaithful',
                           failing_input=True, what='parsed response differs from what the server sent (%s framing)' % framing)
            ctx.count('framing:' + framing)
            if den['b'] and den['h']:
                ctx.mark_nontrivial(data)
        elif kind == 'setcookie':
            val = bytes.fromhex(b.split(':')[1]).decode('utf-8', 'replace')
            if val != expected_setcookie(info) or bytes.fromhex(b.split(':')[0]) != b'Set-Cookie':
                ctx.report({'line': line, 'kind': kind}, val, expected_setcookie(info), cls='setcookie', failing_input=True,
                           what='Set-Cookie header differs from the attribute list')
    # round trip: parse(serialise r) ≈ r
    m2, im2 = ctx.both(rt_lines)
    for line, info, a, b in zip(rt_lines, rt_meta, m2, im2):
        version, code, hs2, body, with_cl = info
        den = {'v': version.encode(), 'code': code, 'h': [(k.lower().encode(), v.encode()) for k, v in hs2], 'b': body}
        got = G.parse_show_resp(b)
        ok = ('err' not in got and 'other' not in got and got['v'] == den['v'] and got['code'] == code and got['b'] == body
              and _same_header_groups(den['h'], got['h']))
        if a != b or not ok:
            ctx.report({'line': line, 'kind': 'roundtrip'}, b[:600], repr(den)[:600], cls='resp-roundtrip', failing_input=not ok,
                       what='parse(serialise(response)) differs from the response')
        ctx.count('kind:roundtrip')
    for k in (1, len(lines) // 2, len(lines) - 1):
        if 0 <= k < len(lines):
            ctx.sample({'case': lines[k][:300], 'model': m[k][:200], 'impl': im[k][:200]})


def _same_header_groups(dh, gh):
    names = set(n for n, _ in dh) | set(n.lower() for n, _ in gh)
    for n in names:
        if [v for k, v in dh if k == n] != [v for k, v in gh if k.lower() == n]:
            return False
    return True


def _same_resp(den, got):
    if 'err' in got or 'other' in got:
        return False
    return (got['v'] == den['v'] and got['code'] == den['code'] and got['b'] == den['b'] and
            [(k.lower(), v) for k, v in got['h']] == den['h'])


def _check_ser(info, ser):
    """the serialisation must be a valid message carrying exactly these fields (known finding F32: a non-empty body is
    followed by one CRLF outside Content-Length — accepted here, reported by C01 where framing matters)"""
    version, code, hs2, body, with_cl = info
    v, c, phrase, hs, rest = strict_parse_response(ser)
    if v != version.encode() or c != code:
        raise ValueError('status line fields')
    if phrase != G.PHRASES[code].encode():
        raise ValueError('reason phrase %r is not the registered phrase for %d' % (phrase, code))
    want = [(k.lower().encode(), val.encode()) for k, val in hs2]
    got = [(k.lower(), val) for k, val in hs]
    if sorted(want) != sorted(got) or not _same_header_groups(want, got):
        raise ValueError('header lines differ')
    if rest != body and rest != body + b'\r\n':
        raise ValueError('body differs')
    if not body and rest:
        raise ValueError('bytes after an empty body')
