"""C14 — typed JSON mapping (derive / json_map! / traits.rs) and the json! macro: model (proved: round trip iff lossless, shape,
macro sound on the literal grammar) vs the implementation.

The "programs" quantifier is met by generating programs: tools/gen_programs.py writes a crate of random type declarations
(derive with #[rename], json_map!, tuple structs, enums), random values, random JSON inputs for from_json and random json!
literals; the crate is compiled against the working tree ($HV_REPO) and its output is compared, case by case, with the
extracted Coq model run on the same declarations / values / token trees, and with the property itself (round trip equality and
macro value == Value::parse(equivalent text), both computed by the generated program).  What needs no code generation (the
impls of traits.rs for the primitive types under Option / Vec, a fixed set of hand-written derived types) is driven through
the harness (harness/src/c14.rs) in much larger numbers."""
import hashlib
import json
import os
import re
import shutil
import subprocess
import sys
import time

import hv
from hv import hx

sys.path.insert(0, os.path.join(hv.V, 'tools'))
import gen_programs as gp  # noqa: E402

RULE = ('corpus (F03 / F26 / F27 witnesses and their siblings) -> complete enumeration of the small domains: every u8 / i8 / bool / '
        'Option<bool> / Option<Option<bool>> value through to_json and from_json(to_json), from_json of every multiple of 0.5 in '
        '[-300, 300] for u8 / i8, every integer type at every boundary (lo, hi, 0, +-2^53, 2^bits, ..) with offsets -2..2 in steps '
        'of 0.5 and the special doubles (NaN, +-inf, -0, subnormal, max) -> random values of the 16 primitive types under 8 '
        'Option / Vec shapes and of 7 fixed hand-written derived / json_map! types (renames with quotes, backslashes, non-ASCII, '
        'JSON-special characters, empty; raw identifiers; documented fields), random JSON inputs to from_json of the same types '
        '(wrong kinds, missing / extra / duplicate / reordered keys, out-of-range / fractional / non-finite numbers), all through '
        'the harness -> generated programs (tools/gen_programs.py): per crate 40 type declarations in programs of 1..6 types '
        '(named struct 1..8 fields via derive or json_map!, tuple struct 1..6, enum 1..8 unit variants; field types bool / 12 '
        'integer types / f64 / f32 / String / Option / Vec / earlier types; identifiers incl. raw and non-ASCII), 300 values, 150 '
        'from_json inputs, 300 json! literals (null / arrays / objects / ~60 kinds of Rust expressions incl. calls with commas, '
        'turbofish, closures, match, struct literals of the generated types, nested json!, a shadowed `null` variable; string / '
        'identifier / parenthesised / numeric keys; trailing commas; nesting up to 6) and 60 token-level mutants outside the '
        'grammar (classified by the model: accepted ones are compiled and compared, rejected ones must fail to compile at their '
        'line). quick: 1 crate (+2 when an anchored source changed); thorough: 20 crates. Compared: canonical dumps of to_json(v), '
        'from_json(to_json v), from_json(j), json!(..) (numbers as f64 bits, strings as UTF-8, members in order) between model '
        'and program; property oracle computed by the program itself: round trip == v (Debug-independent dump and PartialEq), '
        'the same through to_string / from_str, macro value == Value::parse(equivalent RFC 8259 text). programs = type '
        'declarations + literals compiled. non-trivial = value of a generated struct / tuple / enum type, or literal with nesting '
        '>= 2 or containing null before further elements')
ASSUMPTIONS = [
    'f64 / f32 are abstract in the theorems (Section variables of_int, f2z, widen, narrow); used hypotheses: f2z (of_int z) = z '
    'for |z| <= 2^53, narrow (widen x) = x. The run instantiates them with IEEE doubles in the OCaml driver (strtod for `as f64`, '
    'trunc + exact %.0f for the integer part, C float conversion for `as f32`) and compares every cast with rustc\'s',
    '`x as iN / uN` on a double saturates and maps NaN to 0 (Rust >= 1.45): modelled as clamp (f2z x)',
    'an expression inside json! is abstracted to the value of Value::from(expr) (TExpr); what the Rust parser accepts as one '
    'expression is not modelled - assumptions: it does not begin with `null`, `[`, `{`, `,` and, if it has several token trees, '
    'its second token is not `:` (true of everything the generator emits; checked by compiling it)',
    'a macro invocation for which no arm matches, or whose expansion does not type-check, is a compile error and therefore not a '
    'value: the property is about literals of the JSON grammar (with trailing commas); the macro accepts a superset (commas may be '
    'omitted after null / arrays / objects or repeated), also modelled and compared',
    'macro_rules! recursion: one level per array element / object member; literals with more than ~120 elements at one level hit '
    'rustc\'s default recursion_limit (compile error, outside the model)',
    'strings are valid UTF-8 (Rust String / &str): lists of Unicode scalar values',
    'wf_ty: the JSON names of the fields of a struct are pairwise distinct, so are the variant names of an enum (with duplicates '
    'Value::get returns the first member and match takes the first arm: modelled and compared, but outside the theorem)',
    'text round trip (to_string / from_str) is compared only for values without NaN / infinities (C13: serialisable = finite)',
]
TRUSTED_EXTRA = [
    'ocaml/d_c14.ml instantiates the abstract float types with OCaml floats and supplies the four casts (glibc strtod / printf, '
    'C double<->float conversion)',
    'tools/gen_programs.py renders one abstract case as Rust source, as model request and (literals) as RFC 8259 text; the '
    'program prints a dump of every value it constructed, which is compared with the generator\'s own encoding',
    'rustc / cargo (macro expansion, proc-macro execution, syn / quote) compile the generated programs',
]

WORK = os.path.join(hv.V, 'work', 'c14')
FPR_FILE = os.path.join(hv.V, 'tools/props/c14_fingerprints.json')
ANCHORS = ['humphrey-json/src/macros.rs', 'humphrey-json/src/traits.rs', 'humphrey-json/src/indexing.rs',
           'humphrey-json-derive/src/lib.rs', 'humphrey-json-derive/src/named_struct.rs',
           'humphrey-json-derive/src/tuple_struct.rs', 'humphrey-json-derive/src/enum_type.rs']


# ---------------------------------------------------------------------------------------------------
# builds of generated crates, cached by content

def drifted():
    try:
        known = json.load(open(FPR_FILE))
    except (OSError, ValueError):
        known = {}
    out = []
    for rel in ANCHORS:
        try:
            cur = hashlib.sha256(open(os.path.join(hv.REPO, rel), 'rb').read()).hexdigest()
        except OSError:
            cur = 'missing'
        if known.get(rel) != cur:
            out.append(rel)
    return out


_FPR = None


def repo_fingerprint():
    """Hash of everything the generated crates compile against: the two JSON crates of the working tree and the compiler."""
    global _FPR
    if _FPR is not None:
        return _FPR
    h = hashlib.sha256()
    for top in ('humphrey-json', 'humphrey-json-derive'):
        base = os.path.join(hv.REPO, top)
        files = []
        for root, dirs, fs in os.walk(base):
            dirs[:] = sorted(d for d in dirs if d not in ('target', 'testcases'))
            for f in sorted(fs):
                if f.endswith('.rs') or f == 'Cargo.toml':
                    files.append(os.path.join(root, f))
        for p in sorted(files):
            h.update(os.path.relpath(p, hv.REPO).encode())
            h.update(b'\0')
            h.update(open(p, 'rb').read())
            h.update(b'\0')
    try:
        h.update(subprocess.run(['rustc', '-V'], stdout=subprocess.PIPE).stdout)
    except OSError:
        pass
    _FPR = h.hexdigest()
    return _FPR


def lockfile():
    for p in (os.path.join(hv.REPO, 'Cargo.lock'), os.path.join(hv.V, 'harness', 'Cargo.lock'), '/repo/Cargo.lock'):
        if os.path.exists(p):
            return p
    return None


def prune_cache(keep=400):
    d = os.path.join(WORK, 'cache')
    try:
        ents = sorted((os.path.getmtime(os.path.join(d, e)), e) for e in os.listdir(d))
    except OSError:
        return
    for _, e in ents[:-keep]:
        shutil.rmtree(os.path.join(d, e), ignore_errors=True)


def build_crate(slot, name, src, toml, check_only=False):
    """Compile (or `cargo check`) a generated crate. Returns dict(ok, out, bin, cached, secs).
    Cache key = generated source + manifest + fingerprint of the JSON crates in $HV_REPO + rustc version: an unchanged tree is
    not recompiled, any change to the repository sources is."""
    key = hashlib.sha256(('\0'.join([src, toml, repo_fingerprint(), 'check' if check_only else 'build'])).encode()).hexdigest()[:32]
    cdir = os.path.join(WORK, 'cache', key)
    res = {'ok': False, 'out': '', 'bin': None, 'cached': False, 'secs': 0.0, 'key': key}
    if os.path.exists(os.path.join(cdir, 'done')):
        res['cached'] = True
        res['out'] = open(os.path.join(cdir, 'out.txt'), encoding='utf-8', errors='replace').read()
        res['ok'] = os.path.exists(os.path.join(cdir, 'ok'))
        if res['ok'] and not check_only:
            res['bin'] = os.path.join(cdir, 'prog')
        os.utime(cdir, None)
        return res
    t0 = time.time()
    bdir = os.path.join(WORK, 'build_%s' % slot)
    os.makedirs(os.path.join(bdir, 'src'), exist_ok=True)
    open(os.path.join(bdir, 'src', 'main.rs'), 'w', encoding='utf-8').write(src)
    open(os.path.join(bdir, 'Cargo.toml'), 'w').write(toml)
    lf = lockfile()
    if lf:
        shutil.copyfile(lf, os.path.join(bdir, 'Cargo.lock'))
    tdir = os.path.join(WORK, 'target_%s' % slot)
    env = {'CARGO_TARGET_DIR': tdir, 'RUSTFLAGS': '-A warnings'}
    cmd = 'cargo %s --offline --message-format=json 2>&1' % ('check' if check_only else 'build')
    rc, out = hv.sh(cmd, cwd=bdir, env=env, timeout=1500)
    if rc != 0 and 'Cargo.lock' in out and lf:
        os.remove(os.path.join(bdir, 'Cargo.lock'))
        rc, out = hv.sh(cmd, cwd=bdir, env=env, timeout=1500)
    res['secs'] = time.time() - t0
    res['out'] = out
    res['ok'] = rc == 0
    os.makedirs(cdir, exist_ok=True)
    open(os.path.join(cdir, 'out.txt'), 'w', encoding='utf-8').write(out)
    open(os.path.join(cdir, 'main.rs'), 'w', encoding='utf-8').write(src)
    if rc == 0:
        if not check_only:
            shutil.copyfile(os.path.join(tdir, 'debug', name), os.path.join(cdir, 'prog'))
            os.chmod(os.path.join(cdir, 'prog'), 0o755)
            res['bin'] = os.path.join(cdir, 'prog')
        open(os.path.join(cdir, 'ok'), 'w').write('')
    open(os.path.join(cdir, 'done'), 'w').write('')
    return res


def _site_in_main(span):
    """Follow the macro expansion backtrace of a diagnostic span to the line of src/main.rs it comes from."""
    seen = 0
    while span is not None and seen < 64:
        if span.get('file_name', '').endswith('src/main.rs'):
            return span.get('line_start')
        exp = span.get('expansion')
        span = exp.get('span') if exp else None
        seen += 1
    return None


def error_lines(out):
    """(line of src/main.rs, message) for every compiler error in cargo's JSON diagnostics; an error raised inside the
    expansion of a library macro (e.g. `$key.to_string()` in macros.rs) is attributed to the invocation in src/main.rs."""
    res = []
    for line in out.split('\n'):
        if not line.startswith('{'):
            continue
        try:
            d = json.loads(line)
        except ValueError:
            continue
        m = d.get('message') if d.get('reason') == 'compiler-message' else None
        if not m or m.get('level') != 'error':
            continue
        spans = sorted(m.get('spans') or [], key=lambda sp: not sp.get('is_primary'))
        site = None
        for sp in spans:
            site = _site_in_main(sp)
            if site is not None:
                break
        if site is not None:
            res.append((site, m.get('message', '')))
    return res


def rendered_errors(out, limit=1500):
    txt = []
    for line in out.split('\n'):
        if line.startswith('{'):
            try:
                d = json.loads(line)
            except ValueError:
                continue
            m = d.get('message') if d.get('reason') == 'compiler-message' else None
            if m and m.get('level') == 'error' and m.get('rendered'):
                txt.append(m['rendered'])
        elif line.strip():
            txt.append(line)
    return '\n'.join(txt)[-limit:]


def case_of_line(src, line):
    """The case function (kind letter, k) enclosing a source line, or ('decl', module) / None."""
    lines = src.split('\n')
    for j in range(min(line, len(lines)) - 1, -1, -1):
        m = re.match(r'fn case_([vjlm])(\d+)\(', lines[j])
        if m:
            return (m.group(1).upper(), int(m.group(2)))
        m = re.match(r'pub mod (p\d+) \{', lines[j])
        if m:
            return ('decl', m.group(1))
        if re.match(r'fn main\(\)', lines[j]):
            return None
    return None


# ---------------------------------------------------------------------------------------------------
# the fixed types of harness/src/c14.rs, as generator declarations

def _int(name):
    for n, b, s in gp.INT_TYPES:
        if n == name:
            return gp.T_prim('int', rust=n, bits=b, signed=s)
    raise KeyError(name)


def _fixed_types():
    def ref(d):
        return {'k': 'ref', 'decl': d}

    def opt(t):
        return {'k': 'opt', 't': t}

    def vec(t):
        return {'k': 'vec', 't': t}
    he1 = gp.Decl('h', 'HE1', 'enum')
    he1.variants = [('A', None), ('B', 'b c'), ('r#C', None), ('D', 'A '), ('E', 'é"\\\n{}[],:\U0001F600')]
    ht1 = gp.Decl('h', 'HT1', 'tuple')
    ht1.fields = [_int('u8')]
    ht2 = gp.Decl('h', 'HT2', 'tuple')
    ht2.fields = [_int('i64'), opt(gp.T_prim('bool'))]
    ht6 = gp.Decl('h', 'HT6', 'tuple')
    ht6.fields = [_int('u8'), _int('i16'), gp.T_prim('f64'), gp.T_prim('string'), opt(ref(he1)), vec(ref(ht1))]
    hs1 = gp.Decl('h', 'HS1', 'struct')
    hs1.fields = [('a', None, _int('i32')), ('b', 'b "q" \\ é\U0001F600\n', opt(gp.T_prim('string'))), ('c', '', vec(ref(he1))),
                  ('r#type', None, gp.T_prim('bool')), ('d', None, ref(ht2)), ('e', '{}[],:', _int('u64'))]
    hm1 = gp.Decl('h', 'HM1', 'map')
    hm1.fields = [('x', 'the x', _int('u64')), ('y', 'key of y', opt(vec(gp.T_prim('f32')))), ('z', 'z', _int('i128'))]
    hn = gp.Decl('h', 'HN', 'struct')
    hn.fields = [('inner', None, ref(hs1)), ('list', None, vec(ref(hm1))), ('opt', None, opt(ref(ht6))),
                 ('oo', None, opt(opt(_int('u8')))), ('inner2', 'inner ', opt(ref(hs1)))]
    return {d.name: ref(d) for d in (he1, ht1, ht2, ht6, hs1, hm1, hn)}


FIXED = _fixed_types()
PRIMS = {'bool': gp.T_prim('bool'), 'f64': gp.T_prim('f64'), 'f32': gp.T_prim('f32'), 'string': gp.T_prim('string')}
for _n, _b, _s in gp.INT_TYPES:
    PRIMS[_n] = gp.T_prim('int', rust=_n, bits=_b, signed=_s)
SHAPES = ['', 'o', 'v', 'vo', 'ov', 'oo', 'vv', 'ovo']


def shaped(shape, t):
    for c in reversed(shape):
        t = {'k': 'opt', 't': t} if c == 'o' else {'k': 'vec', 't': t}
    return t


def hname(shape, base):
    return '%s:%s' % (shape, base) if shape else base


# ---------------------------------------------------------------------------------------------------
# reporting helpers

def report(ctx, case, observed, expected, cls=None, failing_input=True, what=''):
    ctx.report(case, observed, expected, cls=cls, failing_input=failing_input, what=what)


def check_value_case(ctx, case, t, v, impl_json, impl_rt, model_tj, model_rt, wf, text_rt=None, eqflag=None):
    """One value through to_json / from_json on both sides + the property. impl_rt / model_rt: 'ok <dump>' | 'err'."""
    enc = gp.enc_val(t, v)
    if impl_json != model_tj:
        report(ctx, case, 'to_json(v) = ' + impl_json[:300], 'model (documented shape): ' + model_tj[:300], cls='to_json-mismatch',
               failing_input=True, what='to_json differs from the model whose shape is proved (object keyed by name / rename in '
               'declaration order, array for tuple structs, string for variants)')
        return
    if impl_rt != model_rt:
        report(ctx, case, 'from_json(to_json v) = ' + impl_rt[:300], 'model: ' + model_rt[:300], cls='from_json-mismatch',
               failing_input=(impl_rt != 'ok ' + enc), what='from_json(to_json v) differs from the model')
        return
    if not wf:
        ctx.count('value:not-wf (duplicate names; model vs impl only)')
        return
    if impl_rt == 'ok ' + enc:
        ctx.count('value:roundtrip-ok')
        if eqflag == 'ne' and not gp.has_nonfinite(t, v):
            report(ctx, case, 'PartialEq says ne, dumps equal', 'eq', cls='partialeq', failing_input=False,
                   what='round-tripped value prints the same dump but compares unequal')
    else:
        lossy = gp.lossy_positions(t, v)
        exp = gp.enc_val(t, gp.expected_after_roundtrip(t, v))
        if lossy and impl_rt == 'ok ' + exp:
            for cls in sorted(set(c for c, _, _ in lossy)):
                pos = [(p, d) for c, p, d in lossy if c == cls]
                ctx.count('value:known-loss ' + cls)
                report(ctx, dict(case, lossy_at=pos[:4]), 'from_json(to_json v) = ' + impl_rt[:200], 'v = ' + enc[:200], cls=cls,
                       failing_input=True, what='%s at %s' % (cls, pos[0]))
        else:
            report(ctx, case, 'from_json(to_json v) = ' + impl_rt[:300], 'ok ' + enc[:300], cls='typed-roundtrip', failing_input=True,
                   what='converting the value to JSON and back does not yield the original value')
        return
    if text_rt is not None:
        if gp.has_nonfinite(t, v):
            ctx.count('value:text-roundtrip-skipped (NaN/inf)')
        elif text_rt != impl_rt:
            report(ctx, case, 'from_str(to_string v) = ' + text_rt[:300], impl_rt[:300], cls='typed-text-roundtrip',
                   failing_input=True, what='to_string then from_str does not yield the value that to_json / from_json yield')
        else:
            ctx.count('value:text-roundtrip-ok')


# ---------------------------------------------------------------------------------------------------
# stream 1: harness-driven (no code generation)

def boundary_ints(bits, signed):
    lo, hi = gp.int_range(bits, signed)
    cands = {lo, lo + 1, lo + 2, -1, 0, 1, 2, hi - 2, hi - 1, hi}
    for e in (7, 8, 15, 16, 31, 32, 52, 53, 54, 62, 63, 64, 100, 126, 127, 128):
        for d in (-3, -2, -1, 0, 1, 2, 3, 1024, 1025, -1025):
            cands.add((1 << e) + d)
            cands.add(-(1 << e) + d)
    return sorted(x for x in cands if lo <= x <= hi)


def cast_inputs(bits, signed):
    lo, hi = gp.int_range(bits, signed)
    out = set()
    for base in (lo, hi, 0, 1 << 53, -(1 << 53), 1 << bits, -(1 << bits), 1 << (bits - 1), 255, 256, -128, -129):
        for off in (-2, -1.5, -1, -0.5, 0, 0.5, 1, 1.5, 2, 1024, -1024):
            try:
                out.add(gp.f64_bits(float(base) + off))
                out.add(gp.f64_bits(float(base + int(off * 2) // 2)))
            except OverflowError:
                pass
    out.update(gp.F64_SPECIAL + gp.F64_NONFINITE + [0xfff8000000000000, 0x7ff0000000000001, 0x7fefffffffffffff, 0x47efffffe0000000,
                                                    0x47f0000000000000, 0x43e0000000000000, 0xc3e0000000000000, 0x43f0000000000000])
    return sorted(out)


def harness_stream(ctx, thorough, replay_case=None):
    rng = ctx.rng
    cases = []   # (kind, tyname, type, payload, line)
    if replay_case is not None:
        c = replay_case
        tyname = c['type_name']
        base = tyname.split(':')[-1]
        shape = tyname.split(':')[0] if ':' in tyname else ''
        t = shaped(shape, FIXED.get(base) or PRIMS[base])
        if c['kind'] == 'h-fj':
            cases.append(('fj', tyname, t, None, c['json_enc']))
        else:
            cases.append(('val', tyname, t, None, c['value_enc']))
    else:
        # complete small domains
        for z in range(0, 256):
            cases.append(('val', 'u8', PRIMS['u8'], z, None))
        for z in range(-128, 128):
            cases.append(('val', 'i8', PRIMS['i8'], z, None))
        for v in (True, False):
            cases.append(('val', 'bool', PRIMS['bool'], v, None))
        for v in (None, ('some', True), ('some', False)):
            cases.append(('val', 'o:bool', shaped('o', PRIMS['bool']), v, None))
        for v in (None, ('some', None), ('some', ('some', True)), ('some', ('some', False))):
            cases.append(('val', 'oo:bool', shaped('oo', PRIMS['bool']), v, None))
        for h in range(-600, 601):
            for n in ('u8', 'i8'):
                cases.append(('fj', n, PRIMS[n], None, gp.enc_json(gp.num(h / 2))))
        n_exh = len(cases)
        ctx.count('exhaustive small domains', n_exh)
        # boundaries of every integer type
        for n, b, s in gp.INT_TYPES:
            for z in boundary_ints(b, s):
                cases.append(('val', n, PRIMS[n], z, None))
            for bits in cast_inputs(b, s):
                cases.append(('fj', n, PRIMS[n], None, gp.enc_json(('num', bits))))
        for bits in gp.F64_SPECIAL + gp.F64_NONFINITE:
            cases.append(('val', 'f64', PRIMS['f64'], ('d', bits), None))
            cases.append(('fj', 'f32', PRIMS['f32'], None, gp.enc_json(('num', bits))))
        for bits in gp.F32_SPECIAL + gp.F32_NONFINITE:
            cases.append(('val', 'f32', PRIMS['f32'], ('e', bits), None))
        # random values / JSON inputs of primitive types under the shapes, and of the fixed derived types
        n_rand = 400000 if thorough else 8000
        names = list(PRIMS) + list(FIXED) * 3
        for _ in range(n_rand):
            base = rng.choice(names)
            shape = rng.choice(SHAPES)
            t = shaped(shape, FIXED.get(base) or PRIMS[base])
            tyname = hname(shape, base)
            if rng.random() < 0.65:
                cases.append(('val', tyname, t, gp.gen_value(rng, t, lossy=rng.random() < 0.1), None))
            else:
                cases.append(('fj', tyname, t, None, gp.enc_json(gp.gen_json_for(rng, t))))
    lines = []
    meta = []
    for kind, tyname, t, v, enc in cases:
        te = gp.enc_ty(t)
        if kind == 'val':
            ve = enc if enc is not None else gp.enc_val(t, v)
            lines.append(('t14_tj %s %s' % (tyname, ve), 't14_tj %s %s' % (te, ve)))
            lines.append(('t14_rt %s %s' % (tyname, ve), 't14_rt %s %s' % (te, ve)))
            meta.append((kind, tyname, t, v, ve))
        else:
            lines.append(('t14_fj %s %s' % (tyname, enc), 't14_fj %s %s' % (te, enc)))
            meta.append((kind, tyname, t, v, enc))
    impl = ctx.impl([a for a, _ in lines])
    model = ctx.model([b for _, b in lines])
    ctx.evaluations += len(lines)
    pos = 0
    for kind, tyname, t, v, enc in meta:
        if kind == 'val':
            ij, mj, ir, mr = impl[pos], model[pos], impl[pos + 1], model[pos + 1]
            pos += 2
            case = {'kind': 'h-value', 'type_name': tyname, 'type': gp.rust_type_abs(t) if ':' not in tyname and tyname in PRIMS else tyname,
                    'value_enc': enc, 'line': 't14_rt %s %s' % (tyname, enc)}
            ctx.count('harness:value')
            if v is None and replay_case is not None:
                # replay: only the comparison with the model and plain equality
                if ij != mj or ir != mr:
                    report(ctx, case, 'impl %s / %s' % (ij[:200], ir[:200]), 'model %s / %s' % (mj[:200], mr[:200]),
                           cls='from_json-mismatch', failing_input=True, what='replayed value: implementation differs from the model')
                elif ir != 'ok ' + enc:
                    report(ctx, case, ir[:300], 'ok ' + enc[:300], cls='typed-roundtrip', failing_input=True,
                           what='replayed value does not survive from_json(to_json v)')
                continue
            check_value_case(ctx, case, t, v, ij, ir, mj, mr, True)
            if tyname.split(':')[-1] in FIXED:
                ctx.mark_nontrivial(('h', tyname, enc))
        else:
            ir, mr = impl[pos], model[pos]
            pos += 1
            ctx.count('harness:from_json ' + ('ok' if mr.startswith('ok') else 'err'))
            if ir != mr:
                report(ctx, {'kind': 'h-fj', 'type_name': tyname, 'json_enc': enc, 'line': 't14_fj %s %s' % (tyname, enc)},
                       'from_json = ' + ir[:300], 'model: ' + mr[:300], cls='from_json-mismatch', failing_input=False,
                       what='from_json of a JSON value differs from the model (casts / missing keys / arity / names)')
            if tyname.split(':')[-1] in FIXED and mr.startswith('ok'):
                ctx.mark_nontrivial(('hj', tyname, enc))
    return len(cases)


# ---------------------------------------------------------------------------------------------------
# stream 2: generated programs

def run_program(binpath):
    p = subprocess.run('ulimit -s unlimited 2>/dev/null; exec ' + binpath, shell=True, stdout=subprocess.PIPE,
                       stderr=subprocess.PIPE, timeout=600)
    out = p.stdout.decode('utf-8', 'replace')
    return p.returncode, out, p.stderr.decode('utf-8', 'replace')[-2000:]


def generated_crate(ctx, index, sizes, slot=0, only=None):
    """Generate, compile (cached), run and compare one crate. only = (kind letter, k) restricts the comparison (replay)."""
    c = gp.Crate(ctx.seed, index, name='c14_prog', **sizes)
    ndecl, nlit = len(c.decls), len(c.literals)
    # classify the token-level mutants with the model
    mo = ctx.model(['t14_mac %s' % x['tokens'] for x in c.beyond])
    accepted, noarm, keyerr = [], [], []
    for x, o in zip(c.beyond, mo):
        x['model'] = o
        (accepted if o.startswith('ok') else noarm if o == 'err noarm' else keyerr if o == 'err key' else []).append(x)
        ctx.count('mutant:model ' + ('accepts' if o.startswith('ok') else o))
    src = c.source(accepted)
    toml = c.cargo_toml(hv.REPO)
    b = build_crate(slot, 'c14_prog', src, toml)
    ctx.count('crate:' + ('cached' if b['cached'] else 'compiled'))
    ctx.extra.setdefault('compile_secs', []).append(round(b['secs'], 1))
    skip = set()
    if not b['ok']:
        # a case that does not compile: attribute the errors to cases, report them, rebuild without them
        errs = error_lines(b['out'])
        for line, msg in errs:
            w = case_of_line(src, line)
            if w is None or w in skip:
                continue
            skip.add(w)
            if w[0] == 'L':
                lit = c.literals[w[1]]
                report(ctx, {'kind': 'literal', 'crate': index, 'case': w[1], 'rust': 'json!(%s)' % lit.get('rust', '?')[:1500]},
                       'compile error: ' + msg[:300], 'a value (the literal is in the JSON literal grammar)', cls='macro-compile',
                       failing_input=True, what='a json! literal of the grammar does not compile')
            elif w[0] == 'M':
                x = [y for y in accepted if y['k'] == w[1]][0]
                report(ctx, {'kind': 'mutant', 'crate': index, 'case': w[1], 'rust': 'json!(%s)' % x['rust'][:1500]},
                       'compile error: ' + msg[:300], 'model: ' + x['model'][:200], cls='macro-superset', failing_input=False,
                       what='the macro rejects a token sequence (outside the JSON grammar) that the model accepts')
            elif w[0] == 'decl':
                report(ctx, {'kind': 'decl', 'crate': index, 'module': w[1]}, 'compile error: ' + msg[:300],
                       'the derive / json_map! expansion compiles', cls='derive-compile', failing_input=True,
                       what='a generated type declaration does not compile')
            else:
                report(ctx, {'kind': 'case', 'crate': index, 'case': '%s%d' % w}, 'compile error: ' + msg[:300], 'compiles',
                       cls='generator', failing_input=False, what='generated case does not compile')
        if skip and not any(w[0] == 'decl' for w in skip):
            src = c.source(accepted, skip)
            b = build_crate(slot, 'c14_prog', src, toml)
        if not b['ok']:
            if not skip:
                report(ctx, {'kind': 'build', 'crate': index}, rendered_errors(b['out']), 'the generated crate builds', cls='build',
                       failing_input=False, what='generated crate does not build (no case could be blamed)')
            return ndecl, nlit
    rc, out, err = run_program(b['bin'])
    if rc != 0:
        report(ctx, {'kind': 'run', 'crate': index}, 'exit %d: %s' % (rc, err[-600:]), 'exit 0', cls='program-crash', failing_input=False,
               what='generated program panicked or crashed')
    impl = {}
    for line in out.split('\n'):
        p = line.split(' ')
        if len(p) >= 3 and p[0] in ('V', 'J', 'L', 'M'):
            impl[(p[0], int(p[1]))] = p[2:]
    ml = c.model_lines()
    mout = ctx.model([l[3] for l in ml])
    model = {}
    for (kind, k, what, _line), o in zip(ml, mout):
        model[(kind, k, what)] = o
    ctx.evaluations += len(ml) + len(impl)
    ctx.traces += 1
    # ---- values ----
    for x in c.values:
        k = x['k']
        if only and only != ('V', k):
            continue
        if ('V', k) in skip:
            continue
        t, v = x['type'], x['value']
        case = {'kind': 'value', 'crate': index, 'case': k, 'type': gp.rust_type_abs(t), 'rust_value': gp.rust_val(t, v)[:1500],
                'type_enc': gp.enc_ty(t)[:1500], 'value_enc': gp.enc_val(t, v)[:1500]}
        im = impl.get(('V', k))
        if im is None or len(im) < 7:
            report(ctx, case, 'no output line', 'V line', cls='program-crash', failing_input=False, what='program printed nothing for this case')
            continue
        ijson, rtag, rdump, eqflag, orig, ttag, tdump = im[:7]
        ctx.count('value:type ' + ('Option<..>' if t['k'] == 'opt' else 'Vec<..>' if t['k'] == 'vec' else t['decl'].kind))
        if orig != gp.enc_val(t, v):
            report(ctx, case, 'program constructed ' + orig[:300], 'generator meant ' + gp.enc_val(t, v)[:300], cls='generator',
                   failing_input=False, what='the Rust rendering of the value differs from its model encoding')
            continue
        chk = model[('V', k, 'chk')]
        wf = gp.type_wf(t)
        if chk != 'wf=%s typed=true' % ('true' if wf else 'false'):
            report(ctx, case, 'model says ' + chk, 'wf=%s typed=true' % wf, cls='generator', failing_input=False,
                   what='generator and model disagree on well-formedness / typing of the case')
            continue
        impl_rt = 'ok ' + rdump if rtag == 'ok' else 'err'
        text_rt = 'ok ' + tdump if ttag == 'ok' else 'err'
        check_value_case(ctx, case, t, v, ijson, impl_rt, model[('V', k, 'tj')], model[('V', k, 'rt')], wf, text_rt, eqflag)
        ctx.mark_nontrivial(('V', index, k))
    # ---- from_json of arbitrary JSON ----
    for x in c.froms:
        k = x['k']
        if only and only != ('J', k):
            continue
        if ('J', k) in skip:
            continue
        im = impl.get(('J', k))
        mr = model[('J', k, 'fj')]
        ir = 'missing' if im is None else ('ok ' + im[1] if im[0] == 'ok' else 'err')
        ctx.count('from_json:' + ('ok' if mr.startswith('ok') else 'err'))
        if ir != mr:
            report(ctx, {'kind': 'from', 'crate': index, 'case': k, 'type': gp.rust_type_abs(x['type']), 'json': gp.rust_json(x['json'])[:1500],
                         'type_enc': gp.enc_ty(x['type'])[:1500]},
                   'from_json = ' + ir[:300], 'model: ' + mr[:300], cls='from_json-mismatch', failing_input=False,
                   what='from_json of a JSON value differs from the model')
        elif mr.startswith('ok'):
            ctx.mark_nontrivial(('J', index, k))
    # ---- literals ----
    for x in c.literals:
        k = x['k']
        if only and only != ('L', k):
            continue
        if ('L', k) in skip:
            continue
        lit = x['lit']
        case = {'kind': 'literal', 'crate': index, 'case': k, 'rust': 'json!(%s)' % x.get('rust', '')[:1500],
                'tokens': gp.lit_tokens(lit)[:1500]}
        im = impl.get(('L', k))
        if im is None or len(im) < 3:
            report(ctx, case, 'no output line', 'L line', cls='program-crash', failing_input=False, what='program printed nothing for this case')
            continue
        mdump, pdump, eqflag = im[:3]
        mm, md, mold = model[('L', k, 'mac')], model[('L', k, 'den')], model[('L', k, 'old')]
        feats = gp.lit_features(lit)
        depth = gp.lit_depth(lit)
        ctx.count('literal:depth %d' % depth)
        for f in feats:
            ctx.count('literal:has ' + f)
        if mold != mm:
            ctx.count('literal:old null arm (F03) would give another value')
        if not md.startswith('some ') or mm != 'ok ' + md[5:]:
            report(ctx, case, 'model macro %s / denote %s' % (mm[:200], md[:200]), 'equal (C14_macro_denote)', cls='model-vs-oracle',
                   failing_input=False, what='extracted model: json_macro and denote disagree on a grammar literal')
            continue
        if 'ok ' + mdump != mm:
            report(ctx, case, 'json!(..) = ' + mdump[:300], 'model: ' + mm[:300], cls='macro-mismatch', failing_input=(eqflag != 'eq'),
                   what='the value of the literal differs from the macro model')
            continue
        if pdump == 'parse-err':
            report(ctx, case, 'Value::parse rejects the equivalent text', 'parses', cls='text-oracle', failing_input=False,
                   what='the RFC 8259 text rendered for the literal does not parse (generator or parser problem)')
            continue
        if eqflag != 'eq':
            report(ctx, case, 'json!(..) = ' + mdump[:300], 'Value::parse(text) = ' + pdump[:300], cls='macro-value', failing_input=True,
                   what='a json! literal evaluates to a value different from parsing the equivalent JSON text')
            continue
        ctx.count('literal:equals parse')
        if depth >= 2 or 'null-then-more' in feats:
            ctx.mark_nontrivial(('L', index, k))
    # ---- accepted mutants (outside the grammar; model vs macro only) ----
    for x in accepted:
        if only or ('M', x['k']) in skip:
            continue
        im = impl.get(('M', x['k']))
        got = 'missing' if im is None else 'ok ' + im[0]
        if got != x['model']:
            report(ctx, {'kind': 'mutant', 'crate': index, 'case': x['k'], 'rust': 'json!(%s)' % x['rust'][:1500], 'tokens': x['tokens'][:1500]},
                   'json!(..) = ' + got[:300], 'model: ' + x['model'][:300], cls='macro-superset', failing_input=False,
                   what='outside the JSON grammar: macro and model disagree on a token sequence both accept')
        else:
            ctx.count('mutant:accepted and equal')
    # ---- rejected mutants: each must be a compile error at its own line ----
    # rustc stops after macro expansion when an invocation matches no arm, so errors of the later phases (a key without
    # .to_string(), an unknown identifier) are only reported once no expansion error is left: cases that did produce an error
    # are set aside and the rest is compiled again.
    if not only:
        for group, label in ((noarm, 'noarm'), (keyerr, 'key')):
            pending = list(group)
            ctx.evaluations += len(group)
            rounds = 0
            while pending and rounds < 4:
                rounds += 1
                rsrc, where = gp.reject_crate_source(pending)
                rb = build_crate(slot, 'c14_prog', rsrc, toml, check_only=True)
                errs = {}
                for line, msg in error_lines(rb['out']):
                    errs.setdefault(line, msg)
                hit = [x for line, x in where.items() if line in errs]
                for x in hit:
                    ctx.count('mutant:rejected by model and compiler (%s)' % label)
                rest = [x for line, x in where.items() if line not in errs]
                if not hit or not rest:
                    for x in rest:
                        report(ctx, {'kind': 'mutant', 'crate': index, 'case': x['k'], 'rust': 'json!(%s)' % x['rust'][:1500],
                                     'tokens': x['tokens'][:1500]},
                               'compiles' if rb['ok'] else 'no error attributed: ' + rendered_errors(rb['out'], 300), 'model: ' + x['model'],
                               cls='macro-superset', failing_input=False,
                               what='outside the JSON grammar: the model says compile error (%s), rustc reports none at that invocation' % label)
                    pending = []
                else:
                    pending = rest
    if not only and index == 0:
        d0 = c.decls[0]
        ctx.sample({'stream': 'program', 'type': gp.decl_source(d0, gp.random.Random(0)).split('impl Dump')[0][:400]})
        v0 = c.values[0]
        ctx.sample({'stream': 'value', 'type': gp.rust_type_abs(v0['type']), 'value': gp.rust_val(v0['type'], v0['value'])[:300],
                    'to_json': ' '.join(impl.get(('V', 0), ['?'])[:1])[:200]})
        for x in c.literals[:40]:
            if gp.lit_depth(x['lit']) >= 2:
                ctx.sample({'stream': 'literal', 'rust': 'json!(%s)' % x.get('rust', '')[:300], 'value': ' '.join(impl.get(('L', x['k']), ['?'])[:1])[:200]})
                break
    return ndecl, nlit


# ---------------------------------------------------------------------------------------------------
# corpus: the witnesses of the findings, on the model of the old tree and on the current one

def corpus(ctx):
    d = os.path.join(hv.V, 'corpus', 'C14')
    n = 0
    try:
        files = sorted(os.listdir(d))
    except OSError:
        files = []
    for f in files:
        if not f.endswith('.json'):
            continue
        for e in json.load(open(os.path.join(d, f), encoding='utf-8')):
            n += 1
            if e['kind'] == 'tokens':
                new, old, den = ctx.model(['t14_mac ' + e['tokens'], 't14_mac_old ' + e['tokens'], 't14_den ' + e['tokens']])
                ctx.evaluations += 3
                ctx.count('corpus:tokens')
                if new != e['expect'] or den != 'some ' + e['expect'][3:]:
                    report(ctx, {'kind': 'corpus', 'entry': e}, 'model: %s / %s' % (new, den), e['expect'], cls='model-vs-oracle',
                           failing_input=False, what='corpus literal: the macro model no longer gives the recorded value')
                if 'old' in e and old != e['old']:
                    report(ctx, {'kind': 'corpus', 'entry': e}, 'old-arm model: ' + old, e['old'], cls='model-vs-oracle',
                           failing_input=False, what='corpus literal: the model of the pre-F03 arm changed')
            elif e['kind'] == 'value':
                tyname = e['type_name']
                base = tyname.split(':')[-1]
                shape = tyname.split(':')[0] if ':' in tyname else ''
                t = shaped(shape, FIXED.get(base) or PRIMS[base])
                line_i = 't14_rt %s %s' % (tyname, e['value'])
                line_m = 't14_rt %s %s' % (gp.enc_ty(t), e['value'])
                ir = ctx.impl([line_i])[0]
                mr = ctx.model([line_m])[0]
                ctx.evaluations += 1
                ctx.count('corpus:value')
                if ir != mr or mr != e['expect']:
                    report(ctx, {'kind': 'h-value', 'type_name': tyname, 'value_enc': e['value'], 'line': line_i}, 'impl %s model %s' % (ir, mr),
                           e['expect'], cls='from_json-mismatch', failing_input=False, what='corpus value: recorded round-trip result changed')
                elif e.get('class') and mr != 'ok ' + e['value']:
                    ctx.count('corpus:known-loss ' + e['class'])
                    report(ctx, {'kind': 'h-value', 'type_name': tyname, 'value_enc': e['value'], 'line': line_i}, ir, 'ok ' + e['value'],
                           cls=e['class'], failing_input=True, what=e.get('what', e['class']))
    return n


# ---------------------------------------------------------------------------------------------------
# extraction spot-check inside Coq (integer-only instance of the model)

def coq_str(s):
    return '[' + '; '.join(str(ord(c)) for c in s) + ']'


def coq_ty(t):
    k = t['k']
    if k == 'bool':
        return 'TBool'
    if k == 'int':
        return '(TInt %d %s)' % (t['bits'], 'true' if t['signed'] else 'false')
    if k == 'string':
        return 'TString'
    if k == 'opt':
        return '(TOption %s)' % coq_ty(t['t'])
    if k == 'vec':
        return '(TVec %s)' % coq_ty(t['t'])
    if k == 'ref':
        d = t['decl']

        def rn(r):
            return 'None' if r is None else '(Some %s)' % coq_str(r)
        if d.kind in ('struct', 'map'):
            return '(TStruct [%s])' % '; '.join('(%s, %s, %s)' % (coq_str(gp.unraw(i)), rn(r), coq_ty(ft)) for i, r, ft in d.fields)
        if d.kind == 'tuple':
            return '(TTuple [%s])' % '; '.join(coq_ty(ft) for ft in d.fields)
        return '(TEnum [%s])' % '; '.join('(%s, %s)' % (coq_str(gp.unraw(i)), rn(r)) for i, r in d.variants)
    raise ValueError(k)


def has_float(t):
    k = t['k']
    if k in ('f64', 'f32'):
        return True
    if k in ('opt', 'vec'):
        return has_float(t['t'])
    if k == 'ref':
        d = t['decl']
        if d.kind in ('struct', 'map'):
            return any(has_float(ft) for _, _, ft in d.fields)
        if d.kind == 'tuple':
            return any(has_float(ft) for ft in d.fields)
    return False


def coq_rval_of_dump(s, pos):
    """Coq term (rval Z Z) from a value dump; pos = [index]."""
    tag = s[pos[0]]
    pos[0] += 1

    def until():
        e = s.index(';', pos[0])
        r = s[pos[0]:e]
        pos[0] = e + 1
        return r
    if tag == 'b':
        c = s[pos[0]]
        pos[0] += 1
        return '(RBool %s)' % ('true' if c == '1' else 'false')
    if tag == 'i':
        return '(RInt (%s)%%Z)' % until()
    if tag == 's':
        return '(RStr %s)' % coq_str(bytes.fromhex(until()).decode('utf-8'))
    if tag == 'n':
        return 'RNone'
    if tag == 'S':
        return '(RSome %s)' % coq_rval_of_dump(s, pos)
    if tag in 'VRU':
        n = int(until())
        items = [coq_rval_of_dump(s, pos) for _ in range(n)]
        return '(%s [%s])' % ({'V': 'RVec', 'R': 'RStruct', 'U': 'RTuple'}[tag], '; '.join(items))
    if tag == 'E':
        return '(REnum %s)' % until()
    raise ValueError('float in dump')


def coq_crosscheck(ctx):
    """A few typed round trips evaluated inside Coq by vm_compute (integer-only instance zroundtrip) against the extracted runner
    (IEEE instance): spot-check of extraction + driver on values without floats whose integers are below 2^53."""
    rng = ctx.rng
    picks = []
    tries = 0
    while len(picks) < 10 and tries < 400:
        tries += 1
        base = rng.choice(list(FIXED))
        t = FIXED[base]
        if has_float(t):
            continue
        v = gp.gen_value(rng, t, lossy=False)
        picks.append((t, v))
    for n in ('u8', 'i64', 'u128'):
        t = shaped('vo', PRIMS[n])
        picks.append((t, gp.gen_value(rng, t, lossy=False)))
    t = shaped('oo', PRIMS['bool'])
    picks.append((t, ('some', None)))
    outs = ctx.model(['t14_rt %s %s' % (gp.enc_ty(t), gp.enc_val(t, v)) for t, v in picks])
    lines = ['From Hv Require Import Prelude Json JsonTyped.', 'Open Scope N_scope.']
    for (t, v), o in zip(picks, outs):
        src = coq_rval_of_dump(gp.enc_val(t, v), [0])
        if o.startswith('ok '):
            want = '(Ok %s)' % coq_rval_of_dump(o[3:], [0])
        else:
            want = '(Err E_TYPE)'
        lines.append('Goal zroundtrip %s %s = %s. Proof. vm_compute. reflexivity. Qed.' % (coq_ty(t), src, want))
    os.makedirs(hv.COQ + '/work', exist_ok=True)
    path = hv.COQ + '/work/C14_cases.v'
    open(path, 'w', encoding='utf-8').write('\n'.join(lines) + '\n')
    p = subprocess.run(['timeout', '300', 'coqc', '-Q', hv.COQ + '/theories', 'Hv', path], stdout=subprocess.PIPE,
                       stderr=subprocess.STDOUT, cwd=hv.COQ + '/work')
    ctx.evaluations += len(picks)
    ctx.count('coq-vm_compute-crosscheck', len(picks))
    if p.returncode != 0:
        out = p.stdout.decode('utf-8', 'replace')
        mm = re.search(r'line (\d+)', out)
        k = int(mm.group(1)) - 3 if mm else -1
        report(ctx, {'kind': 'coq-crosscheck', 'case': lines[k + 2][:600] if 0 <= k < len(picks) else '?'},
               'extracted runner=' + (outs[k][:200] if 0 <= k < len(outs) else '?'), 'vm_compute in Coq: ' + out[-300:],
               cls='extraction', failing_input=False,
               what='the extracted OCaml model and the Coq model (vm_compute) disagree: extraction / driver problem')


# ---------------------------------------------------------------------------------------------------

QUICK_SIZES = dict(n_types=40, n_values=300, n_from=150, n_literals=300, n_beyond=60)


def run(ctx):
    os.makedirs(WORK, exist_ok=True)
    if ctx.replay:
        c = ctx.replay['case']
        kind = c.get('kind')
        if kind in ('h-value', 'h-fj'):
            harness_stream(ctx, False, replay_case=c)
        elif kind in ('value', 'from', 'literal', 'mutant', 'decl', 'case', 'build', 'run'):
            letter = {'value': 'V', 'from': 'J', 'literal': 'L'}.get(kind)
            only = (letter, c['case']) if letter else None
            saved = ctx.seed
            ctx.seed = ctx.replay.get('seed', ctx.seed)
            generated_crate(ctx, c.get('crate', 0), QUICK_SIZES, only=only)
            ctx.seed = saved
        elif kind == 'corpus':
            corpus(ctx)
        else:
            coq_crosscheck(ctx)
        return
    thorough = ctx.tier == 'thorough'
    drift = drifted()
    if drift:
        ctx.notes.append('anchored source changed since the model was written (%s): quick tier runs 3 crates' % ', '.join(drift))
    ncorp = corpus(ctx)
    ctx.count('corpus entries', ncorp)
    nh = harness_stream(ctx, thorough or bool(drift))
    ctx.exhaustive = True
    coq_crosscheck(ctx)
    ncrates = 20 if thorough else (3 if drift else 1)
    programs = 0
    if thorough:
        # compile in parallel (one target directory per worker), then compare sequentially
        import threading
        sem = threading.Semaphore(8)

        def prebuild(i):
            with sem:
                try:
                    c = gp.Crate(ctx.seed, i, name='c14_prog', **QUICK_SIZES)
                    mo = hv.run_lines(hv.MODEL_BIN, ['t14_mac %s' % x['tokens'] for x in c.beyond])
                    acc = [x for x, o in zip(c.beyond, mo) if o.startswith('ok')]
                    build_crate('w%d' % (i % 8), 'c14_prog', c.source(acc), c.cargo_toml(hv.REPO))
                except Exception as e:  # the sequential pass below reports build problems
                    ctx.notes.append('prebuild %d: %r' % (i, e))
        # one worker per target directory: crates with the same i % 8 are built one after the other
        def lane(j):
            for i in range(j, ncrates, 8):
                prebuild(i)
        ths = [threading.Thread(target=lane, args=(j,)) for j in range(min(8, ncrates))]
        for t in ths:
            t.start()
        for t in ths:
            t.join()
    for i in range(ncrates):
        nd, nl = generated_crate(ctx, i, QUICK_SIZES, slot=('w%d' % (i % 8)) if thorough else 0)
        programs += nd + nl
    ctx.extra['programs'] = programs
    ctx.extra['crates'] = ncrates
    ctx.count('programs (type declarations + literals compiled)', programs)
    prune_cache()
