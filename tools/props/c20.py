"""C20 — shutdown always ends run, promptly, and frees the port. A real App with a shutdown receiver is put into a traffic
state, signalled, and observed (latency, re-bind, in-flight responses); the hook-H2b event trace of the accept loop and
the signalling thread is replayed through the Coq transition system (every observed history must be a history of the
model, for which termination/no-deadlock/port-free are proved)."""
RULE = ('0..16 connections each in {J just accepted, I idle keep-alive, H half-sent request, S short handler running, L long handler '
        'running, W large response being written, O WebSocket open (upgrade accepted, handler holding the connection)} x pool sizes 1..8 incl. fully occupied pools x signal {before the first '
        'connection, after the state is established, concurrently with 6 new connects} x bind {127.0.0.1, 0.0.0.0}; '
        'when there are more connections than workers only the shutdown itself (return, port, trace) is judged, since the '
        'surplus connections merely queue; non-trivial = at least one connection or a concurrent signal')
NEEDS_TOKIO = True
ASSUMPTIONS = ['the tokio runtime (select! on a cancellation token) is judged by the same observations but has no event trace',
               'latency bound 2 s is observed, not proved; kernel backlog behaviour as modelled (FIFO accept queue)',
               'the trace log appends after the action it records: a flag observation may be logged before the store event; '
               'the replay reorders exactly that pair']


def _judge(ctx, lines, im, m):
    for line, b, a in zip(lines, im, m):
        case = {'line': line}
        ctx.count('when:' + line.split(' ')[4])
        if not b.startswith('returned='):
            ctx.report(case, b, 'scenario runs', cls='shutdown-harness', failing_input=(b in ('PANIC', 'DIED', 'TIMEOUT')),
                       what='shutdown scenario failed: ' + b)
            continue
        f = dict(kv.split('=', 1) for kv in b.split(' ') if '=' in kv)
        ctx.traces += 1
        if f.get('fault') == 'emfile':
            # fault point: accept() was failing when the signal arrived. Judged by the event history: an accept logged after the
            # store must break (the model refuses anything else). The wake-up connect can itself fail for lack of a
            # descriptor, which the model does not cover (it assumes the connect reaches the listener): such runs are
            # rescued by the harness and only counted.
            ctx.count('fault:emfile' + (':rescued' if f.get('rescued') == '1' else ''))
            if a.startswith('rejected'):
                ctx.report(case, f.get('trace', '')[:400], a, cls='shutdown-trace', failing_input=True,
                           what='accept() kept failing after the flag was stored and the loop did not leave: ' + a)
            elif f['returned'] == 'never':
                ctx.report(case, b[:300], 'run returns once a client connects', cls='shutdown-hang', failing_input=True,
                           what='run did not return even after descriptors were released and a client connected')
            else:
                ctx.mark_nontrivial(line + f.get('trace', ''))
            continue
        if f['returned'] == 'never' or int(f['returned']) > 2000:
            ctx.report(case, b[:300], 'run returns within 2 s of the signal', cls='shutdown-hang', failing_input=True,
                       what='run did not return promptly after the shutdown signal (returned=%s)' % f['returned'])
            continue
        if f['rebind'] != '1':
            ctx.report(case, b[:300], 'port can be bound again', cls='shutdown-port', failing_input=True, what='listening port not freed')
            continue
        fits = line.endswith(' 1')
        if fits and f['probe'] != '1':
            ctx.report(case, b[:300], 'served normally before the signal', cls='shutdown-early', failing_input=True,
                       what='a request sent before the signal was not served')
            continue
        ok, tot = f['inflight'].split('/')
        if fits and ok != tot:
            ctx.report(case, b[:300], 'in-flight responses complete', cls='shutdown-truncated', failing_input=True,
                       what='a response to a request received before the signal was truncated by the shutdown (%s)' % f['inflight'])
            continue
        if not a.startswith('accepted') or 'returned=true' not in a or 'listening=false' not in a:
            ctx.report(case, f.get('trace', '')[:400], a, cls='shutdown-trace', failing_input=False,
                       what='observed event history is not a history of the model: ' + a)
            continue
        if line.split(' ')[3] != '-' or ' concurrent' in line:
            ctx.mark_nontrivial(line + f.get('trace', ''))


def run(ctx):
    rng = ctx.rng
    n = 1500 if ctx.tier == 'thorough' else 48 * ctx.scale
    lines = []
    if ctx.replay:
        lines, n = [ctx.replay['case']['line']], 0
    for i in range(n):
        threads = rng.choice([1, 1, 2, 4, 8])
        k = rng.choice([0, 1, 2, 3, 5, 8, 16])
        states = ''.join(rng.choice('JIHSLWO' if threads > 1 else 'JIHSLO') for _ in range(k)) or '-'
        if i % 7 == 0 and threads <= 2:
            states = ('L' * (threads + rng.randint(0, 2))) + 'S'          # saturated pool
        when = rng.choice(['after', 'after', 'before', 'concurrent'])
        if i % 6 == 5:
            # fault point: accept() failing (descriptor exhaustion with a client waiting) when the signal arrives
            states = (states if states != '-' else '') [:3] + 'E'
            when = 'after'
        bind = rng.choice(['v4', 'v4', 'any', 'any6'])
        fits = (0 if states == '-' else len(states)) <= threads
        lines.append('shutdown %d %s %s %s %d' % (threads, bind, states, when, int(fits)))
    # scenarios run in batches: a tree on which shutdown hangs makes every scenario wait for its deadline, so once enough
    # violations are in, the remaining scenarios add nothing but time
    im, m = [], []
    BATCH, ENOUGH = 48, 30
    all_lines, lines = lines, []
    for off in range(0, len(all_lines), BATCH):
        chunk = all_lines[off:off + BATCH]
        cim = ctx.impl(chunk)
        cm = ctx.model(['shutdown_trace ' + (b.split('trace=')[1] if 'trace=' in b else '-') for b in cim])
        ctx.evaluations += len(chunk)
        _judge(ctx, chunk, cim, cm)
        lines += chunk
        im += cim
        m += cm
        if len(ctx.violations) >= ENOUGH and off + BATCH < len(all_lines):
            ctx.notes.append('stopped after %d of %d scenarios: %d violations already' % (len(lines), len(all_lines), len(ctx.violations)))
            break
    # tokio runtime: same scenarios, judged by the observations (return latency, port, in-flight responses)
    if not ctx.replay:
        tl = lines[::2] if ctx.tier != 'thorough' else lines
        # every spawned task gets its own worker in tokio: capacity is not an issue
        tl = [' '.join(l.split(' ')[:5] + ['1']) for l in tl]
        tim = ctx.impl(tl, tokio=True)
        ctx.evaluations += len(tl)

        def tokio_verdict(line, b):
            """-> None when the observations satisfy the property, else (class, expected, what, failing_input)"""
            if not b.startswith('returned='):
                return ('shutdown-harness', 'scenario runs', 'tokio shutdown scenario failed: ' + b, b in ('PANIC', 'DIED', 'TIMEOUT'))
            f = dict(kv.split('=', 1) for kv in b.split(' ') if '=' in kv)
            ok, tot = f['inflight'].split('/')
            if f['returned'] == 'never' or int(f['returned']) > 2000:
                return ('shutdown-hang', 'run returns within 2 s', 'tokio run did not return promptly', True)
            if f['rebind'] != '1':
                return ('shutdown-port', 'port can be bound again', 'tokio: port not freed', True)
            if f['probe'] != '1':
                return ('shutdown-early', 'served before the signal', 'tokio: request before the signal not served', True)
            if ok != tot:
                return ('shutdown-truncated', 'in-flight responses complete',
                        'tokio: response to a request received before the signal truncated (%s)' % f['inflight'], True)
            return None
        # The tokio runtime is judged by observations only (no event trace), and "received before the signal" is a matter of
        # timing the harness cannot see from outside: a scenario that fails once is run again, and only a failure that
        # repeats is reported (a one-off is counted in the evidence).
        first = [(line, b, tokio_verdict(line, b)) for line, b in zip(tl, tim)]
        again = [line for line, b, v in first if v is not None]
        second = dict(zip(again, ctx.impl(again, tokio=True))) if again else {}
        ctx.evaluations += len(again)
        for line, b, v in first:
            ctx.count('tokio:when:' + line.split(' ')[4])
            if v is None:
                continue
            b2 = second.get(line, b)
            v2 = tokio_verdict(line, b2)
            if v2 is None:
                ctx.count('tokio: one-off observation not repeated (%s)' % v[0])
                continue
            ctx.report({'line': line, 'runtime': 'tokio'}, b2[:300], v2[1], cls=v2[0], failing_input=v2[3], what=v2[2] + ' (twice in two runs)')
    for k in (0, len(lines) // 2):
        if k < len(lines):
            ctx.sample({'scenario': lines[k], 'observed': im[k][:300], 'model': m[k]})
