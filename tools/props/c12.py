"""C12 — asynchronous WebSocket app: connect/message/disconnect exactly once and in order, unicast/broadcast delivery,
shutdown. A real AsyncWebsocketApp is driven by 1..8 scripted loopback clients, handler-side and external senders and a
shutdown signal (harness/src/c12.rs). Three things are checked on every scenario:
  (1) trace conformance: the hook-H4 log of the poll loop is replayed through the extracted Coq `poll` (ocaml/d_c12.ml):
      every iteration's dispatches and writes must be the model's, so the theorems of props/C12.v (proved for all
      histories) hold for the observed history;
  (2) a direct oracle on the handler-side execution log (each dispatch executed exactly once; with one handler thread in
      dispatch order and without overlap) and on what every client connection sent and received (the frames a client
      read = the writes the loop made to its address during its stay in the stream table, in order; a unicast only at its
      addressee; the messages the loop received from it = a prefix of what it sent, all of it once its Close was seen);
  (3) an independent replay of the stream table from the log's admissions/removals: every broadcast is written exactly to
      the table of that moment.
"Connected at that moment" is always defined through the log's iteration structure, never through wall-clock time."""
import hashlib
import json
import os
import threading

import hv

RULE = ('scenarios of 1..8 clients, each a random script over {connect, text/binary messages of 0..300 bytes (thorough: up to '
        '70 KiB), fragmented messages (one write, or one write per frame), bursts of several messages in one write, ping, '
        'close, FIN without close, RST, vanish with heartbeat on, reconnect (also from the same local port)} with random '
        'delays; handler reactions chosen by the message (none / echo / broadcast / unicast to another client / sleep / all of '
        'them), connect-handler greeting and join broadcast, disconnect-handler leave broadcast, an external AsyncSender '
        'script; handler pools 1..8, poll interval none/0..10 ms, heartbeat off or (20..40 ms, 80..150 ms), internal or '
        'external Humphrey link, shutdown after a settle time or in mid-traffic; corpus scenarios first. non-trivial = at '
        'least two clients and at least one removal or broadcast in the hook log')
ASSUMPTIONS = [
    'dispatch order (the order in which handler invocations are handed to the pool) is what the theorems and the trace '
    'conformance are about; with more than one handler thread handler bodies may overlap or start out of order (the '
    'pool\'s contract) — start-order inversions are counted in the evidence, not judged',
    'clients write whole frames per TCP write and wait for the 101 response before the first frame, so that the request '
    'parser\'s read-ahead (F01, a C01 known finding) is not triggered; pings and closes carry empty payloads (chosen when '
    'F20 / F21 were still open; both are fixed now and C11 covers non-empty control payloads and split headers)',
    'a client that starts a fragmented message finishes it (the remaining frames are read with blocking reads: see '
    'C12_blocked_receive_refuted and the corpus scenario stall-*)',
    'a client that resets or half-closes its connection without a Close frame is only noticed through the heartbeat (a '
    'read of 0 bytes is "nothing yet", and a write whose error is ignored can consume the reset): by design, stated in the '
    'crate documentation; such a stream stays in the table until the heartbeat times out or its address is reused',
    'heartbeat decisions are replayed with the clock value bracketing the real comparison (before it for "not yet", after it '
    'for "due"), so the replay cannot disagree because of the time between two clock reads',
    'progress expectations are phrased through the log\'s iteration timestamps, not through sleeps: a server-side send that '
    'returned before the start of a completed iteration must have been drained by it; a Close frame / message written 50 ms '
    'before the start of a completed iteration that had the stream in its table must have been received; a client that saw '
    'the 101 response 100 ms before the start of a completed iteration must have been admitted. A failure of one of these is '
    'only reported if it repeats in two re-runs of the same scenario (a stalled thread on a loaded machine does not repeat)',
]
TRUSTED_EXTRA = ['hook H4 (humphrey-ws/src/verif_trace.rs + cfg(humphrey_verif) statements in async_app.rs) reports the '
                 'loop\'s events faithfully and in order; `keys()` and `values_mut()` of one unmodified HashMap iterate in the '
                 'same order (used to attribute broadcast writes to addresses)']

IMPL = hv.IMPL_BIN
FPR_FILE = os.path.join(hv.V, 'tools/props/c12_fingerprints.json')
ANCHORS = ['humphrey-ws/src/async_app.rs', 'humphrey/src/thread/pool.rs']
# what props/C12.v proves about the closed examples (C12_demo, C12_readmission_refuted, C12_blocked_receive_refuted),
# printed by the extracted code: a spot check of extraction on every run
EXAMPLES = ('demo=exited[C1,C2,M1.11,M1.12,C3,M1.13,D1,D2,C1][w1.90,w2.90,p2,p1,w1.91,w3.93,w1.93,w2.93,w1.94,w3.94] '
            'stale_old=running[C7,M7.1,C7,M7.2][] stale_new=running[C7,M7.1,D7,C7,M7.2][] blocked=stuck[C7,M7.1][]')


def drifted(ctx):
    """DESIGN §2 source-drift escalation: the model was written against a known text of the anchored files; when one
    differs, the quick tier runs a larger sample (a changed fingerprint is not an alarm)"""
    try:
        known = json.load(open(FPR_FILE))
    except (OSError, ValueError):
        known = {}
    out = []
    for rel in ANCHORS:
        try:
            cur = hashlib.sha256(open(os.path.join(hv.REPO, rel), 'rb').read()).hexdigest()
        except OSError:
            cur = 'missing'
        if known.get(rel) != cur:
            out.append(rel)
            ctx.notes.append('source drift: %s differs from the text the model was written against (sha256 %s...); the quick '
                             'tier runs 600 scenarios' % (rel, cur[:12]))
            ctx.count('drift-escalation:' + os.path.basename(rel))
    return out


def run_parallel(lines, nproc, timeout):
    """one runner process per shard, scenarios of a shard run one after the other"""
    if not lines:
        return []
    nproc = max(1, min(nproc, len(lines)))
    shards = [[] for _ in range(nproc)]
    for i, l in enumerate(lines):
        shards[i % nproc].append((i, l))
    out = [None] * len(lines)

    def work(sh):
        res = hv._run_shard(IMPL, [l for _, l in sh], timeout)
        for (i, _), r in zip(sh, res):
            out[i] = r

    ths = [threading.Thread(target=work, args=(sh,)) for sh in shards if sh]
    for t in ths:
        t.start()
    for t in ths:
        t.join()
    return [o if o is not None else 'DIED' for o in out]


# ---------------------------------------------------------------------------------------------------------------------
# generator

def gen_len(rng, thorough):
    r = rng.random()
    if r < 0.55:
        return rng.randint(0, 60)
    if r < 0.8:
        return rng.randint(100, 125)
    if r < 0.97 or not thorough:
        return rng.randint(126, 300)
    return rng.choice([65535, 65536, 70000])


def gen_cmd(rng, n):
    r = rng.random()
    if r < 0.3:
        return 'n'
    if r < 0.5:
        return 'e'
    if r < 0.68:
        return 'a'
    if r < 0.84:
        return 'u%d' % rng.randrange(n)
    if r < 0.92:
        return 'z'
    return 'm'


def gen_client(rng, n, hb_on, thorough, busy):
    steps = ['d%d' % rng.randint(0, 25), 'C']
    sessions = 1 if rng.random() < 0.75 else 2
    for s in range(sessions):
        for _ in range(rng.randint(0, 10 if busy else 6)):
            r = rng.random()
            cmd = gen_cmd(rng, n)
            ln = gen_len(rng, thorough)
            if r < 0.3:
                steps.append('T%s:%d' % (cmd, ln))
            elif r < 0.4:
                steps.append('B%s:%d' % (cmd, ln))
            elif r < 0.5:
                steps.append('F%s:%d:%d' % (cmd, max(ln, 2), rng.randint(2, 4)))
            elif r < 0.55:
                steps.append('G%s:%d:%d' % (cmd, max(ln, 2), rng.randint(2, 3)))
            elif r < 0.67:
                steps.append('M%s:%d:%d' % (cmd, min(ln, 40), rng.randint(2, 6)))
            elif r < 0.74:
                steps.append('P')
            elif r < 0.9:
                steps.append('d%d' % rng.randint(0, 15))
            else:
                steps.append('w%d' % rng.randint(0, 900))
        last = s == sessions - 1
        r = rng.random()
        if last and r < 0.5:
            steps.append('d%d' % rng.randint(0, 10))          # stays connected to the end
            break
        end = rng.choice(['Q', 'Q', 'R', 'X'] + (['V', 'V'] if hb_on else []))
        steps.append(end)
        if not last:
            steps.append('d%d' % rng.randint(15, 40))
            # a reconnect from the same local port only after a reset (no TIME_WAIT on either side), and only once the
            # loop has had time to notice the reset (the assumption of the session theorems)
            steps.append('Cs' if end == 'X' and rng.random() < 0.5 else 'C')
    return '.'.join(steps)


def gen_ext(rng, n):
    if rng.random() < 0.3:
        return '-'
    steps = ['d%d' % rng.randint(5, 40)]
    for _ in range(rng.randint(1, 6)):
        r = rng.random()
        if r < 0.45:
            steps.append('b')
        elif r < 0.8:
            steps.append('u%d' % rng.randrange(n))
        else:
            steps.append('d%d' % rng.randint(0, 20))
    return '.'.join(steps)


def gen_scenario(rng, thorough):
    n = rng.choice([1, 2, 2, 3, 3, 4, 5, 6, 8])
    pool = rng.choice([1, 1, 1, 2, 3, 4, 8])
    poll = rng.choice(['none', '0', '100', '1000', '2000', '5000', '10000', '10000'])
    hb = None
    if rng.random() < 0.4:
        hb = rng.choice([(20, 80), (30, 120), (40, 150)])
    link = 'int' if rng.random() < 0.12 else 'ext'
    csleep = rng.choice([0, 0, 0, 0, 0, 0, 5, 30])
    flags = ''.join(c for c in 'gjl' if rng.random() < 0.5) or '-'
    if rng.random() < 0.08:
        flags += rng.choice('cmx')             # that handler is not installed
    busy = rng.random() < 0.3
    scripts = [gen_client(rng, n, hb is not None, thorough, busy) for _ in range(n)]
    if rng.random() < 0.15:
        settle = 0
    elif hb:
        settle = hb[1] + 2 * hb[0] + 150
    else:
        settle = rng.randint(60, 110)
    return 'c12 %d %s %s %s %d:%s %d %s %s' % (pool, poll, ('%d:%d' % hb) if hb else 'off', link, csleep, flags, settle,
                                               gen_ext(rng, n), ' '.join(scripts))


# ---------------------------------------------------------------------------------------------------------------------
# oracle

def parse(out):
    f = {}
    for kv in out.split(' '):
        if '=' in kv:
            k, v = kv.split('=', 1)
            f[k] = v
    lst = lambda s: [] if s in ('-', '') else s.split(';')
    f['H'] = [e.split(',') for e in lst(f.get('H', '-'))]
    f['E'] = [e.split(',') for e in lst(f.get('E', '-'))]
    f['S'] = [e.split(',') for e in lst(f.get('S', '-'))]
    conns = []
    for c in lst(f.get('C', '-')):
        p = c.split(',')
        dl = lambda s: [] if s == '' else s.split('+')
        conns.append({'client': int(p[0]), 'addr': p[1], 'end': p[2], 'eof': p[3][0] == '1', 'reset': p[3][0] == '2',
                      'close': p[3][1] == '1', 'garbage': p[3][2] == '1', 'sent': dl(p[4]), 'recv': dl(p[5]),
                      't_open': int(p[6]), 't_last_write': int(p[7])})
    f['C'] = conns
    return f


def oracle(line, f, model):
    """returns (list of (cls, what, failing_input), stats)"""
    bad = []
    stats = {}
    a = line.split(' ')
    pool, hbs, csleep, settle = int(a[1]), a[3], int(a[5].split(':')[0]), int(a[6])
    all_handlers = not any(c in a[5].split(':')[1] for c in 'cmx')
    H = f['H']
    MS = 1000000
    # starts of the iterations that ran to their end: (position in H, start ns); idle runs count with their last start
    complete = []
    cur_it = None
    for k, e in enumerate(H):
        if e[0] == 'it':
            cur_it = (k, int(e[2]))
        elif e[0] == 'end' and cur_it is not None:
            complete.append(cur_it)
            cur_it = None
        elif e[0] == 'idle':
            complete.append((k, int(e[2])))

    def later_complete(pos, t):
        """a completed iteration after log position pos that started at or after time t"""
        return any(k > pos and st >= t for k, st in complete)
    if any(c['garbage'] for c in f['C']):
        bad.append(('client-garbage', 'a client read bytes that are not a WebSocket frame', True))
    # --- (A) conformance verdict
    if not model.startswith('accepted'):
        # the correspondence broke: the direct checks below look for a concrete failure of the property on this scenario
        bad.append(('trace', 'the hook log is not a run of the model: ' + model[:300], False))
        m = {'sessions': 'ok', 'offwf': '0', 'stuck': 'false', 'exited': 'true' if any(e[0] == 'shutdown' for e in H) else 'false'}
    else:
        m = dict(kv.split('=', 1) for kv in model.split(' ')[1:])
    # the session discipline, directly on the logged dispatch sequence: (c m* x)* (c m*)? per address
    open_ = {}
    for e in H:
        if e[0] == 'd' and all_handlers:
            ad, k = e[2], e[1]
            o = open_.get(ad, False)
            if (k == 'c' and o) or (k != 'c' and not o):
                bad.append(('sessions', 'dispatch %s for %s while its session is %s' % (
                    {'c': 'Connect', 'm': 'Message', 'x': 'Disconnect'}[k], ad, 'open' if o else 'closed'), True))
                break
            open_[ad] = k != 'x'
    if m['sessions'] != 'ok':
        bad.append(('sessions', 'dispatch sequence violates the session discipline for ' + m['sessions'], True))
    elif m['offwf'] != '0':
        bad.append(('off-wf', 'a broadcast did not visit exactly the model\'s table (offwf=%s)' % m['offwf'], False))
    # --- (B) shutdown
    if f['returned'] == 'never':
        bad.append(('stalled-receive' if m['stuck'] == 'true' else 'shutdown-hang',
                    'run did not return within 4 s of the shutdown signal', True))
    elif m['exited'] != 'true':
        bad.append(('trace', 'run returned but the log has no shutdown event', False))
    elif int(f['returned']) > 2000:
        bad.append(('shutdown-slow', 'run took %s ms to return' % f['returned'], True))
    # --- (C) handler side: every dispatch executed exactly once
    disp = [tuple(e[1:]) if e[1] == 'm' else (e[1], e[2], '-') for e in H if e[0] == 'd']
    execd = sorted(f['E'], key=lambda e: int(e[4]))
    ex = [(e[0], e[1], e[2]) for e in execd]
    if sorted(disp) != sorted(ex):
        missing = [d for d in disp if disp.count(d) > ex.count(d)]
        extra = [d for d in ex if ex.count(d) > disp.count(d)]
        bad.append(('exactly-once', 'handler executions differ from dispatches: not/under-executed %s, over-executed %s'
                    % (missing[:3], extra[:3]), True))
    elif pool == 1:
        if ex != disp:
            bad.append(('order-1thread', 'one handler thread, yet execution order differs from dispatch order', True))
        if any(int(e[5]) != int(e[4]) + 1 for e in execd):
            bad.append(('overlap-1thread', 'one handler thread, yet two handler bodies overlapped', True))
        if len(set(e[3] for e in execd)) > 1:
            bad.append(('threads-1thread', 'one handler thread configured, several observed', True))
    else:
        # counted, not judged: start-order inversions per address; connect still running / not yet started when a message starts
        pos = {}
        for k, e in enumerate(execd):
            pos.setdefault((e[0], e[1], e[2]), []).append(k)
        seen = {}
        order = []
        for d in disp:
            k = seen.get(d, 0)
            seen[d] = k + 1
            order.append(pos[d][k])
        by_addr = {}
        for d, p in zip(disp, order):
            by_addr.setdefault(d[1], []).append((d[0], p))
        inv = cinv = xinv = cover = 0
        for ad, l in by_addr.items():
            starts = [int(execd[p][4]) for _, p in l]
            threads = [execd[p][3] for _, p in l]
            for x in range(len(l)):
                for y in range(x + 1, len(l)):
                    if starts[y] < starts[x]:
                        # invocation y was dispatched after x but started before it
                        if threads[x] == threads[y]:
                            bad.append(('order-same-thread', 'one worker thread ran two invocations for %s against their '
                                        'dispatch order' % ad, True))
                        elif l[x][0] == 'c':
                            cinv += 1
                        elif l[y][0] == 'x':
                            xinv += 1
                        else:
                            inv += 1
            # overlap of a connect body with a later message body
            for x in range(len(l)):
                if l[x][0] == 'c':
                    cend = int(execd[l[x][1]][5])
                    for y in range(x + 1, len(l)):
                        if l[y][0] == 'c':
                            break
                        if int(execd[l[y][1]][4]) < cend:
                            cover += 1
                            break
        stats['message_start_inversions'] = inv
        stats['connect_start_inversions'] = cinv
        stats['disconnect_start_inversions'] = xinv
        stats['connect_overlapped_by_message'] = cover
        if cinv or xinv:
            bad.append(('handler-start-order', 'pool of %d handler threads: for one client %d handler invocation(s) started '
                        'before the connect handler dispatched earlier had started, %d disconnect handler invocation(s) '
                        'started before an invocation dispatched earlier' % (pool, cinv, xinv), True))
    # --- (D) independent table replay: lifetimes, broadcast targets
    table = []
    life = {}          # addr -> list of dict(writes, recvs, closed)
    cur_b = None
    uni = None
    nrm = nb = 0
    for hpos, e in enumerate(H):
        if e[0] == 'adm':
            if e[1] in table:
                bad.append(('readmission', 'address %s admitted while already in the table' % e[1], True))
            else:
                table.append(e[1])
            life.setdefault(e[1], []).append({'w': [], 'r': [], 'closed': None, 'removed': False, 'pos': hpos, 'lp': int(e[2])})
        elif e[0] == 'rm':
            nrm += 1
            if e[1] in table:
                table.remove(e[1])
                life[e[1]][-1]['removed'] = True
            else:
                bad.append(('table', 'removal of %s which is not in the table' % e[1], False))
        elif e[0] == 'r' and e[2] == 'm':
            life[e[1]][-1]['r'].append(e[3])
        elif e[0] == 'r' and e[2] == 'err':
            life[e[1]][-1]['closed'] = e[3]
        elif e[0] == 'o':
            if cur_b is not None and sorted(cur_b[1]) != sorted(cur_b[2]):
                bad.append(('broadcast-targets', 'broadcast %s written to %s, table was %s' % cur_b, True))
            cur_b = None
            if e[1] == 'b':
                nb += 1
                cur_b = (e[2], [], list(table))
            else:
                cur_b = None
                uni = e
        elif e[0] == 'w' and e[2] != 'ping':
            if e[1] not in table:
                bad.append(('write-target', 'write to %s which is not in the table' % e[1], True))
                continue
            life[e[1]][-1]['w'].append(e[2])
            if cur_b is not None:
                if e[2] != cur_b[0]:
                    bad.append(('broadcast-targets', 'foreign write inside a broadcast', False))
                cur_b[1].append(e[1])
            elif uni is None or not (uni[1] == 'u' and uni[2] == e[1] and uni[3] == e[2]):
                bad.append(('unicast-target', 'unicast %s written to %s' % (uni and uni[2:], e[1]), True))
        elif e[0] in ('end', 'it', 'shutdown'):
            if cur_b is not None and sorted(cur_b[1]) != sorted(cur_b[2]):
                bad.append(('broadcast-targets', 'broadcast %s written to %s, table was %s' % cur_b, True))
            cur_b = None
    stats['removals'] = nrm
    stats['broadcasts'] = nb
    # which branches of the loop the scenario exercised
    for k, e in enumerate(H):
        if e[0] == 'r' and e[2] == 'err':
            stats['removed:' + e[3]] = stats.get('removed:' + e[3], 0) + 1
        elif e[0] == 'hb':
            stats['removed:heartbeat-timeout'] = stats.get('removed:heartbeat-timeout', 0) + 1
        elif e[0] == 'rm' and k + 1 < len(H) and (H[k + 1][0] == 'adm' or (H[k + 1][0] == 'd' and k + 2 < len(H) and H[k + 2][0] == 'adm')):
            stats['removed:stale-at-admission'] = stats.get('removed:stale-at-admission', 0) + 1
        elif e[0] == 'pong':
            stats['pongs'] = stats.get('pongs', 0) + 1
        elif e[0] == 'w' and e[2] == 'ping':
            stats['pings'] = stats.get('pings', 0) + 1
        elif e[0] == 'o' and e[1] == 'u' and not (k + 1 < len(H) and H[k + 1][0] == 'w'):
            stats['unicast-to-absent-address'] = stats.get('unicast-to-absent-address', 0) + 1
        elif e[0] == 'partial':
            stats['loop-blocked-in-receive'] = 1
    if f.get('listen_after') == '1':
        stats['port-still-served-after-run-returned:' + a[4]] = 1
    # --- (E) server-side sends vs drained messages
    sent = {s[3]: s for s in f['S']}
    drained = [e[3] if e[1] == 'u' else e[2] for e in H if e[0] == 'o']
    if len(set(drained)) != len(drained):
        bad.append(('drained-twice', 'an outgoing message was drained twice', True))
    if any(d not in sent for d in drained):
        bad.append(('drained-unknown', 'a drained message was never sent', True))
    ds = set(drained)
    late = [s_ for d, s_ in sent.items() if d not in ds and later_complete(-1, int(s_[5]))]
    if late:
        bad.append(('not-drained', '%d message(s) whose send returned before a completed iteration started were never '
                    'drained, e.g. %s' % (len(late), late[0][:5]), True))
    for e in H:
        if e[0] == 'o' and e[1] == 'u' and sent.get(e[3], [0, 0, e[2]])[2] != e[2]:
            bad.append(('unicast-target', 'unicast drained for %s was sent to %s' % (e[2], sent[e[3]][2]), True))
    # --- (F) clients
    # which stay in the table belongs to which client connection: same address, and the server created the stream (its
    # last_pong, logged at admission) at the moment the client read the 101 response — the closest pair wins (a connection
    # that was reset before its admission is skipped by the loop because peer_addr() fails, so counting would go wrong)
    owner = {}
    for ad, lives in life.items():
        recs = [c for c in f['C'] if c['addr'] == ad]
        for lf in lives:
            free = [c for c in recs if id(c) not in owner]
            if free:
                best = min(free, key=lambda c: abs(c['t_open'] - lf['lp']))
                owner[id(best)] = lf
    for c in f['C']:
        lf = owner.get(id(c))
        who = 'client %d (%s, end %s)' % (c['client'], c['addr'], c['end'])
        if lf is None:
            if c['recv']:
                bad.append(('phantom-delivery', who + ' was never admitted but received data', True))
            if c['end'] in 'aqrv' and later_complete(-1, c['t_open'] + 100 * MS):
                bad.append(('never-admitted', who + ' saw the 101 response 100 ms before a completed iteration started '
                            'but was never admitted', True))
            continue
        # what it read = what the loop wrote to its address while it was in the table
        if c['end'] == 'a' and c['eof'] and f['returned'] != 'never':      # clean EOF: nothing was lost to a reset
            if c['recv'] != lf['w']:
                bad.append(('delivery', who + ' read %d data frames, the loop wrote %d to it (or order differs)'
                            % (len(c['recv']), len(lf['w'])), True))
        elif c['recv'] != lf['w'][:len(c['recv'])]:
            bad.append(('delivery', who + ' read frames that are not a prefix of what the loop wrote to it', True))
        for d in c['recv']:
            s = sent.get(d)
            if s is None:
                bad.append(('delivery', who + ' read a frame nobody sent', True))
            elif s[1] == 'u' and s[2] != c['addr']:
                bad.append(('unicast-target', who + ' read a unicast addressed to ' + s[2], True))
        if len(set(c['recv'])) != len(c['recv']):
            bad.append(('delivery-twice', who + ' read the same server message twice', True))
        # what the loop received from it
        if lf['r'] != c['sent'][:len(lf['r'])]:
            bad.append(('receive-order', who + ': messages received are not a prefix of the messages sent', True))
        elif lf['closed'] == 'ConnectionClosed' and c['end'] == 'q' and lf['r'] != c['sent']:
            bad.append(('receive-lost', who + ': Close frame processed but %d earlier message(s) never delivered'
                        % (len(c['sent']) - len(lf['r'])), True))
        if c['t_last_write'] and later_complete(lf['pos'], c['t_last_write'] + 50 * MS):
            if c['end'] == 'q' and not lf['removed']:
                bad.append(('no-disconnect', who + ' wrote a Close frame 50 ms before a completed iteration started, no '
                            'removal', True))
            if lf['r'] != c['sent'] and c['end'] in 'aqrv' and not lf['removed']:
                bad.append(('receive-lost', who + ': %d message(s) written 50 ms before a completed iteration started were '
                            'never received' % (len(c['sent']) - len(lf['r'])), True))
    return bad, stats


PROGRESS = {'not-drained', 'no-disconnect', 'receive-lost', 'never-admitted'}


def evaluate(ctx, lines, nproc, timeout):
    """run the scenarios, replay their logs through the model, apply the oracle"""
    im = run_parallel(lines, nproc, timeout)
    parsed, mlines = [], []
    for line, b in zip(lines, im):
        if not b.startswith('ok '):
            parsed.append(None)
            mlines.append('c12_replay off cmx -')
            continue
        f = parse(b)
        parsed.append(f)
        handlers = ''.join(c for c in 'cmx' if c not in line.split(' ')[5].split(':')[1])
        mlines.append('c12_replay %s %s %s' % (line.split(' ')[3], handlers or '-', ';'.join(','.join(e) for e in f['H']) or '-'))
    mo = ctx.model(mlines)
    res = []
    for line, b, f, mres in zip(lines, im, parsed, mo):
        if f is None:
            res.append((b, None, mres, None, {}))
        else:
            bad, stats = oracle(line, f, mres)
            res.append((b, f, mres, bad, stats))
    return res


def run(ctx):
    rng = ctx.rng
    thorough = ctx.tier == 'thorough'
    lines = []
    if ctx.replay:
        lines = [ctx.replay['case']['line']]
    else:
        cdir = hv.V + '/corpus/C12'
        if os.path.isdir(cdir):
            for fn in sorted(os.listdir(cdir)):
                for l in open(os.path.join(cdir, fn)):
                    l = l.strip()
                    if l and not l.startswith('#'):
                        lines.append(l)
        ncorpus = len(lines)
        n = 4000 if thorough else (600 if drifted(ctx) else 40)
        for _ in range(n):
            lines.append(gen_scenario(rng, thorough))
        ex = ctx.model(['c12_examples x'])
        if ex != [EXAMPLES]:
            ctx.report({'line': 'c12_examples'}, ex[0][:400] if ex else '', EXAMPLES, cls='extraction', failing_input=False,
                       what='the extracted model does not compute what Coq proved about the closed examples of props/C12.v')
    nproc, timeout = (12, 900) if thorough else (10, 120)
    results = evaluate(ctx, lines, nproc, timeout)
    ctx.evaluations += len(lines)
    # a progress expectation that failed is re-run twice: reported only if it fails every time
    retry = [k for k, r in enumerate(results) if r[3] and all(b[0] in PROGRESS for b in r[3])]
    cleared = 0
    for _ in range(2):
        if not retry:
            break
        again = evaluate(ctx, [lines[k] for k in retry], nproc, timeout)
        still = []
        for k, r in zip(retry, again):
            if r[3] is not None and not any(b[0] in PROGRESS for b in r[3]):
                results[k] = r            # the re-run stands for the scenario (it is judged in full below)
                cleared += 1
            else:
                still.append(k)
        retry = still
    ctx.count('progress-expectation-cleared-by-rerun', cleared)
    tot = {}
    for line, (b, f, mres, bad, stats) in zip(lines, results):
        case = {'line': line}
        a = line.split(' ')
        ctx.count('pool:' + a[1])
        ctx.count('poll:' + a[2])
        ctx.count('heartbeat:' + ('off' if a[3] == 'off' else 'on'))
        ctx.count('link:' + a[4])
        ctx.count('clients:%d' % (len(a) - 8))
        if f is None:
            ctx.report(case, b[:200], 'scenario runs', cls='harness', failing_input=(b in ('PANIC', 'DIED', 'TIMEOUT')),
                       what='scenario failed to run: ' + b[:100])
            continue
        ctx.traces += 1
        for k, v in stats.items():
            tot[k] = tot.get(k, 0) + v
        ctx.count('model:' + mres.split(' ')[0].split(':')[0])
        for step in '.'.join(a[8:]).split('.'):
            if step and step[0] in 'TBFGMPQRXVCHh':
                ctx.count('step:' + step[0] + ('s' if step == 'Cs' else ''))
        if stats.get('removals', 0) + stats.get('broadcasts', 0) > 0 and len(a) - 8 >= 2:
            ctx.mark_nontrivial(line)
        if bad and os.environ.get('C12_DEBUG_DIR'):
            with open(os.path.join(os.environ['C12_DEBUG_DIR'], 'bad-%d.txt' % ctx.traces), 'w') as fh:
                fh.write(line + '\n' + b + '\n' + mres + '\n' + repr(bad) + '\n')
        seen = set()
        for cls, what, failing in bad:
            if cls in seen:
                continue
            seen.add(cls)
            ctx.report(case, {'model': mres[:300], 'returned': f['returned'], 'hook_events': len(f['H'])},
                       'C12 oracle', cls=cls, failing_input=failing, what=what)
    ctx.extra['loop_branches_and_handler_order_stats'] = tot
    for k in (0, len(lines) // 2, len(lines) - 1):
        if 0 <= k < len(lines) and results[k][1] is not None:
            ctx.sample({'scenario': lines[k], 'model': results[k][2], 'returned_ms': results[k][1]['returned'],
                        'hook_events': len(results[k][1]['H']), 'handler_events': len(results[k][1]['E'])})
