"""C04 — routing decision: get_handler (hook H2) vs the Coq model (proved to follow the declarative rule) vs an independent
Python reading of the rule."""
import re
from hv import hx

RULE = ('applications with 0..4 host sub-apps x 0..6 routes each (+ default), patterns from literals/prefix/suffix/infix/'
        'multiple and adjacent */overlapping/shadowing; Host absent/exact/wildcard-matching/with port/non-matching; paths '
        'matching several/one/no route; non-trivial = at least two candidate routes or hosts match')
NEEDS_TOKIO = True
ASSUMPTIONS = ['WebSocket dispatch (call_websocket_handler) is exercised end to end over loopback (threaded runtime): each WebSocket '
               'route handler writes its own identity on the stream; no upgrade = connection closed without data']


def glob(p, t):
    return re.fullmatch(''.join('.*' if c == '*' else re.escape(c) for c in p), t, re.S) is not None


def oracle(host, uri, default, subs):
    def first(routes):
        for j, r in enumerate(routes):
            if glob(r, uri):
                return j
        return None
    if host is not None:
        for i, (h, routes) in enumerate(subs):
            if glob(h, host):
                j = first(routes)
                if j is not None:
                    return 'sub:%d:%d' % (i, j)
                break
    j = first(default)
    return 'none' if j is None else 'def:%d' % j


HOSTS = ['example.com', 'a.example.com', 'b.a.example.com', 'localhost', 'localhost:8080', 'example.org', 'é.example.com', '',
         'a.example.com.example.com', 'cdn.com.com', 'localhost:8080:8080']
HOST_PATS = ['*', 'example.com', '*.example.com', '*.com', 'a.*', 'localhost*', '*:8080', '*.a.example.com', 'exam*.com', '**']
PATHS = ['/', '/a', '/a/b', '/a/b/c', '/static/x.css', '/static/', '/api/v1/users', '/api', '/é', '/a*b', '/index.html', '/x.html',
         '/a/b/b', '/static/x.css.css', '/static/a.css/b.css', '/api/users/users', '/x.html.html', '/aab', '/a/bab', '/xx']
ROUTE_PATS = ['/*', '/', '/a', '/a/*', '/a*', '*/b', '/static/*', '/*.css', '/api/*', '/api/*/users', '*', '**', '/*/*', '/a/b',
              '/*.html', '/a*b', '/é', '/*x*']


def run(ctx):
    rng = ctx.rng
    n = 300000 if ctx.tier == 'thorough' else 6000
    lines, meta = [], []
    if ctx.replay:
        lines, meta, n = [ctx.replay['case']['line']], [None], 0
    for _ in range(n):
        nsub = rng.randint(0, 4)
        subs = [(rng.choice(HOST_PATS), [rng.choice(ROUTE_PATS) for _ in range(rng.randint(0, 6))]) for _ in range(nsub)]
        default = [rng.choice(ROUTE_PATS) for _ in range(rng.randint(0, 6))]
        host = rng.choice(HOSTS + [None, None])
        uri = rng.choice(PATHS)
        enc = lambda l: ','.join(hx(x) for x in l) if l else '-'
        sarg = '|'.join('%s:%s' % (hx(h), enc(rs)) for h, rs in subs) if subs else '-'
        lines.append('route %s %s %s %s' % ('-' if host is None else hx(host), hx(uri), enc(default), sarg))
        meta.append((host, uri, default, subs))
    m, im = ctx.both(lines)
    for line, me, a, b in zip(lines, meta, m, im):
        ctx.count('model:' + a.split(':')[0])
        if me is not None:
            host, uri, default, subs = me
            want = oracle(host, uri, default, subs)
            if a != want:
                ctx.report({'line': line}, 'model=' + a, 'oracle=' + want, cls='model-vs-oracle', failing_input=False,
                           what='Coq routing model disagrees with the Python reading of the rule')
            cands = sum(1 for r in default if glob(r, uri)) + sum(1 for h, rs in subs if host is not None and glob(h, host))
            if cands >= 2:
                ctx.mark_nontrivial(line)
            ctx.count('host:' + ('absent' if host is None else 'present'))
        else:
            want = a
        if b != a:
            ctx.report({'line': line}, 'impl=' + b, 'rule=' + want, cls='route-mismatch', failing_input=(b != want),
                       what='get_handler selects %s but the routing rule gives %s' % (b, want))
    # WebSocket upgrade requests end to end over loopback: same rule over the WebSocket routes (call_websocket_handler)
    if not ctx.replay:
        wl, wmeta = [], []
        for _ in range(600 if ctx.tier == 'thorough' else 40):
            nsub = rng.randint(0, 3)
            # App::with_host refuses the bare `*` host pattern (that is what the default sub-app is for)
            subs = [(rng.choice([h for h in HOST_PATS if h != '*']), [rng.choice(ROUTE_PATS) for _ in range(rng.randint(0, 3))]) for _ in range(nsub)]
            default = [rng.choice(ROUTE_PATS) for _ in range(rng.randint(0, 3))]
            host = rng.choice([h for h in HOSTS if h] + [None])
            uri = rng.choice([p for p in PATHS if '*' not in p and 'é' not in p])
            enc = lambda l: ','.join(hx(x) for x in l) if l else '-'
            sarg = '|'.join('%s:%s' % (hx(h), enc(rs)) for h, rs in subs) if subs else '-'
            wl.append('wsroute %s %s %s %s' % ('-' if host is None else hx(host), hx(uri), enc(default), sarg))
            wmeta.append((host, uri, default, subs))
        wm, wim = ctx.both(wl)
        for line, me, a, b in zip(wl, wmeta, wm, wim):
            want = oracle(*me)
            ctx.count('ws:' + b.split(':')[0])
            if b != a or b != want:
                ctx.report({'line': line, 'kind': 'websocket'}, 'impl=' + b, 'rule=' + want, cls='ws-route-mismatch', failing_input=(b != want),
                           what='WebSocket upgrade dispatched to %s but the routing rule gives %s' % (b, want))
    ctx.tokio_twin(lines[::2], m[::2], 'route-mismatch-tokio', what='tokio get_handler differs from the routing rule')
    for k in (0, len(lines) // 2):
        if k < len(lines):
            ctx.sample({'case': lines[k], 'decision': im[k]})
