"""C04 — routing decision: get_handler (hook H2) vs the Coq model (proved to follow the declarative rule) vs an independent
Python reading of the rule."""
import re
from hv import hx

RULE = ('applications with 0..4 host sub-apps x 0..6 routes each (+ default), patterns from literals/prefix/suffix/infix/'
        'multiple and adjacent */overlapping/shadowing; Host absent/exact/wildcard-matching/with port/non-matching; paths '
        'matching several/one/no route; non-trivial = at least two candidate routes or hosts match')
NEEDS_TOKIO = True
ASSUMPTIONS = ['config-driven server: humphrey_server::server::main is started from generated configuration texts (redirect and '
               'file routes, 0..3 hosts, multi-pattern routes, hosts before or after the top-level routes) and asked over loopback; '
               'the plugin build is not exercised',
               'WebSocket dispatch (call_websocket_handler) is exercised end to end over loopback (threaded runtime): each WebSocket '
               'route handler writes its own identity on the stream; no upgrade = connection closed without data']


def glob(p, t):
    return re.fullmatch(''.join('.*' if c == '*' else re.escape(c) for c in p), t, re.S) is not None


def oracle(host, uri, default, subs):
    def first(routes):
        for j, r in enumerate(routes):
            if glob(r, uri):
                return j
        return None
    if host is not None:
        for i, (h, routes) in enumerate(subs):
            if glob(h, host):
                j = first(routes)
                if j is not None:
                    return 'sub:%d:%d' % (i, j)
                break
    j = first(default)
    return 'none' if j is None else 'def:%d' % j


HOSTS = ['example.com', 'a.example.com', 'b.a.example.com', 'localhost', 'localhost:8080', 'example.org', 'é.example.com', '',
         'a.example.com.example.com', 'cdn.com.com', 'localhost:8080:8080']
HOST_PATS = ['*', 'example.com', '*.example.com', '*.com', 'a.*', 'localhost*', '*:8080', '*.a.example.com', 'exam*.com', '**']
PATHS = ['/', '/a', '/a/b', '/a/b/c', '/static/x.css', '/static/', '/api/v1/users', '/api', '/é', '/a*b', '/index.html', '/x.html',
         '/a/b/b', '/static/x.css.css', '/static/a.css/b.css', '/api/users/users', '/x.html.html', '/aab', '/a/bab', '/xx']
ROUTE_PATS = ['/*', '/', '/a', '/a/*', '/a*', '*/b', '/static/*', '/*.css', '/api/*', '/api/*/users', '*', '**', '/*/*', '/a/b',
              '/*.html', '/a*b', '/é', '/*x*']


SRV_HOST_PATS = ['localhost', '*.example.com', 'a.example.com', '*.com', 'api.*', '*:8080', 'exam*.com', '*.a.example.com']
SRV_HOSTS = [None, 'localhost', 'a.example.com', 'x.a.example.com', 'example.com', 'other.org', 'localhost:8080', 'api.test',
             'b.example.com:8080']
SRV_ROUTE_PATS = ['/', '/*', '/a', '/a/*', '/a*', '/*.html', '/x/*/y', '/b', '/*/c', '/static/*', '/api/*/users']
SRV_PATHS = ['/', '/a', '/a/b', '/ab', '/x/1/y', '/index.html', '/b', '/q/c', '/zzz', '/a?x=1', '/static/s.css', '/api/7/users',
             '/a/b/c', '/x.html?y', '/api/users',
             # a query that itself contains '?' (RFC 3986 allows it): the path ends at the FIRST '?'
             '/a?next=/b?tab=2', '/b?x=1?y=2', '/index.html?q=?', '/a/b?u=/zzz?']


def render_conf(rng, default, hosts, cache=False):
    """default: [( [patterns], kind, ident )]; hosts: [(pattern, routes)] -> configuration text"""
    ind = lambda d: ' ' * (4 * d)
    out = ['server {', ind(1) + 'address "127.0.0.1"', ind(1) + 'port 8080', ind(1) + 'threads 8', ind(1) + 'log {',
           ind(2) + 'level "error"', ind(2) + 'console false', ind(1) + '}']
    if cache:
        # the response cache is keyed by (path, host): with it on, the same path asked of different hosts must still be
        # answered by each host's own route (the model has no cache: C16_cache_transparent)
        out += [ind(1) + 'cache {', ind(2) + 'size 1M', ind(2) + 'time 60', ind(1) + '}']

    def routes(rs, d):
        for r in rs:
            pats, kind, ident = r[0], r[1], r[2]
            out.append(ind(d) + 'route ' + rng.choice([', ', ',', ' , ']).join(pats) + ' {')
            if kind == 'redirect':
                out.append(ind(d + 1) + 'redirect "/id/%s"' % ident)
            else:
                out.append(ind(d + 1) + 'file "@FIX@/f_%s.txt"' % ident)
            if len(r) > 3 and r[3] is not None:
                out.append(ind(d + 1) + 'websocket "@UP%d@"' % r[3])
            out.append(ind(d) + '}')
            if rng.random() < 0.3:
                out.append('')
    blocks = [('default', None)] + [('host', k) for k in range(len(hosts))]
    # hosts and top-level routes may come in any order in the file; their relative order within each kind is what counts
    if rng.random() < 0.5:
        blocks = blocks[1:] + blocks[:1]
    for kind, k in blocks:
        if kind == 'default':
            routes(default, 1)
        else:
            pat, rs = hosts[k]
            out.append(ind(1) + ('host "%s" {' % pat if rng.random() < 0.7 else 'host %s {' % pat))
            routes(rs, 2)
            out.append(ind(1) + '}')
    out.append('}')
    return '\n'.join(out) + '\n'


def tunnel_part(ctx):
    """The WebSocket pass-through of the config-driven server: routes with a `websocket` target that echoes what it was
    handed. The upgrade request must arrive at the target as it was sent (request line, every header field); compared with
    Server.ws_forwarded_text and read independently."""
    rng = ctx.rng
    n = 100 if ctx.tier == 'thorough' else 6 * ctx.scale
    lines, meta = [], []
    if ctx.replay:
        return
    for _ in range(n):
        pats = rng.sample(['/ws', '/chat/*', '/a*', '/*'], rng.randint(1, 3))
        conf = '\n'.join(['server {', '  address "127.0.0.1"', '  port 8080', '  threads 8', '  log {', '    level "error"', '    console false', '  }'] +
                         [ln for r in pats for ln in ('  route %s {' % r, '    redirect "/elsewhere"', '    websocket "@UPE@"', '  }')] + ['}']) + '\n'
        reqs = []
        for _ in range(4):
            t = rng.choice(['/ws', '/chat/room1', '/chat/', '/abc', '/zzz', '/a', '/ws?token=1', '/chat/r?x=1&y=2'])
            xff = rng.choice([None, None, '10.0.0.%d' % rng.randint(1, 9)])
            reqs.append((t, xff))
        lines.append('srv %s - %s -' % (hx(conf), ','.join('%s:%s:-:%s:-:ws' % (hx('x'), hx(t), hx(x) if x else '-') for t, x in reqs)))
        meta.append((pats, reqs))
    im = ctx.impl(lines)
    ctx.evaluations += len(lines)
    from props import srvmodel
    srvmodel.compare(ctx, lines, im, 'server-tunnel-mismatch', 'WebSocket pass-through of the config-driven server')
    for line, (pats, reqs), b in zip(lines, meta, im):
        ctx.count('kind:server-tunnel-e2e')
        got = b.split(',')
        if len(got) != len(reqs):
            ctx.report({'line': line[:4000], 'kind': 'server-tunnel-e2e'}, b[:300], 'one answer per request', cls='server-tunnel-mismatch',
                       failing_input=b in ('PANIC', 'DIED', 'TIMEOUT'), what='the config-driven server did not answer: ' + b[:100])
            continue
        for (t, xff), g in zip(reqs, got):
            path = t.split('?')[0]
            matched = any((path.startswith(p_[:-1]) if p_.endswith('*') else path == p_) for p_ in pats)
            case = {'line': line[:4000], 'kind': 'server-tunnel-e2e', 'request': t}
            if not matched:
                if g != 'noresp':
                    ctx.report(case, g[:200], 'closed without a response', cls='server-tunnel-route', failing_input=True,
                               what='an upgrade request no WebSocket route matches was answered')
                continue
            if not g.startswith('200:body:'):
                ctx.report(case, g[:200], 'the echo of the upgrade request', cls='server-tunnel-answer', failing_input=True,
                           what='an upgrade request to a route with a websocket target did not reach the target')
                continue
            seen = bytes.fromhex(g.split(':')[2])
            head = seen.split(b'\r\n\r\n')[0].split(b'\r\n')
            hs = sorted((x.split(b': ', 1)[0].lower(), x.split(b': ', 1)[1]) for x in head[1:] if b': ' in x)
            want = sorted([(b'host', b'x'), (b'upgrade', b'websocket'), (b'connection', b'Upgrade'),
                           (b'sec-websocket-key', b'dGhlIHNhbXBsZSBub25jZQ=='), (b'sec-websocket-version', b'13')] +
                          ([(b'x-forwarded-for', xff.encode())] if xff else []))
            if head[0] != ('GET %s HTTP/1.1' % t).encode() or hs != want:
                ctx.report(case, seen[:300].decode('utf-8', 'replace'), 'GET %s HTTP/1.1 with the header fields sent' % t, cls='server-tunnel-request',
                           failing_input=True, what='the websocket target was not handed the upgrade request as it was sent')
            else:
                ctx.count('tunnelled upgrade request read independently')
                ctx.mark_nontrivial('tunnel ' + t + str(xff))


def server_part(ctx):
    tunnel_part(ctx)
    rng = ctx.rng
    n = 1200 if ctx.tier == 'thorough' else 60 * ctx.scale
    lines, meta = [], []
    if ctx.replay:
        lines, meta, n = [ctx.replay['case']['line']], [None], 0
    for _ in range(n):
        ups = [0]

        def mk_routes(tag):
            rs = []
            for j in range(rng.randint(0, 4)):
                pats = rng.sample(SRV_ROUTE_PATS, rng.choice([1, 1, 1, 2, 3]))
                # some routes also take WebSocket upgrades, each tunnelling to its own (identifiable) target
                up = None
                if rng.random() < 0.4 and ups[0] < 16:
                    up = ups[0]
                    ups[0] += 1
                rs.append((pats, rng.choice(['redirect', 'file']), '%s_%d' % (tag, j), up))
            return rs
        default = mk_routes('d')
        hosts = [(p, mk_routes('h%d' % i)) for i, p in enumerate(rng.sample(SRV_HOST_PATS, rng.randint(0, 3)))]
        conf = render_conf(rng, default, hosts, cache=rng.random() < 0.5)
        fixtures = ['%s:%s' % (hx('f_%s.txt' % ident), hx('F ' + ident)) for rs in [default] + [r for _, r in hosts]
                    for _, kind, ident, _up in rs if kind == 'file']
        # plain requests, then a few WebSocket upgrade requests (each tunnel keeps a worker of the real server busy)
        same = rng.choice(SRV_PATHS)                 # one path asked of every host in turn, twice
        reqs = [(rng.choice(SRV_HOSTS), rng.choice(SRV_PATHS), False) for _ in range(8)] + \
               [(h, same, False) for h in rng.sample(SRV_HOSTS, 5)] * 2 + \
               [(rng.choice(SRV_HOSTS), rng.choice([p_ for p_ in SRV_PATHS if '?' not in p_]), True) for _ in range(3)]
        lines.append('srv %s %s %s' % (hx(conf), ','.join(fixtures) or '-',
                                       ','.join('%s:%s:-:-:-:%s' % ('-' if h is None else hx(h), hx(t), 'ws' if w else '-') for h, t, w in reqs)))
        meta.append((default, hosts, reqs))
    im = ctx.impl(lines)
    ctx.evaluations += len(lines)
    from props import srvmodel
    srvmodel.compare(ctx, lines, im, 'server-route-mismatch', 'routing through the config-driven server')
    # the routing model on the flattened pattern lists (a multi-pattern route is one route per pattern, same handler)
    flat = lambda rs: [(p, (kind, ident)) for pats, kind, ident, _up in rs for p in pats]
    # the WebSocket route tables: only the routes with a target, in order
    wsflat = lambda rs: [(p, ('ws', up)) for pats, kind, ident, up in rs if up is not None for p in pats]
    mlines, mref = [], []
    for k, me in enumerate(meta):
        if me is None:
            continue
        default, hosts, reqs = me
        enc = lambda l: ','.join(hx(x) for x in l) if l else '-'
        sarg = '|'.join('%s:%s' % (hx(h), enc([p for p, _ in flat(rs)])) for h, rs in hosts) if hosts else '-'
        wsarg = '|'.join('%s:%s' % (hx(h), enc([p for p, _ in wsflat(rs)])) for h, rs in hosts) if hosts else '-'
        for q, (h, t, w) in enumerate(reqs):
            if w:
                mlines.append('route %s %s %s %s' % ('-' if h is None else hx(h), hx(t), enc([p for p, _ in wsflat(default)]), wsarg))
            else:
                mlines.append('route %s %s %s %s' % ('-' if h is None else hx(h), hx(t.split('?')[0]), enc([p for p, _ in flat(default)]), sarg))
            mref.append((k, q))
    mout = ctx.model(mlines)
    decided = dict(zip(mref, mout))
    for k, (line, me, b) in enumerate(zip(lines, meta, im)):
        ctx.count('kind:server-e2e')
        if me is None:
            ctx.sample({'replayed': line[:200], 'impl': b[:300]})
            continue
        default, hosts, reqs = me
        got = b.split(',')
        if len(got) != len(reqs):
            ctx.report({'line': line[:4000], 'kind': 'server-e2e'}, b[:300], 'one answer per request', cls='server-route-mismatch',
                       failing_input=b in ('PANIC', 'DIED', 'TIMEOUT'), what='the config-driven server did not answer: ' + b[:100])
            continue
        for q, ((h, t, w), g) in enumerate(zip(reqs, got)):
            d = decided[(k, q)]
            tab = wsflat if w else flat
            want_o = oracle(h, t.split('?')[0], [p for p, _ in tab(default)], [(hp, [p for p, _ in tab(rs)]) for hp, rs in hosts])
            if d.startswith('sub:'):
                _, i, j = d.split(':')
                kind, ident = tab(hosts[int(i)][1])[int(j)][1]
            elif d.startswith('def:'):
                kind, ident = tab(default)[int(d.split(':')[1])][1]
            else:
                kind, ident = ('closed' if w else 'none'), None
            want = {'redirect': '301:loc:' + ('/id/%s' % ident).encode().hex(), 'file': '200:body:' + ('F %s' % ident).encode().hex(),
                    'ws': '200:body:' + ('UP%s' % ident).encode().hex(), 'closed': 'noresp', 'none': '404'}[kind]
            ok = g == want or (kind == 'none' and g.startswith('404:'))
            if d != want_o:
                ctx.report({'line': line[:4000], 'kind': 'server-e2e', 'request': [h, t, w]}, 'model=' + d, 'oracle=' + want_o,
                           cls='model-vs-oracle', failing_input=False, what='Coq routing model disagrees with the Python reading of the rule')
            if not ok:
                ctx.report({'line': line[:4000], 'kind': 'server-e2e', 'request': [h, t, 'upgrade' if w else 'plain']}, g[:200], want, cls='server-route-mismatch',
                           failing_input=True,
                           what='the server started from this configuration answered Host=%r %s with %s; the routing rule over the '
                                'configured hosts and routes selects %s (%s)' % (h, t, g[:80], d, want))
            elif d != 'none' and (len(hosts) >= 1):
                ctx.mark_nontrivial(line + str(q))
    import shutil
    from hv import V
    shutil.rmtree(V + '/work/c04srv', ignore_errors=True)


def run(ctx):
    rng = ctx.rng
    n = 300000 if ctx.tier == 'thorough' else 6000 * ctx.scale
    lines, meta = [], []
    if ctx.replay:
        lines, meta, n = [ctx.replay['case']['line']], [None], 0
    for _ in range(n):
        nsub = rng.randint(0, 4)
        subs = [(rng.choice(HOST_PATS), [rng.choice(ROUTE_PATS) for _ in range(rng.randint(0, 6))]) for _ in range(nsub)]
        default = [rng.choice(ROUTE_PATS) for _ in range(rng.randint(0, 6))]
        host = rng.choice(HOSTS + [None, None])
        uri = rng.choice(PATHS)
        enc = lambda l: ','.join(hx(x) for x in l) if l else '-'
        sarg = '|'.join('%s:%s' % (hx(h), enc(rs)) for h, rs in subs) if subs else '-'
        lines.append('route %s %s %s %s' % ('-' if host is None else hx(host), hx(uri), enc(default), sarg))
        meta.append((host, uri, default, subs))
    m, im = ctx.both(lines)
    for line, me, a, b in zip(lines, meta, m, im):
        ctx.count('model:' + a.split(':')[0])
        if me is not None:
            host, uri, default, subs = me
            want = oracle(host, uri, default, subs)
            if a != want:
                ctx.report({'line': line}, 'model=' + a, 'oracle=' + want, cls='model-vs-oracle', failing_input=False,
                           what='Coq routing model disagrees with the Python reading of the rule')
            cands = sum(1 for r in default if glob(r, uri)) + sum(1 for h, rs in subs if host is not None and glob(h, host))
            if cands >= 2:
                ctx.mark_nontrivial(line)
            ctx.count('host:' + ('absent' if host is None else 'present'))
        else:
            want = a
        if b != a:
            ctx.report({'line': line}, 'impl=' + b, 'rule=' + want, cls='route-mismatch', failing_input=(b != want),
                       what='get_handler selects %s but the routing rule gives %s' % (b, want))
    # WebSocket upgrade requests end to end over loopback: same rule over the WebSocket routes (call_websocket_handler)
    if not ctx.replay:
        wl, wmeta = [], []
        for _ in range(600 if ctx.tier == 'thorough' else 40 * ctx.scale):
            nsub = rng.randint(0, 3)
            # App::with_host refuses the bare `*` host pattern (that is what the default sub-app is for)
            subs = [(rng.choice([h for h in HOST_PATS if h != '*']), [rng.choice(ROUTE_PATS) for _ in range(rng.randint(0, 3))]) for _ in range(nsub)]
            default = [rng.choice(ROUTE_PATS) for _ in range(rng.randint(0, 3))]
            host = rng.choice([h for h in HOSTS if h] + [None])
            uri = rng.choice([p for p in PATHS if '*' not in p and 'é' not in p])
            enc = lambda l: ','.join(hx(x) for x in l) if l else '-'
            sarg = '|'.join('%s:%s' % (hx(h), enc(rs)) for h, rs in subs) if subs else '-'
            wl.append('wsroute %s %s %s %s' % ('-' if host is None else hx(host), hx(uri), enc(default), sarg))
            wmeta.append((host, uri, default, subs))
        wm, wim = ctx.both(wl)
        # the tokio runtime's call_websocket_handler: same cases, same rule
        ctx.tokio_twin(wl, wm, 'ws-route-mismatch-tokio', what='tokio: WebSocket upgrade not dispatched by the routing rule')
        for line, me, a, b in zip(wl, wmeta, wm, wim):
            want = oracle(*me)
            ctx.count('ws:' + b.split(':')[0])
            if b != a or b != want:
                ctx.report({'line': line, 'kind': 'websocket'}, 'impl=' + b, 'rule=' + want, cls='ws-route-mismatch', failing_input=(b != want),
                           what='WebSocket upgrade dispatched to %s but the routing rule gives %s' % (b, want))
    # the config-driven server end to end: humphrey_server::server::main started from a configuration text; which route
    # answered is read off the response (each route redirects to, or serves a file holding, its own identity)
    if not ctx.replay or ctx.replay['case'].get('line', '').startswith('srv '):
        server_part(ctx)
    if ctx.replay and ctx.replay['case'].get('line', '').startswith('srv '):
        return
    ctx.tokio_twin(lines[::2], m[::2], 'route-mismatch-tokio', what='tokio get_handler differs from the routing rule')
    for k in (0, len(lines) // 2):
        if k < len(lines):
            ctx.sample({'case': lines[k], 'decision': im[k]})
