"""C05 — wildcard matcher: model (proved <-> Glob) vs humphrey::krauss::wildcard_match, plus an independent
regex oracle."""
import itertools
import re
from hv import hx

RULE = ('exhaustive patterns over {*,a,b} x texts over {a,b} (quick: |p|<=5,|t|<=7; thorough: |p|<=6,|t|<=8), the same with '
        'b replaced by a 2-byte / 4-byte scalar and with near-miss scalars sharing a UTF-8 prefix, plus random long '
        'self-overlapping pairs; non-trivial = pattern contains * and a literal, and text is non-empty')
ASSUMPTIONS = ['strings reach the matcher as valid UTF-8 (&str); chars() iteration = list of scalar values']


def oracle(p, t):
    rx = ''.join('.*' if c == '*' else re.escape(c) for c in p)
    return re.fullmatch(rx, t, re.S) is not None


def gen(ctx):
    thorough = ctx.tier == 'thorough'
    pl, tl = (6, 8) if thorough else (5, 7)
    pats = [''.join(x) for k in range(pl + 1) for x in itertools.product('*ab', repeat=k)]
    txts = [''.join(x) for k in range(tl + 1) for x in itertools.product('ab', repeat=k)]
    for p in pats:
        for t in txts:
            yield p, t, 'exh-ab'
    # substituted alphabets (smaller bound: the structure is identical, what changes is the character width)
    pl2, tl2 = (5, 7) if thorough else (4, 5)
    pats2 = [''.join(x) for k in range(pl2 + 1) for x in itertools.product('*ab', repeat=k)]
    txts2 = [''.join(x) for k in range(tl2 + 1) for x in itertools.product('ab', repeat=k)]
    for sub_p, sub_t, tag in (('é', 'é', 'exh-2byte'), ('\U0001F600', '\U0001F600', 'exh-4byte'),
                              ('é', 'è', 'exh-nearmiss2'), ('\U0001F600', '\U0001F601', 'exh-nearmiss4'),
                              ('*', 'b', 'exh-startext')):
        for p in pats2:
            for t in txts2:
                if tag == 'exh-startext':
                    # literal `*` inside the text
                    yield p, t.replace('b', '*'), tag
                else:
                    yield p.replace('b', sub_p), t.replace('b', sub_t), tag
    # random long self-overlapping pairs
    n = 200000 if thorough else 6000 * ctx.scale
    rng = ctx.rng
    units = ['a', 'ab', 'aab', 'aba', 'abc', '.example', '.com', 'x', 'é', 'a*', '/static/', '/']
    for _ in range(n):
        u = [rng.choice(units) for _ in range(rng.randint(1, 4))]
        t = ''.join(rng.choice(u) for _ in range(rng.randint(1, 14)))
        # derive a pattern from the text: replace random substrings by *
        p = t
        for _ in range(rng.randint(0, 4)):
            if not p:
                break
            i = rng.randrange(len(p) + 1)
            j = min(len(p), i + rng.randint(0, 5))
            p = p[:i] + '*' + p[j:]
        r = rng.random()
        if r < 0.35 and p:
            # mutate one literal
            i = rng.randrange(len(p))
            p = p[:i] + rng.choice('abc.x') + p[i + 1:]
        elif r < 0.5:
            t = t + rng.choice(u)
        yield p, t, 'random'


def run(ctx):
    if ctx.replay:
        cases = [(ctx.replay['case']['pattern'], ctx.replay['case']['text'], 'replay')]
    else:
        cases = list(gen(ctx))
        ctx.exhaustive = True
    lines = ['wm %s %s' % (hx(p), hx(t)) for p, t, _ in cases]
    m, im = ctx.both(lines)
    for (p, t, tag), a, b in zip(cases, m, im):
        exp = oracle(p, t)
        ctx.count(tag)
        ctx.count('model:' + a)
        ctx.count('impl:' + b)
        if '*' in p and p.strip('*') and t:
            ctx.mark_nontrivial((p, t))
        want = 'true' if exp else 'false'
        if a != want:
            # the proved model disagrees with the independent oracle: machinery problem, surface loudly
            ctx.report({'pattern': p, 'text': t}, 'model=' + a, 'oracle=' + want, cls='model-vs-oracle',
                       failing_input=False, what='Coq model of wildcard_match disagrees with the regex oracle')
        if b != a:
            ctx.report({'pattern': p, 'text': t, 'line': 'wm %s %s' % (hx(p), hx(t))}, 'impl=' + b, 'spec=' + want,
                       cls='wm-mismatch', failing_input=(b != want),
                       what='wildcard_match(%r, %r) returns %s but the pattern %s the text' % (
                           p, t, b, 'matches' if exp else 'does not match'))
    for p, t, tag in cases[1000:1003] + cases[-3:]:
        ctx.sample({'pattern': p, 'text': t, 'matches': oracle(p, t), 'stream': tag})
