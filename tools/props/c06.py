"""C06 — static handlers never leave their directory and serve what is inside it intact.
Real handlers (serve_dir, serve_as_file_path, server directory_handler) on real directory trees vs the Coq model over an
abstract file tree; direct oracle: a 200 body must be the content of a file under the root (never the canary), every clean
file is served with its content and MIME type, directories redirect / serve index files."""
import re
import urllib.parse
from hv import hx, V

RULE = ('generated trees (nested directories, index.html/index.htm, extension-less and multi-dot names, names with spaces/'
        'unicode) with a canary next to the root; request paths composed to depth 5 from segments {name, ., .., ..., empty, '
        '%2e%2e, %2E., .%2e, %2f, %5c, %00, %252e, %c0%ae, ..} raw and percent-encoded; route prefixes with and without trailing '
        '*; plus one request per file and directory of every tree (completeness, redirect, index); non-trivial = path has a '
        'dot-segment/encoding or hits an existing entry')
NEEDS_TOKIO = True
ASSUMPTIONS = ['no symlinks, no concurrent file changes, UTF-8 file names, case-sensitive file system',
               'the model root is the temporary base directory: resolution above it is not modelled (never reached after F14)']

def quote_mix(rng, seg):
    """percent-encode everything outside the unreserved set; hex digits in upper case (as urllib writes them), lower case or
    mixed, per escape"""
    def case(m):
        e = m.group(0)
        r = rng.random()
        return e if r < 0.5 else e.lower() if r < 0.8 else e[:2] + e[2].lower() if r < 0.9 else e[:2].lower() + e[2]
    return re.sub(r'%[0-9A-F]{2}', case, urllib.parse.quote(seg, safe=''))


NAMES = ['a.txt', 'b', 'c.tar.gz', 'index.html', 'index.htm', 'sp ace.css', 'é.js', 'x.png', '.hidden', 'dot.', 'UP.JSON', 'q%41.txt',
         'p+q.html', 'n.woff2',
         # names whose escapes have the hex digit F in either position, a 4-byte character, DEL
         'what?.txt', 'straße.txt', 'naïve ÿ.txt', 'smile😀.txt', 'del\x7f.css', 'o\x0fk.js']
DIRS = ['sub', 'deep', 'a b', 'ü', 'd.d', 'static', 'st']
SEGS = ['.', '..', '...', '', '%2e%2e', '%2E.', '.%2e', '%2f', '%5c', '%00', '%252e', '%c0%ae', '..%2f', '%2e', '....', ':', 'C:',
        '%3a', '\\..', '%ff']
MIME = {'css': 'text/css', 'html': 'text/html', 'htm': 'text/html', 'js': 'text/javascript', 'mjs': 'text/javascript',
        'txt': 'text/plain', 'bmp': 'image/bmp', 'gif': 'image/gif', 'jpeg': 'image/jpeg', 'jpg': 'image/jpeg', 'png': 'image/png',
        'webp': 'image/webp', 'svg': 'image/svg+xml', 'ico': 'image/vnd.microsoft.icon', 'json': 'application/json',
        'pdf': 'application/pdf', 'zip': 'application/zip', 'mp4': 'video/mp4', 'ogv': 'video/ogg', 'webm': 'video/webm',
        'ttf': 'font/ttf', 'otf': 'font/otf', 'woff': 'font/woff', 'woff2': 'font/woff2'}


def gen_tree(rng, k):
    """returns (description arg, files {relpath under www: content}, dirs set, canary content)"""
    files, dirs = {}, set()

    def fill(prefix, depth):
        for _ in range(rng.randint(0, 4)):
            n = rng.choice(NAMES)
            files[prefix + n] = ('F%d:%s' % (k, prefix + n)).encode()
        if depth < 3:
            for _ in range(rng.randint(0, 2)):
                d = rng.choice(DIRS)
                if (prefix + d) in files:
                    continue
                dirs.add(prefix + d)
                fill(prefix + d + '/', depth + 1)
    fill('', 0)
    # a directory cannot also be a file
    for d in list(dirs):
        files.pop(d, None)
    canary = ('CANARY%d' % k).encode()
    ents = ['f:%s:%s' % (hx('secret.txt'), hx(canary))[:]]
    ents = ['f:' + hx('secret.txt')[1:] + ':' + canary.hex()]
    ents.append('d:' + 'www'.encode().hex())
    for d in sorted(dirs):
        ents.append('d:' + ('www/' + d).encode().hex())
    for f, c in sorted(files.items()):
        ents.append('f:' + ('www/' + f).encode().hex() + ':' + c.hex())
    # a second canary directory next to the root
    ents.append('f:' + 'wwwx/other.txt'.encode().hex() + ':' + canary.hex())
    return ','.join(ents), files, dirs, canary


def expected_ct(name, always):
    base = name.rsplit('/', 1)[-1]
    if '.' in base[1:] or (base.startswith('.') and base.count('.') > 1):
        stem, _, ext = base.rpartition('.')
        if stem == '':
            ext = None
    else:
        ext = None
    if base.startswith('.') and base.count('.') == 1:
        ext = None
    if ext is None:
        return b'application/octet-stream' if always else None
    return MIME.get(ext, 'application/octet-stream').encode()


def server_part(ctx):
    """The server's `directory` routes end to end: humphrey_server::server::main started from a configuration text whose
    routes serve a generated tree; raw request targets go over loopback (request parser -> routing -> prefix stripping ->
    try_find_path -> file). Expected: the routing rule picks the route, the StaticFs model answers for it."""
    import re
    rng = ctx.rng
    thorough = ctx.tier == 'thorough'
    ntrees = 60 if thorough else 6 * ctx.scale
    glob = lambda p, t: re.fullmatch(''.join('.*' if c == '*' else re.escape(c) for c in p), t, re.S) is not None
    ROUTES = ['/static/*', '/st*', '/files/*', '/*']
    lines, meta = [], []
    for k in range(ntrees):
        desc, files, dirs, canary = gen_tree(rng, 1000 + k)
        routes = rng.sample(ROUTES[:3], rng.randint(0, 3)) + ['/*']
        # every second tree is served with the response cache on, and every target is then asked twice: the second
        # answer may come from the cache and must be the same (the model has no cache: C16_cache_transparent)
        cached = k % 2 == 1
        conf = '\n'.join(['server {', '  address "127.0.0.1"', '  port 8080', '  threads 2', '  log {', '    level "error"', '    console false', '  }'] +
                         (['  cache {', '    size 4M', '    time 600', '  }'] if cached else []) +
                         sum([['  route %s {' % r, '    directory "@FIX@/www"', '  }'] for r in routes], []) + ['}']) + '\n'
        fixtures = ['%s:%s' % (hx('www/' + f), hx(c)) for f, c in files.items()] + ['%s:d' % hx('www/' + d) for d in dirs] + \
                   ['%s:d' % hx('www'), '%s:%s' % (hx('secret.txt'), hx(canary)), '%s:%s' % (hx('wwwx/other.txt'), hx(canary))]
        targets = []
        for f in files:
            enc = '/'.join(quote_mix(rng, seg) for seg in f.split('/'))
            for pre in ('/', '/static/', '/st', '/files/'):
                targets.append(pre + enc)
        for d in list(dirs) + ['']:
            enc = '/'.join(quote_mix(rng, seg) for seg in d.split('/')) if d else ''
            targets += ['/' + enc, '/' + enc + '/', '/static/' + enc] if d else ['/', '/static/']
        names = list(files.keys()) + list(dirs) + ['secret.txt', 'wwwx', 'other.txt', 'www']
        for _ in range(60 if thorough else 40):
            segs = []
            for _ in range(rng.randint(1, 5)):
                if rng.random() < 0.45:
                    segs.append(rng.choice(SEGS))
                else:
                    n = rng.choice(names).split('/')[-1] if names else 'x'
                    segs.append(quote_mix(rng, n))
            t = rng.choice(['/', '/static/', '/files/', '/st', '//']) + '/'.join(segs)
            targets.append(t)
        for nsl in (1, 2, 3):
            targets.append('/' * nsl + '@BASE@/secret.txt')
            targets.append('/static' + '/' * nsl + '@BASE@/wwwx/other.txt')
        # what a request line can carry: no space, control character, '?' or '#'
        targets = [t for t in dict.fromkeys(targets) if not re.search(r'[\x00-\x20?#\x7f]', t)]
        if cached:
            targets = targets + targets
            ctx.count('server-e2e trees with the cache on')
        lines.append('srv %s %s %s' % (hx(conf.replace('@BASE@', '@FIX@')), ','.join(fixtures),
                                       ','.join('%s:%s:-:-:ct' % (hx('x'), hx(t.replace('@BASE@', '@FIX@'))) for t in targets)))
        meta.append((desc, files, routes, targets, canary))
    im = ctx.impl(lines)
    ctx.evaluations += len(lines)
    from props import srvmodel
    srvmodel.compare(ctx, lines, im, 'static-server', 'directory routes of the config-driven server')
    # the model, per request: the route chosen by the routing rule, then StaticFs.directory_handler on the same tree
    mlines, mref = [], []
    for k, (desc, files, routes, targets, canary) in enumerate(meta):
        for q, t in enumerate(targets):
            r = next((r for r in routes if glob(r, t.replace('@BASE@', '@FIXBASE@'))), None)
            if r is not None:
                mlines.append('static directory %s %s %s' % (desc, hx(r), hx(t)))
                mref.append((k, q))
    decided = dict(zip(mref, ctx.model(mlines)))
    for k, (line, (desc, files, routes, targets, canary), b) in enumerate(zip(lines, meta, im)):
        ctx.count('kind:server-e2e')
        got = b.split(',')
        if len(got) != len(targets):
            ctx.report({'line': line[:3000], 'kind': 'server-e2e'}, b[:300], 'one answer per request', cls='static-server',
                       failing_input=b in ('PANIC', 'DIED', 'TIMEOUT'), what='the config-driven server did not answer: ' + b[:100])
            continue
        for q, (t, g) in enumerate(zip(targets, got)):
            case = {'line': line[:3000], 'kind': 'server-e2e', 'routes': routes, 'target': t}
            if g.startswith('200:body:'):
                body = bytes.fromhex(g.split(':')[2])
                if body not in files.values():
                    ctx.report(case, g[:200], 'only files under the served directory', cls='static-escape', failing_input=True,
                               what='the server returned bytes of a file outside the directory for %r' % t)
                    continue
            a = decided.get((k, q))
            if a is None or '@BASE@' in t:
                continue      # no route (cannot happen with /*), or the absolute path is only known to the harness
            if a.startswith('200 '):
                want = '200:body:%s:ct:%s' % (a.split('body=')[1], a.split('ct=')[1].split(' ')[0])
            elif a.startswith('301 '):
                want = '301:loc:' + a.split('loc=')[1]
            else:
                want = a.split(' ')[0]
            ok = g == want or (want.isdigit() and g.startswith(want + ':'))
            if not ok:
                ctx.report(case, g[:200], want[:200], cls='static-server', failing_input=False,
                           what='the config-driven server and the model (routing rule + directory_handler) differ on %r' % t)
            elif not g.startswith('404'):
                ctx.mark_nontrivial(line[:50] + t)
    import shutil
    shutil.rmtree(V + '/work/c04srv', ignore_errors=True)


def run(ctx):
    rng = ctx.rng
    thorough = ctx.tier == 'thorough'
    ntrees = 400 if thorough else 12 * ctx.scale
    per_tree = 1000 if thorough else 330
    lines, meta = [], []
    if ctx.replay:
        lines, meta, ntrees = [ctx.replay['case']['line']], [None], 0
    for k in range(ntrees):
        desc, files, dirs, canary = gen_tree(rng, k)
        handlers = ['serve_dir', 'serve_as_file_path', 'directory']

        def add(h, route, uri, info):
            lines.append('static %s %s %s %s' % (h, desc, hx(route), hx(uri)))
            meta.append((h, route, uri, files, dirs, canary, info))
        # completeness: every file and directory once, under several route prefixes
        for f in files:
            clean = '..' not in f and ':' not in f
            enc = '/'.join(quote_mix(rng, seg) for seg in f.split('/'))
            add('serve_dir', '/*', '/' + enc, ('file', f, clean))
            add('serve_dir', '/static/*', '/static/' + enc, ('file', f, clean))
            add('directory', '/*', '/' + enc, ('file', f, clean))
            add('directory', '/st/*', '/st/' + enc, ('file', f, clean))
            if '%' not in f and '?' not in f:
                add('serve_as_file_path', '/*', '/' + f, ('file', f, clean))
            # the route prefix is removed once: a file below a directory named like the prefix is still found
            seg0 = f.split('/')[0]
            if '/' in f and urllib.parse.quote(seg0, safe='') == seg0 and '*' not in seg0:
                for rt in ('/' + seg0 + '/*', '/' + seg0 + '*'):
                    add('serve_dir', rt, '/' + seg0 + '/' + enc, ('file', f, clean))
                    add('directory', rt, '/' + seg0 + '/' + enc, ('file', f, clean))
                add('serve_dir', '/' + seg0 + '/*', '/' + seg0 + '//' + enc, ('adv', None, None))
                add('directory', '/' + seg0 + '/*', '/' + seg0 + '//' + enc, ('adv', None, None))
        for d in list(dirs) + ['']:
            enc = '/'.join(quote_mix(rng, seg) for seg in d.split('/')) if d else ''
            if d:
                add('serve_dir', '/*', '/' + enc, ('dir', d, True))
                add('directory', '/*', '/' + enc, ('dir', d, True))
            add('serve_dir', '/*', '/' + enc + ('/' if d else ''), ('dirslash', d, True))
            add('directory', '/*', '/' + enc + ('/' if d else ''), ('dirslash', d, True))
        # library serve_file: the configured file and nothing else, whatever the request asks for (oracle only, no model)
        for f in list(files)[:3]:
            for uri in ('/', '/' + f, '/../secret.txt'):
                lines.append('static serve_file %s %s %s' % (desc, hx('www/' + f), hx(uri)))
                meta.append(('serve_file', 'www/' + f, uri, files, dirs, canary, ('servefile', f, True)))
        lines.append('static serve_file %s %s %s' % (desc, hx('www/no-such-file.txt'), hx('/')))
        meta.append(('serve_file', 'www/no-such-file.txt', '/', files, dirs, canary, ('servefile', None, True)))
        # escape battery: every spelling of "go up one level" towards the two canaries, from the root and from sub-directories
        ups = ['..', '%2e%2e', '%2E%2E', '.%2e', '%2e.', '..%2f..', '%2e%2e%2f', '..%5c', '%c0%ae%c0%ae', '....', '.../..', '..;', '%252e%252e']
        starts = [''] + [d + '/' for d in list(dirs)[:2]]
        for up in ups:
            for st in starts:
                n_up = st.count('/') + 1
                for target in ('secret.txt', 'wwwx/other.txt'):
                    pth = '/' + st + '/'.join([up] * n_up) + '/' + target
                    for hh in handlers:
                        add(hh, '/*', pth, ('adv', None, None))
                    add('serve_dir', '/files/*', '/files' + pth, ('adv', None, None))
                    add('directory', '/files/*', '/files' + pth, ('adv', None, None))
        # absolute-path battery: the real absolute path of the canaries behind 1..4 slashes (a joined absolute path would
        # replace the directory); @BASE@ is expanded by the harness
        for nsl in (1, 2, 3, 4):
            for target in ('secret.txt', 'wwwx/other.txt', 'wwwx/'):
                pth = '/' * nsl + '@BASE@/' + target
                for hh in handlers:
                    add(hh, '/*', pth, ('adv', None, None))
                add('serve_dir', '/files/*', '/files' + pth, ('adv', None, None))
                add('directory', '/files/*', '/files' + pth, ('adv', None, None))
                add('serve_dir', '/*', pth.replace('/', '%2f', 1), ('adv', None, None))
        # adversarial paths
        names = list(files.keys()) + list(dirs) + ['secret.txt', 'wwwx', 'other.txt', 'www']
        for _ in range(per_tree):
            depth = rng.randint(1, 5)
            segs = []
            for _ in range(depth):
                r = rng.random()
                if r < 0.45:
                    segs.append(rng.choice(SEGS))
                else:
                    n = rng.choice(names).split('/')[-1] if names else 'x'
                    segs.append(quote_mix(rng, n) if rng.random() < 0.5 else n)
            uri = '/' + '/'.join(segs)
            if rng.random() < 0.15:
                uri = '/' + uri
            if rng.random() < 0.1:
                uri = uri + '/'
            h = rng.choice(handlers)
            route = rng.choice(['/*', '/*', '/static/*', '/s*', '/static'])
            if route != '/*':
                uri = route.rstrip('*') + uri.lstrip('/') if h != 'serve_as_file_path' else uri
            add(h, route, uri, ('adv', None, None))
    m, im = ctx.both(lines)
    import shutil
    shutil.rmtree(V + '/work/c06', ignore_errors=True)     # the trees are rebuilt from the case text on every run
    for line, me, a, b in zip(lines, meta, m, im):
        ctx.count('impl:' + b.split(' ')[0])
        if me is None:
            if a != b:
                ctx.report({'line': line}, b[:300], a[:300], cls='static-mismatch', failing_input=False, what='replay differs')
            continue
        h, route, uri, files, dirs, canary, info = me
        ctx.count('handler:' + h)
        kind, target, clean = info
        case = {'line': line, 'handler': h, 'route': route, 'uri': uri}
        # --- the property, read directly on the implementation's answer ---
        if b.startswith('200 '):
            body = bytes.fromhex(b.split('body=')[1])
            if body not in files.values():
                ctx.report(case, b[:300], 'only files under the served directory', cls='static-escape', failing_input=True,
                           what='%s returned bytes of a file outside the directory for %r' % (h, uri))
                continue
        if kind == 'servefile':
            want = '404' if target is None else '200 ct=%s body=%s' % (
                'none' if expected_ct(target, False) is None else expected_ct(target, False).hex(), files[target].hex())
            if b != want:
                ctx.report(case, b[:300], want[:300], cls='static-serve-file', failing_input=True,
                           what='serve_file must return its configured file (or 404 when it is missing), whatever is requested')
            else:
                ctx.mark_nontrivial(line)
            continue
        if kind == 'file' and clean:
            want_ct = expected_ct(target, h == 'directory')
            want = '200 ct=%s body=%s' % ('none' if want_ct is None else want_ct.hex(), files[target].hex())
            if b != want:
                ctx.report(case, b[:300], want[:300], cls='static-incomplete', failing_input=True,
                           what='file %r inside the directory is not returned intact with its Content-Type' % target)
                continue
        if kind == 'dir':
            want = '301 loc=' + (uri + '/').encode().hex()
            if b != want:
                ctx.report(case, b[:300], want, cls='static-redirect', failing_input=True, what='directory without slash must redirect')
                continue
        if kind == 'dirslash':
            pre = (target + '/') if target else ''
            idx = pre + 'index.html' if (pre + 'index.html') in files else (pre + 'index.htm' if (pre + 'index.htm') in files else None)
            want = ('200 ct=%s body=%s' % (b'text/html'.hex(), files[idx].hex())) if idx else '404'
            if b != want:
                ctx.report(case, b[:300], want[:300], cls='static-index', failing_input=True,
                           what='directory with slash must serve index.html, else index.htm, else 404')
                continue
        if a != b:
            ctx.report(case, b[:300], a[:300], cls='static-mismatch', failing_input=False,
                       what='implementation and model differ (no property failure on this input)')
        if kind != 'adv' or '%' in uri or '..' in uri or b != '404':
            ctx.mark_nontrivial(line)
    # the tokio runtime has its own copies of serve_dir / serve_as_file_path (humphrey/src/tokio/handlers.rs): same model
    idx = [i for i, l in enumerate(lines) if l.startswith('static serve_dir ') or l.startswith('static serve_as_file_path ') or
           l.startswith('static serve_file ')]
    if ctx.tier != 'thorough':
        idx = idx[::2]
    ctx.tokio_twin([lines[i] for i in idx], [m[i] for i in idx], 'static-mismatch-tokio',
                   what='tokio static handler differs from the model')
    shutil.rmtree(V + '/work/c06', ignore_errors=True)
    if not ctx.replay:
        server_part(ctx)
    for k in (0, len(lines) // 2, len(lines) - 1):
        if 0 <= k < len(lines) and meta[k] is not None:
            ctx.sample({'handler': meta[k][0], 'route': meta[k][1], 'uri': meta[k][2], 'impl': im[k][:80]})
